import GorumsV.Model.GoE
import GorumsV.Model.ReplyLoop
import GorumsV.Lemmas.ReplyLoop
