import Driver.Main
