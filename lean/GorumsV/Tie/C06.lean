import GorumsV.Props.C06
import GorumsV.Generated.Exprs
import GorumsV.Tie.TreeParams
import GorumsV.Lemmas.GoETac
/-!
  Tie for C06: in every call type the skip test of the per-node loop is "the per-node
  function returned an invalid (nil) message", skipped nodes are not counted, every hand-off
  is a plain statement of the loop; the multicast wait loop waits while confirmations are
  outstanding; a request waits for its send iff it is a one-way call without the
  no-send-waiting option.  (Digest obligations: Tie/C06Skel.lean.)
-/
namespace GorumsV.Tie.C06
open GorumsV.GoE GorumsV.ReplyLoop GorumsV

def envV (valid : Bool) : Env := envOf [("msg.ProtoReflect().IsValid()", .bool valid)]

/-- a node is skipped iff the per-node message is not valid (a valid empty message is sent) -/
theorem skipCond_good (valid : Bool) :
    ev (envV valid) Generated.qc_skipCond = .bool (!valid) ∧ ev (envV valid) Generated.async_skipCond = .bool (!valid) ∧
    ev (envV valid) Generated.corr_skipCond = .bool (!valid) ∧ ev (envV valid) Generated.mcast_skipCond = .bool (!valid) := by
  cases valid <;> simp [Generated.qc_skipCond, Generated.async_skipCond, Generated.corr_skipCond, Generated.mcast_skipCond, ev, envV, envOf, vnot]

/-- skipped nodes are not counted (`expectedReplies--`); multicast counts sent messages instead -/
theorem skipDecr_good : Generated.qc_skipDecr = true ∧ Generated.async_skipDecr = true ∧ Generated.corr_skipDecr = true := by decide

/-- every hand-off to a node channel is a plain statement of the per-node loop (issued by the caller itself, in configuration order) -/
theorem enqPlain_good : Generated.qc_enqPlain = true ∧ Generated.async_enqPlain = true ∧ Generated.corr_enqPlain = true ∧ Generated.mcast_enqPlain = true := by decide

def envM (sent : Nat) : Env := envOf [("sentMsgs", .int sent)]
/-- the multicast wait loop runs while confirmations are outstanding -/
theorem mcast_waitCond_good (sent : Nat) : ev (envM sent) Generated.mcast_waitCond = .bool (decide (0 < sent)) := by
  simp [Generated.mcast_waitCond, ev, envM, envOf, vcmp]

def envW (oneway nsw : Bool) : Env := envOf [("req.opts.callType", if oneway then .ref 1 else .nil), ("req.opts.noSendWaiting", .bool nsw)]
/-- a request is confirmed to its caller after the send iff it is a one-way call without no-send-waiting -/
theorem waitForSend_good (oneway nsw : Bool) : ev (envW oneway nsw) Generated.ch_waitForSend = .bool (oneway && !nsw) := by
  cases oneway <;> cases nsw <;> simp [Generated.ch_waitForSend, ev, envW, envOf, veq, vnot]


/-! ### own message, end to end (composite system `Net`) -/

/-- one id per call from the manager-wide counter, carried by every message of the call (read from the tree):
    the premise under which "the request with this id addressed to this node" is unique -/
theorem net_ids_good : Tie.Tree.idFacts = true := by decide

/-- at most once: the library hands a message to a node's stream once (`Chan`: `sent` has no repetition) and the transport
    is not configured to replay it: the manager adds no service config / retry policy to the dial options -/
theorem dialOpts_good : Generated.mgr_dialOpts = ["grpc.WithDefaultCallOptions", "grpc.WithConnectParams"] := by decide

end GorumsV.Tie.C06

section Audit
open GorumsV.Tie.C06 GorumsV.C06
#print axioms skipCond_good
#print axioms skipDecr_good
#print axioms enqPlain_good
#print axioms mcast_waitCond_good
#print axioms waitForSend_good
#print axioms targets_none
#print axioms targets_some
#print axioms targets_nodup
#print axioms targets_order
#print axioms expected_eq_targets
#print axioms mcast_waits_for_confirmations
#print axioms mcast_nosendwaiting
#print axioms net_ids_good
#print axioms dialOpts_good
#print axioms GorumsV.NetP.server_receives_own_payload
#print axioms GorumsV.NetP.handler_payload_is_addressed
#print axioms GorumsV.NetP.issue_unique
end Audit
