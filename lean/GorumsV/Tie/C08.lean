import GorumsV.Props.C08
import GorumsV.Tie.C09
import GorumsV.Tie.C02
/-! Tie for C08: the loop parameters of the tree (Tie/C02) and the connection facts (Tie/C09); the wake-up sets of the
    blocking statements (`enqueue`'s select with the request context, the reply loops, the one-way waits) are pinned by
    the digests of Tie/C08Skel.lean; engine ctx measures the return time of every call type on the real code. -/
namespace GorumsV.Tie.C08w
open GorumsV
/-- the waits for send confirmations of Multicast and Unicast have a context case that ends the wait
    (`ReplyLoop.waitLoop` with `waitsCtx = true`: theorem `oneway_ctx_returns`) -/
theorem oneway_waitsCtx_good : Generated.mcast_waitsCtx = true ∧ Generated.ucast_waitsCtx = true := by decide
/-- the hand-off of a request to the node's sender is one select over the channel's parent context, the caller's
    context (which answers the request with the context's error and returns) and the send queue (the repair of
    defect D2: a call queued behind a busy or stuck sender returns when its context ends) -/
theorem enqueue_waitsCtx_good : Generated.ch_enqueueWaitsCtx = true := by decide
end GorumsV.Tie.C08w

section Audit
open GorumsV.C08
#print axioms router_lock_available_unless_backpressure
#print axioms no_backpressure_without_full_stream
#print axioms ctx_returns_at_once
#print axioms ctx_error_at_exhaustion
#print axioms rpc_ctx_returns
#print axioms GorumsV.Tie.C02.P_qc_good
#print axioms GorumsV.Tie.C02.qc_ctxCause_good
#print axioms GorumsV.Tie.C02.async_ctxCause_good
#print axioms GorumsV.Tie.C09.isConnected_good
#print axioms GorumsV.Tie.C08w.oneway_waitsCtx_good
#print axioms GorumsV.Tie.C08w.enqueue_waitsCtx_good
#print axioms GorumsV.C08.oneway_ctx_returns
#print axioms GorumsV.C08.oneway_needs_ctx_case
#print axioms GorumsV.C08.oneway_waits_for_confirmations
#print axioms GorumsV.C08.oneway_nosendwaiting
end Audit
