import GorumsV.Props.C08
import GorumsV.Tie.C09
import GorumsV.Tie.C02
/-! Tie for C08: the loop parameters of the tree (Tie/C02) and the connection facts (Tie/C09); the wake-up sets of the
    blocking statements (`enqueue`'s select with the request context, the reply loops, the one-way waits) are pinned by
    the digests of Tie/C08Skel.lean; engine ctx measures the return time of every call type on the real code. -/
section Audit
open GorumsV.C08
#print axioms router_lock_available_unless_backpressure
#print axioms no_backpressure_without_full_stream
#print axioms ctx_returns_at_once
#print axioms ctx_error_at_exhaustion
#print axioms rpc_ctx_returns
#print axioms GorumsV.Tie.C02.P_qc_good
#print axioms GorumsV.Tie.C02.qc_ctxCause_good
#print axioms GorumsV.Tie.C02.async_ctxCause_good
#print axioms GorumsV.Tie.C09.isConnected_good
end Audit
