import GorumsV.Props.C05
import GorumsV.Generated.Exprs
/-!
  Tie for C05: routers are deleted after a delivery exactly when they are not streaming (the
  guard in `routeResponse` and `cancelPendingMsgs`, regenerated from channel.go); message ids
  come from one counter per manager (digest of `getMsgID`, Tie/C05Skel.lean); the reply
  channels have room for one answer per node (Tie/C01 `chanCap_good`).
-/
namespace GorumsV.Tie.C05
open GorumsV.GoE GorumsV

def envR (streaming isErr : Bool) : Env :=
  envOf [("router.streaming", .bool streaming), ("resp.err", if isErr then .ref 1 else .nil)]

/-- `routeResponse` deletes the router unless it is a streaming one and the response is not an error;
    `cancelPendingMsgs` deletes every router (as `Chan.route` / `Chan.cancelAll`) -/
theorem delGuard_good (streaming isErr : Bool) :
    ev (envR streaming isErr) Generated.ch_routeResponse_delGuard = .bool (!(streaming && !isErr)) ∧
    ev (envR streaming isErr) Generated.ch_cancelPendingMsgs_delGuard = .bool true := by
  cases streaming <;> cases isErr <;>
    simp [Generated.ch_routeResponse_delGuard, Generated.ch_cancelPendingMsgs_delGuard, ev, envR, envOf, vnot, veq]

end GorumsV.Tie.C05

section Audit
open GorumsV.Tie.C05 GorumsV.C05
#print axioms delGuard_good
#print axioms inv_init
#print axioms inv_step
#print axioms inv_reachable
#print axioms delivered_only_to_registrant
#print axioms at_most_once
#print axioms late_reply_dropped
#print axioms no_router_after_answer
#print axioms routers_bounded
#print axioms deleteRouter_removes
#print axioms streamDown_answers_all
#print axioms replaceCancel_answers_written
#print axioms error_is_last
#print axioms at_most_one_error
#print axioms no_router_after_error
#print axioms pinned_streaming_router_reports_twice
#print axioms sent_in_handoff_order
#print axioms popped_prefix_of_pushed
end Audit
