import GorumsV.Props.C05
import GorumsV.Generated.Exprs
import GorumsV.Tie.TreeParams
/-!
  Tie for C05: routers are deleted after a delivery exactly when they are not streaming (the
  guard in `routeResponse` and `cancelPendingMsgs`, regenerated from channel.go); message ids
  come from one counter per manager (digest of `getMsgID`, Tie/C05Skel.lean); the reply
  channels have room for one answer per node (Tie/C01 `chanCap_good`).
-/
namespace GorumsV.Tie.C05
open GorumsV.GoE GorumsV

def envR (streaming isErr : Bool) : Env :=
  envOf [("router.streaming", .bool streaming), ("resp.err", if isErr then .ref 1 else .nil)]

/-- `routeResponse` deletes the router unless it is a streaming one and the response is not an error;
    `cancelPendingMsgs` deletes every router (as `Chan.route` / `Chan.cancelAll`) -/
theorem delGuard_good (streaming isErr : Bool) :
    ev (envR streaming isErr) Generated.ch_routeResponse_delGuard = .bool (!(streaming && !isErr)) ∧
    ev (envR streaming isErr) Generated.ch_cancelPendingMsgs_delGuard = .bool true := by
  cases streaming <;> cases isErr <;>
    simp [Generated.ch_routeResponse_delGuard, Generated.ch_cancelPendingMsgs_delGuard, ev, envR, envOf, vnot, veq]


/-! ### the composite system `Net` on the tree's parameters (end-to-end provenance) -/

/-- the server answers under the request's id (server template, `WrapMessage`, receiver: read from the tree) -/
theorem net_echo_good : Tie.Tree.echoFacts = true := by decide
/-- one id per call from the manager-wide counter, carried by every message of the call (read from the tree) -/
theorem net_ids_good : Tie.Tree.idFacts = true := by decide
/-- every answer names the channel's own node (read from the tree) -/
theorem net_nid_good : Tie.Tree.nidFacts = true := by decide

theorem net_params_good (h : Net.NodeId → Net.Payload → Chan.Resp) : (Tie.Tree.netParams h).Good := by
  intro i; simp [Tie.Tree.netParams, net_echo_good]

/-- **provenance on the tree's parameters**: a reply that node n's channel delivers to a call is what n's handler
    computed from the payload that call addressed to n -/
theorem tree_provenance (h : Net.NodeId → Net.Payload → Chan.Resp) (s : Net.State) (hr : Net.Reachable (Tie.Tree.netParams h) s)
    (n : Net.NodeId) (d : Chan.Delivery) (hd : d ∈ (s.nodes n).chan.deliveries) (v : Nat) (hv : d.resp = .reply v) :
    ∃ p, (⟨d.id, d.call, n, p⟩ : Net.Issue) ∈ s.issued ∧ h n p = .reply v :=
  NetP.provenance _ (net_params_good h) s hr n d hd v hv

end GorumsV.Tie.C05

section Audit
open GorumsV.Tie.C05 GorumsV.C05
#print axioms delGuard_good
#print axioms net_echo_good
#print axioms net_ids_good
#print axioms net_nid_good
#print axioms net_params_good
#print axioms tree_provenance
#print axioms GorumsV.NetP.chan_reachable
#print axioms GorumsV.NetP.srv_reachable
#print axioms GorumsV.NetP.ids_unique
#print axioms GorumsV.NetP.issue_unique
#print axioms GorumsV.NetP.issue_has_call_id
#print axioms GorumsV.NetP.provenance
#print axioms GorumsV.NetP.one_reply_per_node
#print axioms GorumsV.NetP.echo_needed
#print axioms GorumsV.NetP.demo_deliveries
#print axioms inv_init
#print axioms inv_step
#print axioms inv_reachable
#print axioms delivered_only_to_registrant
#print axioms at_most_once
#print axioms late_reply_dropped
#print axioms no_router_after_answer
#print axioms routers_bounded
#print axioms deleteRouter_removes
#print axioms streamDown_answers_all
#print axioms replaceCancel_answers_written
#print axioms error_is_last
#print axioms at_most_one_error
#print axioms no_router_after_error
#print axioms pinned_streaming_router_reports_twice
#print axioms sent_in_handoff_order
#print axioms popped_prefix_of_pushed
end Audit
