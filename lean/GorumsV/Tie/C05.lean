import GorumsV.Props.C05
import GorumsV.Generated.Exprs
/-!
  Tie for C05: routers are deleted after a delivery exactly when they are not streaming (the
  guard in `routeResponse` and `cancelPendingMsgs`, regenerated from channel.go); message ids
  come from one counter per manager (digest of `getMsgID`, Tie/C05Skel.lean); the reply
  channels have room for one answer per node (Tie/C01 `chanCap_good`).
-/
namespace GorumsV.Tie.C05
open GorumsV.GoE GorumsV

def envR (streaming : Bool) : Env := envOf [("router.streaming", .bool streaming)]

/-- both delivery paths delete the router iff it is not a streaming one (as `Chan.route` / `Chan.cancelAll`) -/
theorem delGuard_good (streaming : Bool) :
    ev (envR streaming) Generated.ch_routeResponse_delGuard = .bool (!streaming) ∧
    ev (envR streaming) Generated.ch_cancelPendingMsgs_delGuard = .bool (!streaming) := by
  cases streaming <;> simp [Generated.ch_routeResponse_delGuard, Generated.ch_cancelPendingMsgs_delGuard, ev, envR, envOf, vnot]

end GorumsV.Tie.C05

section Audit
open GorumsV.Tie.C05 GorumsV.C05
#print axioms delGuard_good
#print axioms inv_init
#print axioms inv_step
#print axioms inv_reachable
#print axioms delivered_only_to_registrant
#print axioms at_most_once
#print axioms late_reply_dropped
#print axioms no_router_after_answer
#print axioms routers_bounded
#print axioms deleteRouter_removes
#print axioms streamDown_answers_all
#print axioms sent_in_handoff_order
#print axioms popped_prefix_of_pushed
end Audit
