import GorumsV.Props.C03
import GorumsV.Tie.C06
import GorumsV.Generated.Exprs
import GorumsV.Tie.TreeParams
/-!
  Tie for C03: every call type hands its requests to the node channels by plain statements of
  its per-node loop (Tie/C06 `enqPlain_good`: not under `go`, not in a closure — so the hand-off
  order of two calls follows their happens-before order), the send queue's capacity is the
  manager option (any capacity keeps FIFO), and the digests of enqueue / sender / sendMsg /
  newChannel / NodeStream / the six issuing functions (Tie/C03Skel.lean).
-/
namespace GorumsV.Tie.C03
open GorumsV.GoE GorumsV

/-- the send queue is one Go channel whose capacity is the send-buffer option (a Go channel is FIFO for every capacity) -/
theorem sendQCap_good : Generated.ch_sendQCap = .atom "n.mgr.opts.sendBuffer" := by decide

end GorumsV.Tie.C03

section Audit
open GorumsV.Tie.C03 GorumsV.C03
#print axioms sendQCap_good
#print axioms GorumsV.Tie.C06.enqPlain_good
#print axioms sent_in_handoff_order
#print axioms queue_is_fifo
#print axioms started_in_receive_order
#print axioms start_order
#print axioms no_overtaking
#print axioms GorumsV.NetP.net_stream_contract
#print axioms GorumsV.NetP.net_start_order
#print axioms GorumsV.NetP.chan_reachable
#print axioms GorumsV.NetP.srv_reachable
end Audit
