import GorumsV.Props.C16
import GorumsV.Generated.GenTable
import GorumsV.Generated.GenPairs
/-!
  Tie for C16: the table `Generated.genTable` is produced on every run by executing the real
  plugin (built from the working tree) on all 1 024 single-method services, several times each
  (gentool `gr table`).  `table_is_model` — checked by the kernel, row by row — says that the
  model `Gen` predicts every row: acceptance or the diagnostic's class, byte-identical output on
  every run, exactly the predicted client stub, no duplicate declaration, the server handler
  shape, the quorum-function entry, per-node wiring and the method-name strings (the method of a
  row has a proto name, `foo_bar`, that differs from its Go name).

  `Generated.genPairs` (gentool `gr pairs`) is produced by plugin invocations with TWO files to
  generate, whose services have a method of the same name: an accepted row first, then row `b` —
  every rejected row and a sample of accepted ones.  `pairs_is_model` says that the decision about
  `b` is the model's decision about `b` alone, and that an accepted `b` yields byte-identical code:
  the generator's behaviour on a request is its behaviour per method.
-/
namespace GorumsV.Tie.C16
open GorumsV.Gen GorumsV.Generated GorumsV

def rowOpts (r : GenRow) : Opts :=
  ⟨r.rpc, r.unicast, r.multicast, r.quorumcall, r.correctable, r.async, r.perNode, r.custom, r.clientStream, r.serverStream⟩

/-- does the model predict what the plugin did on this row -/
def rowOK (r : GenRow) : Bool :=
  match validate (rowOpts r) with
  | some cls => r.outcome == "diag" && r.diagClass == cls && r.deterministic
  | none =>
    r.outcome == "ok" && r.deterministic && r.files == 1 && r.stubs == stubs (rowOpts r) && r.dupDecls == 0 &&
    r.serverShape == serverShape (rowOpts r) && r.hasQF == hasQF (rowOpts r) && r.methodStrOK &&
    r.perNodeSet == perNodeSet (rowOpts r)

/-- the table has one row per option combination, in id order -/
def idOf (o : Opts) : Nat :=
  b2n o.rpc + 2 * b2n o.unicast + 4 * b2n o.multicast + 8 * b2n o.quorumcall + 16 * b2n o.correctable + 32 * b2n o.async +
  64 * b2n o.perNode + 128 * b2n o.custom + 256 * b2n o.clientStream + 512 * b2n o.serverStream

set_option maxRecDepth 100000 in
theorem table_complete : (genTable.map (fun r => idOf (rowOpts r))) = List.range 1024 := by decide

/-- **the model is the generator, on the whole lattice** -/
theorem table_is_model : genTable.all rowOK = true := by decide +kernel

/-- hence: on every option combination the real plugin terminates with a diagnostic or with
    byte-identical output holding exactly one client stub and no duplicate declaration -/
theorem plugin_total_and_deterministic :
    genTable.all (fun r => (r.outcome == "diag" || (r.outcome == "ok" && r.dupDecls == 0 && r.stubs.length == 1)) && r.deterministic) = true := by
  decide +kernel

/-- the options of the row with this id (inverse of `idOf`) -/
def optsOfId (n : Nat) : Opts :=
  ⟨n % 2 == 1, n / 2 % 2 == 1, n / 4 % 2 == 1, n / 8 % 2 == 1, n / 16 % 2 == 1, n / 32 % 2 == 1,
   n / 64 % 2 == 1, n / 128 % 2 == 1, n / 256 % 2 == 1, n / 512 % 2 == 1⟩

/-- does the model predict what the plugin did with row `b` generated after the accepted first row -/
def pairOK (e : GenPair) : Bool :=
  (validate (optsOfId genPairFirst)).isNone && e.pairOutcome == e.singleOutcome && e.pairClass == e.singleClass && e.sameOutput &&
  match validate (optsOfId e.b) with
  | some cls => e.pairOutcome == "diag" && e.pairClass == cls
  | none => e.pairOutcome == "ok"

/-- **the decision about a method does not depend on the other files of the request** -/
theorem pairs_is_model : genPairs.all pairOK = true := by decide +kernel

/-- the pairs cover every rejected option combination (992 of the 1 024), in id order -/
theorem pairs_cover_rejected :
    (genPairs.filter (fun e => (validate (optsOfId e.b)).isSome)).map (·.b)
      = (List.range 1024).filter (fun n => (validate (optsOfId n)).isSome) := by decide +kernel

end GorumsV.Tie.C16

section Audit
open GorumsV.Tie.C16 GorumsV.C16
#print axioms table_complete
#print axioms table_is_model
#print axioms plugin_total_and_deterministic
#print axioms pairs_is_model
#print axioms pairs_cover_rejected
#print axioms forall_of_all
#print axioms accepted_one_stub
#print axioms accepts_documented
#print axioms accepted_is_documented
#print axioms rejects_illegal
#print axioms stub_is_declared
#print axioms qf_and_pernode
#print axioms service_stub_keys_nodup
end Audit
