import GorumsV.Props.NetCall
import GorumsV.Props.NodeConnP
import GorumsV.Props.MgrCloseP
import GorumsV.Generated.Exprs
/-!
  The parameters of the composite models as the tree determines them (definitions only: the obligations that
  these are the good parameters are stated, and audited, in the tie file of every property that uses them).
-/
namespace GorumsV.Tie.Tree
open GorumsV

/-- the server answers under the request's own id: every `WrapMessage` call of the server template passes the
    request's metadata (or a clone of it), `WrapMessage` returns the metadata it was given without touching the id,
    and the client's receiver routes under the id of the message it has just read -/
def echoFacts : Bool :=
  Generated.net_tmplWrapArgs == ["md.(*{{use \"ordering.Metadata\" $genFile}})", "in.Metadata", "in.Metadata"] &&
  Generated.net_tmplMdDef == "{{use \"proto.Clone\" $genFile}}(in.Metadata)" &&
  Generated.net_wrapKeepsId && Generated.net_recvRouteKey == "resp.Metadata.MessageID" && Generated.net_recvSameMsg

/-- one id per call, drawn outside every loop from the manager-wide atomic counter, and carried by the metadata of
    every message the call hands to a node channel (`Net.step … (.newCall c)` / `(.target …)`) -/
def idFacts : Bool :=
  Generated.net_idOnce_QuorumCall && Generated.net_idOnce_AsyncCall && Generated.net_idOnce_CorrectableCall &&
  Generated.net_idOnce_Multicast && Generated.net_idOnce_RPCCall && Generated.net_idOnce_Unicast &&
  Generated.net_counterMgr == "return atomic.AddUint64(&m.nextMsgID, 1)" &&
  Generated.net_counterCfg == "return c[0].mgr.getMsgID()"

/-- every answer a channel hands to a call names the channel's own node (`response{nid: c.node.ID(), …}`) -/
def nidFacts : Bool := Generated.net_nidAll

def netParams (handler : Net.NodeId → Net.Payload → Chan.Resp) : Net.Params :=
  { handler := handler, replyId := fun i => if echoFacts then i else i + 1 }

/-- `RawNode.dial` / `RawNode.close` as the tree has them -/
def nodeConnParams : NodeConn.Params :=
  { checksClosed := Generated.node_dialChecksClosed, closesOld := Generated.node_dialClosesOld,
    lockedDial := Generated.node_dialLocked, closeCloses := Generated.node_closeCloses }

/-- `Manager.Close` over the pool as the tree has it -/
def mgrCloseParams : MgrClose.Params := { node := nodeConnParams, reachesAll := Generated.mgr_closeReachesEveryNode }

end GorumsV.Tie.Tree
