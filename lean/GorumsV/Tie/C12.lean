import GorumsV.Props.C12
import GorumsV.Tie.C09
import GorumsV.Generated.Exprs
/-! Tie for C12: the send queue's capacity is the manager option (any capacity: the exiting sender drains it); connection
    facts of Tie/C09; digests of Close / closeNodeConns / RawNode.close / connect / enqueue / sender / receiver / reconnect /
    Multicast / Unicast in Tie/C12Skel.lean; engine close checks in-flight calls, post-Close calls and goroutines. -/
namespace GorumsV.Tie.C12
open GorumsV.GoE GorumsV
theorem sendQCap_good : Generated.ch_sendQCap = .atom "n.mgr.opts.sendBuffer" := by decide
end GorumsV.Tie.C12
section Audit
open GorumsV.C12
#print axioms GorumsV.Tie.C12.sendQCap_good
#print axioms closed_stuck_means_exited
#print axioms closed_no_stream
#print axioms sender_exit_leaves_no_request
#print axioms closed_rest_owes_nothing
#print axioms receiver_exit_leaves_nothing_lost
#print axioms GorumsV.Tie.C09.isConnected_good
end Audit
