import GorumsV.Props.C12
import GorumsV.Tie.C09
import GorumsV.Generated.Exprs
import GorumsV.Tie.TreeParams
/-! Tie for C12: the send queue's capacity is the manager option (any capacity: the exiting sender drains it); connection
    facts of Tie/C09; digests of Close / closeNodeConns / RawNode.close / connect / enqueue / sender / receiver / reconnect /
    Multicast / Unicast in Tie/C12Skel.lean; engine close checks in-flight calls, post-Close calls and goroutines. -/
namespace GorumsV.Tie.C12
open GorumsV.GoE GorumsV
theorem sendQCap_good : Generated.ch_sendQCap = .atom "n.mgr.opts.sendBuffer" := by decide

/-! ### no connection outlives Close (model `NodeConn` on the tree's `dial` / `close`) -/

/-- `dial` holds `connMu` throughout, refuses after close and closes the connection it replaces; `close` sets the flag and
    closes the connection under `connMu` — the four facts, read from node.go on every run -/
theorem nodeConn_good : Tie.Tree.nodeConnParams.Good := ⟨by decide, by decide, by decide, by decide⟩
/-- `Manager.Close` calls `close` on every node of the pool, once (`closeOnce`) -/
theorem mgrClose_good : Generated.mgr_closeReachesEveryNode = true := by decide

theorem tree_closed_no_live (s : NodeConn.St) (h : NodeConn.Reachable Tie.Tree.nodeConnParams s) (hc : s.closed = true) :
    s.live = [] ∧ s.dialing = false := NodeConnP.closed_no_live _ nodeConn_good s h hc
theorem tree_live_is_current (s : NodeConn.St) (h : NodeConn.Reachable Tie.Tree.nodeConnParams s) :
    s.live.length ≤ 1 ∧ ∀ c ∈ s.live, s.conn = some c := NodeConnP.live_is_current _ nodeConn_good s h

/-- **Close over the pool, on the tree's parameters**: once `Manager.Close` has returned every node of the pool is closed,
    none of its connections is live and no dial is in progress — and that is final -/
theorem mgrCloseParams_good : Tie.Tree.mgrCloseParams.Good := ⟨nodeConn_good, mgrClose_good⟩
theorem tree_returned_all_closed (n : Nat) (s : MgrClose.St) (h : MgrClose.Reachable Tie.Tree.mgrCloseParams n s) (hr : s.returned = true) :
    ∀ x ∈ s.nodes, x.closed = true ∧ x.live = [] ∧ x.dialing = false :=
  MgrCloseP.returned_all_closed _ mgrCloseParams_good n s h hr

end GorumsV.Tie.C12
section Audit
open GorumsV.C12
#print axioms GorumsV.Tie.C12.sendQCap_good
#print axioms GorumsV.Tie.C12.nodeConn_good
#print axioms GorumsV.Tie.C12.mgrClose_good
#print axioms GorumsV.Tie.C12.tree_closed_no_live
#print axioms GorumsV.Tie.C12.tree_live_is_current
#print axioms GorumsV.Tie.C12.mgrCloseParams_good
#print axioms GorumsV.Tie.C12.tree_returned_all_closed
#print axioms GorumsV.MgrCloseP.nodes_reachable
#print axioms GorumsV.MgrCloseP.passed_are_closed
#print axioms GorumsV.MgrCloseP.returned_all_closed
#print axioms GorumsV.MgrCloseP.returned_is_final
#print axioms GorumsV.MgrCloseP.needs_reachesAll
#print axioms GorumsV.NodeConnP.live_is_current
#print axioms GorumsV.NodeConnP.closed_no_live
#print axioms GorumsV.NodeConnP.closed_is_final
#print axioms GorumsV.NodeConnP.close_idempotent
#print axioms GorumsV.NodeConnP.needs_closesOld
#print axioms GorumsV.NodeConnP.needs_checksClosed
#print axioms GorumsV.NodeConnP.needs_lockedDial
#print axioms GorumsV.NodeConnP.needs_closeCloses
#print axioms closed_stuck_means_exited
#print axioms closed_no_stream
#print axioms sender_exit_leaves_no_request
#print axioms closed_rest_owes_nothing
#print axioms receiver_exit_leaves_nothing_lost
#print axioms GorumsV.Tie.C09.isConnected_good
end Audit
