import GorumsV.Props.C17
import GorumsV.Tie.C16
import GorumsV.Generated.StubsReport
/-!
  Tie for C17: `Generated.StubsReport` is written on every run by gentool `gr stubs`: every
  committed `*_gorums.pb.go` and the bundled static template are regenerated with the plugin
  built from the working tree (descriptors taken from the committed `*.pb.go`) and compared
  after normalisation (comments dropped, gofmt); from every regenerated file the per-method
  bindings (method-name string of the client stub and of the server registration, runtime
  entry point, per-node wiring, quorum-function signature, handler shape) are extracted and
  compared with what the descriptor declares.
-/
namespace GorumsV.Tie.C17
open GorumsV.Generated GorumsV

/-- **every committed generated file equals what the current templates produce** -/
theorem committed_equals_regenerated : stubFiles.all (fun f => f.2) = true := by decide +kernel

/-- no committed generated file escaped the comparison, and there is something to compare -/
theorem all_files_covered : filesWithoutDescriptor = 0 ∧ 0 < stubFiles.length := by decide

/-- **every method of every service of the repository is bound as declared** -/
theorem bindings_match : bindingMismatches = 0 ∧ 0 < bindingsChecked := by decide

end GorumsV.Tie.C17

section Audit
open GorumsV.Tie.C17 GorumsV.C17
#print axioms committed_equals_regenerated
#print axioms all_files_covered
#print axioms bindings_match
#print axioms GorumsV.Tie.C16.table_is_model
#print axioms stub_kind
#print axioms server_shape_matches
#print axioms qf_and_pernode
end Audit
