import GorumsV.Props.C13
import GorumsV.Generated.Exprs
import GorumsV.Generated.Skel
import GorumsV.Model.Skeletons
/-!
  Tie for C13: the descriptor assertion in `gorumsUnmarshal` is of the checked
  (comma-ok) form, the direction switch picks `Input()` for requests and
  `Output()` for responses, and the functions the model was written from are
  unchanged; the totality theorem is then instantiated with the tree's value.
-/
namespace GorumsV.Tie.C13
open GorumsV.Codec GorumsV GorumsV.C13

/-- the assertion `desc.(protoreflect.MethodDescriptor)` is checked -/
theorem assertChecked_good : Generated.codec_assertChecked = some true := by decide

/-- request ⇒ Input, response ⇒ Output (as in `Codec.pick`) -/
theorem direction_arms_good :
    Generated.codec_reqArm = "messageName = methodDesc.Input().FullName()" ∧
    Generated.codec_respArm = "messageName = methodDesc.Output().FullName()" := by decide

def treeChecked : Bool := Generated.codec_assertChecked == some true

/-- **the decoder of the tree never panics**, on any byte string -/
theorem tree_unmarshal_total {Md Msg : Type} (O : Oracles Md Msg) (dir : Dir) (b : Bytes)
    (hempty : ∀ md, O.parseMetadata [] = some md → O.lookup (O.methodOf md) = .notFound) :
    ∀ why, unmarshal O treeChecked dir b ≠ .panic why := by
  have : treeChecked = true := by simp [treeChecked, assertChecked_good]
  rw [this]
  exact unmarshal_total O dir b hempty

theorem skel_gorumsMarshal_good : Generated.skel_gorumsMarshal = Skeletons.expected_skel_gorumsMarshal := by decide
theorem skel_gorumsUnmarshal_good : Generated.skel_gorumsUnmarshal = Skeletons.expected_skel_gorumsUnmarshal := by decide
theorem skel_CodecMarshal_good : Generated.skel_CodecMarshal = Skeletons.expected_skel_CodecMarshal := by decide
theorem skel_CodecUnmarshal_good : Generated.skel_CodecUnmarshal = Skeletons.expected_skel_CodecUnmarshal := by decide
theorem skel_NewCodec_good : Generated.skel_NewCodec = Skeletons.expected_skel_NewCodec := by decide
/-- the protobuf decoder the codec is configured with keeps the fields it cannot interpret: the round-trip
    hypothesis on the oracle (`unmarshal (marshal m) = m`, also for messages carrying undeclared fields) is about
    the decoder as configured in `NewCodec` -/
theorem keepsUnknown_good : Generated.codec_keepsUnknown = true := by decide
theorem skel_newMessage_good : Generated.skel_newMessage = Skeletons.expected_skel_newMessage := by decide
theorem skel_WrapMessage_good : Generated.skel_WrapMessage = Skeletons.expected_skel_WrapMessage := by decide

end GorumsV.Tie.C13

section Audit
open GorumsV.Tie.C13 GorumsV.C13
#print axioms assertChecked_good
#print axioms direction_arms_good
#print axioms tree_unmarshal_total
#print axioms skel_NewCodec_good
#print axioms keepsUnknown_good
#print axioms skel_gorumsMarshal_good
#print axioms skel_gorumsUnmarshal_good
#print axioms skel_CodecMarshal_good
#print axioms skel_CodecUnmarshal_good
#print axioms skel_newMessage_good
#print axioms skel_WrapMessage_good
#print axioms uvarint_roundtrip
#print axioms consumeBytes_part
#print axioms frame_roundtrip
#print axioms consumeBytes_neg
#print axioms consumeBytes_in_range
#print axioms unmarshal_marshal
#print axioms unmarshal_total
#print axioms unmarshal_unchecked_panics
#print axioms status_roundtrip
#print axioms status_nil
#print axioms status_plain
end Audit
