import GorumsV.Props.C09
import GorumsV.Generated.Exprs
import GorumsV.Lemmas.GoETac
/-!
  Tie for C09: the two decisions of the connection management that the LTS `ConnMgr` takes as
  given are regenerated from channel.go — `isConnected` (both flags, in `sEval`) and the give-up
  test of `reconnect` (in `sRcDo`: with maxRetries = 1 the sender gives up at its second failure) —
  and the synchronisation skeleton of every function the LTS was written from is pinned
  (Tie/C09Skel.lean).  Behaviourally, engine wedge classifies every hang of the real code by its
  goroutine signature: the model's two wedge shapes are the two known findings.
-/
namespace GorumsV.Tie.C09
open GorumsV.GoE GorumsV

def envC (established broken : Bool) : Env := envOf [("c.connEstablished.get()", .bool established), ("c.streamBroken.get()", .bool broken)]

/-- `isConnected` is "established and not broken" (the test of `ConnMgr.step … .sEval`) -/
theorem isConnected_good (e b : Bool) : ev (envC e b) Generated.ch_isConnected = .bool (e && !b) := by
  cases e <;> cases b <;> simp [Generated.ch_isConnected, ev, envC, envOf, vnot]

def envG (retries maxRetries : Int) : Env := envOf [("retries", .int retries), ("maxRetries", .int maxRetries)]

/-- reconnect gives up iff a positive retry limit has been reached: reconnect(1) sleeps once and gives up at its
    second failure (`retriesS ≥ 1` in `sRcDo`), reconnect(-1) never gives up (the receiver) -/
theorem giveUp_good (r m : Int) : ev (envG r m) Generated.ch_giveUp = .bool (decide (r ≥ m) && decide (m > 0)) := by
  simp [Generated.ch_giveUp, ev, envG, envOf, vcmp]

theorem giveUp_sender (r : Nat) : ev (envG r 1) Generated.ch_giveUp = .bool (decide (r ≥ 1)) := by
  rw [giveUp_good]
  by_cases h : r ≥ 1
  · have : (r : Int) ≥ 1 := by omega
    simp [h, this]
  · have : ¬ (r : Int) ≥ 1 := by omega
    simp [h, this]
theorem giveUp_receiver (r : Nat) : ev (envG r (-1)) Generated.ch_giveUp = .bool false := by
  rw [giveUp_good]; simp

/-- a failed attempt to re-create the stream leaves the old stream object in place (`sRcDo` / `rRcDo`, failing
    branches: `alive` stays false and the receiver's next read is `rRecvErr`): `reconnect` assigns the stream field
    only when the new stream exists.  (The pinned code stored nil there; a receiver between two reads then crashed
    the process — found by engine crashrace, repaired by fix e211800.) -/
theorem reconnectKeepsStream_good : Generated.ch_reconnectKeepsStream = true := by decide

/-- replacement of a stream: `reconnect` runs `cancelPendingMsgs(true)` under the write lock, after the
    "already up" test and before it creates the new stream (`replaceStream` in `sRcDo` / `rRcDo`; Chan:
    `replaceCancel`); `sendMsg` marks a request as written before it hands it to the stream, and
    `cancelPendingMsgs(true)` skips the requests that are not marked (`Chan.cancelWritten`) -/
theorem replacement_good :
    Generated.ch_replaceCancels = true ∧ Generated.ch_markBeforeSend = true ∧ Generated.ch_cancelSkipsUnwritten = true := by
  decide


end GorumsV.Tie.C09

section Audit
open GorumsV.Tie.C09 GorumsV.C09
#print axioms isConnected_good
#print axioms giveUp_good
#print axioms giveUp_sender
#print axioms giveUp_receiver
#print axioms inv_init
#print axioms inv_step
#print axioms inv_reachable
#print axioms wedge_shapes
#print axioms wedge_shapes_any_peer
#print axioms staleBroken_is_stuck
#print axioms backpressure_is_stuck_for_receiver
#print axioms staleBroken_reachable
#print axioms backpressure_reachable
#print axioms no_backpressure_without_full_stream
#print axioms deleteRouter_enabled_iff
#print axioms retried_on_every_request
#print axioms timer_wait_reachable
#print axioms reply_progress_without_timer
#print axioms closed_stuck_means_exited
#print axioms closed_no_stream
#print axioms sender_exit_leaves_no_request
#print axioms GorumsV.Tie.C09.reconnectKeepsStream_good
#print axioms GorumsV.Tie.C09.replacement_good
#print axioms lost_is_cancelled
#print axioms lost_means_dead
#print axioms parked_means_nothing_lost
#print axioms replacement_answers_lost
#print axioms pinned_leak_reachable
#print axioms leak_trace_repaired
#print axioms backpressure_is_stuck_for_sender
#print axioms backpressure_is_stuck
end Audit
