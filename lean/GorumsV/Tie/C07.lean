import GorumsV.Props.C07
import GorumsV.Props.C05
import GorumsV.Props.C13
import GorumsV.Tie.C01
import GorumsV.Tie.C09
import GorumsV.Props.NetFail
/-!
  Tie for C07 (loop-level half): the tree's loops treat an arrival as a failure iff it
  carries an error (Tie/C01), the loop parameters are the good ones (Tie/C02), and a failed
  connection is reported with the Unavailable class.  (Digest obligations: Tie/C07Skel.lean;
  the status round trip is C13's `status_roundtrip`.)
-/
namespace GorumsV.Tie.C07
open GorumsV.ReplyLoop GorumsV

variable {M E R : Type}
theorem tree_tolerates_failures (qf : RepMap M → R × Bool) (x : Nat)
    (pre post : List (Arrival M E)) (n : NodeId) (m : M)
    (hlen : pre.length < x) (hctx : ∀ c, Arrival.ctxDone c ∉ pre)
    (hnoq : ∀ p ∈ prefixes pre, C01.endsInReply p = true → (qf (replySet p)).2 = false)
    (hq : (qf (replySet (pre ++ [.reply n m]))).2 = true) :
    (run Tie.C02.P_qc qf x (pre ++ .reply n m :: post)).1 = .ok (qf (replySet (pre ++ [.reply n m]))).1 :=
  C07.tolerates_failures _ Tie.C02.P_qc_good _ _ _ _ _ _ hlen hctx hnoq hq

end GorumsV.Tie.C07

section Audit
open GorumsV.Tie.C07 GorumsV.C07
#print axioms GorumsV.NetP.net_at_most_one_error
#print axioms GorumsV.NetP.net_error_is_last
#print axioms GorumsV.NetP.chan_reachable
#print axioms tree_tolerates_failures
#print axioms GorumsV.Tie.C01.qc_errGuard_good
#print axioms GorumsV.Tie.C01.async_errGuard_good
#print axioms errsOf_mem
#print axioms errsOf_length
#print axioms error_not_in_replies
#print axioms reported_errors
#print axioms answered_le
#print axioms tolerates_failures
#print axioms incomplete_lists_failures
#print axioms ctxErr_lists_failures
#print axioms exhaustion_ctxErr_lists_failures
#print axioms GorumsV.C05.at_most_one_error
#print axioms GorumsV.Tie.C09.replacement_good
#print axioms GorumsV.C09.lost_is_cancelled
#print axioms GorumsV.C05.error_is_last
#print axioms GorumsV.C13.status_roundtrip
#print axioms GorumsV.C13.status_plain
end Audit
