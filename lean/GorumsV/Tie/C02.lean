import GorumsV.Props.C02
import GorumsV.Generated.Exprs
import GorumsV.Generated.Skel
import GorumsV.Lemmas.GoETac
/-!
  Tie for C02: the decision expressions found in /repo's working tree
  (Generated/Exprs.lean, rewritten by `gx` on every run) meet the semantic
  specification the theorems of Props/C02.lean need; the theorems are then
  instantiated on the parameters *of the tree*.
-/
namespace GorumsV.Tie.C02
open GorumsV.GoE GorumsV.ReplyLoop GorumsV

/-- how the atoms of the exhaustion tests are read -/
def envLoop (e r x : Nat) : Env := envOf
  [("len(errs)", .int e), ("len(replies)", .int r),
   ("expectedReplies", .int x), ("state.expectedReplies", .int x)]

/-- the exhaustion test of `QuorumCall`, as found in the tree, is `errs + replies = expected` -/
theorem qc_exhaust_good (e r x : Nat) :
    ev (envLoop e r x) Generated.qc_exhaust = .bool (decide (e + r = x)) := by
  simp [Generated.qc_exhaust, ev, envLoop, envOf, veq, varith, vcmp, vnot]
  goe_arith

/-- … and it is evaluated before the first `select` -/
theorem qc_preCheck_good : Generated.qc_preCheck = true := by decide

/-- … and its exhaustion branch reports the context's error when the context has ended (`incompleteCause`) -/
theorem qc_ctxCause_good : Generated.qc_ctxCause = true := by decide

theorem async_exhaust_good (e r x : Nat) :
    ev (envLoop e r x) Generated.async_exhaust = .bool (decide (e + r = x)) := by
  simp [Generated.async_exhaust, ev, envLoop, envOf, veq, varith, vcmp, vnot]
  goe_arith

theorem async_preCheck_good : Generated.async_preCheck = true := by decide

theorem async_ctxCause_good : Generated.async_ctxCause = true := by decide

/-- the parameters of the tree -/
def P_qc : Params :=
  { exhausted := fun e r x => ev (envLoop e r x) Generated.qc_exhaust == .bool true
    preCheck := Generated.qc_preCheck
    ctxCause := Generated.qc_ctxCause }
def P_async : Params :=
  { exhausted := fun e r x => ev (envLoop e r x) Generated.async_exhaust == .bool true
    preCheck := Generated.async_preCheck
    ctxCause := Generated.async_ctxCause }

theorem P_qc_good : P_qc.Good := by
  refine ⟨fun e r x => ?_, qc_preCheck_good, qc_ctxCause_good⟩
  simp only [P_qc, qc_exhaust_good]
  by_cases h : e + r = x <;> simp [h]

theorem P_async_good : P_async.Good := by
  refine ⟨fun e r x => ?_, async_preCheck_good, async_ctxCause_good⟩
  simp only [P_async, async_exhaust_good]
  by_cases h : e + r = x <;> simp [h]

/-! the property's theorems, for the tree's own parameters -/
variable {M E R : Type}

theorem tree_qc_spec (qf : RepMap M → R × Bool) (x : Nat) (as : List (Arrival M E)) :
    (run P_qc qf x as).1 = C02.spec P_qc qf x as := C02.run_eq_spec _ _ _ _
theorem tree_qc_accounting (qf : RepMap M → R × Bool) (x : Nat) (as : List (Arrival M E)) errs n
    (h : (run P_qc qf x as).1 = .incomplete errs n) : errs.length + n = x :=
  C02.incomplete_accounting _ P_qc_good _ _ _ _ _ h
theorem tree_qc_zero (qf : RepMap M → R × Bool) (as : List (Arrival M E)) :
    (run P_qc qf 0 as).1 = (match as with | .ctxDone c :: _ => .ctxErr c [] 0 | _ => .incomplete [] 0) :=
  C02.zero_targets _ P_qc_good _ _
theorem tree_qc_zero_not_waiting (qf : RepMap M → R × Bool) (as : List (Arrival M E)) :
    (run P_qc qf 0 as).1 ≠ .waiting := C02.zero_targets_not_waiting _ P_qc_good _ _
theorem tree_qc_exhaustion (qf : RepMap M → R × Bool) (x : Nat) (pre post : List (Arrival M E)) errs n
    (hpre : ∀ p ∈ prefixes pre, p ≠ pre → C02.verdict P_qc qf x p = none)
    (hv : C02.verdict P_qc qf x pre = some (.incomplete errs n)) :
    (run P_qc qf x (pre ++ post)).1 =
      (match post with | .ctxDone c :: _ => .ctxErr c errs n | _ => .incomplete errs n) :=
  C02.exhaustion_outcome _ P_qc_good _ _ _ _ _ _ hpre hv
theorem tree_async_accounting (qf : RepMap M → R × Bool) (x : Nat) (as : List (Arrival M E)) errs n
    (h : (run P_async qf x as).1 = .incomplete errs n) : errs.length + n = x :=
  C02.incomplete_accounting _ P_async_good _ _ _ _ _ h
theorem tree_async_zero (qf : RepMap M → R × Bool) (as : List (Arrival M E)) :
    (run P_async qf 0 as).1 = (match as with | .ctxDone c :: _ => .ctxErr c [] 0 | _ => .incomplete [] 0) :=
  C02.zero_targets _ P_async_good _ _
theorem tree_async_zero_not_waiting (qf : RepMap M → R × Bool) (as : List (Arrival M E)) :
    (run P_async qf 0 as).1 ≠ .waiting := C02.zero_targets_not_waiting _ P_async_good _ _
theorem tree_async_exhaustion (qf : RepMap M → R × Bool) (x : Nat) (pre post : List (Arrival M E)) errs n
    (hpre : ∀ p ∈ prefixes pre, p ≠ pre → C02.verdict P_async qf x p = none)
    (hv : C02.verdict P_async qf x pre = some (.incomplete errs n)) :
    (run P_async qf x (pre ++ post)).1 =
      (match post with | .ctxDone c :: _ => .ctxErr c errs n | _ => .incomplete errs n) :=
  C02.exhaustion_outcome _ P_async_good _ _ _ _ _ _ hpre hv

/-! `QuorumCallError.Is` -/

/-- targets of `errors.Is`: a plain error value or a QuorumCallError with a cause -/
inductive Target | plain (c : Nat) | qce (c : Nat)

def envIs (cause : Nat) : Target → Env
  | .plain c => envOf [("istype(target,QuorumCallError)", .bool false), ("e.cause", .ref cause), ("target", .ref c)]
  | .qce c => envOf [("istype(target,QuorumCallError)", .bool true), ("e.cause", .ref cause), ("t.cause", .ref c),
                     ("target", .bad)]

/-- `Is` matches exactly the same cause, bare or wrapped -/
theorem qce_is_good (cause : Nat) (t : Target) :
    ev (envIs cause t) Generated.qce_is = .bool (match t with | .plain c => cause == c | .qce c => cause == c) := by
  cases t <;> simp [Generated.qce_is, ev, envIs, envOf, veq]

end GorumsV.Tie.C02

/-! ## audit: every obligation of C02, with the axioms it depends on -/
section Audit
open GorumsV.Tie.C02 GorumsV.C02
#print axioms qc_exhaust_good
#print axioms qc_preCheck_good
#print axioms qc_ctxCause_good
#print axioms async_exhaust_good
#print axioms async_preCheck_good
#print axioms async_ctxCause_good
#print axioms P_qc_good
#print axioms P_async_good
#print axioms qce_is_good
#print axioms tree_qc_spec
#print axioms tree_qc_accounting
#print axioms tree_qc_zero
#print axioms tree_qc_zero_not_waiting
#print axioms tree_qc_exhaustion
#print axioms tree_async_accounting
#print axioms tree_async_zero
#print axioms tree_async_zero_not_waiting
#print axioms tree_async_exhaustion
#print axioms run_eq_spec
#print axioms verdict_none_iff
#print axioms verdict_ne_waiting
#print axioms waiting_iff
#print axioms incomplete_accounting
#print axioms zero_targets
#print axioms zero_targets_not_waiting
#print axioms zero_targets_needs_precheck
#print axioms ctx_outcome
#print axioms exhaustion_outcome
#print axioms exhaustion_needs_ctxCause
#print axioms ok_outcome
#print axioms async_same_as_sync
#print axioms async_done_iff
#print axioms async_get_stable
end Audit
