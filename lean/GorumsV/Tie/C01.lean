import GorumsV.Props.C01
import GorumsV.Tie.C02
import GorumsV.Tie.TreeParams
/-!
  Tie for C01: the loop parameters of the tree are the good ones (Tie/C02), an arrival is
  treated as a failure exactly when it carries an error, and the reply channel has room
  for one answer per targeted node; the theorems are instantiated on the tree's parameters.
  (Digest obligations: Tie/C01Skel.lean.)
-/
namespace GorumsV.Tie.C01
open GorumsV.GoE GorumsV.ReplyLoop GorumsV

def envArr (hasErr : Bool) : Env := envOf [("r.err", if hasErr then .ref 1 else .nil)]

/-- an arrival goes to the error list iff it carries an error (so an error never reaches the quorum function) -/
theorem qc_errGuard_good (hasErr : Bool) : ev (envArr hasErr) Generated.qc_errGuard = .bool hasErr := by
  cases hasErr <;> simp [Generated.qc_errGuard, ev, envArr, envOf, veq, vnot]
theorem async_errGuard_good (hasErr : Bool) : ev (envArr hasErr) Generated.async_errGuard = .bool hasErr := by
  cases hasErr <;> simp [Generated.async_errGuard, ev, envArr, envOf, veq, vnot]

/-- the reply channel is created with one slot per node of the configuration (≥ targeted nodes),
    so routing a non-streaming answer never blocks -/
theorem chanCap_good : Generated.qc_chanCap = .atom "expectedReplies" ∧ Generated.async_chanCap = .atom "expectedReplies" := by decide

variable {M E R : Type}
theorem tree_ok_is_qf_verdict (qf : RepMap M → R × Bool) (x : Nat) (as : List (Arrival M E)) (v : R) (log : List (RepMap M))
    (h : run Tie.C02.P_qc qf x as = (.ok v, log)) : ∃ reps, log.getLast? = some reps ∧ qf reps = (v, true) :=
  C01.ok_is_qf_verdict _ _ _ _ _ _ h
theorem tree_async_same_log (qf : RepMap M → R × Bool) (x : Nat) (as : List (Arrival M E)) :
    (runAsync Tie.C02.P_async qf x as).2 = (run Tie.C02.P_async qf x as).2 := C01.async_same_log _ _ _ _


/-! ### genuine replies, end to end (composite system `Net` on the tree's parameters) -/

theorem net_echo_good : Tie.Tree.echoFacts = true := by decide
theorem net_ids_good : Tie.Tree.idFacts = true := by decide
theorem net_nid_good : Tie.Tree.nidFacts = true := by decide

/-- every entry of every reply set shown to the quorum function is, under node n, what n's handler computed from the
    payload this very call addressed to n — for the tree's loop parameters and the tree's id handling -/
theorem tree_qf_sees_only_genuine {E R : Type} (h : Net.NodeId → Net.Payload → Chan.Resp) (s : Net.State)
    (hr : Net.Reachable (Tie.Tree.netParams h) s) (c : Chan.CallId) (as : List (Arrival Nat E)) (hg : NetP.GenuineFor s c as)
    (qf : RepMap Nat → R × Bool) (x : Nat) (reps : RepMap Nat) (hreps : reps ∈ (run Tie.C02.P_qc qf x as).2)
    (n : Net.NodeId) (v : Nat) (hv : (n, v) ∈ reps) :
    ∃ id p, (⟨id, c, n, p⟩ : Net.Issue) ∈ s.issued ∧ h n p = .reply v :=
  NetP.qf_sees_only_genuine _ (by intro i; simp [Tie.Tree.netParams, net_echo_good]) s hr c as hg _ qf x reps hreps n v hv

end GorumsV.Tie.C01

section Audit
open GorumsV.Tie.C01 GorumsV.C01
#print axioms qc_errGuard_good
#print axioms async_errGuard_good
#print axioms chanCap_good
#print axioms net_echo_good
#print axioms net_ids_good
#print axioms net_nid_good
#print axioms tree_qf_sees_only_genuine
#print axioms GorumsV.NetP.qf_sees_only_genuine
#print axioms GorumsV.NetP.provenance
#print axioms tree_ok_is_qf_verdict
#print axioms tree_async_same_log
#print axioms GorumsV.Tie.C02.P_qc_good
#print axioms GorumsV.Tie.C02.P_async_good
#print axioms ok_is_qf_verdict
#print axioms no_invocation_after_quorum
#print axioms log_is_reply_prefixes
#print axioms replySet_entries_are_replies
#print axioms replySet_keys_nodup
#print axioms replySet_grows
#print axioms replySet_length_le
#print axioms async_same_log
end Audit
