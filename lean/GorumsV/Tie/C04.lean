import GorumsV.Props.C04
/-!
  Tie for C04.  The model `SrvConn` has no numeric or Boolean decision to regenerate: what
  ties it to the code is the digest of `NodeStream`, `ServerCtx.Release`, `SendMessage` and
  of the server template (Tie/C04Skel.lean), and the trace acceptance run of engine `srv`
  (every per-connection event sequence of the real server must be a trace of `SrvConn`).
-/
section Audit
open GorumsV.C04
#print axioms inv_init
#print axioms inv_step
#print axioms inv_reachable
#print axioms at_most_one_unreleased
#print axioms start_requires_release
#print axioms release_idempotent
#print axioms return_releases
#print axioms return_releases_counterexample
#print axioms never_fatal
#print axioms started_in_receive_order
#print axioms released_handlers_run_concurrently
#print axioms other_connections_unaffected
end Audit
