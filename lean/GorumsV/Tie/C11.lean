import GorumsV.Props.C11
import GorumsV.Generated.Exprs
import GorumsV.Generated.Skel
import GorumsV.Model.Skeletons
import GorumsV.Lemmas.GoETac
import GorumsV.Props.WatchConcP
/-!
  Tie for C11: the decisions of correctable.go, regenerated from the tree on every
  run, are the ones the model `GorumsV.Correctable` was written with.
-/
namespace GorumsV.Tie.C11
open GorumsV.GoE GorumsV.Correctable GorumsV

/-- the object is created at `LevelNotSet`, and `LevelNotSet` is -1 -/
theorem initLevel_good :
    ev (envOf [("LevelNotSet", ev (envOf []) Generated.corr_LevelNotSet)]) Generated.corr_initLevel = .int LevelNotSet := by
  simp [Generated.corr_initLevel, Generated.corr_LevelNotSet, ev, envOf, LevelNotSet]

def envX (stream : Bool) (e r x : Nat) : Env := envOf
  [("state.data.ServerStream", .bool stream), ("len(errs)", .int e), ("len(replies)", .int r), ("state.expectedReplies", .int x)]

/-- the two-armed exhaustion test: streams complete when every node has failed, plain calls
    when every node has answered -/
theorem exhaust_good (stream : Bool) (e r x : Nat) :
    ev (envX stream e r x) Generated.corr_exhaust = .bool (exhausted stream e r x) := by
  cases stream <;> simp [Generated.corr_exhaust, ev, envX, envOf, veq, varith, vnot, exhausted] <;> goe_arith

/-- … evaluated at the top of the loop (so also with zero targets) -/
theorem preCheck_good : Generated.corr_preCheck = true := by decide

/-- … and its branch reports the context's error when the context has ended (`incompleteCause`), as
    `Correctable.exhaustedErr` does -/
theorem ctxCause_good : Generated.corr_ctxCause = true := by decide

def envW (l cur : Int) (done : Bool) : Env := envOf [("level", .int l), ("c.level", .int cur), ("c.done", .bool done)]

/-- `Watch(level)` is closed at registration iff the level has been reached or the call is completed -/
theorem watchCmp_good (l cur : Int) (done : Bool) :
    ev (envW l cur done) Generated.corr_watchCmp = .bool (decide (l ≤ cur) || done) := by
  cases done <;> by_cases h : l ≤ cur <;> simp [Generated.corr_watchCmp, ev, envW, envOf, vcmp, h]

/-- `Watch` (test and registration) and `set` each run in one exclusive critical section of the object's mutex: they are
    single steps, as in `Correctable.watch` / `Correctable.set` of the model — no publication can fall between a
    watcher's test and its registration -/
theorem atomic_good : Generated.corr_watchAtomic = true ∧ Generated.corr_setAtomic = true := by decide

/-- hence, for every interleaving of Watch calls and publications, no watcher is ever stranded (open although its level has
    been published or the call is completed): the concurrent model `WatchConc` at the tree's atomicity -/
theorem tree_never_stranded (s : WatchConc.St)
    (h : WatchConc.Reachable (Generated.corr_watchAtomic && Generated.corr_setAtomic) s) : WatchConc.stranded s = false := by
  have ha : (Generated.corr_watchAtomic && Generated.corr_setAtomic) = true := by decide
  rw [ha] at h
  exact WatchConcP.atomic_never_stranded s h

def envS (wl l : Int) : Env := envOf [("c.watchers[i]", .ref 1), ("c.watchers[i].level", .int wl), ("level", .int l)]

/-- `set` releases exactly the (still registered) watchers at or below the published level -/
theorem setCmp_good (wl l : Int) :
    ev (envS wl l) Generated.corr_setCmp = .bool (decide (wl ≤ l)) := by
  simp [Generated.corr_setCmp, ev, envS, envOf, vcmp, veq, vnot]

/-- the reply case of the loop has the publication structure of `Correctable.stepArrival`:
    store the reply; ask QF; done ⇒ publish QF's value with max(level, published level) and return;
    otherwise a strictly higher level ⇒ publish QF's value with it -/
theorem replyCase_good : Generated.corr_replyCase =
    "if r.err != nil { errs = append(errs, nodeError{nodeID: r.nid, cause: r.err}) break } ; replies[r.nid] = r.msg ; if resp, rlevel, quorum = state.data.QuorumFunction(state.data.Message, replies); quorum { if rlevel < clevel { rlevel = clevel } corr.set(resp, rlevel, nil, true) return } ; if rlevel > clevel { clevel = rlevel corr.set(resp, rlevel, nil, false) }" := by
  rfl

theorem skel_Get_good : Generated.skel_CorrectableGet = Skeletons.expected_skel_CorrectableGet := by decide
theorem skel_Done_good : Generated.skel_CorrectableDone = Skeletons.expected_skel_CorrectableDone := by decide
theorem skel_Watch_good : Generated.skel_CorrectableWatch = Skeletons.expected_skel_CorrectableWatch := by decide
theorem skel_set_good : Generated.skel_CorrectableSet = Skeletons.expected_skel_CorrectableSet := by decide
theorem skel_CorrectableCall_good : Generated.skel_CorrectableCall = Skeletons.expected_skel_CorrectableCall := by decide
theorem skel_handleCorrectableCall_good : Generated.skel_handleCorrectableCall = Skeletons.expected_skel_handleCorrectableCall := by decide

end GorumsV.Tie.C11

section Audit
open GorumsV.Tie.C11 GorumsV.C11
#print axioms initLevel_good
#print axioms exhaust_good
#print axioms preCheck_good
#print axioms ctxCause_good
#print axioms watchCmp_good
#print axioms atomic_good
#print axioms tree_never_stranded
#print axioms GorumsV.WatchConcP.atomic_never_stranded
#print axioms GorumsV.WatchConcP.atomic_open_means_waiting
#print axioms GorumsV.WatchConcP.twostep_strands
#print axioms GorumsV.WatchConcP.twostep_strands_for_good
#print axioms setCmp_good
#print axioms replyCase_good
#print axioms skel_Get_good
#print axioms skel_Done_good
#print axioms skel_Watch_good
#print axioms skel_set_good
#print axioms skel_CorrectableCall_good
#print axioms skel_handleCorrectableCall_good
#print axioms init_unset
#print axioms watchInv_init
#print axioms watch_preserves
#print axioms set_preserves
#print axioms set_none_iff
#print axioms typedGet_total
#print axioms typedGet_init
#print axioms run_never_panics
#print axioms run_levels_monotone
#print axioms run_done_last
#print axioms step_publishes
#print axioms step_no_publish
#print axioms step_done
#print axioms step_ctx
#print axioms run_replies_are_qf_values
#print axioms run_watchInv
#print axioms run_exhausted
#print axioms run_exhausted_incomplete
#print axioms run_exhausted_ctx
#print axioms all_targets_failed
#print axioms stream_exhausted_iff_all_failed
#print axioms pinned_double_error_completes
end Audit
