import GorumsV.Props.C18
import GorumsV.Tie.C05
/-! Tie for C18: the deletion guards of Tie/C05; digests in Tie/C18Skel.lean. -/
section Audit
open GorumsV.C18
#print axioms GorumsV.Tie.C05.delGuard_good
#print axioms no_router_after_answer
#print axioms router_means_unanswered
#print axioms routers_bounded
#print axioms deleteRouter_removes
#print axioms streamDown_clears
end Audit
