import GorumsV.Props.C18
import GorumsV.Tie.C05
import GorumsV.Tie.C09
import GorumsV.Props.NetFail
/-! Tie for C18: the deletion guards of Tie/C05; digests in Tie/C18Skel.lean. -/
section Audit
open GorumsV.C18
#print axioms GorumsV.Tie.C05.delGuard_good
#print axioms GorumsV.NetP.net_no_router_after_answer
#print axioms GorumsV.NetP.net_no_router_after_error
#print axioms GorumsV.NetP.net_router_is_issued
#print axioms GorumsV.NetP.chan_reachable
#print axioms no_router_after_answer
#print axioms router_means_unanswered
#print axioms routers_bounded
#print axioms deleteRouter_removes
#print axioms streamDown_clears
#print axioms no_router_after_error
#print axioms GorumsV.C05.replaceCancel_answers_written
#print axioms GorumsV.Tie.C09.replacement_good
#print axioms GorumsV.C09.lost_is_cancelled
#print axioms GorumsV.C09.parked_means_nothing_lost
#print axioms GorumsV.C09.pinned_leak_reachable
end Audit
