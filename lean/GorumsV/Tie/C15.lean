import GorumsV.Props.C15
import GorumsV.Generated.Exprs
/-!
  Tie for C15: `Generated.accessTable` is rewritten by `gx` on every run: every selector on a
  tracked field of channel / RawManager / RawNode / Correctable, with the function it occurs in,
  whether it writes, and the locks syntactically held there.  `policy_holds` (kernel-checked)
  says that every row obeys the field's policy — the premise `GuardedBy` of the generic theorem
  `C15.guarded_race_free`, as far as a syntactic lock-set analysis can establish it.
  A lock removed, a new unguarded access, a read under the wrong lock changes a row and breaks it.
  The atomic flags are only touched through sync/atomic (`atomicFlagOK`).
-/
namespace GorumsV.Tie.C15
open GorumsV.Generated GorumsV

/-- the lock discipline of the tracked fields -/
def rowOK (r : AccessRow) : Bool :=
  if r.owner == "Correctable" then r.locks.contains "mu:Correctable"
  else if r.owner == "RawManager" then r.locks.contains "mu:RawManager"
  else if r.owner == "RawNode" then r.locks.contains "connMu:RawNode"
  else if r.owner == "channel" then
    if r.field == "responseRouters" then r.locks.contains "responseMut"
    else if r.field == "lastError" || r.field == "latency" then r.locks.contains "mu:channel"
    else if r.field == "gorumsStream" || r.field == "streamCtx" || r.field == "cancelStream" || r.field == "gorumsClient" then
      r.locks.contains "streamMut:W" || (!r.write && r.locks.contains "streamMut:R")
    -- set once in newChannel, before the goroutines exist, and only read afterwards
    else if r.field == "backoffCfg" || r.field == "parentCtx" || r.field == "node" || r.field == "sendQ" then
      !r.write || r.fn == "newChannel"
    -- a *rand.Rand is not safe for concurrent use: not used at all once the goroutines exist
    else if r.field == "rand" then r.fn == "newChannel"
    else false
  else false

/-- **every access the extractor finds obeys its field's policy** -/
theorem policy_holds : accessTable.all rowOK = true := by decide +kernel

/-- the table is not empty and covers every tracked group (a vacuous table would prove nothing) -/
theorem table_covers :
    accessTable.any (fun r => r.field == "responseRouters" && r.write) = true ∧
    accessTable.any (fun r => r.field == "gorumsStream" && r.write) = true ∧
    accessTable.any (fun r => r.field == "cancelStream" && !r.write) = true ∧
    accessTable.any (fun r => r.owner == "RawManager" && r.field == "nodes" && r.write) = true ∧
    accessTable.any (fun r => r.owner == "RawNode" && r.field == "conn" && r.write) = true ∧
    accessTable.any (fun r => r.owner == "Correctable" && r.field == "level" && r.write) = true ∧
    40 ≤ accessTable.length := by decide +kernel

/-- the flags streamBroken / connEstablished are accessed through sync/atomic only -/
theorem atomic_flags : atomicFlagOK = true := by decide

end GorumsV.Tie.C15

section Audit
open GorumsV.Tie.C15 GorumsV.C15
#print axioms policy_holds
#print axioms table_covers
#print axioms atomic_flags
#print axioms guarded_race_free
#print axioms racy_not_ordered
end Audit
