import GorumsV.Props.C14
import GorumsV.Generated.Skel
import GorumsV.Model.Skeletons
/-!
  Tie for C14: the constructors the model `GorumsV.Config` mirrors path by path are
  unchanged (normalised-body digests, regenerated from the tree on every run); the
  behaviour of the model is compared with the real code on every run by engine `cfg`.
-/
namespace GorumsV.Tie.C14
open GorumsV

theorem skel_nodeIDMap_good : Generated.skel_cfg_nodeIDMap_newConfig = Skeletons.expected_skel_cfg_nodeIDMap_newConfig := by decide
theorem skel_nodeList_good : Generated.skel_cfg_nodeList_newConfig = Skeletons.expected_skel_cfg_nodeList_newConfig := by decide
theorem skel_nodeIDs_good : Generated.skel_cfg_nodeIDs_newConfig = Skeletons.expected_skel_cfg_nodeIDs_newConfig := by decide
theorem skel_addNodes_good : Generated.skel_cfg_addNodes_newConfig = Skeletons.expected_skel_cfg_addNodes_newConfig := by decide
theorem skel_addConfig_good : Generated.skel_cfg_addConfig_newConfig = Skeletons.expected_skel_cfg_addConfig_newConfig := by decide
theorem skel_And_good : Generated.skel_cfg_RawConfiguration_And = Skeletons.expected_skel_cfg_RawConfiguration_And := by decide
theorem skel_WithoutNodes_good : Generated.skel_cfg_RawConfiguration_WithoutNodes = Skeletons.expected_skel_cfg_RawConfiguration_WithoutNodes := by decide
theorem skel_Except_good : Generated.skel_cfg_RawConfiguration_Except = Skeletons.expected_skel_cfg_RawConfiguration_Except := by decide
theorem skel_WithNewNodes_good : Generated.skel_cfg_RawConfiguration_WithNewNodes = Skeletons.expected_skel_cfg_RawConfiguration_WithNewNodes := by decide
theorem skel_NewRawConfiguration_good : Generated.skel_cfg_NewRawConfiguration = Skeletons.expected_skel_cfg_NewRawConfiguration := by decide
theorem skel_NodeIDs_good : Generated.skel_cfg_RawConfiguration_NodeIDs = Skeletons.expected_skel_cfg_RawConfiguration_NodeIDs := by decide
theorem skel_Nodes_good : Generated.skel_cfg_RawConfiguration_Nodes = Skeletons.expected_skel_cfg_RawConfiguration_Nodes := by decide
theorem skel_Size_good : Generated.skel_cfg_RawConfiguration_Size = Skeletons.expected_skel_cfg_RawConfiguration_Size := by decide
theorem skel_Equal_good : Generated.skel_cfg_RawConfiguration_Equal = Skeletons.expected_skel_cfg_RawConfiguration_Equal := by decide
theorem skel_AddNode_good : Generated.skel_mgr_RawManager_AddNode = Skeletons.expected_skel_mgr_RawManager_AddNode := by decide
theorem skel_mgrNode_good : Generated.skel_mgr_RawManager_Node = Skeletons.expected_skel_mgr_RawManager_Node := by decide
theorem skel_mgrNodes_good : Generated.skel_mgr_RawManager_Nodes = Skeletons.expected_skel_mgr_RawManager_Nodes := by decide
theorem skel_mgrNodeIDs_good : Generated.skel_mgr_RawManager_NodeIDs = Skeletons.expected_skel_mgr_RawManager_NodeIDs := by decide
theorem skel_NewRawNode_good : Generated.skel_node_NewRawNode = Skeletons.expected_skel_node_NewRawNode := by decide
theorem skel_NewRawNodeWithID_good : Generated.skel_node_NewRawNodeWithID = Skeletons.expected_skel_node_NewRawNodeWithID := by decide
theorem skel_devNewConfiguration_good : Generated.skel_dev_NewConfiguration = Skeletons.expected_skel_dev_NewConfiguration := by decide
theorem skel_devNodes_good : Generated.skel_dev_Nodes = Skeletons.expected_skel_dev_Nodes := by decide
theorem skel_devConfigurationFromRaw_good : Generated.skel_dev_ConfigurationFromRaw = Skeletons.expected_skel_dev_ConfigurationFromRaw := by decide
theorem skel_devAnd_good : Generated.skel_dev_And = Skeletons.expected_skel_dev_And := by decide
theorem skel_devExcept_good : Generated.skel_dev_Except = Skeletons.expected_skel_dev_Except := by decide

end GorumsV.Tie.C14

section Audit
open GorumsV.Tie.C14 GorumsV.C14
#print axioms skel_nodeIDMap_good
#print axioms skel_nodeList_good
#print axioms skel_nodeIDs_good
#print axioms skel_addNodes_good
#print axioms skel_addConfig_good
#print axioms skel_And_good
#print axioms skel_WithoutNodes_good
#print axioms skel_Except_good
#print axioms skel_WithNewNodes_good
#print axioms skel_NewRawConfiguration_good
#print axioms skel_NodeIDs_good
#print axioms skel_Nodes_good
#print axioms skel_Size_good
#print axioms skel_Equal_good
#print axioms skel_AddNode_good
#print axioms skel_mgrNode_good
#print axioms skel_mgrNodes_good
#print axioms skel_mgrNodeIDs_good
#print axioms skel_NewRawNode_good
#print axioms skel_NewRawNodeWithID_good
#print axioms skel_devNewConfiguration_good
#print axioms skel_devNodes_good
#print axioms skel_devConfigurationFromRaw_good
#print axioms skel_devAnd_good
#print axioms skel_devExcept_good
#print axioms poolOK_empty
#print axioms mem_sortId
#print axioms sortId_sorted
#print axioms nodeList_ok
#print axioms nodeMap_ok
#print axioms nodeIDs_ok
#print axioms addConfig_ok
#print axioms addConfig_mem
#print axioms nodeIDs_mem
#print axioms nodeIDs_error_iff
#print axioms withoutNodes_mem
#print axioms withoutNodes_empty
#print axioms exceptCfg_mem
#print axioms nodeList_addrs
#print axioms nodeList_collision_fails
#print axioms nodeMap_bindings
#print axioms fnv_collision
end Audit
