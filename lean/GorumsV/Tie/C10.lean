import GorumsV.Props.C10
import GorumsV.Tie.C09
import GorumsV.Generated.Exprs
import GorumsV.Props.BackoffP
/-! Tie for C10: connection facts of Tie/C09; digests of connect / reconnect / newNodeStream / receiver / sender /
    newChannel / newContext / dial / connect (node) / NodeStream in Tie/C10Skel.lean; engine reconn checks restarts,
    metadata and the connect callback on the real code. -/
namespace GorumsV.Tie.C10
open GorumsV
/-- the manager's back-off configuration reaches both layers that re-establish a connection: the channel's own
    reconnect loop and gRPC's re-dialling of the node's ClientConn (`grpc.WithConnectParams`) — with a short configured
    back-off a node that listens again is not left waiting for gRPC's default (up to 120 s) timers -/
theorem backoff_forwarded_good : Generated.mgr_forwardsBackoff = true ∧ Generated.ch_usesMgrBackoff = true := by decide
/-- the manager adds two dial options of its own and no others: the content subtype of the gorums codec and the connect
    parameters with the configured back-off — in particular no service config (a retry policy would make gRPC replay the
    messages of a stream that has seen no reply yet on a fresh stream: one-way messages delivered twice) -/
theorem dialOpts_good : Generated.mgr_dialOpts = ["grpc.WithDefaultCallOptions", "grpc.WithConnectParams"] := by decide
/-- the back-off arithmetic of `reconnect` is the one `Backoff.delay` / `Backoff.sleep` model: start at BaseDelay, multiply
    while below MaxDelay and retries remain, cap at MaxDelay, scale by 1 ± Jitter, sleep (or leave when the node is closed) -/
theorem backoffArith_good : Generated.ch_backoffArith =
    ["delay := float64(backoffCfg.BaseDelay)", "max := float64(backoffCfg.MaxDelay)",
     "for r := retries; delay < max && r > 0; r-- { delay *= backoffCfg.Multiplier }",
     "delay = math.Min(delay, max)", "delay *= 1 + backoffCfg.Jitter*(rand.Float64()*2-1)",
     "select { case <-time.After(time.Duration(delay)): retries++ case <-c.parentCtx.Done(): return }"] := by decide
end GorumsV.Tie.C10
section Audit
open GorumsV.C10
#print axioms GorumsV.Tie.C10.backoff_forwarded_good
#print axioms GorumsV.Tie.C10.dialOpts_good
#print axioms GorumsV.Tie.C10.backoffArith_good
#print axioms GorumsV.BackoffP.delay_le_max
#print axioms GorumsV.BackoffP.delay_ge_base
#print axioms GorumsV.BackoffP.delay_mono
#print axioms GorumsV.BackoffP.delay_const
#print axioms GorumsV.BackoffP.delay_capped
#print axioms GorumsV.BackoffP.sleep_le
#print axioms GorumsV.BackoffP.sleep_ge
#print axioms retried_on_every_request
#print axioms comes_back_unless_wedged
#print axioms timer_wait_reachable
#print axioms no_timer_wait_partial
#print axioms GorumsV.Tie.C09.isConnected_good
#print axioms GorumsV.Tie.C09.giveUp_sender
#print axioms GorumsV.Tie.C09.giveUp_receiver
end Audit
