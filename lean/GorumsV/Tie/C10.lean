import GorumsV.Props.C10
import GorumsV.Tie.C09
/-! Tie for C10: connection facts of Tie/C09; digests of connect / reconnect / newNodeStream / receiver / sender /
    newChannel / newContext / dial / connect (node) / NodeStream in Tie/C10Skel.lean; engine reconn checks restarts,
    metadata and the connect callback on the real code. -/
section Audit
open GorumsV.C10
#print axioms retried_on_every_request
#print axioms comes_back_unless_wedged
#print axioms timer_wait_reachable
#print axioms no_timer_wait_partial
#print axioms GorumsV.Tie.C09.isConnected_good
#print axioms GorumsV.Tie.C09.giveUp_sender
#print axioms GorumsV.Tie.C09.giveUp_receiver
end Audit
