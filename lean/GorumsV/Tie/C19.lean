import GorumsV.Props.C19
import GorumsV.Generated.Exprs
import GorumsV.Generated.Skel
import GorumsV.Model.Skeletons
import GorumsV.Lemmas.GoETac
/-!
  Tie for C19: the three provided keys *as written in the tree* are the orders
  the theorems are about, hence strict weak orders; `Less` has the shape the
  model `multiLess` was written from.
-/
namespace GorumsV.Tie.C19
open GorumsV.GoE GorumsV.NodeSort GorumsV GorumsV.C19

/-- how the atoms of the key functions are read on two abstract nodes -/
def envK (a b : Key) : Env := envOf
  [("n1.id", .int a.id), ("n2.id", .int b.id), ("p1", .int a.port), ("p2", .int b.port),
   ("n1.channel.lastErr()", if a.hasErr then .ref 1 else .nil),
   ("n2.channel.lastErr()", if b.hasErr then .ref 1 else .nil)]

theorem key_ID_good (a b : Key) : ev (envK a b) Generated.key_ID = .bool (byID a b) := by
  simp [Generated.key_ID, ev, envK, envOf, vcmp, byID]

theorem key_Port_good (a b : Key) : ev (envK a b) Generated.key_Port = .bool (byPort a b) := by
  simp [Generated.key_Port, ev, envK, envOf, vcmp, byPort]

/-- `p1`, `p2` are the numeric ports of the two nodes -/
theorem key_Port_defs_good :
    Generated.key_Port_defs = ["p1,_:=strconv.Atoi(n1.Port())", "p2,_:=strconv.Atoi(n2.Port())"] := by decide

theorem key_LastNodeError_good (a b : Key) :
    ev (envK a b) Generated.key_LastNodeError = .bool (byLastErr a b) := by
  cases ha : a.hasErr <;> cases hb : b.hasErr <;>
    simp [Generated.key_LastNodeError, ev, envK, envOf, veq, vnot, byLastErr, ha, hb]

/-- the keys of the tree, as functions -/
def treeKey (e : E) : LessFn := fun a b => ev (envK a b) e == .bool true

theorem treeKey_ID : treeKey Generated.key_ID = byID := by
  funext a b; simp only [treeKey, key_ID_good]; cases byID a b <;> simp
theorem treeKey_Port : treeKey Generated.key_Port = byPort := by
  funext a b; simp only [treeKey, key_Port_good]; cases byPort a b <;> simp
theorem treeKey_LastNodeError : treeKey Generated.key_LastNodeError = byLastErr := by
  funext a b; simp only [treeKey, key_LastNodeError_good]; cases byLastErr a b <;> simp

/-- **each provided key of the tree is a strict weak ordering** -/
theorem tree_keys_swo :
    StrictWeak (treeKey Generated.key_ID) ∧ StrictWeak (treeKey Generated.key_Port) ∧
    StrictWeak (treeKey Generated.key_LastNodeError) := by
  rw [treeKey_ID, treeKey_Port, treeKey_LastNodeError]
  exact ⟨byID_swo, byPort_swo, byLastErr_swo⟩

/-- **any sequence of the tree's keys sorts lexicographically** -/
theorem tree_lex_swo (ks : List LessFn)
    (h : ∀ k ∈ ks, k = treeKey Generated.key_ID ∨ k = treeKey Generated.key_Port ∨ k = treeKey Generated.key_LastNodeError) :
    StrictWeak (lexLt ks) := by
  apply lex_swo
  intro k hk
  rcases h k hk with rfl | rfl | rfl
  · exact tree_keys_swo.1
  · exact tree_keys_swo.2.1
  · exact tree_keys_swo.2.2

/-- the shape of `MultiSorter.Less` the model `multiLess` mirrors: loop over all but
    the last key, `less(p,q)` ⇒ true, `less(q,p)` ⇒ false, finally the last key's verdict -/
theorem less_shape_good :
    Generated.less_bound = .lt (.atom "k") (.sub (.atom "len(ms.less)") (.int 1)) ∧
    Generated.less_case1 = .atom "less(p,q)" ∧ Generated.less_case1_ret = .bool true ∧
    Generated.less_case2 = .atom "less(q,p)" ∧ Generated.less_case2_ret = .bool false ∧
    Generated.less_final = .atom "ms.less[k](p,q)" := by decide

theorem skel_Less_good : Generated.skel_MultiSorterLess = Skeletons.expected_skel_MultiSorterLess := by decide
theorem skel_Sort_good : Generated.skel_MultiSorterSort = Skeletons.expected_skel_MultiSorterSort := by decide
theorem skel_Swap_good : Generated.skel_MultiSorterSwap = Skeletons.expected_skel_MultiSorterSwap := by decide
theorem skel_Len_good : Generated.skel_MultiSorterLen = Skeletons.expected_skel_MultiSorterLen := by decide
theorem skel_OrderedBy_good : Generated.skel_OrderedBy = Skeletons.expected_skel_OrderedBy := by decide
/-- the accessors the keys read: `Port()` (the port of the node's address), `ID()`, `LastErr()`, `Address()` -/
theorem skel_PortAccessor_good : Generated.skel_node_RawNode_Port = Skeletons.expected_skel_node_RawNode_Port := by decide
theorem skel_IDAccessor_good : Generated.skel_node_RawNode_ID = Skeletons.expected_skel_node_RawNode_ID := by decide
theorem skel_LastErrAccessor_good : Generated.skel_node_RawNode_LastErr = Skeletons.expected_skel_node_RawNode_LastErr := by decide
theorem skel_AddressAccessor_good : Generated.skel_node_RawNode_Address = Skeletons.expected_skel_node_RawNode_Address := by decide

end GorumsV.Tie.C19

/-! ## audit -/
section Audit
open GorumsV.Tie.C19 GorumsV.C19
#print axioms key_ID_good
#print axioms key_Port_good
#print axioms key_Port_defs_good
#print axioms key_LastNodeError_good
#print axioms tree_keys_swo
#print axioms tree_lex_swo
#print axioms less_shape_good
#print axioms skel_Less_good
#print axioms skel_Sort_good
#print axioms skel_Swap_good
#print axioms skel_Len_good
#print axioms skel_OrderedBy_good
#print axioms skel_PortAccessor_good
#print axioms skel_IDAccessor_good
#print axioms skel_LastErrAccessor_good
#print axioms skel_AddressAccessor_good
#print axioms multiLess_is_lex
#print axioms lex_swo
#print axioms byID_swo
#print axioms byPort_swo
#print axioms byLastErr_swo
#print axioms pinned_lastErr_not_swo
#print axioms isort_perm
#print axioms isort_sorted
#print axioms sorted_ties
#print axioms sorted_first
#print axioms StrictWeak.incomp_trans
end Audit
