import GorumsV.Props.C09
import GorumsV.Props.SitesP
import GorumsV.Model.LockOrder
import GorumsV.Props.LockOrderP
import GorumsV.Generated.Exprs
/-!
  Further obligations of C09 (elaborated on their own, imported by nothing): the lock order and the blocking sites under
  locks, computed from the table that gx regenerates from the tree on every run (lock-set walk over every function of
  channel.go, node.go, mgr.go, correctable.go, server.go).
-/
namespace GorumsV.Tie.C09Locks
open GorumsV

def blockRows : List LockOrder.Row := Generated.blockTable.map fun r => ⟨r.fn, r.kind, r.arg, r.locks, r.modes⟩
/-- the client runtime (the server's handler mutex is a hand-over signal between goroutines, modelled in `SrvConn`) -/
def clientRows : List LockOrder.Row := blockRows.filter (fun r => r.fn != "orderingServer.NodeStream")

/-- the lock order of the client runtime is exactly: `responseMut` and the channel's `mu` are taken under `streamMut`
    (reconnect → cancelPendingMsgs; sendMsg → markWritten / setLastErr) and nothing else nests — as in `ConnMgr`, where
    `responseMut` is requested under the write lock by `replaceStream` and under the read lock by `markWritten` -/
theorem lockOrder_good : LockOrder.edges clientRows 3 = [("streamMut", "responseMut"), ("streamMut", "mu:channel")] := by
  decide +kernel
/-- … calls deeper than three levels add nothing -/
theorem lockOrder_depth : LockOrder.edges clientRows 5 = LockOrder.edges clientRows 3 := by decide +kernel
/-- … and it has no cycle: no deadlock among the critical sections themselves; what remains are blocking operations
    inside critical sections -/
theorem lockOrder_acyclic : LockOrder.acyclic (LockOrder.edges clientRows 3) 8 = true := by decide +kernel

/-- **every place where the tree can block while it holds a lock is a step of the models** (`ConnMgr`, `NodeConn`,
    `SrvConn`): the wedge analysis of C09 (`wedge_shapes`) is complete with respect to the code's blocking sites -/
theorem blocking_sites_modelled :
    ∀ s ∈ LockOrder.blockingUnderLock blockRows, s ∈ LockOrder.modelledSites.map (·.1) := by decide +kernel
/-- … and every modelled site is still in the tree (no stale entry) -/
theorem modelled_sites_exist :
    ∀ s ∈ LockOrder.modelledSites.map (·.1), s.2.1 = "lock" ∨ s ∈ LockOrder.blockingUnderLock blockRows := by decide +kernel

/-- what the evaluated check means for the tree's lock order: no walk of up to nine edges along it returns to its start
    (the order has two edges: every cycle is excluded) -/
theorem lockOrder_no_cycle (n : String) (k : Nat) (hk : k ≤ 9) :
    ¬ LockOrderP.Walk (LockOrder.edges clientRows 3) k n n :=
  LockOrderP.acyclic_no_short_cycle _ 8 lockOrder_acyclic n k hk

end GorumsV.Tie.C09Locks

section Audit
open GorumsV.Tie.C09Locks
#print axioms lockOrder_good
#print axioms lockOrder_depth
#print axioms lockOrder_acyclic
#print axioms lockOrder_no_cycle
#print axioms GorumsV.LockOrderP.acyclic_no_short_cycle
#print axioms GorumsV.LockOrderP.walk_in_reach
#print axioms blocking_sites_modelled
#print axioms modelled_sites_exist
#print axioms GorumsV.SitesP.recvMsg_under_read
#print axioms GorumsV.SitesP.sendMsg_under_read
#print axioms GorumsV.SitesP.reconnect_under_write_sender
#print axioms GorumsV.SitesP.reconnect_under_write_receiver
#print axioms GorumsV.SitesP.writer_not_reading
#print axioms GorumsV.SitesP.streamMutSites_listed
end Audit
