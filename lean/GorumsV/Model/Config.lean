/-
  Model of configuration building (config_opts.go, config.go, mgr.go:89-133,
  node.go:36-59) — the code as repaired by the C14 "fix:" commit:
  node-list / node-map / node-IDs constructors, And, Except, WithoutNodes,
  WithNewNodes, the manager's pool (one node object per ID), and the address →
  ID hash (FNV-1a, 32 bit).  Address resolution (`net.ResolveTCPAddr`) is outside
  the model: addresses are canonical `ip:port` literals.
-/
namespace GorumsV.Config

/-- `uid` stands for the identity of the Go object (`*RawNode`). -/
structure Node where
  uid : Nat
  id : Nat
  addr : String
  deriving Repr, DecidableEq

abbrev Cfg := List Node

structure Mgr where
  nodes : List Node := []
  nextUid : Nat := 0
  deriving Repr

inductive Err where
  | empty                       -- missing required node list / empty result
  | notFound (id : Nat)         -- WithNodeIDs: id not registered
  | conflict (id : Nat)         -- id already bound to another address (incl. hash collisions, duplicate ids in a map)
  deriving Repr, DecidableEq

/-- FNV-1a, 32 bit, over the bytes of an ASCII address -/
def fnv32a (s : String) : Nat :=
  s.toList.foldl (fun h c => ((h ^^^ (c.toNat % 256)) * 16777619) % 4294967296) 2166136261

def Mgr.lookup (m : Mgr) (id : Nat) : Option Node := m.nodes.find? (fun n => n.id == id)

/-- `AddNode` of a fresh node object (the caller has checked that the id is free) -/
def Mgr.add (m : Mgr) (id : Nat) (addr : String) : Mgr × Node :=
  let n : Node := ⟨m.nextUid, id, addr⟩
  ({ nodes := m.nodes ++ [n], nextUid := m.nextUid + 1 }, n)

/-- insertion into a list sorted by id (`OrderedBy(ID).Sort`; ids are distinct where it matters) -/
def insId (x : Node) : List Node → List Node
  | [] => [x]
  | y :: ys => if y.id ≤ x.id then y :: insId x ys else x :: y :: ys

def sortId : List Node → List Node
  | [] => []
  | x :: xs => insId x (sortId xs)

def hasId (l : List Node) (id : Nat) : Bool := l.any (fun n => n.id == id)

/-- every successful constructor ends with: sort the pool, sort the result.
    All constructors have the shape `Mgr → … → Mgr × Except Err Cfg`
    (the manager afterwards — also after a failure — and the result). -/
def finish (m : Mgr) (c : Cfg) : Mgr × Except Err Cfg := ({ m with nodes := sortId m.nodes }, .ok (sortId c))

/-- `nodeList.newConfig`: nodes added before a failure stay in the pool -/
def nodeListLoop : Mgr → Cfg → List String → Mgr × Except Err Cfg
  | m, acc, [] => finish m acc
  | m, acc, a :: as =>
    let id := fnv32a a
    match m.lookup id with
    | some n =>
      if n.addr != a then (m, .error (.conflict id))
      else if hasId acc id then nodeListLoop m acc as
      else nodeListLoop m (acc ++ [n]) as
    | none => nodeListLoop (m.add id a).1 (acc ++ [(m.add id a).2]) as

def nodeList (m : Mgr) (addrs : List String) : Mgr × Except Err Cfg :=
  if addrs.isEmpty then (m, .error .empty) else nodeListLoop m [] addrs

/-- `nodeIDMap.newConfig`: the whole map is validated first (no id twice, no id bound to another
    address in the pool), then nodes are looked up / added.  `entries` is the map in any order. -/
def mapValid (m : Mgr) : List (String × Nat) → List Nat → Option Err
  | [], _ => none
  | (a, id) :: es, seen =>
    if seen.contains id then some (.conflict id)
    else match m.lookup id with
      | some n => if n.addr != a then some (.conflict id) else mapValid m es (id :: seen)
      | none => mapValid m es (id :: seen)

def mapLoop : Mgr → Cfg → List (String × Nat) → Mgr × Except Err Cfg
  | m, acc, [] => finish m acc
  | m, acc, (a, id) :: es =>
    match m.lookup id with
    | some n => mapLoop m (acc ++ [n]) es
    | none => mapLoop (m.add id a).1 (acc ++ [(m.add id a).2]) es

def nodeMap (m : Mgr) (entries : List (String × Nat)) : Mgr × Except Err Cfg :=
  if entries.isEmpty then (m, .error .empty)
  else match mapValid m entries [] with
    | some e => (m, .error e)
    | none => mapLoop m [] entries

/-- `nodeIDs.newConfig` -/
def idsLoop (m : Mgr) : Cfg → List Nat → Mgr × Except Err Cfg
  | acc, [] => finish m acc
  | acc, id :: ids =>
    match m.lookup id with
    | none => (m, .error (.notFound id))
    | some n => if hasId acc id then idsLoop m acc ids else idsLoop m (acc ++ [n]) ids

def nodeIDs (m : Mgr) (ids : List Nat) : Mgr × Except Err Cfg :=
  if ids.isEmpty then (m, .error .empty) else idsLoop m [] ids

/-- `addConfig.newConfig` (And, and the second half of WithNewNodes) -/
def dedupLoop : Cfg → List Node → Cfg
  | acc, [] => acc
  | acc, n :: ns => if hasId acc n.id then dedupLoop acc ns else dedupLoop (acc ++ [n]) ns

def addConfig (m : Mgr) (old add : Cfg) : Mgr × Except Err Cfg := finish m (dedupLoop [] (old ++ add))

/-- `WithNewNodes(WithNodeList addrs)` -/
def withNewNodes (m : Mgr) (old : Cfg) (addrs : List String) : Mgr × Except Err Cfg :=
  match nodeList m addrs with
  | (m', .ok c) => addConfig m' old c
  | (m', .error e) => (m', .error e)

/-- `Except` / `WithoutNodes`: the ids of `c` not removed, then `nodeIDs` -/
def keepIDs (c : Cfg) (rm : List Nat) : List Nat := (c.filter (fun n => !rm.contains n.id)).map (·.id)

def exceptCfg (m : Mgr) (c rm : Cfg) : Mgr × Except Err Cfg := nodeIDs m (keepIDs c (rm.map (·.id)))
def withoutNodes (m : Mgr) (c : Cfg) (ids : List Nat) : Mgr × Except Err Cfg := nodeIDs m (keepIDs c ids)

end GorumsV.Config
