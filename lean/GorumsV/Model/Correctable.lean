import GorumsV.Model.ReplyLoop
/-
  Model of correctable calls (correctable.go), the code as repaired by the C11
  and C08 "fix:" commits: the `Correctable` object (Get / Watch / set / Done) and the loop
  of `handleCorrectableCall` (plain and server-stream variant).
-/
namespace GorumsV.Correctable
open GorumsV.ReplyLoop

def LevelNotSet : Int := -1

/-- the error a completed call carries -/
inductive CErr (E : Type) where
  | incomplete (errs : List (NodeId × E)) (nReplies : Nat)
  | ctx (cause : E) (errs : List (NodeId × E)) (nReplies : Nat)
  deriving Repr, DecidableEq

/-- a registered watcher: its level and whether its channel has been closed -/
structure Watcher where
  level : Int
  closed : Bool
  deriving Repr, DecidableEq

/-- the `Correctable` object (all fields are protected by `mu`) -/
structure Obj (V E : Type) where
  reply : Option V := none
  level : Int := LevelNotSet
  err : Option (CErr E) := none
  done : Bool := false          -- also: `donech` closed
  watchers : List Watcher := []
  deriving Repr

variable {V E M : Type}

/-- `Get` -/
def Obj.get (o : Obj V E) : Option V × Int × Option (CErr E) := (o.reply, o.level, o.err)

/-- `Watch(level)`: returns the index of the watcher; it is closed at once if the level has
    been reached or the call is completed -/
def Obj.watch (o : Obj V E) (level : Int) : Obj V E :=
  { o with watchers := o.watchers ++ [⟨level, decide (level ≤ o.level) || o.done⟩] }

/-- `set(reply, level, err, done)`; `none` = the panic "set(...) called on a done correctable" -/
def Obj.set (o : Obj V E) (reply : Option V) (level : Int) (err : Option (CErr E)) (done : Bool) : Option (Obj V E) :=
  if o.done then none
  else some { reply := reply, level := level, err := err, done := done,
              watchers := o.watchers.map fun w => if done || decide (w.level ≤ level) then { w with closed := true } else w }

/-- the generated typed accessor: `none` result = the accessor returns a nil value;
    `Typed.panic` = a failed type assertion.  `tagOK v` says the stored value has the
    static result type of the accessor (the custom return type, if any). -/
inductive Typed (V : Type) where
  | value (v : V) | nil | panic
  deriving Repr, DecidableEq

def Obj.typedGet (tagOK : V → Bool) (o : Obj V E) : Typed V × Int × Option (CErr E) :=
  match o.err, o.reply with
  | some e, _ => (.nil, o.level, some e)
  | none, none => (.nil, o.level, none)
  | none, some v => (if tagOK v then .value v else .panic, o.level, none)

/-- loop-local state of `handleCorrectableCall` -/
structure LoopSt (V E M : Type) where
  resp : Option V := none       -- last value returned by the quorum function
  clevel : Int := LevelNotSet
  errs : List (NodeId × E) := []
  replies : RepMap M := []
  deriving Repr

/-- the two-armed exhaustion test -/
def exhausted (stream : Bool) (nErrs nReplies expected : Nat) : Bool :=
  (stream && nErrs == expected) || (!stream && nErrs + nReplies == expected)

/-- what the exhaustion branch reports: `incompleteCause(ctx)` (errors.go) — the context's error when
    the context has ended, i.e. when its end is the next event of the history (see Model/ReplyLoop) -/
def exhaustedErr (errs : List (NodeId × E)) (nReplies : Nat) (rest : List (Arrival M E)) : CErr E :=
  match rest with
  | .ctxDone c :: _ => .ctx c errs nReplies
  | _ => .incomplete errs nReplies

/-- One iteration of the loop on an arrival; the exhaustion test is at the top of the loop.
    Returns the new loop state and object, and whether the loop returned. -/
def stepArrival (qf : RepMap M → V × Int × Bool) (stream : Bool) (expected : Nat)
    (st : LoopSt V E M) (o : Obj V E) (a : Arrival M E) : Option (LoopSt V E M × Obj V E × Bool) :=
  match a with
  | .ctxDone c => (o.set st.resp st.clevel (some (.ctx c st.errs st.replies.length)) true).map (fun o' => (st, o', true))
  | .error n c => some ({ st with errs := st.errs ++ [(n, c)] }, o, false)
  | .reply n m =>
    let reps := st.replies.insert n m
    let (v, rlevel, quorum) := qf reps
    if quorum then
      let lvl := if rlevel < st.clevel then st.clevel else rlevel
      (o.set (some v) lvl none true).map (fun o' => ({ st with replies := reps, resp := some v }, o', true))
    else if rlevel > st.clevel then
      (o.set (some v) rlevel none false).map (fun o' => ({ st with replies := reps, resp := some v, clevel := rlevel }, o', false))
    else some ({ st with replies := reps, resp := some v }, o, false)

/-- the loop: snapshots of the object after the top-of-loop test and after every consumed arrival.
    `none` in the list = `set` panicked (never happens: theorem `run_never_panics`). -/
def run (qf : RepMap M → V × Int × Bool) (stream : Bool) (expected : Nat) :
    LoopSt V E M → Obj V E → List (Arrival M E) → List (Option (Obj V E))
  | st, o, as =>
    if exhausted stream st.errs.length st.replies.length expected then
      [o.set st.resp st.clevel (some (exhaustedErr st.errs st.replies.length as)) true]
    else match as with
      | [] => []
      | a :: as =>
        match stepArrival qf stream expected st o a with
        | none => [none]
        | some (st', o', returned) =>
          if returned then [some o'] else some o' :: run qf stream expected st' o' as

/-- `CorrectableCall` creates the object at `LevelNotSet` with no reply -/
def init : Obj V E := {}

end GorumsV.Correctable
