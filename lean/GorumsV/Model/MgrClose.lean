import GorumsV.Model.NodeConn
/-
  `Manager.Close` over the pool (mgr.go: `Close` → `closeOnce.Do(closeNodeConns)` → for every node of `m.Nodes()`:
  `node.close()`), interleaved with the dials of the nodes' senders.

  State: one `NodeConn.St` per node of the pool (in pool order), the position of Close's loop, and whether Close has
  returned.  Close's loop closes node `next`, then advances; a node's close can be delayed by a dial in progress on
  that node (`connMu`), during which the other nodes keep moving.  Two facts are parameters, read from the tree:
  the loop reaches every node (no early exit) and a second Close does nothing (`closeOnce`).
-/
namespace GorumsV.MgrClose
open GorumsV

structure Params where
  node : NodeConn.Params
  /-- the loop of `closeNodeConns` has no early exit: it calls close on every node of the pool -/
  reachesAll : Bool
  deriving Repr, DecidableEq

def Params.Good (P : Params) : Prop := P.node.Good ∧ P.reachesAll = true

structure St where
  nodes : List NodeConn.St
  closing : Bool := false      -- Close has been called (closeOnce has fired)
  next : Nat := 0              -- the node Close's loop is at
  returned : Bool := false     -- Close has returned
  deriving Repr, DecidableEq

inductive Label where
  | dialBegin (i : Nat)        -- the sender of node i enters dial
  | dialEnd (i : Nat) (ok : Bool)
  | closeCall                  -- Manager.Close is called (again)
  | closeNext                  -- Close's loop closes the node it is at and advances
  | closeReturn                -- the loop is over (or gave up early): Close returns
  deriving Repr, DecidableEq

def setNode (ns : List NodeConn.St) (i : Nat) (x : NodeConn.St) : List NodeConn.St := ns.set i x

def step (P : Params) (s : St) : Label → Option St
  | .dialBegin i =>
    match s.nodes[i]? with
    | none => none
    | some x => (NodeConn.step P.node x .dialBegin).map (fun x' => { s with nodes := setNode s.nodes i x' })
  | .dialEnd i ok =>
    match s.nodes[i]? with
    | none => none
    | some x => (NodeConn.step P.node x (.dialEnd ok)).map (fun x' => { s with nodes := setNode s.nodes i x' })
  | .closeCall => some { s with closing := true }      -- closeOnce: only the first call starts the loop; later calls change nothing
  | .closeNext =>
    if !s.closing || s.returned then none
    else
      match s.nodes[s.next]? with
      | none => none
      | some x => (NodeConn.step P.node x .close).map (fun x' => { s with nodes := setNode s.nodes s.next x', next := s.next + 1 })
  | .closeReturn =>
    if !s.closing || s.returned then none
    else if s.next < s.nodes.length && P.reachesAll then none     -- the loop is not over yet
    else some { s with returned := true }

def exec (P : Params) (s : St) : List Label → Option St
  | [] => some s
  | l :: ls => (step P s l).bind (fun s' => exec P s' ls)

/-- a pool of n nodes, none connected yet -/
def init (n : Nat) : St := { nodes := List.replicate n {} }

def Reachable (P : Params) (n : Nat) (s : St) : Prop := ∃ ls, exec P (init n) ls = some s

end GorumsV.MgrClose
