/-
  Model of the wire codec (encoding.go): the two-part frame
      varint(len md) ‖ md ‖ varint(len msg) ‖ msg
  with `protowire.AppendVarint` / `ConsumeVarint` / `ConsumeBytes` modelled
  exactly (64-bit LEB128, at most 10 bytes, the 10th byte < 2, negative result
  codes on error), and `gorumsUnmarshal` with its third-party pieces (protobuf
  parsing of the two parts, the descriptor and type registries) as oracle
  parameters.  The two places where the Go code can panic are explicit outcomes.
-/
namespace GorumsV.Codec

abbrev Bytes := List UInt8

/-- `protowire.AppendVarint` -/
def putUvarint (n : Nat) : Bytes :=
  if n < 128 then [UInt8.ofNat n] else UInt8.ofNat (n % 128 + 128) :: putUvarint (n / 128)
termination_by n
decreasing_by omega

def errTruncated : Int := -1
def errOverflow : Int := -3

/-- `protowire.ConsumeVarint`, byte `i` (0-based), value accumulated so far `acc`.
    Result: `.ok (value, bytes consumed)` or `.error code`. -/
def consumeVarintAux : Nat → Nat → Bytes → Except Int (Nat × Nat)
  | _, _, [] => .error errTruncated
  | i, acc, y :: rest =>
    if i ≥ 9 then
      if y.toNat < 2 then .ok (acc + y.toNat * 2 ^ 63, 10) else .error errOverflow
    else if y.toNat < 128 then .ok (acc + y.toNat * 2 ^ (7 * i), i + 1)
    else consumeVarintAux (i + 1) (acc + (y.toNat - 128) * 2 ^ (7 * i)) rest

def consumeVarint (b : Bytes) : Except Int (Nat × Nat) := consumeVarintAux 0 0 b

/-- `protowire.ConsumeBytes`: `(slice, n)`; on error the slice is empty (nil) and `n < 0`. -/
def consumeBytes (b : Bytes) : Bytes × Int :=
  match consumeVarint b with
  | .error c => ([], c)
  | .ok (m, n) =>
    if m > (b.drop n).length then ([], errTruncated)
    else ((b.drop n).take m, (n + m : Nat))

/-- `Codec.gorumsMarshal` on the already-serialised parts -/
def encodeFrame (md msg : Bytes) : Bytes :=
  putUvarint md.length ++ md ++ (putUvarint msg.length ++ msg)

inductive Dir | request | response
  deriving Repr, DecidableEq

/-- what the descriptor registry says about a name -/
inductive Lookup where
  | notFound
  | method (input output : String)
  | other                                -- a message, service, enum … — not a method
  deriving Repr, DecidableEq

/-- Third-party behaviour, as parameters. -/
structure Oracles (Md Msg : Type) where
  parseMetadata : Bytes → Option Md
  methodOf : Md → String
  lookup : String → Lookup
  hasType : String → Bool
  parseMsg : String → Bytes → Option Msg

inductive Result (Md Msg : Type) where
  | ok (md : Md) (type : String) (msg : Msg)
  | error (stage : String)
  | panic (why : String)
  deriving Repr

/-- the message type a direction selects: `Input()` for requests, `Output()` for responses -/
def pick (dir : Dir) (i o : String) : String := match dir with | .request => i | .response => o

/-- `Codec.gorumsUnmarshal`.  `checked`: is the descriptor assertion of the comma-ok form. -/
def unmarshal {Md Msg} (O : Oracles Md Msg) (checked : Bool) (dir : Dir) (b : Bytes) : Result Md Msg :=
  let (mdBuf, mdLen) := consumeBytes b
  match O.parseMetadata mdBuf with
  | none => .error "metadata"
  | some md =>
    match O.lookup (O.methodOf md) with
    | .notFound => .error "lookup"
    | .other => if checked then .error "not-a-method" else .panic "interface conversion"
    | .method i o =>
      let name := pick dir i o
      if !O.hasType name then .error "type"
      else if mdLen < 0 then .panic "slice bounds out of range"
      else
        let (msgBuf, _) := consumeBytes (b.drop mdLen.toNat)
        match O.parseMsg name msgBuf with
        | none => .error "message"
        | some m => .ok md name m

end GorumsV.Codec
