/-
  Model of data races for lock-protected variables (C15): traces of lock operations and
  accesses by threads, the happens-before relation induced by program order and by
  release → acquire edges of mutexes and read-write mutexes, and the *lock discipline*
  ("every access to x is made while holding lock l, writes exclusively").

  The generic theorem (Props/C15.lean) says that the discipline implies that any two
  conflicting accesses are ordered by happens-before, i.e. there is no data race in the
  sense of the Go memory model.  Which accesses the program makes, and which locks it holds
  at each of them, is extracted from the source by `gx` (trusted base; see DESIGN.md C15).
-/
namespace GorumsV.Race

abbrev Tid := Nat
abbrev Lock := Nat
abbrev Var := Nat

inductive Op where
  | acq (l : Lock)    -- Lock()
  | rel (l : Lock)    -- Unlock()
  | racq (l : Lock)   -- RLock()
  | rrel (l : Lock)   -- RUnlock()
  | read (x : Var)
  | write (x : Var)
  deriving Repr, DecidableEq

structure Ev where
  tid : Tid
  op : Op
  deriving Repr, DecidableEq

abbrev Trace := List Ev

/-- number of exclusive holds of `l` by thread `t` after the events of `tr` (acquisitions minus releases) -/
def xCount (t : Tid) (l : Lock) : Trace → Int
  | [] => 0
  | e :: es => xCount t l es + (if e.tid = t ∧ e.op = .acq l then 1 else if e.tid = t ∧ e.op = .rel l then -1 else 0)

/-- number of shared (read) holds of `l` by thread `t` -/
def rCount (t : Tid) (l : Lock) : Trace → Int
  | [] => 0
  | e :: es => rCount t l es + (if e.tid = t ∧ e.op = .racq l then 1 else if e.tid = t ∧ e.op = .rrel l then -1 else 0)

/-- `t` holds `l` exclusively just before the event at position `i` (counts are over the first `i` events;
    note the functions above recurse from the end, so we feed them the reversed prefix) -/
def holdsX (tr : Trace) (i : Nat) (t : Tid) (l : Lock) : Prop := 0 < xCount t l (tr.take i).reverse
def holdsR (tr : Trace) (i : Nat) (t : Tid) (l : Lock) : Prop := 0 < rCount t l (tr.take i).reverse

/-- the trace respects the semantics of the locks: at every point an exclusive holder excludes every other
    holder (exclusive or shared), and counts never go negative (no unlock of a lock that is not held) -/
structure WellLocked (tr : Trace) : Prop where
  exclusive : ∀ i t1 t2 l, i ≤ tr.length → t1 ≠ t2 → holdsX tr i t1 l → ¬ holdsX tr i t2 l ∧ ¬ holdsR tr i t2 l
  nonneg : ∀ i t l, 0 ≤ xCount t l (tr.take i).reverse ∧ 0 ≤ rCount t l (tr.take i).reverse

/-- one happens-before edge between positions `i < j`: program order, or a release of `l` followed by an
    acquisition of `l` (an `Unlock` synchronises with later `Lock`s and `RLock`s; an `RUnlock` with later `Lock`s) -/
def hbEdge (tr : Trace) (i j : Nat) : Prop :=
  i < j ∧ ∃ a b, tr[i]? = some a ∧ tr[j]? = some b ∧
    (a.tid = b.tid ∨
     ∃ l, (a.op = .rel l ∧ (b.op = .acq l ∨ b.op = .racq l)) ∨ (a.op = .rrel l ∧ b.op = .acq l))

/-- happens-before: the transitive closure of the edges -/
inductive hb (tr : Trace) : Nat → Nat → Prop where
  | edge {i j} : hbEdge tr i j → hb tr i j
  | trans {i j k} : hb tr i j → hb tr j k → hb tr i k

def accesses (e : Ev) (x : Var) : Prop := e.op = .read x ∨ e.op = .write x

/-- two accesses to `x` by different threads, at least one a write -/
def Conflict (tr : Trace) (x : Var) (i j : Nat) : Prop :=
  ∃ a b, tr[i]? = some a ∧ tr[j]? = some b ∧ a.tid ≠ b.tid ∧ accesses a x ∧ accesses b x ∧ (a.op = .write x ∨ b.op = .write x)

/-- the discipline "x is guarded by l": every write to x holds l exclusively, every read holds it exclusively or shared -/
def GuardedBy (tr : Trace) (x : Var) (l : Lock) : Prop :=
  ∀ i e, tr[i]? = some e →
    (e.op = .write x → holdsX tr i e.tid l) ∧ (e.op = .read x → holdsX tr i e.tid l ∨ holdsR tr i e.tid l)

end GorumsV.Race
