/-
  Model of the per-node connection management of channel.go as a labelled transition
  system: the sender goroutine (pop → connect → reconnect(1) → sendMsg), the receiver
  goroutine (RecvMsg → route | fail → cancelPendingMsgs → reconnect(-1)), the RW lock
  `streamMut` with Go's writer preference, the atomic flag `streamBroken`, the router
  lock `responseMut` (held while a response is put on a reply channel), stream
  generations, the send queue as a counter, Close; and the requests written to a stream that
  has died and that are still unanswered (`lost`): `cancelPendingMsgs` answers them — the
  receiver runs it when it sees a stream fail, and `reconnect` runs it (for the requests that
  have been handed to a stream) under the write lock before it replaces a stream.

  Every label is one synchronisation-relevant statement of the code; the environment
  labels are what the peer, the timers, the callers and `Close` can do.  `step` is
  executable.  `Stuck` says that nothing the library or a well-behaved peer does is
  enabled although something is owed.
-/
namespace GorumsV.ConnMgr

/-- program counter of the sender goroutine -/
inductive SPc where
  | idle        -- select { parentCtx.Done | req = <-sendQ }
  | eval        -- has a request: `if !c.isConnected()`
  | dial        -- connect(): connEstablished is false: dial + newNodeStream
  | connB       -- connect(): `if c.streamBroken.get()`  (second read of the flag)
  | rcPre       -- reconnect(1) entered, `Lock()` not yet called (the flag was read as true in connect())
  | rcWant      -- reconnect(1): `c.streamMut.Lock()` (pending writer)
  | rcHeld      -- reconnect(1): holds the write lock
  | rcBlocked   -- reconnect(1): holds the write lock and `responseMut`, blocked in cancelPendingMsgs sending on a full reply channel
  | rcSleep     -- reconnect(1): select { time.After(delay) | parentCtx.Done }
  | brokenChk   -- sender(): `if c.streamBroken.get()` → route "stream is down"
  | wantR       -- sendMsg(): `c.streamMut.RLock()`
  | sending     -- sendMsg(): holds the read lock, inside SendMsg
  | exited
  deriving Repr, DecidableEq

/-- program counter of the receiver goroutine -/
inductive RPc where
  | absent      -- not started yet (no stream was ever created)
  | top         -- `c.streamMut.RLock()`
  | reading     -- holds the read lock, inside RecvMsg
  | deliver     -- routeResponse: wants `responseMut`, then sends on the call's reply channel
  | blockedSend -- holds `responseMut`, blocked sending on a full reply channel (streaming call whose loop has ended)
  | cancel      -- failure path: cancelPendingMsgs (wants `responseMut`)
  | rcWant      -- reconnect(-1): `c.streamMut.Lock()`
  | rcHeld      -- reconnect(-1): holds the write lock
  | rcBlocked   -- reconnect(-1): holds the write lock and `responseMut`, blocked in cancelPendingMsgs sending on a full reply channel
  | rcSleep     -- reconnect(-1): back-off sleep
  | exitChk     -- `select { parentCtx.Done: cancelPendingMsgs; return; default }`
  | cancelExit  -- the node was closed: cancelPendingMsgs before returning (wants `responseMut`)
  | exited
  deriving Repr, DecidableEq

inductive Who where
  | sender | receiver
  deriving Repr, DecidableEq

structure St where
  spc : SPc := .idle
  rpc : RPc := .absent
  established : Bool := false     -- connEstablished
  broken : Bool := false          -- streamBroken
  readS : Bool := false           -- sender holds streamMut for reading
  readR : Bool := false           -- receiver holds streamMut for reading
  writer : Option Who := none     -- holder of streamMut for writing
  alive : Bool := false           -- the current stream object works (not cancelled, peer connection intact)
  inflight : Nat := 0             -- requests written to the current stream whose answers have not been read yet
  lost : Nat := 0                 -- requests written to a stream that has died, not yet answered by cancelPendingMsgs
  queued : Nat := 0               -- requests handed to the channel and not yet popped by the sender
  retriesS : Nat := 0             -- `retries` of the sender's reconnect(1)
  peerUp : Bool := true           -- the server accepts connections and streams
  fullStream : Bool := false      -- a streaming router exists whose reply channel is full and whose call loop has ended
  closed : Bool := false          -- parentCtx cancelled (Manager.Close)
  deriving Repr, DecidableEq

inductive Label where
  -- sender
  | sPop | sEval | sDial | sConnB | sRcEnter | sRcLock | sRcDo | sRcDoBlock | sRcWake | sBrokenChk | sRLock | sSendOk | sSendFail | sExit
  -- receiver
  | rRLock | rRecvMsg | rRecvErr | rDeliver | rDeliverBlock | rCancel | rCancelBlock | rRcLock | rRcDo | rRcDoBlock | rRcWake | rExitChk | rCancelExit | rCancelExitBlock
  -- environment
  | eRequest          -- a caller hands a request to the channel
  | eStreamFail       -- the current stream dies: cancelStream() by a watcher, the peer crashes, a transport error
  | ePeerDown | ePeerUp
  | eFullStream       -- a server-stream call ends while its reply channel is full (its router is still registered)
  | eDeleteRouter     -- that call's deferred deleteRouter runs (needs responseMut)
  | eClose            -- Manager.Close: cancel parentCtx (all streams die with it)
  deriving Repr, DecidableEq

def lockFree (s : St) : Bool := !s.readS && !s.readR && s.writer.isNone
/-- Go's RWMutex: a pending `Lock` blocks new `RLock`s -/
def writerPending (s : St) : Bool := s.spc == .rcWant || s.rpc == .rcWant

/-- a new stream object becomes the current one; what was in flight on the old one will not be answered by it -/
def newStream (s : St) : St := { s with alive := true, lost := s.lost + s.inflight, inflight := 0, broken := false }
/-- the current stream dies: its answers will not come -/
def killStream (s : St) : St := { s with alive := false, lost := s.lost + s.inflight, inflight := 0 }
/-- `reconnect` replaces the stream: under the write lock it first answers the requests that were written to
    older streams (`cancelPendingMsgs(true)`), then creates the new stream -/
def replaceStream (s : St) : St := { newStream s with lost := 0 }

def step (s : St) : Label → Option St
  -- ---------------------------------------------------------------- sender
  | .sPop => if s.spc == .idle && s.queued > 0 && !s.closed then some { s with spc := .eval, queued := s.queued - 1 } else none
  -- the node was closed: the sender answers what is left in the queue and returns
  | .sExit => if s.spc == .idle && s.closed then some { s with spc := .exited, queued := 0 } else none
  | .sEval =>
    if s.spc != .eval then none
    else if s.established && !s.broken then some { s with spc := .brokenChk }      -- isConnected: skip connect()
    else if !s.established then some { s with spc := .dial }
    else some { s with spc := .connB }
  | .sDial =>
    if s.spc != .dial then none
    else if s.peerUp && !s.closed then
      some { newStream s with spc := .connB, established := true, rpc := if s.rpc == .absent then .top else s.rpc }
    else some { s with spc := .brokenChk, broken := true }
  | .sConnB =>
    if s.spc != .connB then none
    else if s.broken then some { s with spc := .rcPre, retriesS := 0 } else some { s with spc := .brokenChk }
  | .sRcEnter => if s.spc == .rcPre then some { s with spc := .rcWant } else none
  | .sRcLock => if s.spc == .rcWant && lockFree s then some { s with spc := .rcHeld, writer := some .sender } else none
  | .sRcDo =>
    if s.spc != .rcHeld then none
    else if !s.broken then some { s with spc := .brokenChk, writer := none }           -- stream is already up
    else if s.fullStream then none                                                       -- cancelPendingMsgs would block: see sRcDoBlock
    else if s.peerUp && !s.closed then some { replaceStream s with spc := .brokenChk, writer := none }
    else if s.retriesS ≥ 1 then some { s with spc := .brokenChk, writer := none, broken := true, lost := 0 }   -- give up
    else some { s with spc := .rcSleep, writer := none, lost := 0 }
  -- the stream is broken and a streaming router's reply channel is full: cancelPendingMsgs blocks under both locks
  | .sRcDoBlock => if s.spc == .rcHeld && s.broken && s.fullStream then some { s with spc := .rcBlocked } else none
  | .sRcWake => if s.spc == .rcSleep then (if s.closed then some { s with spc := .brokenChk } else some { s with spc := .rcWant, retriesS := s.retriesS + 1 }) else none
  | .sBrokenChk =>
    if s.spc != .brokenChk then none
    else if s.broken then some { s with spc := .idle }          -- routeResponse(stream is down); continue
    else some { s with spc := .wantR }
  | .sRLock => if s.spc == .wantR && s.writer.isNone && !writerPending s then some { s with spc := .sending, readS := true } else none
  | .sSendOk => if s.spc == .sending && s.alive then some { s with spc := .idle, readS := false, inflight := s.inflight + 1 } else none
  | .sSendFail => if s.spc == .sending && !s.alive then some { s with spc := .idle, readS := false, broken := true } else none
  -- ---------------------------------------------------------------- receiver
  | .rRLock => if s.rpc == .top && s.writer.isNone && !writerPending s then some { s with rpc := .reading, readR := true } else none
  | .rRecvMsg => if s.rpc == .reading && s.alive && s.inflight > 0 then some { s with rpc := .deliver, readR := false, inflight := s.inflight - 1 } else none
  | .rRecvErr => if s.rpc == .reading && !s.alive then some { s with rpc := .cancel, readR := false, broken := true } else none
  | .rDeliver => if s.rpc == .deliver then some { s with rpc := .exitChk } else none
  | .rDeliverBlock => if s.rpc == .deliver && s.fullStream then some { s with rpc := .blockedSend } else none
  | .rCancel => if s.rpc == .cancel && !s.fullStream then some { s with rpc := .rcWant, lost := 0 } else none
  | .rCancelBlock => if s.rpc == .cancel && s.fullStream then some { s with rpc := .blockedSend } else none
  | .rRcLock => if s.rpc == .rcWant && lockFree s then some { s with rpc := .rcHeld, writer := some .receiver } else none
  | .rRcDo =>
    if s.rpc != .rcHeld then none
    else if !s.broken then some { s with rpc := .exitChk, writer := none }
    else if s.fullStream then none                                                       -- cancelPendingMsgs would block: see rRcDoBlock
    else if s.peerUp && !s.closed then some { replaceStream s with rpc := .exitChk, writer := none }
    else some { s with rpc := .rcSleep, writer := none, lost := 0 }
  | .rRcDoBlock => if s.rpc == .rcHeld && s.broken && s.fullStream then some { s with rpc := .rcBlocked } else none
  | .rRcWake => if s.rpc == .rcSleep then (if s.closed then some { s with rpc := .exitChk } else some { s with rpc := .rcWant }) else none
  | .rExitChk => if s.rpc == .exitChk then some { s with rpc := if s.closed then .cancelExit else .top } else none
  | .rCancelExit => if s.rpc == .cancelExit && !s.fullStream then some { s with rpc := .exited, lost := 0 } else none
  | .rCancelExitBlock => if s.rpc == .cancelExit && s.fullStream then some { s with rpc := .blockedSend } else none
  -- ---------------------------------------------------------------- environment
  | .eRequest => if s.closed then none else some { s with queued := s.queued + 1 }
  | .eStreamFail => if s.alive then some (killStream s) else none
  | .ePeerDown => some { killStream s with peerUp := false }
  | .ePeerUp => some { s with peerUp := true }
  | .eFullStream => some { s with fullStream := true }
  | .eDeleteRouter => if s.rpc == .blockedSend || s.rpc == .rcBlocked || s.spc == .rcBlocked then none else some { s with fullStream := false }
  | .eClose => some { killStream s with closed := true }

def exec (s : St) : List Label → Option St
  | [] => some s
  | l :: ls => (step s l).bind (fun s' => exec s' ls)

def init : St := {}
def Reachable (s : St) : Prop := ∃ ls, exec init ls = some s

/-- labels the library itself executes -/
def libLabels : List Label :=
  [.sPop, .sEval, .sDial, .sConnB, .sRcEnter, .sRcLock, .sRcDo, .sRcDoBlock, .sBrokenChk, .sRLock, .sSendOk, .sSendFail, .sExit,
   .rRLock, .rRecvMsg, .rRecvErr, .rDeliver, .rCancel, .rCancelBlock, .rRcLock, .rRcDo, .rRcDoBlock, .rExitChk, .rCancelExit, .rCancelExitBlock]

/-- what a well-behaved environment does on its own: timers fire, a reachable peer answers what it was sent
    (`rRecvMsg` is in `libLabels`: it is enabled exactly when an answer is owed on a live stream) -/
def benignLabels : List Label := [.sRcWake, .rRcWake]

/-- `rDeliverBlock` is the receiver's *other* way out of `deliver`: whenever it is enabled so is `rDeliver`
    (which of the two happens depends on which router the message is for) -/
def enabled (s : St) (l : Label) : Bool := (step s l).isSome

/-- something is owed: a request is queued or being handled, answers are in flight, or requests written to
    a dead stream have not been answered yet -/
def owes (s : St) : Bool := s.queued > 0 || (s.spc != .idle && s.spc != .exited) || s.inflight > 0 || s.lost > 0

/-- nothing the library or a well-behaved environment does can happen -/
def Stuck (s : St) : Bool := (libLabels ++ benignLabels).all (fun l => !enabled s l)

/-- **W1 (stale broken)**: the sender waits for the write lock in reconnect(1) while the receiver,
    having already re-created the stream, is parked in RecvMsg on a live idle stream holding the read lock -/
def ShapeStaleBroken (s : St) : Bool :=
  s.spc == .rcWant && s.rpc == .reading && s.readR && s.alive && s.inflight == 0

/-- **W2 (stream back-pressure)**: a library goroutine is blocked sending on a full reply channel while holding
    `responseMut`: the receiver in `routeResponse` / `cancelPendingMsgs`, or either goroutine in the
    `cancelPendingMsgs` of `reconnect` (then also holding the write lock) -/
def ShapeBackpressure (s : St) : Bool := s.rpc == .blockedSend || s.rpc == .rcBlocked || s.spc == .rcBlocked

/-- a cancellation of the pending requests is on its way: the receiver is about to run `cancelPendingMsgs`
    (or is blocked in it), or the current stream is dead — then the receiver finds it dead at its next read, or
    whoever replaces it answers the pending requests first -/
def CancelComing (s : St) : Bool :=
  !s.alive || s.rpc == .cancel || s.rpc == .cancelExit || s.rpc == .blockedSend || s.rpc == .rcBlocked || s.spc == .rcBlocked

/-- the receiver is parked in `RecvMsg` on a live stream on which nothing is in flight -/
def Parked (s : St) : Bool := s.rpc == .reading && s.alive && s.inflight == 0

/-- the pinned code: `reconnect` replaces the stream without answering the requests written to the old one -/
def stepPinned (s : St) (l : Label) : Option St :=
  match l with
  | .sRcDo =>
    if s.spc != .rcHeld then none
    else if !s.broken then some { s with spc := .brokenChk, writer := none }
    else if s.peerUp && !s.closed then some { newStream s with spc := .brokenChk, writer := none }
    else if s.retriesS ≥ 1 then some { s with spc := .brokenChk, writer := none, broken := true }
    else some { s with spc := .rcSleep, writer := none }
  | .rRcDo =>
    if s.rpc != .rcHeld then none
    else if !s.broken then some { s with rpc := .exitChk, writer := none }
    else if s.peerUp && !s.closed then some { newStream s with rpc := .exitChk, writer := none }
    else some { s with rpc := .rcSleep, writer := none }
  | .sRcDoBlock => none
  | .rRcDoBlock => none
  | l => step s l

def execPinned (s : St) : List Label → Option St
  | [] => some s
  | l :: ls => (stepPinned s l).bind (fun s' => execPinned s' ls)

end GorumsV.ConnMgr
