/-
  Model of a node's gRPC client connection (node.go: `RawNode.dial`, `RawNode.close`, field `conn`, `closed`,
  mutex `connMu`).  The sender goroutine of the node's channel dials (first connection, and again whenever
  `connEstablished` is not set); `Manager.Close` → `closeNodeConns` → `RawNode.close` closes.

      dial():  connMu.Lock(); defer connMu.Unlock()
               if n.closed { return "node closed" }
               if n.conn != nil { n.conn.Close() }              -- the connection it replaces
               n.conn, err = grpc.DialContext(...)
      close(): n.cancel(); connMu.Lock(); defer connMu.Unlock()
               n.closed = true; if n.conn == nil { return }; n.conn.Close()

  What the property (C12: every connection the manager created is closed once Close has returned) needs of
  this code are four facts, which are parameters here and are read from the tree on every run (Tie/C12).
  A connection that is "live" stands for its sockets and the goroutines gRPC runs for it.
-/
namespace GorumsV.NodeConn

structure Params where
  /-- dial refuses ("node closed") once close has run -/
  checksClosed : Bool
  /-- dial closes the connection it is about to replace -/
  closesOld : Bool
  /-- `connMu` is held from dial's closed test until `n.conn` is assigned (Lock + deferred Unlock, nothing in between) -/
  lockedDial : Bool
  /-- close sets `closed` and closes `n.conn`, under `connMu` -/
  closeCloses : Bool
  deriving Repr, DecidableEq

def Params.Good (P : Params) : Prop :=
  P.checksClosed = true ∧ P.closesOld = true ∧ P.lockedDial = true ∧ P.closeCloses = true

structure St where
  closed : Bool := false
  conn : Option Nat := none      -- `n.conn` (a closed connection stays in the field until it is replaced)
  live : List Nat := []          -- connections this node created and has not closed
  next : Nat := 0                -- fresh connection names
  dialing : Bool := false        -- a dial is between its closed test and the assignment of `n.conn`
  deriving Repr, DecidableEq

inductive Label where
  | dialBegin              -- the sender enters dial: closed test, closing of the old connection
  | dialEnd (ok : Bool)    -- DialContext returned; `n.conn` is assigned (nil on failure)
  | close                  -- RawNode.close
  deriving Repr, DecidableEq

def closeConn (live : List Nat) : Option Nat → List Nat
  | none => live
  | some c => live.filter (· != c)

def step (P : Params) (s : St) : Label → Option St
  | .dialBegin =>
    if s.dialing then none                               -- one goroutine dials (the channel's sender)
    else if P.checksClosed && s.closed then some s       -- "node closed"
    else some { s with dialing := true, live := if P.closesOld then closeConn s.live s.conn else s.live }
  | .dialEnd ok =>
    if !s.dialing then none
    else if ok then some { s with dialing := false, conn := some s.next, live := s.live ++ [s.next], next := s.next + 1 }
    else some { s with dialing := false, conn := none }
  | .close =>
    if P.lockedDial && s.dialing then none               -- blocked on `connMu` until the dial has returned
    else some { s with closed := true, live := if P.closeCloses then closeConn s.live s.conn else s.live }

def exec (P : Params) (s : St) : List Label → Option St
  | [] => some s
  | l :: ls => (step P s l).bind (fun s' => exec P s' ls)

def init : St := {}
def Reachable (P : Params) (s : St) : Prop := ∃ ls, exec P init ls = some s

end GorumsV.NodeConn
