/-
  Model of the generator's decision logic for one service method
  (cmd/protoc-gen-gorums/gengorums/gorums.go: `validateOptions`, `hasGorumsMethods`, the
  `chkFn`s of `gorumsCallTypesInfo`; the templates' choice of runtime entry point, server
  handler shape and quorum-function entry) — the code as repaired by the C16 "fix:" commit.
-/
namespace GorumsV.Gen

/-- the method options and stream flags the generator looks at (only their presence matters) -/
structure Opts where
  rpc : Bool
  unicast : Bool
  multicast : Bool
  quorumcall : Bool
  correctable : Bool
  async : Bool
  perNode : Bool
  custom : Bool
  clientStream : Bool
  serverStream : Bool
  deriving Repr, DecidableEq

def b2n (b : Bool) : Nat := if b then 1 else 0

/-- number of call type options given -/
def nCallTypes (o : Opts) : Nat := b2n o.rpc + b2n o.unicast + b2n o.multicast + b2n o.quorumcall + b2n o.correctable

/-- `hasGorumsCallType`: one of quorumcall, async, correctable, multicast, unicast -/
def hasCallType (o : Opts) : Bool := o.quorumcall || o.async || o.correctable || o.multicast || o.unicast

/-- `validateOptions`: the class of the diagnostic, or `none` when the combination is accepted.
    The cases are tried in this order. -/
def validate (o : Opts) : Option String :=
  if nCallTypes o > 1 then some "call-types-combined"
  else if o.perNode && !hasCallType o then some "per-node-needs-call-type"
  else if o.async && !o.quorumcall then some "async-needs-quorumcall"
  else if !o.multicast && o.clientStream then some "client-stream-needs-multicast"
  else if !o.correctable && o.serverStream then some "server-stream-needs-correctable"
  else if o.correctable && o.clientStream then some "correctable-client-stream"
  else none

/-- which client templates fire for the method (`chkFn`s), as "Receiver.runtimeEntryPoint",
    in the order of the sorted template names (async, correctable, multicast, quorumcall, rpc, unicast) -/
def stubs (o : Opts) : List String :=
  (if o.quorumcall && o.async then ["Configuration.AsyncCall"] else []) ++
  (if o.correctable then ["Configuration.CorrectableCall"] else []) ++
  (if o.multicast then ["Configuration.Multicast"] else []) ++
  (if o.quorumcall && !o.async then ["Configuration.QuorumCall"] else []) ++
  (if !hasCallType o then ["Node.RPCCall"] else []) ++
  (if o.unicast then ["Node.Unicast"] else [])

/-- the server-side handler shape (`isOneway`, `correctableStream` of the server template) -/
def serverShape (o : Opts) : String :=
  if o.multicast || o.unicast then "oneway"
  else if o.correctable && o.serverStream then "stream"
  else "unary"

/-- does the method get a quorum function in the `QuorumSpec` interface (`qspecMethods`) -/
def hasQF (o : Opts) : Bool := o.quorumcall || o.correctable

/-- does the emitted stub pass the per-node function on -/
def perNodeSet (o : Opts) : Bool := o.perNode && (o.multicast || o.quorumcall || o.correctable)

end GorumsV.Gen
