/-
  Model of the node sorters (node.go:215-256): `MultiSorter.Less`, the three
  provided keys, and a reference sort used to predict key sequences.
-/
namespace GorumsV.NodeSort

/-- what the provided keys can see of a node -/
structure Key where
  id : Nat
  port : Int
  hasErr : Bool
  deriving Repr, DecidableEq

abbrev LessFn := Key → Key → Bool

/-- `MultiSorter.Less`: every key but the last decides only when it is strict one
    way or the other; the last key's verdict is returned as is.
    `none` = index out of range panic (`OrderedBy()` without keys). -/
def multiLess : List LessFn → Key → Key → Option Bool
  | [], _, _ => none
  | [k], p, q => some (k p q)
  | k :: k' :: ks, p, q =>
      if k p q then some true
      else if k q p then some false
      else multiLess (k' :: ks) p q

/-- lexicographic "less" by a key list -/
def lexLt : List LessFn → Key → Key → Bool
  | [], _, _ => false
  | k :: ks, p, q => k p q || (!k q p && lexLt ks p q)

/-- the provided keys, as the property reads them -/
def byID : LessFn := fun a b => decide (a.id < b.id)
def byPort : LessFn := fun a b => decide (a.port < b.port)
/-- a node without a last error is smaller than a node with one -/
def byLastErr : LessFn := fun a b => !a.hasErr && b.hasErr

/-- reference sort (insertion sort) -/
def ins (lt : LessFn) (x : Key) : List Key → List Key
  | [] => [x]
  | y :: ys => if lt y x then y :: ins lt x ys else x :: y :: ys
  -- x goes before the first y with ¬ (y < x)

def isort (lt : LessFn) : List Key → List Key
  | [] => []
  | x :: xs => ins lt x (isort lt xs)

end GorumsV.NodeSort
