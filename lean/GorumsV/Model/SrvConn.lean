/-
  Model of the server side of one client connection (server.go: `NodeStream`,
  `ServerCtx.Release`, and the generated handler wrapper with its deferred Release).

      mut.Lock()                                  -- start with a locked mutex
      for { req := RecvMsg(); go handler(req); mut.Lock() }
      handler wrapper: defer ctx.Release(); impl(...)      Release = once.Do(mut.Unlock)

  A labelled transition system with an executable `step`.  One state per connection:
  connections share nothing (the mutex is a local variable of `NodeStream`).
-/
namespace GorumsV.SrvConn

abbrev ReqId := Nat

structure Handler where
  req : ReqId
  released : Bool := false   -- this request's `once` has fired (the mutex was unlocked on its behalf)
  returned : Bool := false
  deriving Repr, DecidableEq

structure State where
  locked : Bool := true            -- the mutex; `NodeStream` starts by locking it
  loopWaiting : Bool := false      -- the receive loop is blocked in `mut.Lock()` after starting a handler
  handlers : List Handler := []    -- in start order
  fatal : Bool := false            -- "sync: unlock of unlocked mutex" would have killed the process
  deriving Repr, DecidableEq

inductive Label where
  | recv (r : ReqId)       -- the loop receives the next request and starts its handler (`go handler`), then waits for the mutex
  | release (r : ReqId)    -- the handler of r (or a helper goroutine it started) calls `ctx.Release()`
  | ret (r : ReqId)        -- the handler of r returns: the wrapper's deferred `ctx.Release()` runs
  | acquire                -- the loop's `mut.Lock()` succeeds
  deriving Repr, DecidableEq

def fire (s : State) (r : ReqId) : State :=
  -- once.Do(mut.Unlock): only the first call for this request unlocks
  match s.handlers.find? (fun h => h.req == r) with
  | none => s
  | some h =>
    if h.released then s
    else
      let hs := s.handlers.map (fun h' => if h'.req == r then { h' with released := true } else h')
      if s.locked then { s with handlers := hs, locked := false }
      else { s with handlers := hs, fatal := true }

def step (s : State) : Label → Option State
  | .recv r =>
    if s.loopWaiting || s.fatal || s.handlers.any (fun h => h.req == r) then none
    else some { s with handlers := s.handlers ++ [{ req := r }], loopWaiting := true }
  | .release r =>
    if s.handlers.any (fun h => h.req == r && !h.returned) then some (fire s r) else none
  | .ret r =>
    if s.handlers.any (fun h => h.req == r && !h.returned) then
      let s' := fire s r
      some { s' with handlers := s'.handlers.map (fun h => if h.req == r then { h with returned := true } else h) }
    else none
  | .acquire =>
    if s.loopWaiting && !s.locked then some { s with locked := true, loopWaiting := false } else none

def exec (s : State) : List Label → Option State
  | [] => some s
  | l :: ls => (step s l).bind (fun s' => exec s' ls)

def init : State := {}

/-- number of handlers that have been started and have not released yet -/
def unreleased (s : State) : Nat := (s.handlers.filter (fun h => !h.released)).length

/-- the order in which handlers were started -/
def started (s : State) : List ReqId := s.handlers.map (·.req)

end GorumsV.SrvConn
