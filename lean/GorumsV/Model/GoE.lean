/-
  GoE — the small expression language into which the extractor `gx`
  (/verif/tools/gx) translates the *decision expressions* it finds in the Go
  source on every run (tier T1 of DESIGN.md).

  Everything that is not an operator becomes an atom named by its canonical
  source text (`len(errs)`, `state.expectedReplies`, `c.streamBroken.get()` …);
  an environment maps atoms to values.  `ev` follows Go: `&&`/`||` are
  short-circuiting, comparison needs equal dynamic kinds, arithmetic is on
  unbounded integers (overflow of `int` is out of scope: the quantities are
  lengths of in-memory slices).
-/
namespace GorumsV.GoE

inductive V where
  | int (n : Int)
  | bool (b : Bool)
  | ref (id : Nat)        -- an opaque comparable value (error value, pointer …)
  | nil
  | bad                   -- type error: the translated expression is not in the fragment
  deriving Repr, DecidableEq, Inhabited

inductive E where
  | atom (name : String)
  | int (n : Int)
  | bool (b : Bool)
  | nil
  | not (a : E)
  | and (a b : E)
  | or (a b : E)
  | eq (a b : E)
  | ne (a b : E)
  | lt (a b : E)
  | le (a b : E)
  | gt (a b : E)
  | ge (a b : E)
  | add (a b : E)
  | sub (a b : E)
  | ite (c a b : E)       -- normalised `if c { return a }; return b`
  | missing (why : String) -- the extractor did not find the decision point
  deriving Repr, DecidableEq, Inhabited

abbrev Env := String → V

def veq : V → V → V
  | .int a, .int b => .bool (a == b)
  | .bool a, .bool b => .bool (a == b)
  | .ref a, .ref b => .bool (a == b)
  | .nil, .nil => .bool true
  | .nil, .ref _ => .bool false
  | .ref _, .nil => .bool false
  | _, _ => .bad

def vnot : V → V
  | .bool b => .bool (!b)
  | _ => .bad

def vcmp (f : Int → Int → Bool) : V → V → V
  | .int a, .int b => .bool (f a b)
  | _, _ => .bad

def varith (f : Int → Int → Int) : V → V → V
  | .int a, .int b => .int (f a b)
  | _, _ => .bad

/-- `&&`: the right operand is not looked at when the left one is false (short circuit) -/
def vand : V → V → V
  | .bool false, _ => .bool false
  | .bool true, .bool x => .bool x
  | _, _ => .bad

/-- `||` -/
def vor : V → V → V
  | .bool true, _ => .bool true
  | .bool false, .bool x => .bool x
  | _, _ => .bad

@[simp] theorem vand_bool (a b : Bool) : vand (.bool a) (.bool b) = .bool (a && b) := by cases a <;> rfl
@[simp] theorem vor_bool (a b : Bool) : vor (.bool a) (.bool b) = .bool (a || b) := by cases a <;> rfl
@[simp] theorem vand_false (v : V) : vand (.bool false) v = .bool false := rfl
@[simp] theorem vor_true (v : V) : vor (.bool true) v = .bool true := rfl

def ev (env : Env) : E → V
  | .atom n => env n
  | .int n => .int n
  | .bool b => .bool b
  | .nil => .nil
  | .not a => vnot (ev env a)
  | .and a b => vand (ev env a) (ev env b)
  | .or a b => vor (ev env a) (ev env b)
  | .eq a b => veq (ev env a) (ev env b)
  | .ne a b => vnot (veq (ev env a) (ev env b))
  | .lt a b => vcmp (fun x y => decide (x < y)) (ev env a) (ev env b)
  | .le a b => vcmp (fun x y => decide (x ≤ y)) (ev env a) (ev env b)
  | .gt a b => vcmp (fun x y => decide (x > y)) (ev env a) (ev env b)
  | .ge a b => vcmp (fun x y => decide (x ≥ y)) (ev env a) (ev env b)
  | .add a b => varith (· + ·) (ev env a) (ev env b)
  | .sub a b => varith (· - ·) (ev env a) (ev env b)
  | .ite c a b => match ev env c with
      | .bool true => ev env a
      | .bool false => ev env b
      | _ => .bad
  | .missing _ => .bad

/-- Boolean reading of a value; a value outside the fragment reads as `none`. -/
def V.toBool? : V → Option Bool
  | .bool b => some b
  | _ => none

def V.toInt? : V → Option Int
  | .int n => some n
  | _ => none

/-- environment from an association list; unknown atoms are `bad` -/
def envOf (l : List (String × V)) : Env := fun n =>
  match l.find? (fun p => p.1 == n) with
  | some p => p.2
  | none => .bad

end GorumsV.GoE
