/-
  Lock discipline of the client and server runtime as a table: one row per operation that can block, per lock
  acquisition and per call to a method of the package's own structures (channel, RawNode, RawManager, Correctable),
  with the locks held at that point.  The table is regenerated from the source on every run (gx, lock-set walk);
  the functions below compute from it
    * the lock order (which lock is acquired — directly or through calls — while which is held), and
    * the places where the code can block while it holds a lock,
  the two things the hand-written LTS `ConnMgr` (and `NodeConn`, `SrvConn`) must account for completely: every
  wedge the model knows is a blocking operation under a lock, and a blocking operation under a lock that the model
  does not have is a way to get stuck that the theorems of C09 / C12 do not cover.
-/
namespace GorumsV.LockOrder

structure Row where
  fn : String
  kind : String          -- lock | send | recv | select | call | method
  arg : String
  locks : List String    -- held, an RWMutex without its mode
  modes : List String    -- held, with modes (streamMut:R / streamMut:W)
  deriving Repr, DecidableEq

def ownLocks (t : List Row) (fn : String) : List String :=
  t.filterMap fun r => if r.fn == fn && r.kind == "lock" then some r.arg else none

def callees (t : List Row) (fn : String) : List String :=
  t.filterMap fun r => if r.fn == fn && r.kind == "method" then some r.arg else none

/-- locks acquired by `fn`, directly or through calls of depth ≤ k -/
def locksReach (t : List Row) : Nat → String → List String
  | 0, fn => ownLocks t fn
  | k + 1, fn => ownLocks t fn ++ (callees t fn).flatMap (locksReach t k)

/-- held → acquired -/
def edges (t : List Row) (depth : Nat) : List (String × String) :=
  (t.flatMap fun r => r.locks.flatMap fun h =>
    if r.kind == "lock" then [(h, r.arg)]
    else if r.kind == "method" then (locksReach t depth r.arg).map (fun l => (h, l))
    else []).eraseDups

def succs (es : List (String × String)) (n : String) : List String :=
  es.filterMap fun e => if e.1 == n then some e.2 else none

def reach (es : List (String × String)) : Nat → List String → List String
  | 0, ns => ns
  | k + 1, ns => reach es k (ns ++ ns.flatMap (succs es)).eraseDups

/-- no lock is reachable from itself along the order (fuel ≥ number of locks) -/
def acyclic (es : List (String × String)) (fuel : Nat) : Bool :=
  (es.map (·.1)).all fun n => !((reach es fuel (succs es n)).contains n)

/-- blocking primitives executed while a lock is held: (function, primitive, argument, locks with modes) -/
def blockingUnderLock (t : List Row) : List (String × String × String × List String) :=
  (t.filterMap fun r =>
    if !r.locks.isEmpty && (r.kind == "send" || r.kind == "recv" || r.kind == "select" || r.kind == "call")
    then some (r.fn, r.kind, r.arg, r.modes) else none).eraseDups

/-- the blocking sites the models account for, with the model step that stands for each -/
def modelledSites : List ((String × String × String × List String) × String) := [
  (("RawNode.dial", "call", "DialContext", ["connMu:RawNode"]), "NodeConn: dialBegin … dialEnd with lockedDial (close waits)"),
  (("channel.cancelPendingMsgs", "send", "router.c", ["responseMut"]), "ConnMgr: rCancel / rCancelBlock, the back-pressure wedge"),
  (("channel.newNodeStream", "call", "NodeStream", ["streamMut:W"]), "ConnMgr: sDial (first stream, before the receiver exists)"),
  (("channel.receiver", "call", "RecvMsg", ["streamMut:R"]), "ConnMgr: rRLock … rRecvMsg / rRecvErr, the stale-broken wedge"),
  (("channel.reconnect", "call", "NodeStream", ["streamMut:W"]), "ConnMgr: sRcDo / rRcDo under the write lock"),
  (("channel.routeResponse", "send", "router.c", ["responseMut"]), "ConnMgr: rDeliver / blockedSend, the back-pressure wedge"),
  (("channel.sendMsg", "call", "SendMsg", ["streamMut:R"]), "ConnMgr: sending (sSendOk / sSendFail) under the read lock"),
  (("orderingServer.NodeStream", "call", "RecvMsg", ["mut"]), "SrvConn: recv with the handler mutex held by the loop"),
  (("orderingServer.NodeStream", "lock", "mut", ["mut"]), "SrvConn: loopWaiting … acquire")]

end GorumsV.LockOrder
