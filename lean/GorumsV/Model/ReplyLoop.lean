/-
  Model of the reply loops of the quorum-call family:
    quorumcall.go  RawConfiguration.QuorumCall      (the `for { select … }` loop)
    async.go       RawConfiguration.handleAsyncCall (same loop, result stored in the future)
    rpc.go         RawNode.RPCCall                  (one-node, no quorum function)
    multicast.go   the send-confirmation wait loop  (a counter)
  and of the per-node targeting loop shared by all call types.

  The model is executable and total.  The nondeterminism of the real loop
  (which answer the `select` sees next, and when the context ends) is the
  *input*: a list of `Arrival`s in the order in which the loop consumes them.
  The decisions that are read from the source tree on every run (tier T1)
  are parameters: `Params.exhausted` (the exhaustion test),
  `Params.preCheck` (is the exhaustion test evaluated before the first
  `select`, i.e. does a call that targets no node at all terminate) and
  `Params.ctxCause` (does the exhaustion branch report the context's error
  when the context has ended — `incompleteCause(ctx)`, errors.go).

  The end of the context is one event of the history.  The loop notices it
  either in its `select` (the event is consumed) or, when all targeted nodes
  have answered, in the exhaustion branch, which consults `ctx.Err()`: in the
  model the branch sees an ended context exactly when the context's end is
  the next event of the history.
-/
namespace GorumsV.ReplyLoop

abbrev NodeId := Nat

/-- What the loop's `select` can receive next. -/
inductive Arrival (M E : Type) where
  | reply (nid : NodeId) (msg : M)
  | error (nid : NodeId) (cause : E)
  | ctxDone (cause : E)
  deriving Repr, DecidableEq

/-- A Go `map[uint32]M` as an association list without duplicate keys
    (`insert` replaces), newest binding first.  `length` is Go's `len`. -/
abbrev RepMap (M : Type) := List (NodeId × M)

def RepMap.insert {M} (m : RepMap M) (k : NodeId) (v : M) : RepMap M :=
  (k, v) :: m.filter (fun p => p.1 != k)

def RepMap.keys {M} (m : RepMap M) : List NodeId := m.map (·.1)

/-- Decisions read from the source tree (T1). -/
structure Params where
  /-- `len(errs)+len(replies) == expectedReplies`, as written in the tree. -/
  exhausted : (nErrs nReplies expected : Nat) → Bool
  /-- is the exhaustion test evaluated before the first `select`? -/
  preCheck : Bool
  /-- does the exhaustion branch report `ctx.Err()` when the context has ended? -/
  ctxCause : Bool

/-- The parameters the property needs. -/
def Params.Good (P : Params) : Prop :=
  (∀ e r x, P.exhausted e r x = decide (e + r = x)) ∧ P.preCheck = true ∧ P.ctxCause = true

structure St (M E : Type) where
  errs : List (NodeId × E) := []
  replies : RepMap M := []
  deriving Repr

inductive Outcome (R E : Type) where
  | ok (v : R)
  | incomplete (errs : List (NodeId × E)) (nReplies : Nat)
  | ctxErr (cause : E) (errs : List (NodeId × E)) (nReplies : Nat)
  | waiting
  deriving Repr, DecidableEq

variable {M E R : Type}

/-- What the exhaustion branch reports: `QuorumCallError{cause: incompleteCause(ctx), …}`.
    `rest` is the part of the history that has not been consumed. -/
def exhaustedOutcome (P : Params) (errs : List (NodeId × E)) (nReplies : Nat)
    (rest : List (Arrival M E)) : Outcome R E :=
  match rest with
  | .ctxDone c :: _ => if P.ctxCause then .ctxErr c errs nReplies else .incomplete errs nReplies
  | _ => .incomplete errs nReplies

/-- The loop after the (optional) pre-check: consume arrivals one at a time.
    Second component: the quorum function's invocation log (its arguments). -/
def loop (P : Params) (qf : RepMap M → R × Bool) (expected : Nat) :
    St M E → List (Arrival M E) → Outcome R E × List (RepMap M)
  | _, [] => (.waiting, [])
  | st, .ctxDone c :: _ => (.ctxErr c st.errs st.replies.length, [])
  | st, .error n c :: as =>
      let st' : St M E := { st with errs := st.errs ++ [(n, c)] }
      if P.exhausted st'.errs.length st'.replies.length expected then
        (exhaustedOutcome P st'.errs st'.replies.length as, [])
      else loop P qf expected st' as
  | st, .reply n m :: as =>
      let reps := st.replies.insert n m
      let st' : St M E := { st with replies := reps }
      let (v, q) := qf reps
      if q then (.ok v, [reps])
      else if P.exhausted st'.errs.length st'.replies.length expected then
        (exhaustedOutcome P st'.errs st'.replies.length as, [reps])
      else
        let (o, log) := loop P qf expected st' as
        (o, reps :: log)

/-- `QuorumCall` / `handleAsyncCall` from the point where all requests have been
    handed to the node channels. -/
def run (P : Params) (qf : RepMap M → R × Bool) (expected : Nat)
    (as : List (Arrival M E)) : Outcome R E × List (RepMap M) :=
  if P.preCheck && P.exhausted 0 0 expected then (exhaustedOutcome P [] 0 as, [])
  else loop P qf expected {} as

/-! ### The future of an asynchronous call (async.go) -/

structure Async (R E : Type) where
  result : Option (Outcome R E)      -- `none`: channel `c` not yet closed
  deriving Repr

/-- `handleAsyncCall` runs the same loop and stores what the loop decided;
    it closes the channel exactly when the loop returns. -/
def runAsync (P : Params) (qf : RepMap M → R × Bool) (expected : Nat)
    (as : List (Arrival M E)) : Async R E × List (RepMap M) :=
  match run P qf expected as with
  | (.waiting, log) => ({ result := none }, log)
  | (o, log) => ({ result := some o }, log)

def Async.done (f : Async R E) : Bool := f.result.isSome
/-- `Get` blocks until done, hence `Option`; it does not modify the future. -/
def Async.get (f : Async R E) : Option (Outcome R E) × Async R E := (f.result, f)

/-! ### Targeting: which node gets which message (the `for _, n := range c` loop) -/

/-- `perNode = none`: no per-node function.  `some f`: `f req n = none` models an
    invalid (nil) message, i.e. "skip this node". -/
def targets {Q : Type} (cfg : List NodeId) (perNode : Option (Q → NodeId → Option Q)) (req : Q) :
    List (NodeId × Q) :=
  match perNode with
  | none => cfg.map (fun n => (n, req))
  | some f => cfg.filterMap (fun n => (f req n).map (fun q => (n, q)))

/-- The loop as written: `expected := len(c)`, decremented for every skipped node. -/
def expectedOf {Q : Type} (cfg : List NodeId) (perNode : Option (Q → NodeId → Option Q)) (req : Q) : Nat :=
  match perNode with
  | none => cfg.length
  | some f => cfg.foldl (fun e n => if (f req n).isSome then e else e - 1) cfg.length

/-! ### RPC (rpc.go): one node, first arrival decides -/

inductive RpcOutcome (M E : Type) where
  | reply (msg : M) | err (cause : E) | ctxErr (cause : E) | waiting
  deriving Repr, DecidableEq

def runRpc : List (Arrival M E) → RpcOutcome M E
  | [] => .waiting
  | .reply _ m :: _ => .reply m
  | .error _ c :: _ => .err c
  | .ctxDone c :: _ => .ctxErr c

/-! ### Multicast send-wait loop (multicast.go:36-43): a counter -/

/-- number of confirmations still awaited after `k` confirmations arrived -/
def mcastRemaining (sent k : Nat) : Nat := sent - k
def mcastReturns (noSendWaiting : Bool) (sent k : Nat) : Bool := noSendWaiting || mcastRemaining sent k == 0

/-- what the wait loop of a one-way call (`for ; sentMsgs > 0; sentMsgs-- { select { replyChan | ctx.Done } }`)
    can receive: the confirmation that one message has been handed to its stream, or the context's end -/
inductive WaitEvent where
  | confirmed | ctxDone
  deriving Repr, DecidableEq

/-- has the wait loop returned after these events (`sent` messages were handed to node channels)?  It returns
    when every message is confirmed, or at once when the context ends (`waitsCtx`: the loop has that case —
    read from the tree) -/
def waitLoop (waitsCtx : Bool) : Nat → List WaitEvent → Bool
  | 0, _ => true
  | _ + 1, [] => false
  | n + 1, .confirmed :: es => waitLoop waitsCtx n es
  | n + 1, .ctxDone :: es => if waitsCtx then true else waitLoop waitsCtx (n + 1) es

/-- a one-way call: with no-send-waiting it returns at once, else it runs the wait loop -/
def onewayReturns (noSendWaiting waitsCtx : Bool) (sent : Nat) (es : List WaitEvent) : Bool :=
  noSendWaiting || waitLoop waitsCtx sent es

end GorumsV.ReplyLoop
