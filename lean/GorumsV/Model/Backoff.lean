/-
  The back-off arithmetic of `channel.reconnect` (channel.go):

      delay := float64(BaseDelay); max := float64(MaxDelay)
      for r := retries; delay < max && r > 0; r-- { delay *= Multiplier }
      delay = math.Min(delay, max)
      delay *= 1 + Jitter*(rand.Float64()*2-1)
      select { case <-time.After(time.Duration(delay)): retries++ ; case <-parentCtx.Done(): return }

  Durations are natural numbers (nanoseconds); the multiplier is a fraction `num / den` and a product is rounded
  down (the code computes in float64: rounding differs by less than a nanosecond per step, which the statements
  below — bounds and monotonicity — do not depend on); the jitter factor is `(1000 + j·u/1000) / 1000` for a
  per-mille jitter `j` and a draw `u ∈ [-1000, 1000]`.
-/
namespace GorumsV.Backoff

structure Cfg where
  base : Nat
  max : Nat
  num : Nat     -- Multiplier = num / den
  den : Nat
  jitter : Nat  -- per mille
  deriving Repr, DecidableEq

/-- the loop `for r := retries; delay < max && r > 0; r-- { delay *= Multiplier }` -/
def grow (c : Cfg) : Nat → Nat → Nat
  | 0, d => d
  | r + 1, d => if d < c.max then grow c r (d * c.num / c.den) else d

/-- the delay before jitter after `retries` failed attempts -/
def delay (c : Cfg) (retries : Nat) : Nat := min (grow c retries c.base) c.max

/-- the sleep: the delay scaled by the jitter factor for a draw `u` in [0, 2000] (standing for [-1, 1]) -/
def sleep (c : Cfg) (retries u : Nat) : Nat := delay c retries * (1000000 + c.jitter * u - c.jitter * 1000) / 1000000

/-- a configuration the library accepts in practice: a multiplier of at least one and a jitter of at most one -/
def Cfg.Sane (c : Cfg) : Prop := 0 < c.den ∧ c.den ≤ c.num ∧ c.jitter ≤ 1000

end GorumsV.Backoff
