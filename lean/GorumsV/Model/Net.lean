import GorumsV.Model.Chan
import GorumsV.Model.SrvConn
/-
  The composite system: a manager with its message-id counter, the calls it runs, and for every
  node the client-side channel (`Chan`), the current stream in both directions, and the server side
  of that connection (`SrvConn`) with the handlers that are running on it.

      caller:   id := mgr.getMsgID()                  (once per call: quorumcall.go, async.go, correctable.go,
                for each targeted node n:               rpc.go, multicast.go, unicast.go)
                   n.channel.enqueue(request{id, payload_n})          -> Chan.register, Chan.handoff
      sender n: SendMsg(request)                       -> the request, with its id and payload, is on the stream
      server n: RecvMsg; go handler(req); handler answers WrapMessage(req.Metadata, resp)   (template_server.go)
      receiver n: RecvMsg; routeResponse(resp.Metadata.MessageID, response{nid: n, msg})     -> Chan.recvReply

  The components are the models the per-component theorems are about: a step of the composite performs
  steps of `Chan.step` / `SrvConn.step` on one node and moves messages between them.  What the composite
  adds is *content*: the payload a call addressed to a node, what the node's handler computes from the
  payload it received, and the id under which the answer travels back.  The end-to-end statements
  (Props/Net.lean) are about that content: a reply filed under node n in call c is what n's handler
  computed from the payload c addressed to n.

  Faults are over-approximated (the statements are safety statements): a stream can die at any moment,
  losing everything in transit in both directions and ending the server side of the connection; the
  channel may run `cancelPendingMsgs` (either flavour) at any moment; a write may be lost.
-/
namespace GorumsV.Net
open GorumsV

abbrev NodeId := Nat
abbrev Payload := Nat

/-- one request of one call to one node -/
structure Issue where
  id : Chan.MsgId
  call : Chan.CallId
  node : NodeId
  payload : Payload
  deriving Repr, DecidableEq

/-- one node: the client's channel to it, the current stream, the server side of that connection -/
structure NodeSt where
  chan : Chan.State := {}
  up : List (Chan.MsgId × Payload) := []        -- written to the stream by the sender, not yet received (FIFO)
  srv : SrvConn.State := {}
  running : List (Chan.MsgId × Payload) := []   -- handlers started on this connection that have not answered yet
  down : List (Chan.MsgId × Chan.Resp) := []    -- answers written by the server, not yet read by the receiver (FIFO)
  deriving Repr, DecidableEq

/-- what is read from the tree / assumed of the application -/
structure Params where
  /-- what node n's handler answers to a payload (a reply or a status error) -/
  handler : NodeId → Payload → Chan.Resp
  /-- the id the server-side wrapper puts on the answer to a request with id `i`
      (`WrapMessage(in.Metadata, …)`: the request's own metadata) -/
  replyId : Chan.MsgId → Chan.MsgId

def Params.Good (P : Params) : Prop := ∀ i, P.replyId i = i

structure State where
  nextId : Nat := 1                                   -- the manager's counter (`atomic.AddUint64(&m.nextMsgID, 1)`)
  calls : List (Chan.CallId × Chan.MsgId) := []       -- history: the id each call drew
  issued : List Issue := []                           -- history: every request handed to a node channel
  nodes : NodeId → NodeSt := fun _ => {}

inductive Label where
  | newCall (c : Chan.CallId)                                           -- a call draws its id
  | target (c : Chan.CallId) (n : NodeId) (p : Payload) (streaming : Bool)  -- enqueue at node n, first half: the router is registered
  | chan (n : NodeId) (l : Chan.Label)                                  -- a step of node n's channel that moves no message on the stream
  | send (n : NodeId) (confirm lost : Bool)                             -- `SendMsg` returned nil (lost: into a stream that was already dead)
  | srvRecv (n : NodeId)                                                -- the server's loop receives the next request and starts its handler
  | srvRelease (n : NodeId) (id : Chan.MsgId)                           -- that handler releases the connection's mutex
  | srvAcquire (n : NodeId)                                             -- the loop goes on
  | srvReply (n : NodeId) (id : Chan.MsgId)                             -- that handler answers and returns
  | recv (n : NodeId)                                                   -- the client's receiver reads the next answer and routes it
  | wireDie (n : NodeId)                                                -- the stream dies
  deriving Repr, DecidableEq

/-- the channel steps that the composite leaves to the channel alone -/
def localLabel : Chan.Label → Bool
  | .handoff _ | .closedAnswer _ | .pop | .sendFail _ _ | .streamDown | .replaceCancel | .deleteRouter _ => true
  | .register _ _ _ | .sendOk _ | .recvReply _ _ => false

def setNode (s : State) (n : NodeId) (x : NodeSt) : State :=
  { s with nodes := fun m => if m = n then x else s.nodes m }

def payloadOf (s : State) (id : Chan.MsgId) (n : NodeId) : Option Payload :=
  (s.issued.find? (fun i => i.id == id && i.node == n)).map (·.payload)

def step (P : Params) (s : State) : Label → Option State
  | .newCall c =>
    if s.calls.any (fun p => p.1 == c) then none
    else some { s with calls := s.calls ++ [(c, s.nextId)], nextId := s.nextId + 1 }
  | .target c n p streaming =>
    match s.calls.find? (fun q => q.1 == c) with
    | none => none
    | some (_, id) =>
      if s.issued.any (fun i => i.call == c && i.node == n) then none     -- a call addresses a node once
      else
        let x := s.nodes n
        (Chan.step x.chan (.register id c streaming)).map (fun ch =>
          { setNode s n { x with chan := ch } with issued := s.issued ++ [⟨id, c, n, p⟩] })
  | .chan n l =>
    if localLabel l then
      let x := s.nodes n
      (Chan.step x.chan l).map (fun ch => setNode s n { x with chan := ch })
    else none
  | .send n confirm lost =>
    let x := s.nodes n
    match x.chan.held with
    | none => none
    | some id =>
      match payloadOf s id n with
      | none => none
      | some p =>
        (Chan.step x.chan (.sendOk confirm)).map (fun ch =>
          setNode s n { x with chan := ch, up := if lost then x.up else x.up ++ [(id, p)] })
  | .srvRecv n =>
    let x := s.nodes n
    match x.up with
    | [] => none
    | (id, p) :: rest =>
      (SrvConn.step x.srv (.recv id)).map (fun sv =>
        setNode s n { x with srv := sv, up := rest, running := x.running ++ [(id, p)] })
  | .srvRelease n id =>
    let x := s.nodes n
    (SrvConn.step x.srv (.release id)).map (fun sv => setNode s n { x with srv := sv })
  | .srvAcquire n =>
    let x := s.nodes n
    (SrvConn.step x.srv .acquire).map (fun sv => setNode s n { x with srv := sv })
  | .srvReply n id =>
    let x := s.nodes n
    match x.running.find? (fun q => q.1 == id) with
    | none => none
    | some (_, p) =>
      (SrvConn.step x.srv (.ret id)).map (fun sv =>
        setNode s n { x with srv := sv, running := x.running.filter (fun q => q.1 != id),
                             down := x.down ++ [(P.replyId id, P.handler n p)] })
  | .recv n =>
    let x := s.nodes n
    match x.down with
    | [] => none
    | (id, r) :: rest =>
      (Chan.step x.chan (.recvReply id r)).map (fun ch => setNode s n { x with chan := ch, down := rest })
  | .wireDie n =>
    let x := s.nodes n
    some (setNode s n { x with up := [], srv := SrvConn.init, running := [], down := [] })

def exec (P : Params) (s : State) : List Label → Option State
  | [] => some s
  | l :: ls => (step P s l).bind (fun s' => exec P s' ls)

def init : State := {}

def Reachable (P : Params) (s : State) : Prop := ∃ ls, exec P init ls = some s

end GorumsV.Net
