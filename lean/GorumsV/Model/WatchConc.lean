import GorumsV.Model.Correctable
/-
  `Correctable.Watch` racing the reply loop's publications (correctable.go).  The sequential model
  (`Correctable.Obj.watch`, `Obj.set`) treats both as single steps; that is a fact about the code — each runs in one
  exclusive critical section of the object's mutex — which is read from the tree (T1: corr_watchAtomic,
  corr_setAtomic).  This model makes the fact a parameter: with `atomic = false` a Watch call is two steps, the test
  ("has the level been reached, or is the call completed?") and the registration of the watcher, and a publication
  may fall between them.
-/
namespace GorumsV.WatchConc
open GorumsV.Correctable

structure St where
  obj : Obj Unit Unit := {}
  tested : List Int := []      -- Watch calls that found their level not reached and have not registered yet (two-step Watch only)
  deriving Repr

inductive Label where
  | watch (l : Int)                       -- Watch(l) as one step
  | test (l : Int)                        -- two-step Watch: the test (returns a closed channel at once if the level is reached / the call completed)
  | register (l : Int)                    -- two-step Watch: the registration, without a second look
  | publish (level : Int) (done : Bool)   -- the reply loop's set(…, level, …, done)
  deriving Repr, DecidableEq

def step (atomic : Bool) (s : St) : Label → Option St
  | .watch l => if atomic then some { s with obj := s.obj.watch l } else none
  | .test l =>
    if atomic then none
    else if decide (l ≤ s.obj.level) || s.obj.done then
      some { s with obj := { s.obj with watchers := s.obj.watchers ++ [⟨l, true⟩] } }
    else some { s with tested := s.tested ++ [l] }
  | .register l =>
    if atomic then none
    else if s.tested.contains l then
      some { obj := { s.obj with watchers := s.obj.watchers ++ [⟨l, false⟩] }, tested := s.tested.erase l }
    else none
  | .publish level done => (s.obj.set none level none done).map fun o => { s with obj := o }

def exec (atomic : Bool) (s : St) : List Label → Option St
  | [] => some s
  | l :: ls => (step atomic s l).bind (fun s' => exec atomic s' ls)

def init : St := {}
def Reachable (atomic : Bool) (s : St) : Prop := ∃ ls, exec atomic init ls = some s

/-- a watcher that is still open although its level has been reached or the call is completed -/
def stranded (s : St) : Bool :=
  s.obj.watchers.any fun w => !w.closed && (decide (w.level ≤ s.obj.level) || s.obj.done)

end GorumsV.WatchConc
