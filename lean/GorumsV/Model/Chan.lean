/-
  Model of one node channel at the level of routing and message flow (channel.go:
  `enqueue`, `routeResponse`, `cancelPendingMsgs`, `deleteRouter`, the sender's pop /
  send / error routing, the receiver's routing of replies).  Connection management
  (dial, stream generations, reconnect) is abstracted to "a popped request is written
  to the stream or answered with an error" and "the stream may go down"; it is the
  subject of `GorumsV.ConnMgr`.

  A labelled transition system with an executable `step`.  History variables
  (`registered`, `pushed`, `popped`, `sent`, `deliveries`) record what happened, so that
  the properties are invariants over reachable states.
-/
namespace GorumsV.Chan

abbrev MsgId := Nat
abbrev CallId := Nat

inductive Resp where
  | reply (v : Nat)       -- a message from the node's handler
  | err (kind : Nat)      -- 0 stream down · 1 send failed · 2 channel closed · 3 handler status …
  | sent                  -- the empty confirmation of a send-waiting one-way call
  deriving Repr, DecidableEq

/-- an error is a node's last answer to a request -/
def Resp.isErr : Resp → Bool
  | .err _ => true
  | _ => false

structure Router where
  id : MsgId
  call : CallId           -- the call whose reply channel the router points to
  streaming : Bool
  deriving Repr, DecidableEq

structure Delivery where
  id : MsgId
  call : CallId
  resp : Resp
  deriving Repr, DecidableEq

structure State where
  routers : List Router := []                 -- `responseRouters` (under `responseMut`)
  registered : List (MsgId × CallId × Bool) := []   -- history: every registration ever made (id, call, streaming)
  pushed : List MsgId := []                   -- history: hand-offs to `sendQ`, in order
  sendQ : List MsgId := []                    -- the queue (FIFO)
  popped : List MsgId := []                   -- history: what the sender took, in order
  held : Option MsgId := none                 -- the request the sender is working on
  sent : List MsgId := []                     -- history: written to the stream, in order
  deliveries : List Delivery := []            -- history: what was put on which call's reply channel
  deriving Repr, DecidableEq

inductive Label where
  | register (id : MsgId) (c : CallId) (streaming : Bool)   -- enqueue, first half (ids are fresh: manager counter)
  | handoff (id : MsgId)                                     -- enqueue, second half: `c.sendQ <- req`
  | closedAnswer (id : MsgId)                                -- enqueue on a closed channel, or the caller's context ended while waiting for the sender: routeResponse(err)
  | pop                                                      -- sender: `req = <-c.sendQ`
  | sendOk (confirm : Bool)                                  -- SendMsg succeeded (confirm: a send-waiting one-way request)
  | sendFail (kind : Nat) (confirm : Bool)                   -- stream broken / SendMsg failed / context already ended
  | recvReply (id : MsgId) (r : Resp)                        -- receiver: a message with this id came in
  | streamDown                                               -- receiver: `cancelPendingMsgs(false)`: every pending request
  | replaceCancel                                            -- reconnect, under the write lock, before it replaces the stream: `cancelPendingMsgs(true)`: the requests that have been handed to a stream
  | deleteRouter (id : MsgId)                                -- deferred deletion of a streaming router
  deriving Repr, DecidableEq

/-- `routeResponse`: deliver to the router's call; the router is deleted unless it is a streaming one
    and the response is not an error (`!router.streaming || resp.err != nil`: an error is the node's
    last answer to a request) -/
def route (s : State) (id : MsgId) (r : Resp) : State :=
  match s.routers.find? (fun x => x.id == id) with
  | none => s
  | some x =>
    { s with deliveries := s.deliveries ++ [⟨id, x.call, r⟩],
             routers := if x.streaming && !r.isErr then s.routers else s.routers.filter (fun y => y.id != id) }

/-- `cancelPendingMsgs`: every pending request is answered with the stream-down error and its router is
    deleted, streaming or not (no further reply to any of them can arrive on a stream that is down) -/
def cancelAll (s : State) : State :=
  { s with deliveries := s.deliveries ++ s.routers.map (fun x => ⟨x.id, x.call, .err 0⟩),
           routers := [] }

/-- `cancelPendingMsgs(true)`: the pending requests that have been handed to a stream (`markWritten`, just
    before `SendMsg`) are answered with the stream-down error and lose their router; the others — still
    queued, or held by the sender that is about to send them on the new stream — are left alone.  It runs
    under the write lock of `streamMut`, so no send is in progress: "handed to a stream" is `sent`. -/
def cancelWritten (s : State) : State :=
  { s with deliveries := s.deliveries ++ (s.routers.filter (fun x => s.sent.contains x.id)).map (fun x => ⟨x.id, x.call, .err 0⟩),
           routers := s.routers.filter (fun x => !s.sent.contains x.id) }

def step (s : State) : Label → Option State
  | .register id c streaming =>
    if s.registered.any (fun p => p.1 == id) then none   -- message ids are never reused
    else some { s with routers := ⟨id, c, streaming⟩ :: s.routers, registered := s.registered ++ [(id, c, streaming)] }
  | .handoff id =>
    if s.pushed.contains id then none
    else some { s with sendQ := s.sendQ ++ [id], pushed := s.pushed ++ [id] }
  | .closedAnswer id => some (route s id (.err 2))
  | .pop =>
    match s.held, s.sendQ with
    | none, id :: q => some { s with sendQ := q, popped := s.popped ++ [id], held := some id }
    | _, _ => none
  | .sendOk confirm =>
    match s.held with
    | none => none
    | some id =>
      let s' := { s with held := none, sent := s.sent ++ [id] }
      some (if confirm then route s' id .sent else s')
  | .sendFail kind confirm =>
    match s.held with
    | none => none
    | some id =>
      let s' := { s with held := none }
      -- a send-waiting request is first confirmed (deferred routeResponse), which consumes its router
      some (route (if confirm then route s' id .sent else s') id (.err kind))
  | .recvReply id r => some (route s id r)
  | .streamDown => some (cancelAll s)
  | .replaceCancel => some (cancelWritten s)
  | .deleteRouter id => some { s with routers := s.routers.filter (fun y => y.id != id) }

def exec (s : State) : List Label → Option State
  | [] => some s
  | l :: ls => (step s l).bind (fun s' => exec s' ls)

def init : State := {}

def Reachable (s : State) : Prop := ∃ ls, exec init ls = some s

/-- deliveries concerning one message id -/
def deliveriesOf (s : State) (id : MsgId) : List Delivery := s.deliveries.filter (fun d => d.id == id)

def hasRouter (s : State) (id : MsgId) : Bool := s.routers.any (fun x => x.id == id)

end GorumsV.Chan
