import GorumsV.Model.Net
import GorumsV.Props.C05
import GorumsV.Props.C04
import GorumsV.Lemmas.Net
/-!
  End-to-end statements over the composite system `Net` (manager counter + calls + per node: channel,
  stream, server connection, handlers).  They close the gap the per-component theorems leave:
  *provenance* — the reply a call finds under node n is what n's handler computed from the payload this
  call addressed to n (C01, C05) — and *own message* — the payload a node's handler sees is the one some
  call addressed to that node (C06).  Everything the component theorems say (C03, C04, C05, C07, C18)
  holds of every node of the composite, because every node's channel is a reachable `Chan` state and
  every node's server connection a reachable `SrvConn` state (`chan_reachable`, `srv_reachable`).
-/
namespace GorumsV.NetP
open GorumsV GorumsV.Net

/-- every node's channel is a reachable state of the channel model: all theorems of C05 / C07 / C18 apply to it -/
theorem chan_reachable (P : Params) (s : State) (h : Reachable P s) (n : NodeId) :
    Chan.Reachable (s.nodes n).chan := by
  exact (compReach_reachable P s h n).1

/-- every node's server connection is a reachable state of the connection model: all theorems of C04 apply -/
theorem srv_reachable (P : Params) (s : State) (h : Reachable P s) (n : NodeId) :
    ∃ ls, SrvConn.exec SrvConn.init ls = some (s.nodes n).srv := by
  exact (compReach_reachable P s h n).2

/-- the manager-wide counter: two calls never share an id, a call has one id -/
theorem ids_unique (P : Params) (s : State) (h : Reachable P s)
    (c c' : Chan.CallId) (i i' : Chan.MsgId) (h1 : (c, i) ∈ s.calls) (h2 : (c', i') ∈ s.calls) :
    (i = i' ↔ c = c') ∧ i < s.nextId := by
  have hi := inv_reachable P s h
  refine ⟨⟨?_, ?_⟩, hi.callsFresh _ h1⟩
  · intro he; subst he; exact hi.callsInj c c' i h1 h2
  · intro he; subst he; exact hi.callsFun c i i' h1 h2

/-- a call addresses a node at most once, under the call's own id -/
theorem issue_unique (P : Params) (s : State) (h : Reachable P s) (a b : Issue)
    (ha : a ∈ s.issued) (hb : b ∈ s.issued) (hn : a.node = b.node) (hc : a.call = b.call ∨ a.id = b.id) : a = b := by
  have hi := inv_reachable P s h
  rcases hc with hc | hc
  · exact hi.issuedOnce a b ha hb hn hc
  · exact hi.issuedOnceId a b ha hb hn hc

theorem issue_has_call_id (P : Params) (s : State) (h : Reachable P s) (a : Issue) (ha : a ∈ s.issued) :
    (a.call, a.id) ∈ s.calls := by
  exact (inv_reachable P s h).issuedCall a ha

/-- **own message (C06, end to end)**: the payload with which a handler runs on node n is the payload some
    call addressed to node n under that id -/
theorem server_receives_own_payload (P : Params) (s : State) (h : Reachable P s) (n : NodeId)
    (id : Chan.MsgId) (p : Payload) (hr : (id, p) ∈ (s.nodes n).running ∨ (id, p) ∈ (s.nodes n).up) :
    ∃ c, (⟨id, c, n, p⟩ : Issue) ∈ s.issued := by
  have hN := (inv_reachable P s h).node n
  rcases hr with hr | hr
  · exact hN.runningIssued (id, p) hr
  · exact hN.upIssued (id, p) hr

/-- **provenance (C01 / C05, end to end)**: when the server answers under the request's own id, every reply
    (or handler error) that node n's channel delivers to a call is what n's handler computed from the payload
    that very call addressed to n -/
theorem provenance (P : Params) (hP : P.Good) (s : State) (h : Reachable P s) (n : NodeId)
    (d : Chan.Delivery) (hd : d ∈ (s.nodes n).chan.deliveries) (v : Nat) (hv : d.resp = .reply v) :
    ∃ p, (⟨d.id, d.call, n, p⟩ : Issue) ∈ s.issued ∧ P.handler n p = .reply v := by
  exact ((inv_reachable P s h).node n).delivGenuine hP d hd v hv

/-- … and a call finds at most one such reply per node unless it asked for a stream -/
theorem one_reply_per_node (P : Params) (s : State) (h : Reachable P s) (n : NodeId)
    (id : Chan.MsgId) (c : Chan.CallId) (hreg : (id, c, false) ∈ (s.nodes n).chan.registered) :
    C05.countDeliveries (s.nodes n).chan id ≤ 1 :=
  C05.at_most_once _ (chan_reachable P s h n) id c hreg

/-- the id echo is needed: a server that answers request i under id i+1 hands call 2 the answer to call 1 -/
def badEcho : Params := { handler := fun _ p => .reply (p + 100), replyId := fun i => i + 1 }

def echoTrace : List Label :=
  [.newCall 1, .newCall 2, .target 1 0 7 false, .target 2 0 9 false,
   .chan 0 (.handoff 1), .chan 0 .pop, .send 0 false false, .srvRecv 0, .srvReply 0 1, .recv 0]

theorem echo_needed :
    (exec badEcho init echoTrace).map (fun s => (s.nodes 0).chan.deliveries) =
      some [⟨2, 2, .reply 107⟩] := by
  rfl

end GorumsV.NetP
