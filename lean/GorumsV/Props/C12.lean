import GorumsV.Props.C09
/-!
  C12 — Close stops everything and strands no caller (partial: goroutine exit and socket closure
  are observed at runtime by engine close; the model shows where the goroutines can be when nothing
  moves any more, and that no request is left behind).
-/
namespace GorumsV.C12
open GorumsV.ConnMgr

/-- after Close, when nothing can move any more, both goroutines have exited — unless a goroutine is
    blocked in the back-pressure wedge of C09 (the receiver in `routeResponse` / `cancelPendingMsgs`, or either
    goroutine in the `cancelPendingMsgs` of `reconnect`) -/
theorem closed_stuck_means_exited (s : St) (h : Reachable s) (hc : s.closed = true) (hs : Stuck s = true) :
    (s.spc = .exited ∧ (s.rpc = .exited ∨ s.rpc = .absent)) ∨ ShapeBackpressure s = true :=
  C09.closed_stuck_means_exited s h hc hs

/-- after Close no stream is alive and no new request is accepted by the channel (callers are answered "channel closed") -/
theorem closed_no_stream (s : St) (h : Reachable s) (hc : s.closed = true) : s.alive = false ∧ enabled s .eRequest = false :=
  C09.closed_no_stream s h hc

/-- no request is left in the send queue by the exiting sender (repair of defect D12) -/
theorem sender_exit_leaves_no_request (s : St) (h : Reachable s) (he : s.spc = .exited) : s.queued = 0 :=
  C09.sender_exit_leaves_no_request s h he

/-- **Close strands no caller** (model level): after Close, when nothing the library or a well-behaved
    environment does can happen any more, nothing is owed — no request is queued or held by the sender, no answer
    is in flight, and no request written to a stream is left unanswered — unless a goroutine is blocked in the
    back-pressure wedge of C09 -/
theorem closed_rest_owes_nothing (s : St) (h : Reachable s) (hc : s.closed = true) (hs : Stuck s = true) :
    owes s = false ∨ ShapeBackpressure s = true := by
  have hi := C09.inv_reachable s h
  rcases C09.closed_stuck_means_exited s h hc hs with ⟨h1, h2⟩ | h1
  · left
    have hq : s.queued = 0 := hi.exitedDrained h1
    -- the manager is closed: no stream is alive, so nothing is in flight
    have hinf : s.inflight = 0 := by
      cases hn : s.inflight with
      | zero => rfl
      | succ n =>
        have := (hi.aliveOpen (hi.inflightAlive (by omega))).1
        simp [hc] at this
    have hl : s.lost = 0 := by
      rcases h2 with h2 | h2
      · exact hi.exitedNothingLost h2
      · -- the receiver was never started: no stream was ever created, nothing was written
        cases hn : s.lost with
        | zero => rfl
        | succ n => exact absurd h2 (hi.receiverExists.mp (hi.lostEstablished (by omega)))
    simp [owes, h1, hq, hinf, hl]
  · exact Or.inr h1

/-- the exiting receiver answers every request that was written to a stream and is still pending (the repair of
    defect D12, second half: `cancelPendingMsgs` at the receiver's exit) -/
theorem receiver_exit_leaves_nothing_lost (s : St) (h : Reachable s) (he : s.rpc = .exited) : s.lost = 0 :=
  (C09.inv_reachable s h).exitedNothingLost he

end GorumsV.C12
