import GorumsV.Props.C09
/-!
  C12 — Close stops everything and strands no caller (partial: goroutine exit and socket closure
  are observed at runtime by engine close; the model shows where the goroutines can be when nothing
  moves any more, and that no request is left behind).
-/
namespace GorumsV.C12
open GorumsV.ConnMgr

/-- after Close, when nothing can move any more, both goroutines have exited — unless a goroutine is
    blocked in the back-pressure wedge of C09 (the receiver in `routeResponse` / `cancelPendingMsgs`, or either
    goroutine in the `cancelPendingMsgs` of `reconnect`) -/
theorem closed_stuck_means_exited (s : St) (h : Reachable s) (hc : s.closed = true) (hs : Stuck s = true) :
    (s.spc = .exited ∧ (s.rpc = .exited ∨ s.rpc = .absent)) ∨ ShapeBackpressure s = true :=
  C09.closed_stuck_means_exited s h hc hs

/-- after Close no stream is alive and no new request is accepted by the channel (callers are answered "channel closed") -/
theorem closed_no_stream (s : St) (h : Reachable s) (hc : s.closed = true) : s.alive = false ∧ enabled s .eRequest = false :=
  C09.closed_no_stream s h hc

/-- no request is left in the send queue by the exiting sender (repair of defect D12) -/
theorem sender_exit_leaves_no_request (s : St) (h : Reachable s) (he : s.spc = .exited) : s.queued = 0 :=
  C09.sender_exit_leaves_no_request s h he

end GorumsV.C12
