import GorumsV.Model.Correctable
/-!
  C11 — correctable calls publish QF levels and values monotonically; done is final.

  Statements about the object (`Obj`: Get / Watch / set / typed Get) and about the loop
  (`run`: the snapshots of the object after each consumed arrival).
-/
namespace GorumsV.C11
open GorumsV.ReplyLoop GorumsV.Correctable
variable {V E M : Type}

/-- **starts at LevelNotSet with no reply** -/
theorem init_unset : (init : Obj V E).level = LevelNotSet ∧ (init : Obj V E).reply = none ∧
    (init : Obj V E).done = false ∧ (init : Obj V E).err = none := by
  simp [init]

/-! ### the object -/

/-- the watcher invariant: a watcher's channel is closed exactly when its level has been
    reached or the call is completed -/
def WatchInv (o : Obj V E) : Prop := ∀ w ∈ o.watchers, (w.closed = true ↔ (w.level ≤ o.level ∨ o.done = true))

theorem watchInv_init : WatchInv (init : Obj V E) := by
  intro w hw
  simp [init] at hw

/-- registering a watcher at any moment keeps the invariant (also after completion) -/
theorem watch_preserves (o : Obj V E) (h : WatchInv o) (l : Int) : WatchInv (o.watch l) := by
  intro w hw
  simp only [Obj.watch, List.mem_append, List.mem_singleton] at hw
  rcases hw with hw | hw
  · exact h w hw
  · subst hw
    simp [Obj.watch]

/-- publishing a level that is not lower than the current one (or completing) keeps the invariant:
    **every Watch at or below the published level is released at once, all of them at completion** -/
theorem set_preserves (o o' : Obj V E) (h : WatchInv o) (r : Option V) (l : Int) (e : Option (CErr E)) (d : Bool)
    (hmono : o.level ≤ l) (hs : o.set r l e d = some o') : WatchInv o' := by
  unfold Obj.set at hs
  by_cases hd : o.done = true
  · simp [hd] at hs
  · simp only [hd] at hs
    simp only [Bool.false_eq_true, if_false, Option.some.injEq] at hs
    subst hs
    intro w' hw'
    simp only [List.mem_map] at hw'
    obtain ⟨w, hw, rfl⟩ := hw'
    by_cases hc : (d || decide (w.level ≤ l)) = true
    · simp only [hc, if_true]
      simp only [Bool.or_eq_true, decide_eq_true_eq] at hc
      constructor
      · intro _; rcases hc with hc | hc
        · exact Or.inr hc
        · exact Or.inl hc
      · intro _; trivial
    · simp only [hc]
      simp only [Bool.or_eq_true, decide_eq_true_eq, not_or] at hc
      have := h w hw
      simp only [Bool.false_eq_true, if_false]
      constructor
      · intro hcl
        rcases this.mp hcl with h1 | h1
        · exact absurd (Int.le_trans h1 hmono) hc.2
        · exact absurd h1 hd
      · intro h1
        rcases h1 with h1 | h1
        · exact absurd h1 hc.2
        · exact absurd h1 hc.1

/-- `set` panics exactly on a completed object -/
theorem set_none_iff (o : Obj V E) (r : Option V) (l : Int) (e : Option (CErr E)) (d : Bool) :
    o.set r l e d = none ↔ o.done = true := by
  unfold Obj.set
  by_cases hd : o.done = true <;> simp [hd]

/-- **typed accessors never panic** as long as what is stored has the accessor's static type -/
theorem typedGet_total (tagOK : V → Bool) (o : Obj V E) (h : ∀ v, o.reply = some v → tagOK v = true) :
    (o.typedGet tagOK).1 ≠ .panic := by
  unfold Obj.typedGet
  cases he : o.err with
  | some e => simp
  | none =>
    cases hr : o.reply with
    | none => simp
    | some v => simp [h v hr]

/-- before any reply the typed accessor returns nil (it does not assert on a nil interface) -/
theorem typedGet_init (tagOK : V → Bool) : ((init : Obj V E).typedGet tagOK).1 = .nil := by
  simp [Obj.typedGet, init]

/-! ### the loop -/

/-- the loop invariant linking the loop-local level to the published one -/
def Linked (st : LoopSt V E M) (o : Obj V E) : Prop := o.level = st.clevel ∧ o.done = false

/-! ### helper lemmas -/

/-- `set` on a not-completed object succeeds -/
theorem set_some (o : Obj V E) (hd : o.done = false) (r : Option V) (l : Int) (e : Option (CErr E)) (d : Bool) :
    ∃ o', o.set r l e d = some o' := by
  simp [Obj.set, hd]

/-- after a completing `set` every watcher is closed -/
theorem set_done_closed (o o' : Obj V E) (r : Option V) (l : Int) (e : Option (CErr E))
    (hs : o.set r l e true = some o') : ∀ w ∈ o'.watchers, w.closed = true := by
  unfold Obj.set at hs
  by_cases hd : o.done = true
  · simp [hd] at hs
  · simp only [hd, Bool.false_eq_true, if_false, Option.some.injEq] at hs
    subst hs
    intro w hw
    simp only [List.mem_map] at hw
    obtain ⟨w0, _, rfl⟩ := hw
    simp

/-- after a `set` every watcher at or below the published level is closed -/
theorem set_level_closed (o o' : Obj V E) (r : Option V) (l : Int) (e : Option (CErr E)) (d : Bool)
    (hs : o.set r l e d = some o') : ∀ w ∈ o'.watchers, w.level ≤ l → w.closed = true := by
  unfold Obj.set at hs
  by_cases hd : o.done = true
  · simp [hd] at hs
  · simp only [hd, Bool.false_eq_true, if_false, Option.some.injEq] at hs
    subst hs
    intro w hw hl
    simp only [List.mem_map] at hw
    obtain ⟨w0, _, rfl⟩ := hw
    by_cases hc : (d || decide (w0.level ≤ l)) = true
    · simp [hc]
    · simp only [hc, Bool.false_eq_true, if_false] at hl ⊢
      simp only [Bool.or_eq_true, decide_eq_true_eq, not_or] at hc
      exact absurd hl hc.2

/-- the fields of the result of a `set` -/
theorem set_fields (o o' : Obj V E) (r : Option V) (l : Int) (e : Option (CErr E)) (d : Bool)
    (hs : o.set r l e d = some o') : o'.reply = r ∧ o'.level = l ∧ o'.err = e ∧ o'.done = d ∧ o.done = false := by
  unfold Obj.set at hs
  by_cases hd : o.done = true
  · simp [hd] at hs
  · simp only [hd, Bool.false_eq_true, if_false, Option.some.injEq] at hs
    subst hs
    simp at hd
    simp [hd]

/-- unfolding of the loop -/
theorem run_eq (qf : RepMap M → V × Int × Bool) (stream : Bool) (x : Nat)
    (st : LoopSt V E M) (o : Obj V E) (as : List (Arrival M E)) :
    run qf stream x st o as =
      if exhausted stream st.errs.length st.replies.length x then
        [o.set st.resp st.clevel (some (exhaustedErr st.errs st.replies.length as)) true]
      else match as with
        | [] => []
        | a :: as =>
          match stepArrival qf stream x st o a with
          | none => [none]
          | some (st', o', returned) =>
            if returned then [some o'] else some o' :: run qf stream x st' o' as := by
  cases as <;> rfl

/-- what one iteration of the loop does to a linked state -/
theorem step_spec (qf : RepMap M → V × Int × Bool) (stream : Bool) (x : Nat)
    (st : LoopSt V E M) (o : Obj V E) (h : Linked st o) (a : Arrival M E) :
    ∃ st' o' r, stepArrival qf stream x st o a = some (st', o', r) ∧
      o.level ≤ o'.level ∧ (r = false → Linked st' o') ∧ (r = true → o'.done = true) ∧
      (WatchInv o → WatchInv o') ∧
      (∀ P : V → Prop, (∀ reps, P (qf reps).1) → (∀ v, o.reply = some v → P v) →
        (∀ v, st.resp = some v → P v) →
        (∀ v, o'.reply = some v → P v) ∧ (∀ v, st'.resp = some v → P v)) := by
  obtain ⟨hl, hd⟩ := h
  cases a with
  | ctxDone c =>
    obtain ⟨o', hs⟩ := set_some o hd st.resp st.clevel (some (.ctx c st.errs st.replies.length)) true
    obtain ⟨f1, f2, _, f4, _⟩ := set_fields o o' _ _ _ _ hs
    refine ⟨st, o', true, ?_, ?_, ?_, ?_, ?_, ?_⟩
    · simp only [stepArrival, hs, Option.map_some]
    · rw [f2, hl]; exact Int.le_refl _
    · intro h; cases h
    · intro _; exact f4
    · intro hw
      exact set_preserves o _ hw _ _ _ _ (by rw [hl]; exact Int.le_refl _) hs
    · intro P _ _ hst
      exact ⟨fun v hv => hst v (f1 ▸ hv), hst⟩
  | error n c =>
    refine ⟨_, o, false, rfl, Int.le_refl _, ?_, ?_, id, ?_⟩
    · intro _; exact ⟨hl, hd⟩
    · intro h; cases h
    · intro P _ ho hst
      exact ⟨ho, hst⟩
  | reply n m =>
    cases hq : qf (st.replies.insert n m) with
    | mk v p =>
      cases p with
      | mk l q =>
        have hv : ∀ P : V → Prop, (∀ reps, P (qf reps).1) → ∀ v', some v = some v' → P v' := by
          intro P hP v' hv'
          have := hP (st.replies.insert n m)
          rw [hq] at this
          simp only [Option.some.injEq] at hv'
          subst hv'
          exact this
        cases q with
        | true =>
          obtain ⟨o', hs⟩ := set_some o hd (some v) (if l < st.clevel then st.clevel else l) none true
          obtain ⟨f1, f2, _, f4, _⟩ := set_fields o o' _ _ _ _ hs
          have hle : o.level ≤ (if l < st.clevel then st.clevel else l) := by
            rw [hl]; split <;> omega
          refine ⟨{ st with replies := st.replies.insert n m, resp := some v }, o', true, ?_, ?_, ?_, ?_, ?_, ?_⟩
          · simp only [stepArrival, hq, if_true, hs, Option.map_some]
          · rw [f2]; exact hle
          · intro h; cases h
          · intro _; exact f4
          · intro hw
            exact set_preserves o _ hw _ _ _ _ hle hs
          · intro P hP _ _
            exact ⟨fun v' hv' => hv P hP v' (f1 ▸ hv'), fun v' hv' => hv P hP v' hv'⟩
        | false =>
          by_cases hgt : l > st.clevel
          · obtain ⟨o', hs⟩ := set_some o hd (some v) l none false
            obtain ⟨f1, f2, _, f4, _⟩ := set_fields o o' _ _ _ _ hs
            have hle : o.level ≤ l := by rw [hl]; omega
            refine ⟨{ st with replies := st.replies.insert n m, resp := some v, clevel := l }, o', false,
              ?_, ?_, ?_, ?_, ?_, ?_⟩
            · simp only [stepArrival, hq, Bool.false_eq_true, if_false, hgt, if_true, hs, Option.map_some]
            · rw [f2]; exact hle
            · intro _; exact ⟨f2, f4⟩
            · intro h; cases h
            · intro hw
              exact set_preserves o _ hw _ _ _ _ hle hs
            · intro P hP _ _
              exact ⟨fun v' hv' => hv P hP v' (f1 ▸ hv'), fun v' hv' => hv P hP v' hv'⟩
          · refine ⟨{ st with replies := st.replies.insert n m, resp := some v }, o, false,
              ?_, Int.le_refl _, ?_, ?_, id, ?_⟩
            · simp only [stepArrival, hq, Bool.false_eq_true, if_false, hgt]
            · intro _; exact ⟨hl, hd⟩
            · intro h; cases h
            · intro P hP ho _
              exact ⟨ho, fun v' hv' => hv P hP v' hv'⟩

/-- **the loop never calls `set` on a completed object** (the panic is dead code) -/
theorem run_never_panics (qf : RepMap M → V × Int × Bool) (stream : Bool) (x : Nat)
    (st : LoopSt V E M) (o : Obj V E) (as : List (Arrival M E)) (h : Linked st o) :
    ∀ s ∈ run qf stream x st o as, s ≠ none := by
  induction as generalizing st o with
  | nil =>
    intro s hs
    rw [run_eq] at hs
    split at hs
    · obtain ⟨o', ho'⟩ := set_some o h.2 st.resp st.clevel
        (some (exhaustedErr st.errs st.replies.length ([] : List (Arrival M E)))) true
      rw [ho'] at hs
      simp only [List.mem_singleton] at hs
      subst hs; simp
    · simp at hs
  | cons a as ih =>
    intro s hs
    rw [run_eq] at hs
    split at hs
    · obtain ⟨o', ho'⟩ := set_some o h.2 st.resp st.clevel
        (some (exhaustedErr st.errs st.replies.length (a :: as))) true
      rw [ho'] at hs
      simp only [List.mem_singleton] at hs
      subst hs; simp
    · obtain ⟨st', o', r, hstep, _, hlink, _, _, _⟩ := step_spec qf stream x st o h a
      simp only [hstep] at hs
      cases r with
      | true =>
        simp only [if_true, List.mem_singleton] at hs
        subst hs; simp
      | false =>
        simp only [Bool.false_eq_true, if_false, List.mem_cons] at hs
        rcases hs with hs | hs
        · subst hs; simp
        · exact ih st' o' (hlink rfl) s hs

/-- the published levels, in order -/
def levels (l : List (Option (Obj V E))) : List Int := l.filterMap (fun s => s.map (·.level))

/-- **published levels never decrease** -/
theorem run_levels_monotone (qf : RepMap M → V × Int × Bool) (stream : Bool) (x : Nat)
    (st : LoopSt V E M) (o : Obj V E) (as : List (Arrival M E)) (h : Linked st o) :
    (o.level :: levels (run qf stream x st o as)).Pairwise (· ≤ ·) := by
  induction as generalizing st o with
  | nil =>
    rw [run_eq]
    split
    · obtain ⟨o', ho'⟩ := set_some o h.2 st.resp st.clevel
        (some (exhaustedErr st.errs st.replies.length ([] : List (Arrival M E)))) true
      obtain ⟨_, f2, _, _, _⟩ := set_fields o o' _ _ _ _ ho'
      rw [ho']
      simp [levels, f2, h.1]
    · simp [levels]
  | cons a as ih =>
    rw [run_eq]
    split
    · obtain ⟨o', ho'⟩ := set_some o h.2 st.resp st.clevel
        (some (exhaustedErr st.errs st.replies.length (a :: as))) true
      obtain ⟨_, f2, _, _, _⟩ := set_fields o o' _ _ _ _ ho'
      rw [ho']
      simp [levels, f2, h.1]
    · obtain ⟨st', o', r, hstep, hle, hlink, _, _, _⟩ := step_spec qf stream x st o h a
      simp only [hstep]
      cases r with
      | true =>
        simp [levels, hle]
      | false =>
        have ih' := ih st' o' (hlink rfl)
        simp only [Bool.false_eq_true, if_false]
        have hlv : levels (some o' :: run qf stream x st' o' as) = o'.level :: levels (run qf stream x st' o' as) := by
          simp [levels]
        rw [hlv]
        rw [List.pairwise_cons] at ih' ⊢
        refine ⟨?_, List.pairwise_cons.mpr ih'⟩
        intro y hy
        rw [List.mem_cons] at hy
        rcases hy with hy | hy
        · subst hy; exact hle
        · exact Int.le_trans hle (ih'.1 y hy)

/-- **completes exactly once, and completion is final**: only the last snapshot can be a
    completed one (the loop returns right after), and every earlier one is not completed -/
theorem run_done_last (qf : RepMap M → V × Int × Bool) (stream : Bool) (x : Nat)
    (st : LoopSt V E M) (o : Obj V E) (as : List (Arrival M E)) (h : Linked st o)
    (pre : List (Option (Obj V E))) (s : Option (Obj V E)) (post : List (Option (Obj V E)))
    (hsplit : run qf stream x st o as = pre ++ s :: post) (hpost : post ≠ []) :
    ∃ o', s = some o' ∧ o'.done = false := by
  induction as generalizing st o pre with
  | nil =>
    rw [run_eq] at hsplit
    split at hsplit
    · have := congrArg List.length hsplit
      cases post with
      | nil => exact absurd rfl hpost
      | cons p ps => simp at this; omega
    · have := congrArg List.length hsplit
      simp at this
  | cons a as ih =>
    rw [run_eq] at hsplit
    split at hsplit
    · have := congrArg List.length hsplit
      cases post with
      | nil => exact absurd rfl hpost
      | cons p ps => simp at this; omega
    · obtain ⟨st', o', r, hstep, _, hlink, _, _, _⟩ := step_spec qf stream x st o h a
      simp only [hstep] at hsplit
      cases r with
      | true =>
        simp only [if_true] at hsplit
        have := congrArg List.length hsplit
        cases post with
        | nil => exact absurd rfl hpost
        | cons p ps => simp at this; omega
      | false =>
        simp only [Bool.false_eq_true, if_false] at hsplit
        cases pre with
        | nil =>
          simp only [List.nil_append, List.cons.injEq] at hsplit
          exact ⟨o', hsplit.1.symm, (hlink rfl).2⟩
        | cons p ps =>
          simp only [List.cons_append, List.cons.injEq] at hsplit
          exact ih st' o' (hlink rfl) ps hsplit.2

/-- **a new highest level is published at once, with the value the quorum function returned,
    without waiting for completion** -/
theorem step_publishes (qf : RepMap M → V × Int × Bool) (stream : Bool) (x : Nat)
    (st : LoopSt V E M) (o : Obj V E) (h : Linked st o) (n : NodeId) (m : M) (v : V) (l : Int)
    (hq : qf (st.replies.insert n m) = (v, l, false)) (hl : st.clevel < l) :
    ∃ st' o', stepArrival qf stream x st o (.reply n m) = some (st', o', false) ∧
      o'.reply = some v ∧ o'.level = l ∧ o'.done = false ∧ o'.err = none ∧ Linked st' o' ∧
      (∀ w ∈ o'.watchers, w.level ≤ l → w.closed = true) := by
  obtain ⟨hlv, hd⟩ := h
  obtain ⟨o', hs⟩ := set_some o hd (some v) l none false
  obtain ⟨f1, f2, f3, f4, _⟩ := set_fields o o' _ _ _ _ hs
  refine ⟨{ st with replies := st.replies.insert n m, resp := some v, clevel := l }, o', ?_, f1, f2, f4, f3,
    ⟨f2, f4⟩, set_level_closed o o' _ _ _ _ hs⟩
  have hgt : l > st.clevel := hl
  simp only [stepArrival, hq, Bool.false_eq_true, if_false, hgt, if_true, hs, Option.map_some]

/-- a level that is not higher than one reported before changes nothing that is published -/
theorem step_no_publish (qf : RepMap M → V × Int × Bool) (stream : Bool) (x : Nat)
    (st : LoopSt V E M) (o : Obj V E) (n : NodeId) (m : M) (v : V) (l : Int)
    (hq : qf (st.replies.insert n m) = (v, l, false)) (hl : l ≤ st.clevel) :
    ∃ st', stepArrival qf stream x st o (.reply n m) = some (st', o, false) ∧ st'.clevel = st.clevel := by
  refine ⟨{ st with replies := st.replies.insert n m, resp := some v }, ?_, rfl⟩
  have hgt : ¬ l > st.clevel := by omega
  simp only [stepArrival, hq, Bool.false_eq_true, if_false, hgt]

/-- **done**: the value the quorum function returned is published, the level does not decrease,
    every watcher and Done are released -/
theorem step_done (qf : RepMap M → V × Int × Bool) (stream : Bool) (x : Nat)
    (st : LoopSt V E M) (o : Obj V E) (h : Linked st o) (n : NodeId) (m : M) (v : V) (l : Int)
    (hq : qf (st.replies.insert n m) = (v, l, true)) :
    ∃ st' o', stepArrival qf stream x st o (.reply n m) = some (st', o', true) ∧
      o'.reply = some v ∧ o'.done = true ∧ o'.err = none ∧ o.level ≤ o'.level ∧ l ≤ o'.level ∧
      (∀ w ∈ o'.watchers, w.closed = true) := by
  obtain ⟨hlv, hd⟩ := h
  obtain ⟨o', hs⟩ := set_some o hd (some v) (if l < st.clevel then st.clevel else l) none true
  obtain ⟨f1, f2, f3, f4, _⟩ := set_fields o o' _ _ _ _ hs
  refine ⟨{ st with replies := st.replies.insert n m, resp := some v }, o', ?_, f1, f4, f3, ?_, ?_,
    set_done_closed o o' _ _ _ hs⟩
  · simp only [stepArrival, hq, if_true, hs, Option.map_some]
  · rw [f2, hlv]; split <;> omega
  · rw [f2]; split <;> omega

/-- **context end** completes the call with the context's error; the level is unchanged -/
theorem step_ctx (qf : RepMap M → V × Int × Bool) (stream : Bool) (x : Nat)
    (st : LoopSt V E M) (o : Obj V E) (h : Linked st o) (c : E) :
    ∃ o', stepArrival qf stream x st o (.ctxDone c) = some (st, o', true) ∧ o'.done = true ∧
      o'.level = o.level ∧ o'.err = some (.ctx c st.errs st.replies.length) ∧ (∀ w ∈ o'.watchers, w.closed = true) := by
  obtain ⟨hlv, hd⟩ := h
  obtain ⟨o', hs⟩ := set_some o hd st.resp st.clevel (some (.ctx c st.errs st.replies.length)) true
  obtain ⟨_, f2, f3, f4, _⟩ := set_fields o o' _ _ _ _ hs
  refine ⟨o', ?_, f4, by rw [f2, hlv], f3, set_done_closed o o' _ _ _ hs⟩
  simp only [stepArrival, hs, Option.map_some]

/-- everything the loop ever stores as the reply is a value returned by the quorum function
    (so the typed accessor's assertion to the quorum function's static result type holds) -/
theorem run_replies_are_qf_values (qf : RepMap M → V × Int × Bool) (stream : Bool) (x : Nat)
    (st : LoopSt V E M) (o : Obj V E) (as : List (Arrival M E)) (h : Linked st o)
    (P : V → Prop) (hqf : ∀ reps, P (qf reps).1) (ho : ∀ v, o.reply = some v → P v) (hst : ∀ v, st.resp = some v → P v) :
    ∀ o', some o' ∈ run qf stream x st o as → ∀ v, o'.reply = some v → P v := by
  induction as generalizing st o with
  | nil =>
    intro o1 hs
    rw [run_eq] at hs
    split at hs
    · simp only [List.mem_singleton] at hs
      obtain ⟨f1, _⟩ := set_fields o o1 _ _ _ _ hs.symm
      intro v hv
      exact hst v (f1 ▸ hv)
    · simp at hs
  | cons a as ih =>
    intro o1 hs
    rw [run_eq] at hs
    split at hs
    · simp only [List.mem_singleton] at hs
      obtain ⟨f1, _⟩ := set_fields o o1 _ _ _ _ hs.symm
      intro v hv
      exact hst v (f1 ▸ hv)
    · obtain ⟨st', o', r, hstep, _, hlink, _, _, hP⟩ := step_spec qf stream x st o h a
      obtain ⟨hP1, hP2⟩ := hP P hqf ho hst
      simp only [hstep] at hs
      cases r with
      | true =>
        simp only [if_true, List.mem_singleton, Option.some.injEq] at hs
        subst hs; exact hP1
      | false =>
        simp only [Bool.false_eq_true, if_false, List.mem_cons, Option.some.injEq] at hs
        rcases hs with hs | hs
        · subst hs; exact hP1
        · exact ih st' o' (hlink rfl) hP1 hP2 o1 hs

/-- the watcher invariant holds in every snapshot -/
theorem run_watchInv (qf : RepMap M → V × Int × Bool) (stream : Bool) (x : Nat)
    (st : LoopSt V E M) (o : Obj V E) (as : List (Arrival M E)) (h : Linked st o) (hw : WatchInv o) :
    ∀ o', some o' ∈ run qf stream x st o as → WatchInv o' := by
  induction as generalizing st o with
  | nil =>
    intro o1 hs
    rw [run_eq] at hs
    split at hs
    · simp only [List.mem_singleton] at hs
      exact set_preserves o o1 hw _ _ _ _ (by rw [h.1]; exact Int.le_refl _) hs.symm
    · simp at hs
  | cons a as ih =>
    intro o1 hs
    rw [run_eq] at hs
    split at hs
    · simp only [List.mem_singleton] at hs
      exact set_preserves o o1 hw _ _ _ _ (by rw [h.1]; exact Int.le_refl _) hs.symm
    · obtain ⟨st', o', r, hstep, _, hlink, _, hW, _⟩ := step_spec qf stream x st o h a
      simp only [hstep] at hs
      cases r with
      | true =>
        simp only [if_true, List.mem_singleton, Option.some.injEq] at hs
        subst hs; exact hW hw
      | false =>
        simp only [Bool.false_eq_true, if_false, List.mem_cons, Option.some.injEq] at hs
        rcases hs with hs | hs
        · subst hs; exact hW hw
        · exact ih st' o' (hlink rfl) (hW hw) o1 hs

/-- **exhaustion**: a plain call whose targeted nodes have all answered, or a stream call whose
    nodes have all failed, completes at the top of the loop, also with zero targets: with Incomplete —
    or with the context's error if the context has ended by then (its end is the next event) -/
theorem run_exhausted (qf : RepMap M → V × Int × Bool) (stream : Bool) (x : Nat)
    (st : LoopSt V E M) (o : Obj V E) (as : List (Arrival M E)) (h : Linked st o)
    (hx : exhausted stream st.errs.length st.replies.length x = true) :
    ∃ o', run qf stream x st o as = [some o'] ∧ o'.done = true ∧ o'.level = o.level ∧
      o'.err = some (exhaustedErr st.errs st.replies.length as) := by
  obtain ⟨hlv, hd⟩ := h
  obtain ⟨o', hs⟩ := set_some o hd st.resp st.clevel (some (exhaustedErr st.errs st.replies.length as)) true
  obtain ⟨_, f2, f3, f4, _⟩ := set_fields o o' _ _ _ _ hs
  refine ⟨o', ?_, f4, by rw [f2, hlv], f3⟩
  rw [run_eq, hx, if_pos rfl, hs]

/-- what the exhaustion branch reports: Incomplete unless the context's end is the next event … -/
theorem exhaustedErr_incomplete (errs : List (NodeId × E)) (n : Nat) (rest : List (Arrival M E))
    (h : ∀ c post, rest ≠ .ctxDone c :: post) : exhaustedErr errs n rest = .incomplete errs n := by
  unfold exhaustedErr
  split
  · rename_i c post; exact absurd rfl (h c post)
  · rfl

/-- … in which case it is the context's error ("the context's error when the context ends first") -/
theorem exhaustedErr_ctx (errs : List (NodeId × E)) (n : Nat) (c : E) (post : List (Arrival M E)) :
    exhaustedErr errs n (.ctxDone c :: post) = .ctx c errs n := rfl

/-- exhaustion while the context has not ended: Incomplete -/
theorem run_exhausted_incomplete (qf : RepMap M → V × Int × Bool) (stream : Bool) (x : Nat)
    (st : LoopSt V E M) (o : Obj V E) (as : List (Arrival M E)) (h : Linked st o)
    (hx : exhausted stream st.errs.length st.replies.length x = true)
    (hctx : ∀ c post, as ≠ .ctxDone c :: post) :
    ∃ o', run qf stream x st o as = [some o'] ∧ o'.done = true ∧ o'.level = o.level ∧
      o'.err = some (.incomplete st.errs st.replies.length) := by
  obtain ⟨o', h1, h2, h3, h4⟩ := run_exhausted qf stream x st o as h hx
  exact ⟨o', h1, h2, h3, by rw [h4, exhaustedErr_incomplete _ _ _ hctx]⟩

/-- exhaustion when the context has ended: the context's error, with the same lists -/
theorem run_exhausted_ctx (qf : RepMap M → V × Int × Bool) (stream : Bool) (x : Nat)
    (st : LoopSt V E M) (o : Obj V E) (c : E) (post : List (Arrival M E)) (h : Linked st o)
    (hx : exhausted stream st.errs.length st.replies.length x = true) :
    ∃ o', run qf stream x st o (.ctxDone c :: post) = [some o'] ∧ o'.done = true ∧ o'.level = o.level ∧
      o'.err = some (.ctx c st.errs st.replies.length) := by
  obtain ⟨o', h1, h2, h3, h4⟩ := run_exhausted qf stream x st o (.ctxDone c :: post) h hx
  exact ⟨o', h1, h2, h3, by rw [h4, exhaustedErr_ctx]⟩

/-! ### "every node has failed" counts nodes, not errors

The stream arm of the exhaustion test compares the *number of errors* with the number of targeted nodes.
That is "every targeted node has failed" exactly when no node contributes two errors to one call — which is
what the node channel guarantees since the repair of defect D18 (`Chan`: `C05.at_most_one_error`,
`C05.error_is_last`: a request is answered with at most one error, after which its router is gone). -/

/-- pigeonhole: a duplicate-free list of failing nodes, all of them targeted, that is as long as the
    (duplicate-free) list of targeted nodes contains every targeted node -/
theorem all_targets_failed (targets : List NodeId) (errs : List (NodeId × E))
    (ht : targets.Nodup) (hone : (errs.map (·.1)).Nodup) (hsub : ∀ e ∈ errs, e.1 ∈ targets)
    (hlen : errs.length = targets.length) : ∀ n ∈ targets, n ∈ errs.map (·.1) := by
  have _ := ht -- not needed: the count argument only uses that the failing nodes are duplicate-free
  intro n hn
  apply Classical.byContradiction
  intro hnot
  have hsub' : errs.map (·.1) ⊆ targets.erase n := by
    intro x hx
    have hxn : x ≠ n := fun h => hnot (h ▸ hx)
    obtain ⟨e, he, rfl⟩ := List.mem_map.1 hx
    exact (List.mem_erase_of_ne hxn).2 (hsub e he)
  have h1 := hone.length_le_of_subset hsub'
  have hpos : 1 ≤ targets.length := List.length_pos_of_mem hn
  rw [List.length_erase, if_pos hn, List.length_map] at h1
  omega

/-- **a server-stream call completes with Incomplete only when every targeted node has failed** (given that
    a node contributes at most one error to a call): the stream arm of the exhaustion test holds exactly then -/
theorem stream_exhausted_iff_all_failed (targets : List NodeId) (errs : List (NodeId × E)) (nReplies : Nat)
    (ht : targets.Nodup) (hone : (errs.map (·.1)).Nodup) (hsub : ∀ e ∈ errs, e.1 ∈ targets) :
    exhausted true errs.length nReplies targets.length = true ↔ ∀ n ∈ targets, n ∈ errs.map (·.1) := by
  have hle : errs.length ≤ targets.length := by
    have hs : errs.map (·.1) ⊆ targets := by
      intro x hx
      obtain ⟨e, he, rfl⟩ := List.mem_map.1 hx
      exact hsub e he
    have := hone.length_le_of_subset hs
    rwa [List.length_map] at this
  have hex : exhausted true errs.length nReplies targets.length = true ↔ errs.length = targets.length := by
    simp [exhausted]
  rw [hex]
  constructor
  · intro hlen
    exact all_targets_failed targets errs ht hone hsub hlen
  · intro hall
    have hge : targets.length ≤ errs.length := by
      have := ht.length_le_of_subset (l₂ := errs.map (·.1)) (fun x hx => hall x hx)
      rwa [List.length_map] at this
    omega

/-- without that guarantee the count says nothing: the pinned code could report node 1 twice and complete a
    call to nodes 1 and 2 although node 2 had neither answered nor failed -/
theorem pinned_double_error_completes :
    exhausted true ([(1, "handler failed"), (1, "stream is down")] : List (NodeId × String)).length 0 ([1, 2] : List NodeId).length = true ∧
    ¬ (∀ n ∈ ([1, 2] : List NodeId), n ∈ ([(1, "handler failed"), (1, "stream is down")] : List (NodeId × String)).map (·.1)) := by
  decide

end GorumsV.C11
