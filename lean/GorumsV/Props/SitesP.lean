import GorumsV.Props.C09
import GorumsV.Model.LockOrder
/-!
  The blocking sites of channel.go under `streamMut`, as the LTS `ConnMgr` has them.  `LockOrder.modelledSites` names,
  for every place where the tree blocks while holding a lock (regenerated table, Tie/C09 `blocking_sites_modelled`), the
  step of a model that stands for it.  For the sites under `streamMut` the correspondence is not only a name: at the
  program counter that stands for the site the model holds exactly the lock (and mode) the table shows, in every
  reachable state.
-/
namespace GorumsV.SitesP
open GorumsV.ConnMgr GorumsV.C09

/-- `channel.receiver`, `RecvMsg` under `streamMut:R`: the receiver is inside RecvMsg exactly when it holds the read lock -/
theorem recvMsg_under_read (s : St) (h : Reachable s) : s.rpc = .reading ↔ s.readR = true :=
  ((inv_reachable s h).readR).symm

/-- `channel.sendMsg`, `SendMsg` under `streamMut:R`: the sender is inside SendMsg exactly when it holds the read lock -/
theorem sendMsg_under_read (s : St) (h : Reachable s) : s.spc = .sending ↔ s.readS = true :=
  ((inv_reachable s h).readS).symm

/-- `channel.reconnect`, `NodeStream` / `cancelPendingMsgs(true)` under `streamMut:W`: a goroutine is inside the critical
    section of reconnect exactly when it is the writer -/
theorem reconnect_under_write_sender (s : St) (h : Reachable s) :
    (s.spc = .rcHeld ∨ s.spc = .rcBlocked) ↔ s.writer = some .sender := ((inv_reachable s h).writerS).symm
theorem reconnect_under_write_receiver (s : St) (h : Reachable s) :
    (s.rpc = .rcHeld ∨ s.rpc = .rcBlocked) ↔ s.writer = some .receiver := ((inv_reachable s h).writerR).symm

/-- … hence never both at once, and never while the other goroutine is inside RecvMsg / SendMsg under the read lock
    is the *lock's* business: the model's `step` enforces it (a writer needs `readS = false ∧ readR = false`); what the
    invariant adds is that the receiver cannot be reading while it is itself the writer -/
theorem writer_not_reading (s : St) (h : Reachable s) (hw : s.writer = some .receiver) : s.readR = false := by
  have hi := inv_reachable s h
  cases hr : s.readR with
  | false => rfl
  | true =>
    have h1 := hi.readR.mp hr
    rcases hi.writerR.mp hw with h2 | h2 <;> rw [h1] at h2 <;> cases h2

/-- the sites under `streamMut` of the site list, with the program counters that stand for them -/
def streamMutSites : List (String × String × String × List String) :=
  [("channel.receiver", "call", "RecvMsg", ["streamMut:R"]), ("channel.sendMsg", "call", "SendMsg", ["streamMut:R"]),
   ("channel.reconnect", "call", "NodeStream", ["streamMut:W"]), ("channel.newNodeStream", "call", "NodeStream", ["streamMut:W"])]

theorem streamMutSites_listed : ∀ x ∈ streamMutSites, x ∈ LockOrder.modelledSites.map (·.1) := by decide

end GorumsV.SitesP
