import GorumsV.Props.C01
/-!
  C07 — minority failures are tolerated and every failing node is reported exactly once
  (loop-level half; "a waiting call is completed when the connection breaks" is the
  connection model's `cancelPending` theorem, see Props/C05).
-/
namespace GorumsV.C07
open GorumsV.ReplyLoop GorumsV.C02 GorumsV.C01
variable {M E R : Type}

/-- **each failing node contributes exactly one error that names it**: the error list of a
    history has one entry per error arrival, in arrival order, and nothing else -/
theorem errsOf_mem (pre : List (Arrival M E)) (n : NodeId) (c : E) :
    (n, c) ∈ errsOf pre ↔ Arrival.error n c ∈ pre := by
  induction pre with
  | nil => simp [errsOf]
  | cons a pre ih =>
    cases a with
    | reply n' m' => simp [errsOf, ih]
    | error n' c' => simp [errsOf, ih]
    | ctxDone c' => simp [errsOf, ih]

theorem errsOf_length (pre : List (Arrival M E)) :
    (errsOf pre).length = (pre.filter (fun a => match a with | .error _ _ => true | _ => false)).length := by
  induction pre with
  | nil => simp [errsOf]
  | cons a pre ih =>
    cases a with
    | reply n' m' => simp [errsOf, ih]
    | error n' c' => simp [errsOf, ih]
    | ctxDone c' => simp [errsOf, ih]

/-- an error arrival **never** becomes a reply: it does not change the reply set -/
theorem error_not_in_replies (pre : List (Arrival M E)) (n : NodeId) (c : E) :
    replySet (pre ++ [.error n c]) = replySet pre :=
  replySet_append_error pre n c

/-- the error list reported with an Incomplete or context outcome is the error list of the
    consumed history (so every consumed failure is reported, once) -/
theorem reported_errors (P : Params) (qf : RepMap M → R × Bool) (x : Nat) (pre : List (Arrival M E))
    (o : Outcome R E) (h : verdict P qf x pre = some o) :
    (∀ errs n, o = .incomplete errs n → errs = errsOf pre ∧ n = (replySet pre).length) ∧
    (∀ c errs n, o = .ctxErr c errs n → errs = errsOf pre ∧ n = (replySet pre).length) := by
  unfold verdict at h
  split at h
  · have : pre = [] := by simp_all
    subst this
    split at h
    · simp only [Option.some.injEq] at h; subst h
      simp [errsOf, replySet, addReplies]
    · simp at h
  · simp only [Option.some.injEq] at h; subst h
    simp
  · split at h
    · simp only [Option.some.injEq] at h; subst h
      simp
    · simp at h
  · split at h
    · simp only [Option.some.injEq] at h; subst h
      simp
    · split at h
      · simp only [Option.some.injEq] at h; subst h
        simp
      · simp at h

/-- the number of nodes that have answered is bounded by the number of arrivals -/
theorem answered_le (pre : List (Arrival M E)) : answered pre ≤ pre.length := by
  have := errsOf_addReplies_length_le ([] : RepMap M) pre
  simpa [answered, replySet] using this

/-- **failures are tolerated**: if, after a history `pre` of fewer arrivals than targeted nodes,
    without context end and without an earlier quorum, a reply arrives on which the quorum function
    reports a quorum, the call succeeds with that value — whatever errors are interleaved in `pre`. -/
theorem tolerates_failures (P : Params) (hP : P.Good) (qf : RepMap M → R × Bool) (x : Nat)
    (pre post : List (Arrival M E)) (n : NodeId) (m : M)
    (hlen : pre.length < x)
    (hctx : ∀ c, Arrival.ctxDone c ∉ pre)
    (hnoq : ∀ p ∈ prefixes pre, endsInReply p = true → (qf (replySet p)).2 = false)
    (hq : (qf (replySet (pre ++ [.reply n m]))).2 = true) :
    (run P qf x (pre ++ .reply n m :: post)).1 = .ok (qf (replySet (pre ++ [.reply n m]))).1 := by
  apply ok_outcome P qf x pre post n m _ hq
  intro p hp
  rw [verdict_none_iff P hP]
  refine ⟨?_, ?_, ?_⟩
  · intro c hc
    exact hctx c (mem_of_mem_prefixes hp (List.mem_of_getLast? hc))
  · intro n' m' hl
    exact hnoq p hp (by simp [endsInReply, hl])
  · have h1 := answered_le p
    have h2 := prefixes_length_le hp
    omega

/-- under the good parameters an Incomplete verdict is given exactly when all targeted nodes
    have answered -/
theorem incomplete_accounting_verdict (P : Params) (hP : P.Good) (qf : RepMap M → R × Bool) (x : Nat)
    (pre : List (Arrival M E)) (errs : List (NodeId × E)) (k : Nat)
    (h : verdict P qf x pre = some (.incomplete errs k)) : errs.length + k = x := by
  obtain ⟨hex, hpre, _⟩ := hP
  unfold verdict at h
  simp only [hex, hpre] at h
  split at h
  · split at h
    · simp at h; obtain ⟨rfl, rfl⟩ := h; simp_all
    · simp at h
  · simp at h
  · split at h
    · simp at h; obtain ⟨rfl, rfl⟩ := h; simp_all
    · simp at h
  · split at h
    · simp at h
    · split at h
      · simp at h; obtain ⟨rfl, rfl⟩ := h; simp_all
      · simp at h

/-- **exhaustion with failures**: if all `x` targeted nodes have answered (distinct nodes, each
    once) without a quorum and without context end, the outcome is Incomplete with exactly the
    failing nodes listed -/
theorem incomplete_lists_failures (P : Params) (hP : P.Good) (qf : RepMap M → R × Bool) (x : Nat)
    (as : List (Arrival M E)) (errs : List (NodeId × E)) (k : Nat)
    (h : (run P qf x as).1 = .incomplete errs k) :
    ∃ pre, pre ∈ prefixes as ∧ errs = errsOf pre ∧ k = (replySet pre).length ∧ answered pre = x := by
  obtain ⟨q, hq, hv⟩ := run_incomplete_verdict h
  obtain ⟨h1, h2⟩ := (reported_errors P qf x q _ hv).1 errs k rfl
  refine ⟨q, hq, h1, h2, ?_⟩
  have hacc := incomplete_accounting_verdict P hP qf x q errs k hv
  rw [h1, h2] at hacc
  exact hacc

/-- a context-error verdict is given exactly by a history that ends with the context's end -/
theorem ctxErr_verdict (P : Params) (qf : RepMap M → R × Bool) (x : Nat) (p : List (Arrival M E))
    (c : E) (errs : List (NodeId × E)) (k : Nat) (h : verdict P qf x p = some (.ctxErr c errs k)) :
    ∃ pre, p = pre ++ [.ctxDone c] ∧ errs = errsOf pre ∧ k = (replySet pre).length := by
  unfold verdict at h
  split at h
  · split at h <;> simp at h
  · rename_i c' hl
    simp only [Option.some.injEq, Outcome.ctxErr.injEq] at h
    obtain ⟨rfl, rfl, rfl⟩ := h
    obtain ⟨pre, rfl⟩ := List.getLast?_eq_some_iff.mp hl
    exact ⟨pre, rfl, by simp [errsOf], by rw [replySet_append_ctxDone]⟩
  · split at h <;> simp at h
  · split at h
    · simp at h
    · split at h <;> simp at h

/-- **the context's error lists the failures, too** (sibling of `incomplete_lists_failures` for the
    other error outcome): a context-error outcome — whether the loop's `select` saw the context's end
    or the exhaustion branch did (`incompleteCause`) — reports exactly the errors and the number of
    replies of the history before the context's end -/
theorem ctxErr_lists_failures (P : Params) (qf : RepMap M → R × Bool) (x : Nat)
    (as : List (Arrival M E)) (c : E) (errs : List (NodeId × E)) (k : Nat)
    (h : (run P qf x as).1 = .ctxErr c errs k) :
    ∃ pre post, as = pre ++ .ctxDone c :: post ∧ errs = errsOf pre ∧ k = (replySet pre).length := by
  rw [run_eq_spec] at h
  obtain ⟨p, hp, o', hv, ha⟩ := spec_verdict h (by simp)
  obtain ⟨s, rfl⟩ := mem_prefixes.mp hp
  rw [List.drop_left] at ha
  cases o' with
  | ok v => simp [adjust] at ha
  | waiting => simp [adjust] at ha
  | ctxErr c' errs' k' =>
    simp only [adjust, Outcome.ctxErr.injEq] at ha
    obtain ⟨rfl, rfl, rfl⟩ := ha
    obtain ⟨pre, rfl, h1, h2⟩ := ctxErr_verdict P qf x p _ _ _ hv
    exact ⟨pre, s, by simp, h1, h2⟩
  | incomplete errs' k' =>
    simp only [adjust] at ha
    rcases exhaustedOutcome_cases (R := R) P errs' k' s with h' | ⟨c', post, rfl, _, h'⟩
    · rw [h'] at ha; simp at ha
    · rw [h'] at ha
      simp only [Outcome.ctxErr.injEq] at ha
      obtain ⟨rfl, rfl, rfl⟩ := ha
      obtain ⟨h1, h2⟩ := (reported_errors P qf x p _ hv).1 _ _ rfl
      exact ⟨p, post, rfl, h1, h2⟩

/-- … and when it is the exhaustion branch that reports the context's error (the context's end was
    not consumed by the loop: all `x` targeted nodes had answered), the accounting of
    `incomplete_lists_failures` holds as well -/
theorem exhaustion_ctxErr_lists_failures (P : Params) (hP : P.Good) (qf : RepMap M → R × Bool) (x : Nat)
    (pre post : List (Arrival M E)) (c : E) (errs : List (NodeId × E)) (k : Nat)
    (hpre : ∀ p ∈ prefixes pre, p ≠ pre → verdict P qf x p = none)
    (hv : verdict P qf x pre = some (.incomplete errs k)) :
    (run P qf x (pre ++ .ctxDone c :: post)).1 = .ctxErr c errs k ∧
      errs = errsOf pre ∧ k = (replySet pre).length ∧ answered pre = x := by
  obtain ⟨h1, h2⟩ := (reported_errors P qf x pre _ hv).1 errs k rfl
  have hacc := incomplete_accounting_verdict P hP qf x pre errs k hv
  refine ⟨exhaustion_outcome P hP qf x pre (.ctxDone c :: post) errs k hpre hv, h1, h2, ?_⟩
  rw [h1, h2] at hacc
  exact hacc

end GorumsV.C07
