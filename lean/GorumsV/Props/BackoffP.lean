import GorumsV.Model.Backoff
/-!
  C10, the timer half: how long a node's channel waits between two attempts to re-create its stream.  For every
  back-off configuration (multiplier ≥ 1, jitter ≤ 1) and every number of failed attempts the wait is at most
  `MaxDelay · (1 + Jitter)`, never shrinks as failures accumulate, and is constant for a multiplier of one: a node
  that listens again is retried within a bound that does not depend on the length of the outage.
-/
namespace GorumsV.BackoffP
open GorumsV.Backoff

private theorem step_ge (c : Cfg) (hd : 0 < c.den) (hn : c.den ≤ c.num) (d : Nat) : d ≤ d * c.num / c.den :=
  (Nat.le_div_iff_mul_le hd).2 (Nat.mul_le_mul_left d hn)

private theorem grow_ge (c : Cfg) (hd : 0 < c.den) (hn : c.den ≤ c.num) (r : Nat) : ∀ d, d ≤ grow c r d := by
  induction r with
  | zero => intro d; simp [grow]
  | succ r ih =>
    intro d
    simp only [grow]
    split
    · exact Nat.le_trans (step_ge c hd hn d) (ih _)
    · exact Nat.le_refl _

private theorem grow_mono_cap (c : Cfg) (r : Nat) :
    ∀ d d', d ≤ d' → min (grow c r d) c.max ≤ min (grow c r d') c.max := by
  induction r with
  | zero => intro d d' h; simp only [grow]; omega
  | succ r ih =>
    intro d d' h
    simp only [grow]
    by_cases h1 : d < c.max <;> by_cases h2 : d' < c.max
    · rw [if_pos h1, if_pos h2]
      exact ih _ _ (Nat.div_le_div_right (Nat.mul_le_mul_right _ h))
    · rw [if_pos h1, if_neg h2]; omega
    · omega
    · rw [if_neg h1, if_neg h2]; omega

private theorem grow_succ_cap (c : Cfg) (hd : 0 < c.den) (hn : c.den ≤ c.num) (r d : Nat) :
    min (grow c r d) c.max ≤ min (grow c (r + 1) d) c.max := by
  simp only [grow]
  by_cases h1 : d < c.max
  · rw [if_pos h1]; exact grow_mono_cap c r _ _ (step_ge c hd hn d)
  · rw [if_neg h1]; omega

private theorem grow_const (c : Cfg) (hd : 0 < c.den) (hm : c.num = c.den) (r : Nat) : ∀ d, grow c r d = d := by
  induction r with
  | zero => intro d; simp [grow]
  | succ r ih =>
    intro d
    simp only [grow]
    split
    · rw [ih, hm, Nat.mul_div_cancel _ hd]
    · rfl

/-- the delay never exceeds `MaxDelay` -/
theorem delay_le_max (c : Cfg) (r : Nat) : delay c r ≤ c.max := by
  exact Nat.min_le_right _ _

/-- … and is at least the smaller of `BaseDelay` and `MaxDelay` -/
theorem delay_ge_base (c : Cfg) (h : c.Sane) (r : Nat) : min c.base c.max ≤ delay c r := by
  have := grow_ge c h.1 h.2.1 r c.base
  simp only [delay]; omega

/-- the delay does not shrink as failures accumulate -/
theorem delay_mono (c : Cfg) (h : c.Sane) (r r' : Nat) (hr : r ≤ r') : delay c r ≤ delay c r' := by
  induction hr with
  | refl => exact Nat.le_refl _
  | step _ ih => exact Nat.le_trans ih (grow_succ_cap c h.1 h.2.1 _ _)

/-- with a multiplier of one the delay is the same after every failure -/
theorem delay_const (c : Cfg) (hd : 0 < c.den) (hm : c.num = c.den) (r : Nat) : delay c r = min c.base c.max := by
  simp only [delay, grow_const c hd hm r]

/-- once the cap has been reached the delay stays there -/
theorem delay_capped (c : Cfg) (h : c.Sane) (r r' : Nat) (hr : r ≤ r') (hc : delay c r = c.max) : delay c r' = c.max := by
  have h1 := delay_mono c h r r' hr
  have h2 := delay_le_max c r'
  omega

/-- **the wait is bounded for every configuration, every number of failures and every draw**:
    `sleep ≤ MaxDelay · (1 + Jitter)` -/
theorem sleep_le (c : Cfg) (h : c.Sane) (r u : Nat) (hu : u ≤ 2000) :
    sleep c r u ≤ c.max * (1000 + c.jitter) / 1000 := by
  have _ := h  -- the upper bound needs no assumption on the multiplier or the jitter
  have hj : c.jitter * u ≤ c.jitter * 2000 := Nat.mul_le_mul_left _ hu
  have hF : 1000000 + c.jitter * u - c.jitter * 1000 ≤ (1000 + c.jitter) * 1000 := by
    generalize c.jitter * u = x at hj ⊢; omega
  have hD := delay_le_max c r
  have hN : delay c r * (1000000 + c.jitter * u - c.jitter * 1000) ≤ c.max * (1000 + c.jitter) * 1000 := by
    rw [Nat.mul_assoc]; exact Nat.mul_le_mul hD hF
  have : c.max * (1000 + c.jitter) * 1000 / 1000000 = c.max * (1000 + c.jitter) / 1000 :=
    Nat.mul_div_mul_right _ 1000 (by decide : 0 < 1000)
  rw [← this]
  exact Nat.div_le_div_right hN

/-- … and never negative-scaled: at least `delay · (1 − Jitter)` -/
theorem sleep_ge (c : Cfg) (h : c.Sane) (r u : Nat) (hu : u ≤ 2000) :
    delay c r * (1000 - c.jitter) / 1000 ≤ sleep c r u := by
  have _ := hu  -- the lower bound holds for every draw
  have hj := h.2.2
  have hF : (1000 - c.jitter) * 1000 ≤ 1000000 + c.jitter * u - c.jitter * 1000 := by
    generalize c.jitter * u = x; omega
  have hN : delay c r * (1000 - c.jitter) * 1000 ≤ delay c r * (1000000 + c.jitter * u - c.jitter * 1000) := by
    rw [Nat.mul_assoc]; exact Nat.mul_le_mul_left _ hF
  have : delay c r * (1000 - c.jitter) * 1000 / 1000000 = delay c r * (1000 - c.jitter) / 1000 :=
    Nat.mul_div_mul_right _ 1000 (by decide : 0 < 1000)
  rw [← this]
  exact Nat.div_le_div_right hN

/-- non-vacuity: gRPC's default configuration (1 s, ×1.6, jitter 0.2, 120 s): 1 s, 1.6 s, 2.56 s, …, capped at 120 s -/
def grpcDefault : Cfg := { base := 1000000000, max := 120000000000, num := 16, den := 10, jitter := 200 }
example : grpcDefault.Sane := ⟨by decide, by decide, by decide⟩
example : (List.range 4).map (delay grpcDefault) = [1000000000, 1600000000, 2560000000, 4096000000] := by decide
example : delay grpcDefault 40 = 120000000000 := by decide

end GorumsV.BackoffP
