import GorumsV.Props.NetCall
/-!
  The composite system, failures and residue: what the channel theorems say of one channel holds of every node of the
  composite (every node's channel is a reachable `Chan` state), so the per-call statements follow for a call that spans
  nodes.  With one id per call (`ids_unique`) "per request id on node n" is "per (call, node)".
-/
namespace GorumsV.NetP
open GorumsV GorumsV.Net

/-- **C07, end to end: a failing node is reported at most once per call** — on every node, a request is answered with
    at most one error, whatever fails (handler status, failed write, dead stream, replaced stream, closed channel) -/
theorem net_at_most_one_error (P : Params) (s : State) (h : Reachable P s) (n : NodeId) (id : Chan.MsgId) :
    ((Chan.deliveriesOf (s.nodes n).chan id).filter (fun d => d.resp.isErr)).length ≤ 1 :=
  C05.at_most_one_error _ (chan_reachable P s h n) id

/-- … and nothing is delivered for that request after the error -/
theorem net_error_is_last (P : Params) (s : State) (h : Reachable P s) (n : NodeId) (id : Chan.MsgId)
    (pre post : List Chan.Delivery) (d : Chan.Delivery)
    (hd : Chan.deliveriesOf (s.nodes n).chan id = pre ++ d :: post) (he : d.resp.isErr = true) : post = [] :=
  C05.error_is_last _ (chan_reachable P s h n) id pre post d hd he

/-- **C18, end to end: an answered request leaves no routing state on any node** (non-streaming request answered once;
    any request answered with an error) -/
theorem net_no_router_after_error (P : Params) (s : State) (h : Reachable P s) (n : NodeId)
    (d : Chan.Delivery) (hd : d ∈ (s.nodes n).chan.deliveries) (he : d.resp.isErr = true) :
    Chan.hasRouter (s.nodes n).chan d.id = false :=
  C05.no_router_after_error _ (chan_reachable P s h n) d hd he

theorem net_no_router_after_answer (P : Params) (s : State) (h : Reachable P s) (n : NodeId) (id : Chan.MsgId) (c : Chan.CallId)
    (hreg : (id, c, false) ∈ (s.nodes n).chan.registered) (hd : C05.countDeliveries (s.nodes n).chan id = 1) :
    Chan.hasRouter (s.nodes n).chan id = false :=
  C05.no_router_after_answer _ (chan_reachable P s h n) id c hreg hd

/-- every router on every node belongs to a request some call issued to that node (no router is left behind by anything
    but an outstanding request) -/
theorem net_router_is_issued (P : Params) (s : State) (h : Reachable P s) (n : NodeId) (x : Chan.Router)
    (hx : x ∈ (s.nodes n).chan.routers) : ∃ p, (⟨x.id, x.call, n, p⟩ : Issue) ∈ s.issued :=
  ((inv_reachable P s h).node n).routerIssued x hx

end GorumsV.NetP
