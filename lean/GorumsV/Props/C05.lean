import GorumsV.Model.Chan
/-!
  C05 / C18 / C03 (client half) — invariants of the node-channel model `GorumsV.Chan`.

  C05: replies reach only the call that asked, at most once for non-streaming calls; late
       replies are dropped.
  C18: a completed (answered) non-streaming request leaves no router; the router table is
       bounded by what is outstanding.
  C03: the order in which requests are written to the stream respects the order in which the
       hand-offs completed.
  C07: when the stream goes down every pending request is answered with an error.
-/
namespace GorumsV.C05
open GorumsV.Chan

/-- the main invariant -/
structure Inv (s : State) : Prop where
  /-- every router was registered, by the call it points to, with its streaming flag -/
  routerRegistered : ∀ x ∈ s.routers, (x.id, x.call, x.streaming) ∈ s.registered
  /-- ids are registered at most once, so there is at most one router per id -/
  registeredNodup : (s.registered.map (·.1)).Nodup
  routersNodup : (s.routers.map (·.id)).Nodup
  /-- every delivery went to the registrant of its id -/
  deliveredToRegistrant : ∀ d ∈ s.deliveries, ∃ st, (d.id, d.call, st) ∈ s.registered
  /-- a non-streaming request: while its router exists nothing was delivered; afterwards at most one delivery -/
  nonStreaming : ∀ id c, (id, c, false) ∈ s.registered →
      (hasRouter s id = true → deliveriesOf s id = []) ∧ (deliveriesOf s id).length ≤ 1
  /-- queue bookkeeping: what was pushed is what was popped followed by what is still queued -/
  queue : s.pushed = s.popped ++ s.sendQ
  pushedNodup : s.pushed.Nodup
  /-- what was written to the stream is, in order, among what was popped -/
  sentSub : s.sent.Sublist s.popped
  /-- (strengthening) the request the sender holds is the last one popped and was not yet written -/
  heldLast : ∀ id, s.held = some id → ∃ pre, s.popped = pre ++ [id] ∧ s.sent.Sublist pre


/-! ### helpers -/

theorem reg_unique {reg : List (MsgId × CallId × Bool)} (hn : (reg.map (·.1)).Nodup)
    {id : MsgId} {c c' : CallId} {st st' : Bool}
    (h1 : (id, c, st) ∈ reg) (h2 : (id, c', st') ∈ reg) : c = c' ∧ st = st' := by
  induction reg with
  | nil => cases h1
  | cons p t ih =>
    simp only [List.map_cons, List.nodup_cons, List.mem_map, List.mem_cons] at hn h1 h2
    rcases h1 with h1 | h1 <;> rcases h2 with h2 | h2
    · rw [← h1] at h2; cases h2; exact ⟨rfl, rfl⟩
    · subst h1; exact absurd ⟨_, h2, rfl⟩ hn.1
    · subst h2; exact absurd ⟨_, h1, rfl⟩ hn.1
    · exact ih hn.2 h1 h2

theorem hasRouter_iff (s : State) (id : MsgId) : hasRouter s id = true ↔ ∃ x ∈ s.routers, x.id = id := by
  simp [hasRouter, List.any_eq_true]

theorem find_none_of_noRouter (s : State) (id : MsgId) (h : hasRouter s id = false) :
    s.routers.find? (fun x => x.id == id) = none := by
  rw [List.find?_eq_none]
  intro x hx hid
  have : hasRouter s id = true := (hasRouter_iff s id).2 ⟨x, hx, by simpa using hid⟩
  rw [h] at this; cases this

theorem filter_id_length_le_one (l : List Router) (id : MsgId) (hn : (l.map (·.id)).Nodup) :
    (l.filter (fun x => x.id == id)).length ≤ 1 := by
  induction l with
  | nil => simp
  | cons a t ih =>
    simp only [List.map_cons, List.nodup_cons, List.mem_map] at hn
    by_cases ha : a.id = id
    · have : t.filter (fun x => x.id == id) = [] := by
        rw [List.filter_eq_nil_iff]
        intro b hb hbid
        exact hn.1 ⟨b, hb, by rw [ha]; simpa using hbid⟩
      simp [ha, this]
    · have := ih hn.2
      simpa [List.filter_cons, ha] using this

theorem route_noRouter (s : State) (id : MsgId) (r : Resp) (h : hasRouter s id = false) : route s id r = s := by
  unfold route; rw [find_none_of_noRouter s id h]

/-- the parts of the state `route` does not touch -/
theorem route_frame (s : State) (id : MsgId) (r : Resp) :
    (route s id r).registered = s.registered ∧ (route s id r).pushed = s.pushed ∧
    (route s id r).sendQ = s.sendQ ∧ (route s id r).popped = s.popped ∧
    (route s id r).held = s.held ∧ (route s id r).sent = s.sent := by
  unfold route; split <;> simp

theorem inv_route (s : State) (id : MsgId) (r : Resp) (h : Inv s) : Inv (route s id r) := by
  unfold route
  cases hf : s.routers.find? (fun x => x.id == id) with
  | none => exact h
  | some x =>
    have hx : x ∈ s.routers := List.mem_of_find?_eq_some hf
    have hxid : x.id = id := by have := List.find?_some hf; simpa using this
    have hreg := h.routerRegistered x hx
    have hsub : List.Sublist (if x.streaming then s.routers else s.routers.filter (fun y => y.id != id)) s.routers := by
      split
      · exact List.Sublist.refl _
      · exact List.filter_sublist
    refine { routerRegistered := ?_, registeredNodup := h.registeredNodup, routersNodup := ?_,
             deliveredToRegistrant := ?_, nonStreaming := ?_, queue := h.queue,
             pushedNodup := h.pushedNodup, sentSub := h.sentSub, heldLast := h.heldLast }
    · intro y hy
      exact h.routerRegistered y (hsub.subset hy)
    · exact (hsub.map _).nodup h.routersNodup
    · intro d hd
      dsimp only at hd
      rcases List.mem_append.1 hd with hd | hd
      · exact h.deliveredToRegistrant d hd
      · simp only [List.mem_singleton] at hd
        subst hd
        exact ⟨x.streaming, by rw [← hxid]; exact hreg⟩
    · intro id' c hc
      have hold := h.nonStreaming id' c hc
      by_cases hid : id' = id
      · subst hid
        have hst : x.streaming = false := by
          rw [hxid] at hreg
          exact (reg_unique h.registeredNodup hreg hc).2
        have hnil : deliveriesOf s id' = [] := hold.1 ((hasRouter_iff s id').2 ⟨x, hx, hxid⟩)
        have hnil' : s.deliveries.filter (fun d => d.id == id') = [] := hnil
        constructor
        · intro hr
          rw [hasRouter_iff] at hr
          obtain ⟨y, hy, hyid⟩ := hr
          dsimp only at hy
          rw [hst] at hy
          simp at hy
          exact absurd hyid hy.2
        · simp [deliveriesOf, List.filter_append, hnil']
      · have hd : deliveriesOf { s with deliveries := s.deliveries ++ [⟨id, x.call, r⟩], routers := if x.streaming then s.routers else s.routers.filter (fun y => y.id != id) } id'
              = deliveriesOf s id' := by
          have : ¬ id = id' := fun e => hid e.symm
          simp [deliveriesOf, List.filter_append, this]
        rw [hd]
        refine ⟨fun hr => hold.1 ?_, hold.2⟩
        rw [hasRouter_iff] at hr ⊢
        obtain ⟨y, hy, hyid⟩ := hr
        exact ⟨y, hsub.subset hy, hyid⟩

theorem inv_cancelAll (s : State) (h : Inv s) : Inv (cancelAll s) := by
  unfold cancelAll
  have hsub : List.Sublist (s.routers.filter (·.streaming)) s.routers := List.filter_sublist
  refine { routerRegistered := ?_, registeredNodup := h.registeredNodup, routersNodup := ?_,
           deliveredToRegistrant := ?_, nonStreaming := ?_, queue := h.queue,
           pushedNodup := h.pushedNodup, sentSub := h.sentSub, heldLast := h.heldLast }
  · intro y hy
    exact h.routerRegistered y (hsub.subset hy)
  · exact (hsub.map _).nodup h.routersNodup
  · intro d hd
    dsimp only at hd
    rcases List.mem_append.1 hd with hd | hd
    · exact h.deliveredToRegistrant d hd
    · obtain ⟨x, hx, rfl⟩ := List.mem_map.1 hd
      exact ⟨x.streaming, h.routerRegistered x hx⟩
  · intro id c hc
    have hold := h.nonStreaming id c hc
    have hno : hasRouter { s with deliveries := s.deliveries ++ s.routers.map (fun x => (⟨x.id, x.call, .err 0⟩ : Delivery)), routers := s.routers.filter (·.streaming) } id = false := by
      cases hr : hasRouter { s with deliveries := s.deliveries ++ s.routers.map (fun x => (⟨x.id, x.call, .err 0⟩ : Delivery)), routers := s.routers.filter (·.streaming) } id with
      | false => rfl
      | true =>
        rw [hasRouter_iff] at hr
        obtain ⟨y, hy, hyid⟩ := hr
        dsimp only at hy
        obtain ⟨hy1, hy2⟩ := List.mem_filter.1 hy
        have hreg := h.routerRegistered y hy1
        rw [hyid] at hreg
        have := (reg_unique h.registeredNodup hreg hc).2
        rw [this] at hy2; cases hy2
    refine ⟨fun hr => (by rw [hno] at hr; cases hr), ?_⟩
    have hlen : (deliveriesOf { s with deliveries := s.deliveries ++ s.routers.map (fun x => (⟨x.id, x.call, .err 0⟩ : Delivery)), routers := s.routers.filter (·.streaming) } id).length
        = (deliveriesOf s id).length + (s.routers.filter (fun x => x.id == id)).length := by
      simp only [deliveriesOf, List.filter_append, List.length_append, List.filter_map, List.length_map]
      rfl
    rw [hlen]
    cases hr : hasRouter s id with
    | true =>
      rw [hold.1 hr]
      have := filter_id_length_le_one s.routers id h.routersNodup
      simpa using this
    | false =>
      have : s.routers.filter (fun x => x.id == id) = [] := by
        rw [List.filter_eq_nil_iff]
        intro x hx hxid
        have : hasRouter s id = true := (hasRouter_iff s id).2 ⟨x, hx, by simpa using hxid⟩
        rw [hr] at this; cases this
      rw [this]; simpa using hold.2

theorem inv_release (s : State) (h : Inv s) : Inv { s with held := none } :=
  { routerRegistered := h.routerRegistered, registeredNodup := h.registeredNodup,
    routersNodup := h.routersNodup, deliveredToRegistrant := h.deliveredToRegistrant,
    nonStreaming := h.nonStreaming, queue := h.queue, pushedNodup := h.pushedNodup,
    sentSub := h.sentSub, heldLast := fun _ hh => by cases hh }

theorem inv_written (s : State) (id : MsgId) (h : Inv s) (hh : s.held = some id) :
    Inv { s with held := none, sent := s.sent ++ [id] } := by
  obtain ⟨pre, hp, hsub⟩ := h.heldLast id hh
  exact
  { routerRegistered := h.routerRegistered, registeredNodup := h.registeredNodup,
    routersNodup := h.routersNodup, deliveredToRegistrant := h.deliveredToRegistrant,
    nonStreaming := h.nonStreaming, queue := h.queue, pushedNodup := h.pushedNodup,
    sentSub := by
      show (s.sent ++ [id]).Sublist s.popped
      rw [hp]; exact hsub.append (List.Sublist.refl _),
    heldLast := fun _ hh => by cases hh }

/-! ### the invariant is inductive -/

theorem inv_init : Inv init := by
  refine { routerRegistered := ?_, registeredNodup := ?_, routersNodup := ?_,
           deliveredToRegistrant := ?_, nonStreaming := ?_, queue := ?_,
           pushedNodup := ?_, sentSub := ?_, heldLast := ?_ } <;> simp [init]

theorem inv_step (s s' : State) (l : Label) (h : Inv s) (hs : step s l = some s') : Inv s' := by
  cases l with
  | register id c streaming =>
    simp only [step] at hs
    split at hs
    · cases hs
    · rename_i hfresh
      cases hs
      have hfresh' : ∀ c' st', (id, c', st') ∉ s.registered := by
        intro c' st' hm
        apply hfresh
        rw [List.any_eq_true]
        exact ⟨_, hm, by simp⟩
      have hnoDel : deliveriesOf s id = [] := by
        unfold deliveriesOf
        rw [List.filter_eq_nil_iff]
        intro d hd hdid
        obtain ⟨st, hst⟩ := h.deliveredToRegistrant d hd
        have : d.id = id := by simpa using hdid
        rw [this] at hst
        exact hfresh' _ _ hst
      refine { routerRegistered := ?_, registeredNodup := ?_, routersNodup := ?_,
               deliveredToRegistrant := ?_, nonStreaming := ?_, queue := h.queue,
               pushedNodup := h.pushedNodup, sentSub := h.sentSub, heldLast := h.heldLast }
      · intro x hx
        dsimp only at hx ⊢
        rcases List.mem_cons.1 hx with rfl | hx
        · exact List.mem_append_right _ (List.mem_singleton.2 rfl)
        · exact List.mem_append_left _ (h.routerRegistered x hx)
      · dsimp only
        rw [List.map_append, List.nodup_append]
        refine ⟨h.registeredNodup, by simp, ?_⟩
        intro a ha b hb
        simp only [List.map_cons, List.map_nil, List.mem_singleton] at hb
        subst hb
        obtain ⟨p, hp, rfl⟩ := List.mem_map.1 ha
        intro e
        obtain ⟨pid, pc, pst⟩ := p
        dsimp only at e
        subst e
        exact hfresh' _ _ hp
      · dsimp only
        rw [List.map_cons, List.nodup_cons]
        refine ⟨?_, h.routersNodup⟩
        intro hm
        obtain ⟨x, hx, hxid⟩ := List.mem_map.1 hm
        have := h.routerRegistered x hx
        rw [hxid] at this
        exact hfresh' _ _ this
      · intro d hd
        obtain ⟨st, hst⟩ := h.deliveredToRegistrant d hd
        exact ⟨st, List.mem_append_left _ hst⟩
      · intro id' c' hc
        dsimp only at hc
        by_cases hid : id' = id
        · subst hid
          have : deliveriesOf { s with routers := ⟨id', c, streaming⟩ :: s.routers, registered := s.registered ++ [(id', c, streaming)] } id' = [] := hnoDel
          rw [this]
          exact ⟨fun _ => rfl, by simp⟩
        · rcases List.mem_append.1 hc with hc | hc
          · have hold := h.nonStreaming id' c' hc
            refine ⟨fun hr => hold.1 ?_, hold.2⟩
            rw [hasRouter_iff] at hr ⊢
            obtain ⟨y, hy, hyid⟩ := hr
            dsimp only at hy
            rcases List.mem_cons.1 hy with rfl | hy
            · exact absurd hyid.symm hid
            · exact ⟨y, hy, hyid⟩
          · simp only [List.mem_singleton, Prod.mk.injEq] at hc
            exact absurd hc.1 hid
  | handoff id =>
    simp only [step] at hs
    split at hs
    · cases hs
    · rename_i hfresh
      cases hs
      refine { routerRegistered := h.routerRegistered, registeredNodup := h.registeredNodup,
               routersNodup := h.routersNodup, deliveredToRegistrant := h.deliveredToRegistrant,
               nonStreaming := h.nonStreaming, queue := ?_,
               pushedNodup := ?_, sentSub := h.sentSub, heldLast := h.heldLast }
      · dsimp only
        rw [h.queue, List.append_assoc]
      · dsimp only
        rw [List.nodup_append]
        refine ⟨h.pushedNodup, by simp, ?_⟩
        intro a ha b hb
        simp only [List.mem_singleton] at hb
        subst hb
        intro e; subst e
        exact hfresh (by simpa using ha)
  | closedAnswer id =>
    simp only [step, Option.some.injEq] at hs
    subst hs
    exact inv_route s id _ h
  | pop =>
    simp only [step] at hs
    split at hs
    · rename_i id q hheld hq
      cases hs
      refine { routerRegistered := h.routerRegistered, registeredNodup := h.registeredNodup,
               routersNodup := h.routersNodup, deliveredToRegistrant := h.deliveredToRegistrant,
               nonStreaming := h.nonStreaming, queue := ?_,
               pushedNodup := h.pushedNodup, sentSub := ?_, heldLast := ?_ }
      · dsimp only
        rw [h.queue, hq, List.append_assoc]; rfl
      · exact List.sublist_append_of_sublist_left h.sentSub
      · intro id' hid'
        dsimp only at hid' ⊢
        cases hid'
        exact ⟨s.popped, rfl, h.sentSub⟩
    · cases hs
  | sendOk confirm =>
    simp only [step] at hs
    split at hs
    · cases hs
    · rename_i id hheld
      simp only [Option.some.injEq] at hs
      subst hs
      have hw := inv_written s id h hheld
      split
      · exact inv_route _ id _ hw
      · exact hw
  | sendFail kind confirm =>
    simp only [step] at hs
    split at hs
    · cases hs
    · rename_i id hheld
      simp only [Option.some.injEq] at hs
      subst hs
      have hw := inv_release s h
      apply inv_route
      split
      · exact inv_route _ id _ hw
      · exact hw
  | recvReply id r =>
    simp only [step, Option.some.injEq] at hs
    subst hs
    exact inv_route s id r h
  | streamDown =>
    simp only [step, Option.some.injEq] at hs
    subst hs
    exact inv_cancelAll s h
  | deleteRouter id =>
    simp only [step, Option.some.injEq] at hs
    subst hs
    have hsub : List.Sublist (s.routers.filter (fun y => y.id != id)) s.routers := List.filter_sublist
    refine { routerRegistered := ?_, registeredNodup := h.registeredNodup, routersNodup := ?_,
             deliveredToRegistrant := h.deliveredToRegistrant, nonStreaming := ?_, queue := h.queue,
             pushedNodup := h.pushedNodup, sentSub := h.sentSub, heldLast := h.heldLast }
    · intro y hy
      exact h.routerRegistered y (hsub.subset hy)
    · exact (hsub.map _).nodup h.routersNodup
    · intro id' c hc
      have hold := h.nonStreaming id' c hc
      refine ⟨fun hr => hold.1 ?_, hold.2⟩
      rw [hasRouter_iff] at hr ⊢
      obtain ⟨y, hy, hyid⟩ := hr
      exact ⟨y, hsub.subset hy, hyid⟩

theorem inv_exec (ls : List Label) (s s' : State) (h : Inv s) (he : exec s ls = some s') : Inv s' := by
  induction ls generalizing s with
  | nil => simp only [exec, Option.some.injEq] at he; subst he; exact h
  | cons l ls ih =>
    simp only [exec] at he
    cases hst : step s l with
    | none => rw [hst] at he; cases he
    | some s1 =>
      rw [hst] at he
      exact ih s1 (inv_step s s1 l h hst) he

theorem inv_reachable (s : State) (h : Reachable s) : Inv s := by
  obtain ⟨ls, hls⟩ := h
  exact inv_exec ls init s inv_init hls

/-- **C05: each reply or error is delivered to the call whose request caused it** -/
theorem delivered_only_to_registrant (s : State) (h : Reachable s) (d : Delivery) (hd : d ∈ s.deliveries) :
    (∃ st, (d.id, d.call, st) ∈ s.registered) ∧ ∀ c st, (d.id, c, st) ∈ s.registered → c = d.call := by
  have hi := inv_reachable s h
  obtain ⟨st0, h0⟩ := hi.deliveredToRegistrant d hd
  exact ⟨⟨st0, h0⟩, fun c st hc => (reg_unique hi.registeredNodup hc h0).1⟩

def countDeliveries (s : State) (id : MsgId) : Nat := (deliveriesOf s id).length

/-- **C05: at most once per node for non-streaming calls** -/
theorem at_most_once (s : State) (h : Reachable s) (id : MsgId) (c : CallId)
    (hreg : (id, c, false) ∈ s.registered) : countDeliveries s id ≤ 1 :=
  ((inv_reachable s h).nonStreaming id c hreg).2

/-- **C05: replies that arrive after their call's router is gone are discarded** -/
theorem late_reply_dropped (s : State) (id : MsgId) (r : Resp) (h : hasRouter s id = false) :
    step s (.recvReply id r) = some s := by
  simp only [step, route_noRouter s id r h]

/-- **C18: once a non-streaming request has been answered no routing state is kept for it** -/
theorem no_router_after_answer (s : State) (h : Reachable s) (id : MsgId) (c : CallId)
    (hreg : (id, c, false) ∈ s.registered) (hd : countDeliveries s id = 1) : hasRouter s id = false := by
  cases hr : hasRouter s id with
  | false => rfl
  | true =>
    have := ((inv_reachable s h).nonStreaming id c hreg).1 hr
    unfold countDeliveries at hd
    rw [this] at hd
    cases hd

/-- **C18: the router table is bounded by what is outstanding**: every router belongs to a registered
    request, one router per request -/
theorem routers_bounded (s : State) (h : Reachable s) : s.routers.length ≤ s.registered.length := by
  have hi := inv_reachable s h
  have hsub : s.routers.map (·.id) ⊆ s.registered.map (·.1) := by
    intro a ha
    obtain ⟨x, hx, rfl⟩ := List.mem_map.1 ha
    exact List.mem_map.2 ⟨_, hi.routerRegistered x hx, rfl⟩
  have := hi.routersNodup.length_le_of_subset hsub
  simpa using this

/-- **C18: a streaming router disappears when its call's deferred deletion runs** -/
theorem deleteRouter_removes (s s' : State) (id : MsgId) (hs : step s (.deleteRouter id) = some s') :
    hasRouter s' id = false := by
  simp only [step, Option.some.injEq] at hs
  subst hs
  cases hr : hasRouter { s with routers := s.routers.filter (fun y => y.id != id) } id with
  | false => rfl
  | true =>
    rw [hasRouter_iff] at hr
    obtain ⟨y, hy, hyid⟩ := hr
    have := (List.mem_filter.1 hy).2
    simp at this
    exact absurd hyid this

/-- **C07: when the connection breaks every pending request is completed with an error** (and
    non-streaming ones lose their router) -/
theorem streamDown_answers_all (s s' : State) (hs : step s .streamDown = some s') :
    (∀ x ∈ s.routers, ⟨x.id, x.call, .err 0⟩ ∈ s'.deliveries) ∧ (∀ x ∈ s'.routers, x.streaming = true) := by
  simp only [step, Option.some.injEq] at hs
  subst hs
  constructor
  · intro x hx
    exact List.mem_append_right _ (List.mem_map.2 ⟨x, hx, rfl⟩)
  · intro x hx
    exact (List.mem_filter.1 hx).2

/-- **C03 (client half): requests are written to the stream in the order in which their hand-offs
    completed**; each at most once -/
theorem sent_in_handoff_order (s : State) (h : Reachable s) : s.sent.Sublist s.pushed ∧ s.pushed.Nodup := by
  have hi := inv_reachable s h
  refine ⟨?_, hi.pushedNodup⟩
  rw [hi.queue]
  exact List.sublist_append_of_sublist_left hi.sentSub

/-- the send queue is FIFO: what the sender has taken is a prefix of what was pushed -/
theorem popped_prefix_of_pushed (s : State) (h : Reachable s) : s.popped <+: s.pushed := by
  rw [(inv_reachable s h).queue]
  exact List.prefix_append _ _

/-- non-vacuity: a concrete execution with a late reply after a cancellation of the stream -/
example : ∃ s, exec init [.register 1 7 false, .handoff 1, .pop, .sendOk false, .streamDown, .recvReply 1 (.reply 5)] = some s ∧
    s.deliveries = [⟨1, 7, .err 0⟩] ∧ s.routers = [] := by
  refine ⟨_, rfl, ?_, ?_⟩ <;> decide

end GorumsV.C05
