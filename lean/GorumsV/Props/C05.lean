import GorumsV.Model.Chan
/-!
  C05 / C18 / C03 (client half) — invariants of the node-channel model `GorumsV.Chan`.

  C05: replies reach only the call that asked, at most once for non-streaming calls; late
       replies are dropped.
  C18: a completed (answered) non-streaming request leaves no router; the router table is
       bounded by what is outstanding.
  C03: the order in which requests are written to the stream respects the order in which the
       hand-offs completed.
  C07: when the stream goes down every pending request is answered with an error; a request
       (streaming or not) is answered with at most one error, and nothing after it: a failing
       node is reported once (the repair of defect D18: a streaming router used to survive an
       error, so that a node whose handler failed and whose connection then broke was reported
       twice and counted as two failed nodes).
-/
namespace GorumsV.C05
open GorumsV.Chan

/-- the main invariant -/
structure Inv (s : State) : Prop where
  /-- every router was registered, by the call it points to, with its streaming flag -/
  routerRegistered : ∀ x ∈ s.routers, (x.id, x.call, x.streaming) ∈ s.registered
  /-- ids are registered at most once, so there is at most one router per id -/
  registeredNodup : (s.registered.map (·.1)).Nodup
  routersNodup : (s.routers.map (·.id)).Nodup
  /-- every delivery went to the registrant of its id -/
  deliveredToRegistrant : ∀ d ∈ s.deliveries, ∃ st, (d.id, d.call, st) ∈ s.registered
  /-- a non-streaming request: while its router exists nothing was delivered; afterwards at most one delivery -/
  nonStreaming : ∀ id c, (id, c, false) ∈ s.registered →
      (hasRouter s id = true → deliveriesOf s id = []) ∧ (deliveriesOf s id).length ≤ 1
  /-- queue bookkeeping: what was pushed is what was popped followed by what is still queued -/
  queue : s.pushed = s.popped ++ s.sendQ
  pushedNodup : s.pushed.Nodup
  /-- what was written to the stream is, in order, among what was popped -/
  sentSub : s.sent.Sublist s.popped
  /-- (strengthening) the request the sender holds is the last one popped and was not yet written -/
  heldLast : ∀ id, s.held = some id → ∃ pre, s.popped = pre ++ [id] ∧ s.sent.Sublist pre
  /-- (D18) a request that has been answered with an error keeps no router, streaming or not -/
  noRouterAfterErr : ∀ d ∈ s.deliveries, d.resp.isErr = true → hasRouter s d.id = false
  /-- (D18) whatever was delivered for an id before its last delivery is not an error -/
  errLast : ∀ id, ∀ d ∈ (deliveriesOf s id).dropLast, d.resp.isErr = false


/-! ### helpers -/

theorem reg_unique {reg : List (MsgId × CallId × Bool)} (hn : (reg.map (·.1)).Nodup)
    {id : MsgId} {c c' : CallId} {st st' : Bool}
    (h1 : (id, c, st) ∈ reg) (h2 : (id, c', st') ∈ reg) : c = c' ∧ st = st' := by
  induction reg with
  | nil => cases h1
  | cons p t ih =>
    simp only [List.map_cons, List.nodup_cons, List.mem_map, List.mem_cons] at hn h1 h2
    rcases h1 with h1 | h1 <;> rcases h2 with h2 | h2
    · rw [← h1] at h2; cases h2; exact ⟨rfl, rfl⟩
    · subst h1; exact absurd ⟨_, h2, rfl⟩ hn.1
    · subst h2; exact absurd ⟨_, h1, rfl⟩ hn.1
    · exact ih hn.2 h1 h2

theorem hasRouter_iff (s : State) (id : MsgId) : hasRouter s id = true ↔ ∃ x ∈ s.routers, x.id = id := by
  simp [hasRouter, List.any_eq_true]

theorem find_none_of_noRouter (s : State) (id : MsgId) (h : hasRouter s id = false) :
    s.routers.find? (fun x => x.id == id) = none := by
  rw [List.find?_eq_none]
  intro x hx hid
  have : hasRouter s id = true := (hasRouter_iff s id).2 ⟨x, hx, by simpa using hid⟩
  rw [h] at this; cases this

theorem filter_id_length_le_one (l : List Router) (id : MsgId) (hn : (l.map (·.id)).Nodup) :
    (l.filter (fun x => x.id == id)).length ≤ 1 := by
  induction l with
  | nil => simp
  | cons a t ih =>
    simp only [List.map_cons, List.nodup_cons, List.mem_map] at hn
    by_cases ha : a.id = id
    · have : t.filter (fun x => x.id == id) = [] := by
        rw [List.filter_eq_nil_iff]
        intro b hb hbid
        exact hn.1 ⟨b, hb, by rw [ha]; simpa using hbid⟩
      simp [ha, this]
    · have := ih hn.2
      simpa [List.filter_cons, ha] using this

/-- a sub-table has no router where the table has none -/
theorem hasRouter_mono (s s' : State) (hsub : s'.routers.Sublist s.routers) (id : MsgId)
    (h : hasRouter s id = false) : hasRouter s' id = false := by
  cases hr : hasRouter s' id with
  | false => rfl
  | true =>
    rw [hasRouter_iff] at hr
    obtain ⟨y, hy, hyid⟩ := hr
    have : hasRouter s id = true := (hasRouter_iff s id).2 ⟨y, hsub.subset hy, hyid⟩
    rw [h] at this; cases this

/-- while a router for `id` exists no error has been delivered for `id` -/
theorem noErr_of_hasRouter {s : State}
    (h : ∀ d ∈ s.deliveries, d.resp.isErr = true → hasRouter s d.id = false)
    (id : MsgId) (hr : hasRouter s id = true) : ∀ d ∈ deliveriesOf s id, d.resp.isErr = false := by
  intro d hd
  obtain ⟨hd1, hd2⟩ := List.mem_filter.1 hd
  have hid : d.id = id := by simpa using hd2
  cases he : d.resp.isErr with
  | false => rfl
  | true =>
    have := h d hd1 he
    rw [hid, hr] at this; cases this

theorem hasRouter_false_of (s : State) (id : MsgId) (h : ∀ y ∈ s.routers, y.id ≠ id) : hasRouter s id = false := by
  cases hr : hasRouter s id with
  | false => rfl
  | true =>
    rw [hasRouter_iff] at hr
    obtain ⟨y, hy, hyid⟩ := hr
    exact absurd hyid (h y hy)

theorem deliveriesOf_cancelAll (s : State) (id : MsgId) :
    deliveriesOf (cancelAll s) id
      = deliveriesOf s id ++ (s.routers.filter (fun x => x.id == id)).map (fun x => (⟨x.id, x.call, .err 0⟩ : Delivery)) := by
  simp only [cancelAll, deliveriesOf, List.filter_append, List.filter_map]
  rfl

theorem filter_id_nil_of_noRouter (s : State) (id : MsgId) (hr : hasRouter s id = false) :
    s.routers.filter (fun x => x.id == id) = [] := by
  rw [List.filter_eq_nil_iff]
  intro x hx hxid
  have : hasRouter s id = true := (hasRouter_iff s id).2 ⟨x, hx, by simpa using hxid⟩
  rw [hr] at this; cases this

theorem route_noRouter (s : State) (id : MsgId) (r : Resp) (h : hasRouter s id = false) : route s id r = s := by
  unfold route; rw [find_none_of_noRouter s id h]

/-- the parts of the state `route` does not touch -/
theorem route_frame (s : State) (id : MsgId) (r : Resp) :
    (route s id r).registered = s.registered ∧ (route s id r).pushed = s.pushed ∧
    (route s id r).sendQ = s.sendQ ∧ (route s id r).popped = s.popped ∧
    (route s id r).held = s.held ∧ (route s id r).sent = s.sent := by
  unfold route; split <;> simp

theorem inv_route (s : State) (id : MsgId) (r : Resp) (h : Inv s) : Inv (route s id r) := by
  unfold route
  cases hf : s.routers.find? (fun x => x.id == id) with
  | none => exact h
  | some x =>
    dsimp only
    have hx : x ∈ s.routers := List.mem_of_find?_eq_some hf
    have hxid : x.id = id := by have := List.find?_some hf; simpa using this
    have hreg := h.routerRegistered x hx
    have hhas : hasRouter s id = true := (hasRouter_iff s id).2 ⟨x, hx, hxid⟩
    have hsub : List.Sublist (if (x.streaming && !r.isErr) = true then s.routers else s.routers.filter (fun y => y.id != id)) s.routers := by
      split
      · exact List.Sublist.refl _
      · exact List.filter_sublist
    -- deliveries of the other ids are unchanged; the routed id gets one more
    have hdne : ∀ id', id' ≠ id → ∀ R, deliveriesOf { s with deliveries := s.deliveries ++ [⟨id, x.call, r⟩], routers := R } id'
        = deliveriesOf s id' := by
      intro id' hid R
      have : ¬ id = id' := fun e => hid e.symm
      simp [deliveriesOf, List.filter_append, this]
    have hdeq : ∀ R, deliveriesOf { s with deliveries := s.deliveries ++ [⟨id, x.call, r⟩], routers := R } id
        = deliveriesOf s id ++ [⟨id, x.call, r⟩] := by
      intro R
      simp [deliveriesOf, List.filter_append]
    refine { routerRegistered := ?_, registeredNodup := h.registeredNodup, routersNodup := ?_,
             deliveredToRegistrant := ?_, nonStreaming := ?_, queue := h.queue,
             pushedNodup := h.pushedNodup, sentSub := h.sentSub, heldLast := h.heldLast,
             noRouterAfterErr := ?_, errLast := ?_ }
    · intro y hy
      exact h.routerRegistered y (hsub.subset hy)
    · exact (hsub.map _).nodup h.routersNodup
    · intro d hd
      dsimp only at hd
      rcases List.mem_append.1 hd with hd | hd
      · exact h.deliveredToRegistrant d hd
      · simp only [List.mem_singleton] at hd
        subst hd
        exact ⟨x.streaming, by rw [← hxid]; exact hreg⟩
    · intro id' c hc
      have hold := h.nonStreaming id' c hc
      by_cases hid : id' = id
      · subst hid
        have hst : x.streaming = false := by
          rw [hxid] at hreg
          exact (reg_unique h.registeredNodup hreg hc).2
        have hnil : deliveriesOf s id' = [] := hold.1 hhas
        constructor
        · intro hr
          rw [hasRouter_iff] at hr
          obtain ⟨y, hy, hyid⟩ := hr
          dsimp only at hy
          rw [hst] at hy
          simp at hy
          exact absurd hyid hy.2
        · rw [hdeq, hnil]; simp
      · rw [hdne id' hid]
        refine ⟨fun hr => hold.1 ?_, hold.2⟩
        rw [hasRouter_iff] at hr ⊢
        obtain ⟨y, hy, hyid⟩ := hr
        exact ⟨y, hsub.subset hy, hyid⟩
    · intro d hd he
      dsimp only at hd
      rcases List.mem_append.1 hd with hd | hd
      · exact hasRouter_mono s _ hsub d.id (h.noRouterAfterErr d hd he)
      · simp only [List.mem_singleton] at hd
        subst hd
        dsimp only at he ⊢
        apply hasRouter_false_of
        intro y hy
        dsimp only at hy
        rw [he] at hy
        simp at hy
        exact hy.2
    · intro id' d hd
      by_cases hid : id' = id
      · subst hid
        rw [hdeq, List.dropLast_concat] at hd
        exact noErr_of_hasRouter h.noRouterAfterErr id' hhas d hd
      · rw [hdne id' hid] at hd
        exact h.errLast id' d hd

theorem inv_cancelAll (s : State) (h : Inv s) : Inv (cancelAll s) := by
  refine { routerRegistered := ?_, registeredNodup := h.registeredNodup, routersNodup := ?_,
           deliveredToRegistrant := ?_, nonStreaming := ?_, queue := h.queue,
           pushedNodup := h.pushedNodup, sentSub := h.sentSub, heldLast := h.heldLast,
           noRouterAfterErr := fun _ _ _ => rfl, errLast := ?_ }
  · intro y hy
    cases hy
  · exact List.nodup_nil
  · intro d hd
    rcases List.mem_append.1 hd with hd | hd
    · exact h.deliveredToRegistrant d hd
    · obtain ⟨x, hx, rfl⟩ := List.mem_map.1 hd
      exact ⟨x.streaming, h.routerRegistered x hx⟩
  · intro id c hc
    have hold := h.nonStreaming id c hc
    refine ⟨fun hr => (by cases hr), ?_⟩
    rw [deliveriesOf_cancelAll, List.length_append, List.length_map]
    cases hr : hasRouter s id with
    | true =>
      rw [hold.1 hr]
      have := filter_id_length_le_one s.routers id h.routersNodup
      simpa using this
    | false =>
      rw [filter_id_nil_of_noRouter s id hr]; simpa using hold.2
  · intro id d hd
    rw [deliveriesOf_cancelAll] at hd
    cases hr : hasRouter s id with
    | false =>
      rw [filter_id_nil_of_noRouter s id hr, List.map_nil, List.append_nil] at hd
      exact h.errLast id d hd
    | true =>
      have hlen := filter_id_length_le_one s.routers id h.routersNodup
      rcases hfl : s.routers.filter (fun x => x.id == id) with _ | ⟨y, _ | ⟨z, t⟩⟩
      · rw [hfl, List.map_nil, List.append_nil] at hd
        exact h.errLast id d hd
      · rw [hfl, List.map_cons, List.map_nil, List.dropLast_concat] at hd
        exact noErr_of_hasRouter h.noRouterAfterErr id hr d hd
      · rw [hfl] at hlen
        simp at hlen

theorem deliveriesOf_cancelWritten (s : State) (id : MsgId) :
    deliveriesOf (cancelWritten s) id
      = deliveriesOf s id ++ ((s.routers.filter (fun x => x.id == id)).filter (fun x => s.sent.contains x.id)).map
          (fun x => (⟨x.id, x.call, .err 0⟩ : Delivery)) := by
  simp only [cancelWritten, deliveriesOf, List.filter_append, List.filter_map, List.filter_filter]
  congr 3
  funext a
  exact Bool.and_comm _ _

/-- `cancelPendingMsgs(true)`: the routers of written requests are answered with one error each and deleted;
    the routers that are kept get no delivery -/
theorem inv_cancelWritten (s : State) (h : Inv s) : Inv (cancelWritten s) := by
  have hsub : (cancelWritten s).routers.Sublist s.routers := List.filter_sublist
  have hFlen : ∀ id, ((s.routers.filter (fun x => x.id == id)).filter (fun x => s.sent.contains x.id)).length ≤ 1 :=
    fun id => Nat.le_trans (List.length_filter_le _ _) (filter_id_length_le_one s.routers id h.routersNodup)
  refine { routerRegistered := ?_, registeredNodup := h.registeredNodup, routersNodup := ?_,
           deliveredToRegistrant := ?_, nonStreaming := ?_, queue := h.queue,
           pushedNodup := h.pushedNodup, sentSub := h.sentSub, heldLast := h.heldLast,
           noRouterAfterErr := ?_, errLast := ?_ }
  · intro y hy
    exact h.routerRegistered y (hsub.subset hy)
  · exact (hsub.map _).nodup h.routersNodup
  · intro d hd
    rcases List.mem_append.1 hd with hd | hd
    · exact h.deliveredToRegistrant d hd
    · obtain ⟨x, hx, rfl⟩ := List.mem_map.1 hd
      exact ⟨x.streaming, h.routerRegistered x (List.mem_filter.1 hx).1⟩
  · intro id c hc
    have hold := h.nonStreaming id c hc
    constructor
    · -- a router that is kept belongs to a request that was not written: it gets no delivery
      intro hr
      rw [hasRouter_iff] at hr
      obtain ⟨y, hy, hyid⟩ := hr
      obtain ⟨hy1, hy2⟩ := List.mem_filter.1 hy
      have hF : (s.routers.filter (fun x => x.id == id)).filter (fun x => s.sent.contains x.id) = [] := by
        rw [List.filter_eq_nil_iff]
        intro z hz hzs
        have hzid : z.id = id := by simpa using (List.mem_filter.1 hz).2
        rw [hzid, ← hyid] at hzs
        rw [hzs] at hy2
        cases hy2
      rw [deliveriesOf_cancelWritten, hF, List.map_nil, List.append_nil]
      exact hold.1 ((hasRouter_iff s id).2 ⟨y, hy1, hyid⟩)
    · rw [deliveriesOf_cancelWritten, List.length_append, List.length_map]
      cases hr : hasRouter s id with
      | true =>
        rw [hold.1 hr]
        simpa using hFlen id
      | false =>
        rw [filter_id_nil_of_noRouter s id hr]; simpa using hold.2
  · intro d hd he
    rcases List.mem_append.1 hd with hd | hd
    · exact hasRouter_mono s _ hsub d.id (h.noRouterAfterErr d hd he)
    · -- the answered request was written, the routers that are kept are of requests that were not
      obtain ⟨x, hx, rfl⟩ := List.mem_map.1 hd
      apply hasRouter_false_of
      intro y hy hyx
      have h1 := (List.mem_filter.1 hx).2
      have h2 := (List.mem_filter.1 hy).2
      dsimp only at hyx h1 h2
      rw [hyx, h1] at h2
      cases h2
  · intro id d hd
    rw [deliveriesOf_cancelWritten] at hd
    rcases hfl : (s.routers.filter (fun x => x.id == id)).filter (fun x => s.sent.contains x.id) with _ | ⟨y, _ | ⟨z, t⟩⟩
    · rw [hfl, List.map_nil, List.append_nil] at hd
      exact h.errLast id d hd
    · rw [hfl, List.map_cons, List.map_nil, List.dropLast_concat] at hd
      have hy : y ∈ (s.routers.filter (fun x => x.id == id)).filter (fun x => s.sent.contains x.id) := by
        rw [hfl]; exact List.mem_singleton.2 rfl
      have hy' := List.mem_filter.1 (List.mem_filter.1 hy).1
      have hr : hasRouter s id = true := (hasRouter_iff s id).2 ⟨y, hy'.1, by simpa using hy'.2⟩
      exact noErr_of_hasRouter h.noRouterAfterErr id hr d hd
    · have hlen := hFlen id
      rw [hfl] at hlen
      simp at hlen

theorem inv_release (s : State) (h : Inv s) : Inv { s with held := none } :=
  { routerRegistered := h.routerRegistered, registeredNodup := h.registeredNodup,
    routersNodup := h.routersNodup, deliveredToRegistrant := h.deliveredToRegistrant,
    nonStreaming := h.nonStreaming, queue := h.queue, pushedNodup := h.pushedNodup,
    sentSub := h.sentSub, heldLast := fun _ hh => (by cases hh),
    noRouterAfterErr := h.noRouterAfterErr, errLast := h.errLast }

theorem inv_written (s : State) (id : MsgId) (h : Inv s) (hh : s.held = some id) :
    Inv { s with held := none, sent := s.sent ++ [id] } := by
  obtain ⟨pre, hp, hsub⟩ := h.heldLast id hh
  exact
  { routerRegistered := h.routerRegistered, registeredNodup := h.registeredNodup,
    routersNodup := h.routersNodup, deliveredToRegistrant := h.deliveredToRegistrant,
    nonStreaming := h.nonStreaming, queue := h.queue, pushedNodup := h.pushedNodup,
    sentSub := by
      show (s.sent ++ [id]).Sublist s.popped
      rw [hp]; exact hsub.append (List.Sublist.refl _),
    heldLast := fun _ hh => (by cases hh),
    noRouterAfterErr := h.noRouterAfterErr, errLast := h.errLast }

/-! ### the invariant is inductive -/

theorem inv_init : Inv init := by
  refine { routerRegistered := ?_, registeredNodup := ?_, routersNodup := ?_,
           deliveredToRegistrant := ?_, nonStreaming := ?_, queue := ?_,
           pushedNodup := ?_, sentSub := ?_, heldLast := ?_,
           noRouterAfterErr := ?_, errLast := ?_ } <;> simp [init, deliveriesOf]

theorem inv_step (s s' : State) (l : Label) (h : Inv s) (hs : step s l = some s') : Inv s' := by
  cases l with
  | register id c streaming =>
    simp only [step] at hs
    split at hs
    · cases hs
    · rename_i hfresh
      cases hs
      have hfresh' : ∀ c' st', (id, c', st') ∉ s.registered := by
        intro c' st' hm
        apply hfresh
        rw [List.any_eq_true]
        exact ⟨_, hm, by simp⟩
      have hnoDel : deliveriesOf s id = [] := by
        unfold deliveriesOf
        rw [List.filter_eq_nil_iff]
        intro d hd hdid
        obtain ⟨st, hst⟩ := h.deliveredToRegistrant d hd
        have : d.id = id := by simpa using hdid
        rw [this] at hst
        exact hfresh' _ _ hst
      refine { routerRegistered := ?_, registeredNodup := ?_, routersNodup := ?_,
               deliveredToRegistrant := ?_, nonStreaming := ?_, queue := h.queue,
               pushedNodup := h.pushedNodup, sentSub := h.sentSub, heldLast := h.heldLast,
               noRouterAfterErr := ?_, errLast := h.errLast }
      · intro x hx
        dsimp only at hx ⊢
        rcases List.mem_cons.1 hx with rfl | hx
        · exact List.mem_append_right _ (List.mem_singleton.2 rfl)
        · exact List.mem_append_left _ (h.routerRegistered x hx)
      · dsimp only
        rw [List.map_append, List.nodup_append]
        refine ⟨h.registeredNodup, by simp, ?_⟩
        intro a ha b hb
        simp only [List.map_cons, List.map_nil, List.mem_singleton] at hb
        subst hb
        obtain ⟨p, hp, rfl⟩ := List.mem_map.1 ha
        intro e
        obtain ⟨pid, pc, pst⟩ := p
        dsimp only at e
        subst e
        exact hfresh' _ _ hp
      · dsimp only
        rw [List.map_cons, List.nodup_cons]
        refine ⟨?_, h.routersNodup⟩
        intro hm
        obtain ⟨x, hx, hxid⟩ := List.mem_map.1 hm
        have := h.routerRegistered x hx
        rw [hxid] at this
        exact hfresh' _ _ this
      · intro d hd
        obtain ⟨st, hst⟩ := h.deliveredToRegistrant d hd
        exact ⟨st, List.mem_append_left _ hst⟩
      · intro id' c' hc
        dsimp only at hc
        by_cases hid : id' = id
        · subst hid
          have : deliveriesOf { s with routers := ⟨id', c, streaming⟩ :: s.routers, registered := s.registered ++ [(id', c, streaming)] } id' = [] := hnoDel
          rw [this]
          exact ⟨fun _ => rfl, by simp⟩
        · rcases List.mem_append.1 hc with hc | hc
          · have hold := h.nonStreaming id' c' hc
            refine ⟨fun hr => hold.1 ?_, hold.2⟩
            rw [hasRouter_iff] at hr ⊢
            obtain ⟨y, hy, hyid⟩ := hr
            dsimp only at hy
            rcases List.mem_cons.1 hy with rfl | hy
            · exact absurd hyid.symm hid
            · exact ⟨y, hy, hyid⟩
          · simp only [List.mem_singleton, Prod.mk.injEq] at hc
            exact absurd hc.1 hid
      · -- a fresh id has no delivery, so the new router is not one of an id answered with an error
        intro d hd he
        have hold := h.noRouterAfterErr d hd he
        cases hr : hasRouter { s with routers := ⟨id, c, streaming⟩ :: s.routers, registered := s.registered ++ [(id, c, streaming)] } d.id with
        | false => rfl
        | true =>
          rw [hasRouter_iff] at hr
          obtain ⟨y, hy, hyid⟩ := hr
          dsimp only at hy
          rcases List.mem_cons.1 hy with rfl | hy
          · obtain ⟨st, hst⟩ := h.deliveredToRegistrant d hd
            rw [← hyid] at hst
            exact absurd hst (hfresh' _ _)
          · have : hasRouter s d.id = true := (hasRouter_iff s d.id).2 ⟨y, hy, hyid⟩
            rw [hold] at this; cases this
  | handoff id =>
    simp only [step] at hs
    split at hs
    · cases hs
    · rename_i hfresh
      cases hs
      refine { routerRegistered := h.routerRegistered, registeredNodup := h.registeredNodup,
               routersNodup := h.routersNodup, deliveredToRegistrant := h.deliveredToRegistrant,
               nonStreaming := h.nonStreaming, queue := ?_,
               pushedNodup := ?_, sentSub := h.sentSub, heldLast := h.heldLast,
               noRouterAfterErr := h.noRouterAfterErr, errLast := h.errLast }
      · dsimp only
        rw [h.queue, List.append_assoc]
      · dsimp only
        rw [List.nodup_append]
        refine ⟨h.pushedNodup, by simp, ?_⟩
        intro a ha b hb
        simp only [List.mem_singleton] at hb
        subst hb
        intro e; subst e
        exact hfresh (by simpa using ha)
  | closedAnswer id =>
    simp only [step, Option.some.injEq] at hs
    subst hs
    exact inv_route s id _ h
  | pop =>
    simp only [step] at hs
    split at hs
    · rename_i id q hheld hq
      cases hs
      refine { routerRegistered := h.routerRegistered, registeredNodup := h.registeredNodup,
               routersNodup := h.routersNodup, deliveredToRegistrant := h.deliveredToRegistrant,
               nonStreaming := h.nonStreaming, queue := ?_,
               pushedNodup := h.pushedNodup, sentSub := ?_, heldLast := ?_,
               noRouterAfterErr := h.noRouterAfterErr, errLast := h.errLast }
      · dsimp only
        rw [h.queue, hq, List.append_assoc]; rfl
      · exact List.sublist_append_of_sublist_left h.sentSub
      · intro id' hid'
        dsimp only at hid' ⊢
        cases hid'
        exact ⟨s.popped, rfl, h.sentSub⟩
    · cases hs
  | sendOk confirm =>
    simp only [step] at hs
    split at hs
    · cases hs
    · rename_i id hheld
      simp only [Option.some.injEq] at hs
      subst hs
      have hw := inv_written s id h hheld
      split
      · exact inv_route _ id _ hw
      · exact hw
  | sendFail kind confirm =>
    simp only [step] at hs
    split at hs
    · cases hs
    · rename_i id hheld
      simp only [Option.some.injEq] at hs
      subst hs
      have hw := inv_release s h
      apply inv_route
      split
      · exact inv_route _ id _ hw
      · exact hw
  | recvReply id r =>
    simp only [step, Option.some.injEq] at hs
    subst hs
    exact inv_route s id r h
  | streamDown =>
    simp only [step, Option.some.injEq] at hs
    subst hs
    exact inv_cancelAll s h
  | replaceCancel =>
    simp only [step, Option.some.injEq] at hs
    subst hs
    exact inv_cancelWritten s h
  | deleteRouter id =>
    simp only [step, Option.some.injEq] at hs
    subst hs
    have hsub : List.Sublist (s.routers.filter (fun y => y.id != id)) s.routers := List.filter_sublist
    refine { routerRegistered := ?_, registeredNodup := h.registeredNodup, routersNodup := ?_,
             deliveredToRegistrant := h.deliveredToRegistrant, nonStreaming := ?_, queue := h.queue,
             pushedNodup := h.pushedNodup, sentSub := h.sentSub, heldLast := h.heldLast,
             noRouterAfterErr := fun d hd he => hasRouter_mono s _ hsub d.id (h.noRouterAfterErr d hd he),
             errLast := h.errLast }
    · intro y hy
      exact h.routerRegistered y (hsub.subset hy)
    · exact (hsub.map _).nodup h.routersNodup
    · intro id' c hc
      have hold := h.nonStreaming id' c hc
      refine ⟨fun hr => hold.1 ?_, hold.2⟩
      rw [hasRouter_iff] at hr ⊢
      obtain ⟨y, hy, hyid⟩ := hr
      exact ⟨y, hsub.subset hy, hyid⟩

theorem inv_exec (ls : List Label) (s s' : State) (h : Inv s) (he : exec s ls = some s') : Inv s' := by
  induction ls generalizing s with
  | nil => simp only [exec, Option.some.injEq] at he; subst he; exact h
  | cons l ls ih =>
    simp only [exec] at he
    cases hst : step s l with
    | none => rw [hst] at he; cases he
    | some s1 =>
      rw [hst] at he
      exact ih s1 (inv_step s s1 l h hst) he

theorem inv_reachable (s : State) (h : Reachable s) : Inv s := by
  obtain ⟨ls, hls⟩ := h
  exact inv_exec ls init s inv_init hls

/-- **C05: each reply or error is delivered to the call whose request caused it** -/
theorem delivered_only_to_registrant (s : State) (h : Reachable s) (d : Delivery) (hd : d ∈ s.deliveries) :
    (∃ st, (d.id, d.call, st) ∈ s.registered) ∧ ∀ c st, (d.id, c, st) ∈ s.registered → c = d.call := by
  have hi := inv_reachable s h
  obtain ⟨st0, h0⟩ := hi.deliveredToRegistrant d hd
  exact ⟨⟨st0, h0⟩, fun c st hc => (reg_unique hi.registeredNodup hc h0).1⟩

def countDeliveries (s : State) (id : MsgId) : Nat := (deliveriesOf s id).length

/-- **C05: at most once per node for non-streaming calls** -/
theorem at_most_once (s : State) (h : Reachable s) (id : MsgId) (c : CallId)
    (hreg : (id, c, false) ∈ s.registered) : countDeliveries s id ≤ 1 :=
  ((inv_reachable s h).nonStreaming id c hreg).2

/-- **C05: replies that arrive after their call's router is gone are discarded** -/
theorem late_reply_dropped (s : State) (id : MsgId) (r : Resp) (h : hasRouter s id = false) :
    step s (.recvReply id r) = some s := by
  simp only [step, route_noRouter s id r h]

/-- **C18: once a non-streaming request has been answered no routing state is kept for it** -/
theorem no_router_after_answer (s : State) (h : Reachable s) (id : MsgId) (c : CallId)
    (hreg : (id, c, false) ∈ s.registered) (hd : countDeliveries s id = 1) : hasRouter s id = false := by
  cases hr : hasRouter s id with
  | false => rfl
  | true =>
    have := ((inv_reachable s h).nonStreaming id c hreg).1 hr
    unfold countDeliveries at hd
    rw [this] at hd
    cases hd

/-- **C18: the router table is bounded by what is outstanding**: every router belongs to a registered
    request, one router per request -/
theorem routers_bounded (s : State) (h : Reachable s) : s.routers.length ≤ s.registered.length := by
  have hi := inv_reachable s h
  have hsub : s.routers.map (·.id) ⊆ s.registered.map (·.1) := by
    intro a ha
    obtain ⟨x, hx, rfl⟩ := List.mem_map.1 ha
    exact List.mem_map.2 ⟨_, hi.routerRegistered x hx, rfl⟩
  have := hi.routersNodup.length_le_of_subset hsub
  simpa using this

/-- **C18: a streaming router disappears when its call's deferred deletion runs** -/
theorem deleteRouter_removes (s s' : State) (id : MsgId) (hs : step s (.deleteRouter id) = some s') :
    hasRouter s' id = false := by
  simp only [step, Option.some.injEq] at hs
  subst hs
  cases hr : hasRouter { s with routers := s.routers.filter (fun y => y.id != id) } id with
  | false => rfl
  | true =>
    rw [hasRouter_iff] at hr
    obtain ⟨y, hy, hyid⟩ := hr
    have := (List.mem_filter.1 hy).2
    simp at this
    exact absurd hyid this

/-- **C07: when the connection breaks every pending request is completed with an error** (and
    every router is removed: no further reply can arrive on a stream that is down) -/
theorem streamDown_answers_all (s s' : State) (hs : step s .streamDown = some s') :
    (∀ x ∈ s.routers, ⟨x.id, x.call, .err 0⟩ ∈ s'.deliveries) ∧ s'.routers = [] := by
  simp only [step, Option.some.injEq] at hs
  subst hs
  constructor
  · intro x hx
    exact List.mem_append_right _ (List.mem_map.2 ⟨x, hx, rfl⟩)
  · rfl

/-- **C07 / C11: an error is the last thing delivered for a request**, streaming or not: whatever was
    delivered for the request before an error delivery was not an error, and nothing follows it -/
theorem error_is_last (s : State) (h : Reachable s) (id : MsgId) (pre post : List Delivery) (d : Delivery)
    (hd : deliveriesOf s id = pre ++ d :: post) (he : d.resp.isErr = true) : post = [] := by
  cases post with
  | nil => rfl
  | cons p ps =>
    have hmem : d ∈ (deliveriesOf s id).dropLast := by
      rw [hd, List.dropLast_append_of_ne_nil (by simp)]
      simp [List.dropLast]
    have := (inv_reachable s h).errLast id d hmem
    rw [he] at this; cases this

/-- (the first half of the sentence above) whatever was delivered for a request before an error delivery
    was not an error -/
theorem no_error_before_error (s : State) (h : Reachable s) (id : MsgId) (pre post : List Delivery) (d : Delivery)
    (hd : deliveriesOf s id = pre ++ d :: post) : ∀ d' ∈ pre, d'.resp.isErr = false := by
  intro d' hd'
  apply (inv_reachable s h).errLast id d'
  rw [hd, List.dropLast_append_of_ne_nil (by simp)]
  exact List.mem_append_left _ hd'

/-- a list in which only the last element may be an error holds at most one error -/
theorem filter_err_length_le_one (l : List Delivery) (h : ∀ d ∈ l.dropLast, d.resp.isErr = false) :
    (l.filter (fun d => d.resp.isErr)).length ≤ 1 := by
  rcases List.eq_nil_or_concat l with rfl | ⟨l', a, rfl⟩
  · simp
  · rw [List.concat_eq_append] at h ⊢
    rw [List.dropLast_concat] at h
    have hnil : l'.filter (fun d => d.resp.isErr) = [] := by
      rw [List.filter_eq_nil_iff]
      intro d hd
      simp [h d hd]
    rw [List.filter_append, hnil, List.nil_append]
    exact List.length_filter_le _ [a]

/-- **C07: a failing node is reported once per request**: at most one error delivery per message id -/
theorem at_most_one_error (s : State) (h : Reachable s) (id : MsgId) :
    ((deliveriesOf s id).filter (fun d => d.resp.isErr)).length ≤ 1 :=
  filter_err_length_le_one _ ((inv_reachable s h).errLast id)

/-- **C18: a request that has been answered with an error keeps no router**, streaming or not -/
theorem no_router_after_error (s : State) (h : Reachable s) (d : Delivery) (hd : d ∈ s.deliveries)
    (he : d.resp.isErr = true) : hasRouter s d.id = false :=
  (inv_reachable s h).noRouterAfterErr d hd he

/-- Why the deletion on error matters: with a router that survives an error (the pinned code) the same
    request is answered with two errors — the handler's and the stream-down one.  Stated on the model's
    transition relation with the old `route` / `cancelAll` inlined. -/
theorem pinned_streaming_router_reports_twice :
    let s1 : State := { routers := [⟨1, 7, true⟩], registered := [(1, 7, true)] }
    -- old routeResponse: a streaming router is kept, also on an error
    let s2 : State := { s1 with deliveries := s1.deliveries ++ [⟨1, 7, .err 3⟩] }
    -- old cancelPendingMsgs: streaming routers are answered and kept
    let s3 : State := { s2 with deliveries := s2.deliveries ++ s2.routers.map (fun x => ⟨x.id, x.call, .err 0⟩) }
    ((deliveriesOf s3 1).filter (fun d => d.resp.isErr)).length = 2 := by
  decide

/-- **C18 / C07: whoever replaces a stream answers what was written to it**: after `replaceCancel` every
    request that had been written to a stream and was still pending has been answered with an error, no
    written request keeps a router, and the requests that have not been written yet keep theirs -/
theorem replaceCancel_answers_written (s s' : State) (hs : step s .replaceCancel = some s') :
    (∀ x ∈ s.routers, s.sent.contains x.id = true → ⟨x.id, x.call, .err 0⟩ ∈ s'.deliveries) ∧
    (∀ x ∈ s'.routers, s.sent.contains x.id = false) ∧
    (∀ x ∈ s.routers, s.sent.contains x.id = false → x ∈ s'.routers) := by
  simp only [step, Option.some.injEq] at hs
  subst hs
  refine ⟨?_, ?_, ?_⟩
  · intro x hx hw
    exact List.mem_append_right _ (List.mem_map.2 ⟨x, List.mem_filter.2 ⟨hx, hw⟩, rfl⟩)
  · intro x hx
    have := (List.mem_filter.1 hx).2
    simpa using this
  · intro x hx hw
    exact List.mem_filter.2 ⟨hx, by rw [hw]; rfl⟩

/-- **C03 (client half): requests are written to the stream in the order in which their hand-offs
    completed**; each at most once -/
theorem sent_in_handoff_order (s : State) (h : Reachable s) : s.sent.Sublist s.pushed ∧ s.pushed.Nodup := by
  have hi := inv_reachable s h
  refine ⟨?_, hi.pushedNodup⟩
  rw [hi.queue]
  exact List.sublist_append_of_sublist_left hi.sentSub

/-- the send queue is FIFO: what the sender has taken is a prefix of what was pushed -/
theorem popped_prefix_of_pushed (s : State) (h : Reachable s) : s.popped <+: s.pushed := by
  rw [(inv_reachable s h).queue]
  exact List.prefix_append _ _

/-- non-vacuity: a streaming request whose handler fails and whose connection then breaks is answered once -/
example : ∃ s, exec init [.register 1 7 true, .handoff 1, .pop, .sendOk false, .recvReply 1 (.reply 4),
      .recvReply 1 (.err 3), .streamDown, .recvReply 1 (.reply 5)] = some s ∧
    s.deliveries = [⟨1, 7, .reply 4⟩, ⟨1, 7, .err 3⟩] ∧ s.routers = [] := by
  refine ⟨_, rfl, ?_, ?_⟩ <;> decide

/-- non-vacuity: a concrete execution with a late reply after a cancellation of the stream -/
example : ∃ s, exec init [.register 1 7 false, .handoff 1, .pop, .sendOk false, .streamDown, .recvReply 1 (.reply 5)] = some s ∧
    s.deliveries = [⟨1, 7, .err 0⟩] ∧ s.routers = [] := by
  refine ⟨_, rfl, ?_, ?_⟩ <;> decide

end GorumsV.C05
