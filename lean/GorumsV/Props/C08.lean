import GorumsV.Props.C09
import GorumsV.Props.C02
/-!
  C08 — every call returns promptly once its context ends, whatever the nodes are doing
  (partial: wall-clock delay, scheduler fairness and transport time-outs are outside the model).

  In the models a call waits at exactly three kinds of places:
    (a) `responseMut` when it registers its router (enqueue) or deletes it (deferred, stream calls);
    (b) the hand-off to the sender — a `select` that contains the call's own context
        (T2: digest of `enqueue`; this case is the repair of defect D2);
    (c) its reply loop / send-confirmation wait — a `select` that contains the context
        (ReplyLoop: a `ctxDone` arrival ends the loop at once, `ctx_returns_at_once`).
  (b) and (c) never outlast the context; (a) does only in the back-pressure wedge of C09.
-/
namespace GorumsV.C08
open GorumsV.ConnMgr GorumsV.ReplyLoop

/-- (a) the router lock is unavailable for good only in the back-pressure shape -/
theorem router_lock_available_unless_backpressure (s : St) :
    enabled s .eDeleteRouter = true ↔ ShapeBackpressure s = false := C09.deleteRouter_enabled_iff s

/-- … which needs a server-stream call that ended early -/
theorem no_backpressure_without_full_stream (ls : List Label) (s : St) (h : exec init ls = some s)
    (hnf : Label.eFullStream ∉ ls) : ShapeBackpressure s = false := C09.no_backpressure_without_full_stream ls s h hnf

variable {M E R : Type}

/-- (c) the reply loop returns the context's error as soon as the context end is consumed, whatever was
    consumed before and whatever would arrive later, provided no earlier prefix had a verdict -/
theorem ctx_returns_at_once (P : Params) (qf : RepMap M → R × Bool) (x : Nat)
    (pre post : List (Arrival M E)) (c : E)
    (hpre : ∀ p ∈ prefixes pre, C02.verdict P qf x p = none) :
    (run P qf x (pre ++ .ctxDone c :: post)).1 = .ctxErr c (errsOf pre) (replySet pre).length :=
  C02.ctx_outcome P qf x pre post c hpre

/-- … and when the context has ended by the time the last targeted node has answered (its end is the next
    event), the exhaustion branch reports the context's error, not Incomplete (`incompleteCause`, errors.go) -/
theorem ctx_error_at_exhaustion (P : Params) (hP : P.Good) (qf : RepMap M → R × Bool) (x : Nat)
    (pre post : List (Arrival M E)) (c : E) (errs : List (NodeId × E)) (n : Nat)
    (hpre : ∀ p ∈ prefixes pre, p ≠ pre → C02.verdict P qf x p = none)
    (hv : C02.verdict P qf x pre = some (.incomplete errs n)) :
    (run P qf x (pre ++ .ctxDone c :: post)).1 = .ctxErr c errs n :=
  C02.exhaustion_outcome P hP qf x pre (.ctxDone c :: post) errs n hpre hv

/-- … and an RPC likewise -/
theorem rpc_ctx_returns (post : List (Arrival M E)) (c : E) : runRpc (.ctxDone c :: post) = .ctxErr c := rfl

/-! ### one-way calls (multicast.go, unicast.go): the wait for send confirmations -/

/-- **a one-way call returns as soon as its context ends**: whatever was confirmed before, when the context's
    end is consumed the wait loop returns — provided the loop has the context case (read from the tree) -/
theorem oneway_ctx_returns (nsw : Bool) (sent : Nat) (pre post : List WaitEvent) :
    onewayReturns nsw true sent (pre ++ .ctxDone :: post) = true := by
  unfold onewayReturns
  cases nsw with
  | true => rfl
  | false =>
    simp only [Bool.false_or]
    induction pre generalizing sent with
    | nil => cases sent <;> simp [waitLoop]
    | cons e pre ih =>
      cases sent with
      | zero => simp [waitLoop]
      | succ n =>
        cases e with
        | confirmed => simpa [waitLoop] using ih n
        | ctxDone => simp [waitLoop]

/-- why the case matters: a wait loop without it (the pinned code) keeps waiting for the confirmation of a
    message that a stuck sender never writes, although the context has ended (the defect repaired by fix df92080) -/
theorem oneway_needs_ctx_case : onewayReturns false false 1 [.ctxDone] = false := by decide

/-- with the context alive a send-waiting call returns exactly when every sent message is confirmed … -/
theorem oneway_waits_for_confirmations (waitsCtx : Bool) (sent k : Nat) :
    onewayReturns false waitsCtx sent (List.replicate k .confirmed) = true ↔ sent ≤ k := by
  unfold onewayReturns
  simp only [Bool.false_or]
  induction k generalizing sent with
  | zero => cases sent <;> simp [waitLoop]
  | succ k ih =>
    cases sent with
    | zero => simp [waitLoop]
    | succ n => simp only [List.replicate_succ, waitLoop]; rw [ih n]; omega

/-- … and with no-send-waiting at once -/
theorem oneway_nosendwaiting (waitsCtx : Bool) (sent : Nat) (es : List WaitEvent) :
    onewayReturns true waitsCtx sent es = true := rfl

end GorumsV.C08
