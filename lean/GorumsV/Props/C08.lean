import GorumsV.Props.C09
import GorumsV.Props.C02
/-!
  C08 — every call returns promptly once its context ends, whatever the nodes are doing
  (partial: wall-clock delay, scheduler fairness and transport time-outs are outside the model).

  In the models a call waits at exactly three kinds of places:
    (a) `responseMut` when it registers its router (enqueue) or deletes it (deferred, stream calls);
    (b) the hand-off to the sender — a `select` that contains the call's own context
        (T2: digest of `enqueue`; this case is the repair of defect D2);
    (c) its reply loop / send-confirmation wait — a `select` that contains the context
        (ReplyLoop: a `ctxDone` arrival ends the loop at once, `ctx_returns_at_once`).
  (b) and (c) never outlast the context; (a) does only in the back-pressure wedge of C09.
-/
namespace GorumsV.C08
open GorumsV.ConnMgr GorumsV.ReplyLoop

/-- (a) the router lock is unavailable for good only in the back-pressure shape -/
theorem router_lock_available_unless_backpressure (s : St) :
    enabled s .eDeleteRouter = true ↔ ShapeBackpressure s = false := C09.deleteRouter_enabled_iff s

/-- … which needs a server-stream call that ended early -/
theorem no_backpressure_without_full_stream (ls : List Label) (s : St) (h : exec init ls = some s)
    (hnf : Label.eFullStream ∉ ls) : ShapeBackpressure s = false := C09.no_backpressure_without_full_stream ls s h hnf

variable {M E R : Type}

/-- (c) the reply loop returns the context's error as soon as the context end is consumed, whatever was
    consumed before and whatever would arrive later, provided no earlier prefix had a verdict -/
theorem ctx_returns_at_once (P : Params) (qf : RepMap M → R × Bool) (x : Nat)
    (pre post : List (Arrival M E)) (c : E)
    (hpre : ∀ p ∈ prefixes pre, C02.verdict P qf x p = none) :
    (run P qf x (pre ++ .ctxDone c :: post)).1 = .ctxErr c (errsOf pre) (replySet pre).length :=
  C02.ctx_outcome P qf x pre post c hpre

/-- … and when the context has ended by the time the last targeted node has answered (its end is the next
    event), the exhaustion branch reports the context's error, not Incomplete (`incompleteCause`, errors.go) -/
theorem ctx_error_at_exhaustion (P : Params) (hP : P.Good) (qf : RepMap M → R × Bool) (x : Nat)
    (pre post : List (Arrival M E)) (c : E) (errs : List (NodeId × E)) (n : Nat)
    (hpre : ∀ p ∈ prefixes pre, p ≠ pre → C02.verdict P qf x p = none)
    (hv : C02.verdict P qf x pre = some (.incomplete errs n)) :
    (run P qf x (pre ++ .ctxDone c :: post)).1 = .ctxErr c errs n :=
  C02.exhaustion_outcome P hP qf x pre (.ctxDone c :: post) errs n hpre hv

/-- … and an RPC likewise -/
theorem rpc_ctx_returns (post : List (Arrival M E)) (c : E) : runRpc (.ctxDone c :: post) = .ctxErr c := rfl

end GorumsV.C08
