import GorumsV.Props.C05
import GorumsV.Props.C04
/-!
  C03 — per-node FIFO: servers start handlers in the order the client issued the calls.

  The order travels through four stages, each FIFO:
    caller's hand-off → send queue → sender → stream (gRPC, trusted) → receive loop → handler start.
  Client half: `Chan` (what is written to the stream is a subsequence, in order, of what was
  handed off; each request at most once).  Server half: `SrvConn` (handlers are started in
  receive order, each once).  The composition over one connection: if the server receives
  what was sent, in order (the stream's contract), then the start order is a subsequence of
  the hand-off order — `start_order`.
-/
namespace GorumsV.C03
open GorumsV.Chan

/-- client half -/
theorem sent_in_handoff_order (s : State) (h : Reachable s) : s.sent.Sublist s.pushed ∧ s.pushed.Nodup :=
  C05.sent_in_handoff_order s h

theorem queue_is_fifo (s : State) (h : Reachable s) : s.popped <+: s.pushed := C05.popped_prefix_of_pushed s h

/-- server half -/
theorem started_in_receive_order (ls : List SrvConn.Label) (s : SrvConn.State) (h : SrvConn.exec SrvConn.init ls = some s) :
    SrvConn.started s = ls.filterMap (fun l => match l with | .recv r => some r | _ => none) :=
  C04.started_in_receive_order ls s h

/-- **composition over one connection**: if what the server received so far is a prefix of what
    the client wrote to that stream (gRPC: in order, at most once), then the handlers were started
    in an order that is a subsequence of the hand-off order, and no handler was started twice -/
theorem start_order (c : State) (hc : Reachable c)
    (ls : List SrvConn.Label) (srv : SrvConn.State) (hs : SrvConn.exec SrvConn.init ls = some srv)
    (hstream : (ls.filterMap (fun l => match l with | .recv r => some r | _ => none)) <+: c.sent) :
    (SrvConn.started srv).Sublist c.pushed ∧ (SrvConn.started srv).Nodup := by
  have h1 := started_in_receive_order ls srv hs
  have h2 := sent_in_handoff_order c hc
  rw [← h1] at hstream
  have hsub : (SrvConn.started srv).Sublist c.pushed := (List.IsPrefix.sublist hstream).trans h2.1
  exact ⟨hsub, hsub.nodup h2.2⟩

/-- hence two requests handed off in one order are never started in the other order -/
theorem no_overtaking (c : State) (hc : Reachable c)
    (ls : List SrvConn.Label) (srv : SrvConn.State) (hs : SrvConn.exec SrvConn.init ls = some srv)
    (hstream : (ls.filterMap (fun l => match l with | .recv r => some r | _ => none)) <+: c.sent)
    (a b : MsgId) (hab : [b, a].Sublist (SrvConn.started srv)) : [b, a].Sublist c.pushed :=
  hab.trans (start_order c hc ls srv hs hstream).1

end GorumsV.C03
