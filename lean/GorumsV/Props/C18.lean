import GorumsV.Props.C05
/-!
  C18 — completed calls leave no residue.  The routing-state half is a set of invariants of
  the node-channel model `GorumsV.Chan`, proved in Props/C05.lean and restated here; the
  goroutine half (call goroutines and the per-request watcher end) is observed at runtime by
  engine `xtalk` (goroutine profile filtered to library frames) — see DESIGN.md, C18.
-/
namespace GorumsV.C18
open GorumsV.Chan GorumsV.C05

/-- once a non-streaming request has been answered (reply, error, or stream-down) no router is kept -/
theorem no_router_after_answer (s : State) (h : Reachable s) (id : MsgId) (c : CallId)
    (hreg : (id, c, false) ∈ s.registered) (hd : countDeliveries s id = 1) : hasRouter s id = false :=
  C05.no_router_after_answer s h id c hreg hd

/-- a non-streaming request whose router still exists has not been answered: routers are exactly the outstanding ones -/
theorem router_means_unanswered (s : State) (h : Reachable s) (id : MsgId) (c : CallId)
    (hreg : (id, c, false) ∈ s.registered) (hr : hasRouter s id = true) : deliveriesOf s id = [] :=
  ((inv_reachable s h).nonStreaming id c hreg).1 hr

/-- the router table is bounded by the number of requests ever registered, one router per request -/
theorem routers_bounded (s : State) (h : Reachable s) :
    s.routers.length ≤ s.registered.length ∧ (s.routers.map (·.id)).Nodup :=
  ⟨C05.routers_bounded s h, (inv_reachable s h).routersNodup⟩

/-- a streaming call's deferred deletion removes its router -/
theorem deleteRouter_removes (s s' : State) (id : MsgId) (hs : step s (.deleteRouter id) = some s') :
    hasRouter s' id = false := C05.deleteRouter_removes s s' id hs

/-- a broken connection leaves no router behind -/
theorem streamDown_clears (s s' : State) (hs : step s .streamDown = some s') :
    s'.routers = [] := (C05.streamDown_answers_all s s' hs).2

/-- a request that has been answered with an error keeps no router, streaming or not -/
theorem no_router_after_error (s : State) (h : Reachable s) (d : Delivery) (hd : d ∈ s.deliveries)
    (he : d.resp.isErr = true) : hasRouter s d.id = false := C05.no_router_after_error s h d hd he

end GorumsV.C18
