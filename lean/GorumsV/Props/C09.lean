import GorumsV.Model.ConnMgr
/-!
  C09 / C08 / C10 / C12 — theorems over the connection-management LTS `GorumsV.ConnMgr`.

  C09: a *complete* characterisation of the states in which a node with a reachable peer is
       stuck although something is owed: exactly the two wedge shapes (both reachable: the two
       known findings).
  C10: after a failure every request goes through connect(); a reply can be made to wait for a
       back-off timer (refutation trace) — only while the receiver sleeps in its own back-off.
  C12: after Close, when nothing can move any more, both goroutines have exited (outside the
       wedge shapes); the exiting sender drains the send buffer, so no request is left in it.
  C08: the router lock a caller needs is held for good only in the back-pressure shape.
  C07 / C18: requests written to a stream that has died are never forgotten: while any of them is
       unanswered a cancellation of the pending requests is on its way (`lost_is_cancelled`), and a
       receiver parked on a live idle stream owes nothing from older streams
       (`parked_means_nothing_lost`); the pinned code, in which `reconnect` replaced a stream
       without answering the requests written to it, reaches a quiet state with a request lost for
       good (`pinned_leak_reachable`: the defect repaired by fix 532c824).
  The repair adds a third way into the back-pressure shape: the `cancelPendingMsgs` inside `reconnect` can block
  on a full reply channel while the goroutine holds the write lock (`rcBlocked`, for either goroutine); the list
  of wedges (`wedge_shapes`) is unchanged: W1, or W2 in one of its three locations.
-/
namespace GorumsV.C09
open GorumsV.ConnMgr

/-- lock ownership matches the program counters (a goroutine blocked in the `cancelPendingMsgs` of `reconnect`
    keeps the write lock); answers are in flight only on a live, established stream; the receiver exists iff a
    stream was ever created; requests written to a dead stream are unanswered only while the current stream is
    dead (`lostDead`, with its auxiliaries `dialFresh`, `lostEstablished`) -/
structure Inv (s : St) : Prop where
  readS : s.readS = true ↔ s.spc = .sending
  readR : s.readR = true ↔ s.rpc = .reading
  writerS : s.writer = some .sender ↔ (s.spc = .rcHeld ∨ s.spc = .rcBlocked)
  writerR : s.writer = some .receiver ↔ (s.rpc = .rcHeld ∨ s.rpc = .rcBlocked)
  inflightAlive : s.inflight > 0 → s.alive = true
  aliveEstablished : s.alive = true → s.established = true
  receiverExists : s.established = true ↔ s.rpc ≠ .absent
  aliveOpen : s.alive = true → s.closed = false ∧ s.peerUp = true
  blockedFull : s.rpc = .blockedSend → s.fullStream = true
  exitedClosed : (s.spc = .exited → s.closed = true) ∧ (s.rpc = .exited → s.closed = true)
  /-- added (needed for inductiveness of `aliveEstablished`): the sender is inside connect() past the
      dial, or inside reconnect(1), only when a stream was created before -/
  rcEstablished : (s.spc = .connB ∨ s.spc = .rcPre ∨ s.spc = .rcWant ∨ s.spc = .rcHeld ∨ s.spc = .rcSleep) →
    s.established = true
  /-- added: the sender drains the queue on its way out, and no request is accepted after Close -/
  exitedDrained : s.spc = .exited → s.queued = 0
  /-- added: the receiver runs its final cancelPendingMsgs only after Close -/
  cancelExitClosed : s.rpc = .cancelExit → s.closed = true
  /-- added (model of the repair "whoever replaces a broken stream answers the requests written to it"): the
      sender dials only while no stream was ever created (so the dial never replaces a stream) -/
  dialFresh : s.spc = .dial → s.established = false
  /-- added: before the first stream nothing was written, so nothing is lost -/
  lostEstablished : s.lost > 0 → s.established = true
  /-- added: the main clause: requests written to a dead stream are unanswered only while the current stream is
      dead — every step that makes a stream current is the first dial (nothing written yet) or a replacement
      in `reconnect`, which answers them first -/
  lostDead : s.lost > 0 → s.alive = false
  /-- added: the flag `streamBroken` is clear while the current stream works -/
  aliveUnbroken : s.alive = true → s.broken = false
  /-- added: a goroutine blocks in the `cancelPendingMsgs` of `reconnect` only with the flag set and the reply
      channel of a streaming router full; both stay so while it is blocked -/
  rcBlockedBroken : (s.spc = .rcBlocked ∨ s.rpc = .rcBlocked) → s.broken = true ∧ s.fullStream = true
  /-- added: the exiting receiver answers every request written to a stream (`rCancelExit`); afterwards the
      manager is closed (`exitedClosed`), so no stream is alive and nothing is in flight (`aliveOpen`,
      `inflightAlive`): nothing can be lost any more -/
  exitedNothingLost : s.rpc = .exited → s.lost = 0

theorem inv_init : Inv init := by
  constructor <;> simp [init]

/-- The hand-written invariant without `rcEstablished` is **not inductive**: in this (unreachable) state all the
    original ten fields hold, yet `sRcDo` creates a live stream on a node that was never established. -/
def cexNotInductive : St := { spc := .rcHeld, writer := some .sender, broken := true }

theorem original_fields_not_inductive :
    let s := cexNotInductive
    (s.readS = true ↔ s.spc = .sending) ∧ (s.readR = true ↔ s.rpc = .reading) ∧
    (s.writer = some .sender ↔ s.spc = .rcHeld) ∧ (s.writer = some .receiver ↔ s.rpc = .rcHeld) ∧
    (s.inflight > 0 → s.alive = true) ∧ (s.alive = true → s.established = true) ∧
    (s.established = true ↔ s.rpc ≠ .absent) ∧ (s.alive = true → s.closed = false ∧ s.peerUp = true) ∧
    (s.rpc = .blockedSend → s.fullStream = true) ∧
    ((s.spc = .exited → s.closed = true) ∧ (s.rpc = .exited → s.closed = true)) ∧
    ∃ s', step s .sRcDo = some s' ∧ s'.alive = true ∧ s'.established = false := by
  decide

theorem inv_step_sender (s s' : St) (l : Label) (h : Inv s) (hs : step s l = some s')
    (hl : l = .sPop ∨ l = .sEval ∨ l = .sDial ∨ l = .sConnB ∨ l = .sRcEnter ∨ l = .sRcLock ∨ l = .sRcDo ∨ l = .sRcDoBlock ∨
      l = .sRcWake ∨ l = .sBrokenChk ∨ l = .sRLock ∨ l = .sSendOk ∨ l = .sSendFail ∨ l = .sExit) : Inv s' := by
  obtain ⟨h1, h2, h3, h4, h5, h6, h7, h8, h9, h10, h11, h12, h13, h14, h15, h16, h17, h18, h19⟩ := h
  rcases hl with rfl | rfl | rfl | rfl | rfl | rfl | rfl | rfl | rfl | rfl | rfl | rfl | rfl | rfl <;>
    simp only [step] at hs <;> (repeat' split at hs) <;> cases hs <;> constructor <;>
    first | assumption | grind [newStream, killStream, replaceStream, lockFree, writerPending]

theorem inv_step_receiver (s s' : St) (l : Label) (h : Inv s) (hs : step s l = some s')
    (hl : l = .rRLock ∨ l = .rRecvMsg ∨ l = .rRecvErr ∨ l = .rDeliver ∨ l = .rDeliverBlock ∨ l = .rCancel ∨
      l = .rCancelBlock ∨ l = .rRcLock ∨ l = .rRcDo ∨ l = .rRcDoBlock ∨ l = .rRcWake ∨ l = .rExitChk ∨ l = .rCancelExit ∨
      l = .rCancelExitBlock) : Inv s' := by
  obtain ⟨h1, h2, h3, h4, h5, h6, h7, h8, h9, h10, h11, h12, h13, h14, h15, h16, h17, h18, h19⟩ := h
  rcases hl with rfl | rfl | rfl | rfl | rfl | rfl | rfl | rfl | rfl | rfl | rfl | rfl | rfl | rfl <;>
    simp only [step] at hs <;> (repeat' split at hs) <;> cases hs <;> constructor <;>
    first | assumption | grind [newStream, killStream, replaceStream, lockFree, writerPending]

theorem inv_step_env (s s' : St) (l : Label) (h : Inv s) (hs : step s l = some s')
    (hl : l = .eRequest ∨ l = .eStreamFail ∨ l = .ePeerDown ∨ l = .ePeerUp ∨ l = .eFullStream ∨
      l = .eDeleteRouter ∨ l = .eClose) : Inv s' := by
  obtain ⟨h1, h2, h3, h4, h5, h6, h7, h8, h9, h10, h11, h12, h13, h14, h15, h16, h17, h18, h19⟩ := h
  rcases hl with rfl | rfl | rfl | rfl | rfl | rfl | rfl <;>
    simp only [step, killStream] at hs <;> (repeat' split at hs) <;> cases hs <;> constructor <;>
    first | assumption | grind [newStream, killStream, replaceStream, lockFree, writerPending]

theorem inv_step (s s' : St) (l : Label) (h : Inv s) (hs : step s l = some s') : Inv s' := by
  cases l with
  | sPop | sEval | sDial | sConnB | sRcEnter | sRcLock | sRcDo | sRcDoBlock | sRcWake | sBrokenChk | sRLock | sSendOk
  | sSendFail | sExit => exact inv_step_sender s s' _ h hs (by simp)
  | rRLock | rRecvMsg | rRecvErr | rDeliver | rDeliverBlock | rCancel | rCancelBlock | rRcLock | rRcDo | rRcDoBlock | rRcWake
  | rExitChk | rCancelExit | rCancelExitBlock => exact inv_step_receiver s s' _ h hs (by simp)
  | eRequest | eStreamFail | ePeerDown | ePeerUp | eFullStream | eDeleteRouter | eClose =>
    exact inv_step_env s s' _ h hs (by simp)

theorem inv_exec (ls : List Label) (s s' : St) (h : Inv s) (hs : exec s ls = some s') : Inv s' := by
  induction ls generalizing s with
  | nil => simp only [exec, Option.some.injEq] at hs; exact hs ▸ h
  | cons l ls ih =>
    simp only [exec] at hs
    cases hst : step s l with
    | none => simp [hst] at hs
    | some s1 =>
      rw [hst] at hs
      exact ih s1 (inv_step s s1 l h hst) hs

theorem inv_reachable (s : St) (h : Reachable s) : Inv s := by
  obtain ⟨ls, hls⟩ := h
  exact inv_exec ls init s inv_init hls

/-! ### which statements are enabled where -/

theorem stuck_none (s : St) (hs : Stuck s = true) (l : Label) (hl : l ∈ libLabels ++ benignLabels) :
    step s l = none := by
  have := (List.all_eq_true.mp hs) l hl
  simpa [enabled] using this

theorem not_stuck_of_step (s : St) (l : Label) (hl : l ∈ libLabels ++ benignLabels)
    (h : (step s l).isSome = true) : Stuck s = false := by
  cases hst : Stuck s with
  | false => rfl
  | true => rw [stuck_none s hst l hl] at h; cases h

/-- in these sender locations the sender's next statement is always enabled (with the write lock held in
    `reconnect` it either goes on or blocks in `cancelPendingMsgs`) -/
theorem sender_moves (s : St)
    (hspc : s.spc = .eval ∨ s.spc = .dial ∨ s.spc = .connB ∨ s.spc = .rcPre ∨ s.spc = .rcHeld ∨
      s.spc = .rcSleep ∨ s.spc = .brokenChk ∨ s.spc = .sending) : Stuck s = false := by
  rcases hspc with h | h | h | h | h | h | h | h
  · apply not_stuck_of_step s .sEval (by decide); simp only [step, h]; (repeat' split) <;> simp_all
  · apply not_stuck_of_step s .sDial (by decide); simp only [step, h]; (repeat' split) <;> simp_all
  · apply not_stuck_of_step s .sConnB (by decide); simp only [step, h]; (repeat' split) <;> simp_all
  · apply not_stuck_of_step s .sRcEnter (by decide); simp only [step, h]; (repeat' split) <;> simp_all
  · by_cases hb : s.broken = true ∧ s.fullStream = true
    · apply not_stuck_of_step s .sRcDoBlock (by decide); simp [step, h, hb.1, hb.2]
    · apply not_stuck_of_step s .sRcDo (by decide); simp only [step, h]; (repeat' split) <;> simp_all
  · apply not_stuck_of_step s .sRcWake (by decide); simp only [step, h]; (repeat' split) <;> simp_all
  · apply not_stuck_of_step s .sBrokenChk (by decide); simp only [step, h]; (repeat' split) <;> simp_all
  · cases ha : s.alive
    · apply not_stuck_of_step s .sSendFail (by decide); simp [step, h, ha]
    · apply not_stuck_of_step s .sSendOk (by decide); simp [step, h, ha]

/-- in these receiver locations the receiver's next statement is always enabled -/
theorem receiver_moves (s : St)
    (hrpc : s.rpc = .deliver ∨ s.rpc = .cancel ∨ s.rpc = .rcHeld ∨ s.rpc = .rcSleep ∨ s.rpc = .exitChk ∨
      s.rpc = .cancelExit) : Stuck s = false := by
  rcases hrpc with h | h | h | h | h | h
  · apply not_stuck_of_step s .rDeliver (by decide); simp [step, h]
  · cases hf : s.fullStream
    · apply not_stuck_of_step s .rCancel (by decide); simp [step, h, hf]
    · apply not_stuck_of_step s .rCancelBlock (by decide); simp [step, h, hf]
  · by_cases hb : s.broken = true ∧ s.fullStream = true
    · apply not_stuck_of_step s .rRcDoBlock (by decide); simp [step, h, hb.1, hb.2]
    · apply not_stuck_of_step s .rRcDo (by decide); simp only [step, h]; (repeat' split) <;> simp_all
  · apply not_stuck_of_step s .rRcWake (by decide); simp only [step, h]; (repeat' split) <;> simp_all
  · apply not_stuck_of_step s .rExitChk (by decide); simp [step, h]
  · cases hf : s.fullStream
    · apply not_stuck_of_step s .rCancelExit (by decide); simp [step, h, hf]
    · apply not_stuck_of_step s .rCancelExitBlock (by decide); simp [step, h, hf]

theorem writer_none_of_pcs (s : St) (h : Inv s) (h3 : s.spc ≠ .rcHeld) (h3' : s.spc ≠ .rcBlocked)
    (h4 : s.rpc ≠ .rcHeld) (h4' : s.rpc ≠ .rcBlocked) : s.writer = none := by
  cases hw : s.writer with
  | none => rfl
  | some w => cases w
              · rcases h.writerS.mp hw with h' | h'
                · exact absurd h' h3
                · exact absurd h' h3'
              · rcases h.writerR.mp hw with h' | h'
                · exact absurd h' h4
                · exact absurd h' h4'

/-- under `Inv` the lock is free unless the program counters say otherwise -/
theorem lockFree_of_pcs (s : St) (h : Inv s) (h1 : s.spc ≠ .sending) (h2 : s.rpc ≠ .reading)
    (h3 : s.spc ≠ .rcHeld) (h3' : s.spc ≠ .rcBlocked) (h4 : s.rpc ≠ .rcHeld) (h4' : s.rpc ≠ .rcBlocked) :
    lockFree s = true := by
  have hw : s.writer = none := writer_none_of_pcs s h h3 h3' h4 h4'
  have hS : s.readS = false := by
    cases hS : s.readS with
    | false => rfl
    | true => exact absurd (h.readS.mp hS) h1
  have hR : s.readR = false := by
    cases hR : s.readR with
    | false => rfl
    | true => exact absurd (h.readR.mp hR) h2
  simp [lockFree, hw, hS, hR]

/-- a stuck state (under `Inv`): what remains possible for the receiver (the last case: the sender is blocked in
    the `cancelPendingMsgs` of `reconnect(1)` holding the write lock — then wherever the receiver is, it may be
    unable to move) -/
theorem stuck_receiver (s : St) (h : Inv s) (hs : Stuck s = true) :
    s.rpc = .absent ∨ s.rpc = .exited ∨ s.rpc = .blockedSend ∨ s.rpc = .rcBlocked ∨
    (s.rpc = .reading ∧ s.alive = true ∧ s.inflight = 0) ∨
    (s.rpc = .top ∧ s.spc = .rcWant) ∨ s.spc = .rcBlocked := by
  by_cases hSb : s.spc = .rcBlocked
  · simp [hSb]
  have hS : s.spc ≠ .rcHeld ∧ s.spc ≠ .sending := by
    constructor <;> intro hc <;> have := sender_moves s (by simp [hc]) <;> simp [hs] at this
  have hn := stuck_none s hs
  cases hrpc : s.rpc with
  | absent => simp
  | exited => simp
  | blockedSend => simp
  | rcBlocked => simp
  | deliver | cancel | rcHeld | rcSleep | exitChk | cancelExit => have := receiver_moves s (by simp [hrpc]); simp [hs] at this
  | reading =>
    have h1 := hn .rRecvMsg (by decide)
    have h2 := hn .rRecvErr (by decide)
    simp [step, hrpc] at h1 h2
    simp only [h2, forall_const] at h1
    simp [h1, h2]
  | top =>
    have h1 := hn .rRLock (by decide)
    have hw := writer_none_of_pcs s h hS.1 hSb (by simp [hrpc]) (by simp [hrpc])
    simp [step, hrpc, hw, writerPending] at h1
    simp [h1]
  | rcWant =>
    have h1 := hn .rRcLock (by decide)
    have hl := lockFree_of_pcs s h hS.2 (by simp [hrpc]) hS.1 hSb (by simp [hrpc]) (by simp [hrpc])
    simp [step, hrpc, hl] at h1

/-- a stuck state (under `Inv`): what remains possible for the sender (the last two cases: a goroutine is blocked
    in the `cancelPendingMsgs` of `reconnect` holding the write lock) -/
theorem stuck_sender (s : St) (h : Inv s) (hs : Stuck s = true) :
    s.spc = .exited ∨ (s.spc = .idle ∧ s.queued = 0 ∧ s.closed = false) ∨
    (s.spc = .rcWant ∧ s.rpc = .reading) ∨ s.spc = .rcBlocked ∨ s.rpc = .rcBlocked := by
  by_cases hSb : s.spc = .rcBlocked
  · simp [hSb]
  by_cases hRb : s.rpc = .rcBlocked
  · simp [hRb]
  have hR : s.rpc ≠ .rcHeld ∧ s.rpc ≠ .rcWant := by
    constructor <;> intro hc <;> rcases stuck_receiver s h hs with h' | h' | h' | h' | h' | h' | h' <;>
      first | exact absurd h' hSb | simp [hc] at h'
  have hn := stuck_none s hs
  cases hspc : s.spc with
  | exited => simp
  | rcBlocked => exact absurd hspc hSb
  | eval | dial | connB | rcPre | rcHeld | rcSleep | brokenChk | sending =>
    have := sender_moves s (by simp [hspc]); simp [hs] at this
  | idle =>
    have h1 := hn .sPop (by decide)
    have h2 := hn .sExit (by decide)
    simp [step, hspc] at h1 h2
    simp only [h2, Bool.false_eq_true, imp_false, Nat.not_lt, Nat.le_zero_eq] at h1
    simp [h1, h2]
  | rcWant =>
    have h1 := hn .sRcLock (by decide)
    by_cases hr : s.rpc = .reading
    · simp [hr]
    · have hl := lockFree_of_pcs s h (by simp [hspc]) hr (by simp [hspc]) (by simp [hspc]) hR.1 hRb
      simp [step, hspc, hl] at h1
  | wantR =>
    have h1 := hn .sRLock (by decide)
    have hw := writer_none_of_pcs s h (by simp [hspc]) (by simp [hspc]) hR.1 hRb
    simp [step, hspc, hw, writerPending, hR.2] at h1

/-- **C09, the complete list of wedges**: with a reachable peer and an open manager, a state in which
    something is owed and nothing the library or a well-behaved environment does is enabled has one of
    the two shapes -/
theorem wedge_shapes_any_peer (s : St) (h : Reachable s) (hc : s.closed = false)
    (ho : owes s = true) (hs : Stuck s = true) : ShapeStaleBroken s = true ∨ ShapeBackpressure s = true := by
  have hi := inv_reachable s h
  rcases stuck_sender s hi hs with h1 | ⟨h1, h2, _⟩ | ⟨h1, h2⟩ | h1 | h1
  · have := hi.exitedClosed.1 h1; simp [hc] at this
  · have hinf : s.inflight > 0 ∨ s.lost > 0 := by simpa [owes, h1, h2] using ho
    rcases stuck_receiver s hi hs with h' | h' | h' | h' | ⟨_, h3, h4⟩ | ⟨_, h'⟩ | h'
    · -- no stream was ever created: nothing was written
      have hne : s.established ≠ true := fun he => hi.receiverExists.mp he h'
      rcases hinf with hinf | hinf
      · exact absurd (hi.aliveEstablished (hi.inflightAlive hinf)) hne
      · exact absurd (hi.lostEstablished hinf) hne
    · have := hi.exitedClosed.2 h'; simp [hc] at this
    · right; simp [ShapeBackpressure, h']
    · right; simp [ShapeBackpressure, h']
    · -- parked on a live idle stream: nothing is in flight and (`lostDead`) nothing is lost
      rcases hinf with hinf | hinf
      · omega
      · have := hi.lostDead hinf; simp [h3] at this
    · simp [h1] at h'
    · simp [h1] at h'
  · rcases stuck_receiver s hi hs with h' | h' | h' | h' | ⟨_, h3, h4⟩ | ⟨h', _⟩ | h' <;>
      try (first | (simp [h2] at h'; done) | (simp [h1] at h'; done))
    left
    simp [ShapeStaleBroken, h1, h2, h3, h4, hi.readR.mpr h2]
  · right; simp [ShapeBackpressure, h1]
  · right; simp [ShapeBackpressure, h1]

/-- the statement as asked for (`hp` turns out not to be needed: with the peer down the sender gives up after
    one retry and the receiver's back-off timer keeps firing, so nothing else wedges either) -/
theorem wedge_shapes (s : St) (h : Reachable s) (_hp : s.peerUp = true) (hc : s.closed = false)
    (ho : owes s = true) (hs : Stuck s = true) : ShapeStaleBroken s = true ∨ ShapeBackpressure s = true :=
  wedge_shapes_any_peer s h hc ho hs

/-- both shapes are stuck states (so the list has no spurious entry); `Inv` is not needed -/
theorem staleBroken_is_stuck (s : St) (_h : Inv s) (hw : ShapeStaleBroken s = true) : Stuck s = true := by
  simp only [ShapeStaleBroken, Bool.and_eq_true, beq_iff_eq] at hw
  obtain ⟨⟨⟨⟨h1, h2⟩, h3⟩, h4⟩, h5⟩ := hw
  simp [Stuck, libLabels, benignLabels, enabled, step, h1, h2, h3, h4, h5, lockFree]

/-- a receiver blocked on a full reply channel (in `routeResponse` / `cancelPendingMsgs`, or in the
    `cancelPendingMsgs` of `reconnect(-1)`) has no enabled statement -/
theorem backpressure_is_stuck_for_receiver (s : St) (hw : s.rpc = .blockedSend ∨ s.rpc = .rcBlocked) :
    ∀ l ∈ [Label.rRLock, .rRecvMsg, .rRecvErr, .rDeliver, .rDeliverBlock, .rCancel, .rCancelBlock, .rRcLock, .rRcDo, .rRcDoBlock,
      .rRcWake, .rExitChk, .rCancelExit, .rCancelExitBlock],
      enabled s l = false := by
  rcases hw with hw | hw <;> simp [enabled, step, hw]

/-- … and a sender blocked in the `cancelPendingMsgs` of `reconnect(1)` has none either -/
theorem backpressure_is_stuck_for_sender (s : St) (hw : s.spc = .rcBlocked) :
    ∀ l ∈ [Label.sPop, .sEval, .sDial, .sConnB, .sRcEnter, .sRcLock, .sRcDo, .sRcDoBlock, .sRcWake, .sBrokenChk, .sRLock,
      .sSendOk, .sSendFail, .sExit],
      enabled s l = false := by
  simp [enabled, step, hw]

/-- in the back-pressure shape the blocked goroutine has no enabled statement, and what would unblock it (the
    deletion of the full router) is disabled too -/
theorem backpressure_is_stuck (s : St) (hw : ShapeBackpressure s = true) :
    enabled s .eDeleteRouter = false ∧
    ((∀ l ∈ [Label.rRLock, .rRecvMsg, .rRecvErr, .rDeliver, .rDeliverBlock, .rCancel, .rCancelBlock, .rRcLock, .rRcDo,
        .rRcDoBlock, .rRcWake, .rExitChk, .rCancelExit, .rCancelExitBlock], enabled s l = false) ∨
     (∀ l ∈ [Label.sPop, .sEval, .sDial, .sConnB, .sRcEnter, .sRcLock, .sRcDo, .sRcDoBlock, .sRcWake, .sBrokenChk, .sRLock,
        .sSendOk, .sSendFail, .sExit], enabled s l = false)) := by
  simp only [ShapeBackpressure, Bool.or_eq_true, beq_iff_eq] at hw
  refine ⟨?_, ?_⟩
  · rcases hw with (hw | hw) | hw <;> simp [enabled, step, hw]
  · rcases hw with (hw | hw) | hw
    · exact Or.inl (backpressure_is_stuck_for_receiver s (Or.inl hw))
    · exact Or.inl (backpressure_is_stuck_for_receiver s (Or.inr hw))
    · exact Or.inr (backpressure_is_stuck_for_sender s hw)

/-- **W1 is reachable** (known finding stale-broken): the stream fails while the sender has a request;
    the sender reads the stale flag in connect(), the receiver re-creates the stream and parks in RecvMsg,
    the sender then asks for the write lock -/
def traceStaleBroken : List Label :=
  [.eRequest, .sPop, .sEval, .sDial, .sConnB, .sBrokenChk, .sRLock, .rRLock, .sSendOk, .rRecvMsg, .rDeliver, .rExitChk, .rRLock,   -- one successful round trip
   .eStreamFail, .rRecvErr, .eRequest, .sPop, .sEval, .sConnB,     -- the sender reads broken = true …
   .rCancel, .rRcLock, .rRcDo, .rExitChk, .rRLock,                   -- … the receiver re-creates the stream and reads again
   .sRcEnter]                                                        -- … and only now does the sender call Lock()

theorem staleBroken_reachable :
    ∃ s, exec init traceStaleBroken = some s ∧ ShapeStaleBroken s = true ∧ Stuck s = true ∧ owes s = true ∧
      s.peerUp = true ∧ s.closed = false := by
  refine ⟨_, rfl, ?_, ?_, ?_, ?_, ?_⟩ <;> decide

/-- **W2 is reachable** (known finding stream-backpressure) -/
def traceBackpressure : List Label :=
  [.eRequest, .sPop, .sEval, .sDial, .sConnB, .sBrokenChk, .sRLock, .rRLock, .sSendOk, .eFullStream, .rRecvMsg, .rDeliverBlock]

theorem backpressure_reachable :
    ∃ s, exec init traceBackpressure = some s ∧ ShapeBackpressure s = true ∧ s.peerUp = true ∧ s.closed = false := by
  refine ⟨_, rfl, ?_, ?_, ?_⟩ <;> decide

/-! ### requests written to dead streams (C07 liveness half, C18) -/

/-- **no request is forgotten**: in every reachable state in which requests written to a dead stream are still
    unanswered, a cancellation of the pending requests is on its way -/
theorem lost_is_cancelled (s : St) (h : Reachable s) (hl : s.lost > 0) : CancelComing s = true := by
  have := (inv_reachable s h).lostDead hl
  simp [CancelComing, this]

/-- … in fact the current stream is then dead (the strongest disjunct of `CancelComing`): every step that makes a
    stream current is the first dial, before which nothing was written, or a replacement in `reconnect`, which
    answers the requests written to older streams first -/
theorem lost_means_dead (s : St) (h : Reachable s) (hl : s.lost > 0) : s.alive = false :=
  (inv_reachable s h).lostDead hl

/-- … in particular, when the receiver is parked in RecvMsg on a live idle stream nothing is lost -/
theorem parked_means_nothing_lost (s : St) (h : Reachable s) (hp : Parked s = true) : s.lost = 0 := by
  simp only [Parked, Bool.and_eq_true, beq_iff_eq] at hp
  obtain ⟨⟨_, h2⟩, _⟩ := hp
  cases hl : s.lost with
  | zero => rfl
  | succ n =>
    have := lost_means_dead s h (by omega)
    simp [h2] at this

/-- whoever replaces a stream answers the requests written to older streams first: right after a step of
    `reconnect` that creates a stream nothing is lost and nothing is in flight -/
theorem replacement_answers_lost (s s' : St) (l : Label) (hl : l = .sRcDo ∨ l = .rRcDo) (hs : step s l = some s')
    (hb : s.broken = true) : s'.lost = 0 := by
  rcases hl with rfl | rfl <;> simp only [step, hb] at hs <;> (repeat' split at hs) <;> cases hs <;>
    simp_all [replaceStream, newStream]

/-- **the pinned code leaks**: when `reconnect` does not answer the requests written to the stream it replaces,
    a request written to the stream the sender replaces is lost for good: the receiver, which was between
    two reads when the stream died, parks on the new stream; nothing is queued, the sender is idle, the
    peer is up -/
def traceLeak : List Label :=
  [.eRequest, .sPop, .sEval, .sDial, .sConnB, .sBrokenChk, .sRLock, .sSendOk,        -- request 1 is written to stream 1
   .eRequest, .sPop, .sEval, .sBrokenChk, .sRLock, .sSendOk,                          -- request 2 too
   .rRLock, .rRecvMsg, .rDeliver,                                                    -- the receiver reads the answer to one of them …
   .eStreamFail,                                                                     -- … and is between two reads when the stream dies (a watcher cancels it)
   .eRequest, .sPop, .sEval, .sBrokenChk, .sRLock, .sSendFail,                        -- the sender notices (SendMsg fails), marks the stream broken
   .eRequest, .sPop, .sEval, .sConnB, .sRcEnter, .sRcLock, .sRcDo, .sBrokenChk, .sRLock, .sSendOk,   -- and replaces it in reconnect(1)
   .rExitChk, .rRLock, .rRecvMsg, .rDeliver, .rExitChk, .rRLock]                       -- the receiver goes on with the new stream

theorem pinned_leak_reachable :
    ∃ s, execPinned init traceLeak = some s ∧ s.lost = 1 ∧ Parked s = true ∧ s.spc = .idle ∧ s.queued = 0 ∧
      s.peerUp = true ∧ s.closed = false ∧ CancelComing s = false := by
  refine ⟨_, rfl, ?_, ?_, ?_, ?_, ?_, ?_, ?_⟩ <;> decide

/-- the same schedule on the repaired code ends with nothing lost -/
theorem leak_trace_repaired :
    ∃ s, exec init traceLeak = some s ∧ s.lost = 0 ∧ Parked s = true := by
  refine ⟨_, rfl, ?_, ?_⟩ <;> decide

/-- a step other than `eFullStream` keeps `fullStream = false` and all three blocked locations unoccupied -/
theorem no_full_step (s s' : St) (l : Label)
    (h : s.fullStream = false ∧ s.rpc ≠ .blockedSend ∧ s.rpc ≠ .rcBlocked ∧ s.spc ≠ .rcBlocked)
    (hs : step s l = some s') (hl : l ≠ .eFullStream) :
    s'.fullStream = false ∧ s'.rpc ≠ .blockedSend ∧ s'.rpc ≠ .rcBlocked ∧ s'.spc ≠ .rcBlocked := by
  obtain ⟨h1, h2, h3, h4⟩ := h
  cases l <;> simp only [step, killStream] at hs <;> (repeat' split at hs) <;> cases hs <;>
    first | exact absurd rfl hl | (simp_all [newStream, replaceStream] <;> done) |
      (simp only [newStream, replaceStream]; split <;> simp_all)

theorem no_full_exec (ls : List Label) (s s' : St)
    (h : s.fullStream = false ∧ s.rpc ≠ .blockedSend ∧ s.rpc ≠ .rcBlocked ∧ s.spc ≠ .rcBlocked)
    (hs : exec s ls = some s') (hnf : Label.eFullStream ∉ ls) :
    s'.fullStream = false ∧ s'.rpc ≠ .blockedSend ∧ s'.rpc ≠ .rcBlocked ∧ s'.spc ≠ .rcBlocked := by
  induction ls generalizing s with
  | nil => simp only [exec, Option.some.injEq] at hs; exact hs ▸ h
  | cons l ls ih =>
    simp only [exec] at hs
    simp only [List.mem_cons, not_or] at hnf
    cases hst : step s l with
    | none => simp [hst] at hs
    | some s1 =>
      rw [hst] at hs
      exact ih s1 (no_full_step s s1 l h hst (Ne.symm hnf.1)) hs hnf.2

/-- without server-stream calls that end early (`eFullStream` never happens) W2 cannot occur -/
theorem no_backpressure_without_full_stream (ls : List Label) (s : St) (h : exec init ls = some s)
    (hnf : Label.eFullStream ∉ ls) : ShapeBackpressure s = false := by
  have := (no_full_exec ls init s (by decide) h hnf).2
  simp [ShapeBackpressure, this]

/-- **C08**: a caller's registration and a call's deferred router deletion need `responseMut`; it is
    unavailable for good only in the back-pressure shape: in every other state the deletion step is enabled -/
theorem deleteRouter_enabled_iff (s : St) : enabled s .eDeleteRouter = true ↔ ShapeBackpressure s = false := by
  cases hr : s.rpc <;> cases hp : s.spc <;> simp [enabled, step, ShapeBackpressure, hr, hp]

/-- **C10, connect is retried for every request**: a request popped while the node is not connected
    always goes through connect() (dial or the second flag read) before the broken check -/
theorem retried_on_every_request (s s' : St) (hpc : s.spc = .eval) (hnc : (s.established && !s.broken) = false)
    (hs : step s .sEval = some s') : s'.spc = .dial ∨ s'.spc = .connB := by
  simp only [step, hpc, hnc] at hs
  (repeat' split at hs) <;> cases hs <;> simp_all

/-- **C10 refuted**: a reply can be available on a live stream while the receiver sleeps in its own
    back-off (the sender re-created the stream): only the timer lets it be read -/
def traceTimerWait : List Label :=
  [.eRequest, .sPop, .sEval, .sDial, .sConnB, .sBrokenChk, .sRLock, .rRLock, .sSendOk, .rRecvMsg, .rDeliver, .rExitChk, .rRLock,
   .ePeerDown, .rRecvErr, .rCancel, .rRcLock, .rRcDo,        -- receiver: stream creation fails, sleeps
   .ePeerUp, .eRequest, .sPop, .sEval, .sConnB, .sRcEnter, .sRcLock, .sRcDo, .sBrokenChk, .sRLock, .sSendOk]   -- sender re-creates the stream and sends

theorem timer_wait_reachable :
    ∃ s, exec init traceTimerWait = some s ∧ s.alive = true ∧ s.inflight > 0 ∧ s.rpc = .rcSleep ∧
      (∀ l ∈ libLabels, l ≠ .rRecvMsg → True) ∧ enabled s .rRecvMsg = false ∧ enabled s .rRcWake = true := by
  refine ⟨_, rfl, ?_, ?_, ?_, ?_, ?_, ?_⟩
  · decide
  · decide
  · decide
  · intros; trivial
  · decide
  · decide

/-- … and only then: if an answer is in flight and the receiver is neither sleeping nor wedged, some
    receiver step other than a timer is enabled, or the receiver is waiting for a lock the sender holds or wants -/
theorem reply_progress_without_timer (s : St) (h : Inv s) (hi : s.inflight > 0) (hc : s.closed = false)
    (hr : s.rpc ≠ .rcSleep) (hb : s.rpc ≠ .blockedSend) (he : s.rpc ≠ .exited) :
    (∃ l ∈ [Label.rRLock, .rRecvMsg, .rRecvErr, .rDeliver, .rCancel, .rCancelBlock, .rRcLock, .rRcDo, .rExitChk], enabled s l = true) ∨
    s.spc = .rcHeld ∨ s.spc = .rcWant ∨ s.spc = .sending := by
  have ha := h.inflightAlive hi
  have hne := h.receiverExists.mp (h.aliveEstablished ha)
  -- the flag is clear while the stream works, so nobody is blocked in the `cancelPendingMsgs` of `reconnect`
  have hnb := h.aliveUnbroken ha
  have h1' : s.spc ≠ .rcBlocked := fun hc => by have := (h.rcBlockedBroken (Or.inl hc)).1; simp [hnb] at this
  have h4' : s.rpc ≠ .rcBlocked := fun hc => by have := (h.rcBlockedBroken (Or.inr hc)).1; simp [hnb] at this
  by_cases h1 : s.spc = .rcHeld
  · exact Or.inr (Or.inl h1)
  by_cases h2 : s.spc = .rcWant
  · exact Or.inr (Or.inr (Or.inl h2))
  by_cases h3 : s.spc = .sending
  · exact Or.inr (Or.inr (Or.inr h3))
  left
  cases hrpc : s.rpc with
  | absent => exact absurd hrpc hne
  | rcSleep => exact absurd hrpc hr
  | blockedSend => exact absurd hrpc hb
  | exited => exact absurd hrpc he
  | rcBlocked => exact absurd hrpc h4'
  | cancelExit => have := h.cancelExitClosed hrpc; simp [hc] at this
  | top =>
    have hw := writer_none_of_pcs s h h1 h1' (by simp [hrpc]) (by simp [hrpc])
    exact ⟨.rRLock, by simp, by simp [enabled, step, hrpc, hw, writerPending, h2]⟩
  | reading => exact ⟨.rRecvMsg, by simp, by simp [enabled, step, hrpc, ha, hi]⟩
  | deliver => exact ⟨.rDeliver, by simp, by simp [enabled, step, hrpc]⟩
  | cancel =>
    cases hf : s.fullStream
    · exact ⟨.rCancel, by simp, by simp [enabled, step, hrpc, hf]⟩
    · exact ⟨.rCancelBlock, by simp, by simp [enabled, step, hrpc, hf]⟩
  | rcWant =>
    have hl := lockFree_of_pcs s h h3 (by simp [hrpc]) h1 h1' (by simp [hrpc]) (by simp [hrpc])
    exact ⟨.rRcLock, by simp, by simp [enabled, step, hrpc, hl]⟩
  | rcHeld =>
    refine ⟨.rRcDo, by simp, ?_⟩
    simp only [enabled, step, hrpc]; (repeat' split) <;> simp_all
  | exitChk => exact ⟨.rExitChk, by simp, by simp [enabled, step, hrpc]⟩

/-- **C12**: after Close, a state in which nothing can move any more has both goroutines gone —
    unless it is the back-pressure wedge (a goroutine blocked on a full reply channel, in any of its three locations) -/
theorem closed_stuck_means_exited (s : St) (h : Reachable s) (hc : s.closed = true) (hs : Stuck s = true) :
    (s.spc = .exited ∧ (s.rpc = .exited ∨ s.rpc = .absent)) ∨ ShapeBackpressure s = true := by
  have hi := inv_reachable s h
  rcases stuck_sender s hi hs with h1 | ⟨_, _, h1⟩ | ⟨_, h2⟩ | h1 | h1
  · rcases stuck_receiver s hi hs with h' | h' | h' | h' | ⟨_, h3, _⟩ | ⟨_, h'⟩ | h'
    · left; exact ⟨h1, Or.inr h'⟩
    · left; exact ⟨h1, Or.inl h'⟩
    · right; simp [ShapeBackpressure, h']
    · right; simp [ShapeBackpressure, h']
    · have := (hi.aliveOpen h3).1; simp [hc] at this
    · simp [h1] at h'
    · simp [h1] at h'
  · simp [hc] at h1
  · rcases stuck_receiver s hi hs with h' | h' | h' | h' | ⟨_, h3, _⟩ | ⟨h', _⟩ | h' <;>
      try (simp [h2] at h'; done)
    · have := (hi.aliveOpen h3).1; simp [hc] at this
    · right; simp [ShapeBackpressure, h']
  · right; simp [ShapeBackpressure, h1]
  · right; simp [ShapeBackpressure, h1]

/-- after Close no stream is alive and no new request is accepted -/
theorem closed_no_stream (s : St) (h : Reachable s) (hc : s.closed = true) : s.alive = false ∧ enabled s .eRequest = false := by
  have hi := inv_reachable s h
  constructor
  · cases ha : s.alive with
    | false => rfl
    | true => have := (hi.aliveOpen ha).1; simp [hc] at this
  · simp [enabled, step, hc]

/-- **C12**: no request is left behind by the sender: once it has exited (it drains the queue on its
    way out, and nothing is accepted after Close) the queue is empty -/
theorem sender_exit_leaves_no_request (s : St) (h : Reachable s) (he : s.spc = .exited) : s.queued = 0 :=
  (inv_reachable s h).exitedDrained he

end GorumsV.C09
