import GorumsV.Model.ConnMgr
/-!
  C09 / C08 / C10 / C12 — theorems over the connection-management LTS `GorumsV.ConnMgr`.

  C09: a *complete* characterisation of the states in which a node with a reachable peer is
       stuck although something is owed: exactly the two wedge shapes (both reachable: the two
       known findings).
  C10: after a failure every request goes through connect(); a reply can be made to wait for a
       back-off timer (refutation trace) — only while the receiver sleeps in its own back-off.
  C12: after Close, when nothing can move any more, both goroutines have exited (outside the
       wedge shapes); the exiting sender drains the send buffer, so no request is left in it.
  C08: the router lock a caller needs is held for good only in the back-pressure shape.
-/
namespace GorumsV.C09
open GorumsV.ConnMgr

/-- lock ownership matches the program counters; answers are in flight only on a live, established
    stream; the receiver exists iff a stream was ever created -/
structure Inv (s : St) : Prop where
  readS : s.readS = true ↔ s.spc = .sending
  readR : s.readR = true ↔ s.rpc = .reading
  writerS : s.writer = some .sender ↔ s.spc = .rcHeld
  writerR : s.writer = some .receiver ↔ s.rpc = .rcHeld
  inflightAlive : s.inflight > 0 → s.alive = true
  aliveEstablished : s.alive = true → s.established = true
  receiverExists : s.established = true ↔ s.rpc ≠ .absent
  aliveOpen : s.alive = true → s.closed = false ∧ s.peerUp = true
  blockedFull : s.rpc = .blockedSend → s.fullStream = true
  exitedClosed : (s.spc = .exited → s.closed = true) ∧ (s.rpc = .exited → s.closed = true)
  /-- added (needed for inductiveness of `aliveEstablished`): the sender is inside connect() past the
      dial, or inside reconnect(1), only when a stream was created before -/
  rcEstablished : (s.spc = .connB ∨ s.spc = .rcPre ∨ s.spc = .rcWant ∨ s.spc = .rcHeld ∨ s.spc = .rcSleep) →
    s.established = true
  /-- added: the sender drains the queue on its way out, and no request is accepted after Close -/
  exitedDrained : s.spc = .exited → s.queued = 0
  /-- added: the receiver runs its final cancelPendingMsgs only after Close -/
  cancelExitClosed : s.rpc = .cancelExit → s.closed = true

theorem inv_init : Inv init := by
  constructor <;> simp [init]

/-- The hand-written invariant without `rcEstablished` is **not inductive**: in this (unreachable) state all the
    original ten fields hold, yet `sRcDo` creates a live stream on a node that was never established. -/
def cexNotInductive : St := { spc := .rcHeld, writer := some .sender, broken := true }

theorem original_fields_not_inductive :
    let s := cexNotInductive
    (s.readS = true ↔ s.spc = .sending) ∧ (s.readR = true ↔ s.rpc = .reading) ∧
    (s.writer = some .sender ↔ s.spc = .rcHeld) ∧ (s.writer = some .receiver ↔ s.rpc = .rcHeld) ∧
    (s.inflight > 0 → s.alive = true) ∧ (s.alive = true → s.established = true) ∧
    (s.established = true ↔ s.rpc ≠ .absent) ∧ (s.alive = true → s.closed = false ∧ s.peerUp = true) ∧
    (s.rpc = .blockedSend → s.fullStream = true) ∧
    ((s.spc = .exited → s.closed = true) ∧ (s.rpc = .exited → s.closed = true)) ∧
    ∃ s', step s .sRcDo = some s' ∧ s'.alive = true ∧ s'.established = false := by
  decide

theorem inv_step_sender (s s' : St) (l : Label) (h : Inv s) (hs : step s l = some s')
    (hl : l = .sPop ∨ l = .sEval ∨ l = .sDial ∨ l = .sConnB ∨ l = .sRcEnter ∨ l = .sRcLock ∨ l = .sRcDo ∨
      l = .sRcWake ∨ l = .sBrokenChk ∨ l = .sRLock ∨ l = .sSendOk ∨ l = .sSendFail ∨ l = .sExit) : Inv s' := by
  obtain ⟨h1, h2, h3, h4, h5, h6, h7, h8, h9, h10, h11, h12, h13⟩ := h
  rcases hl with rfl | rfl | rfl | rfl | rfl | rfl | rfl | rfl | rfl | rfl | rfl | rfl | rfl <;>
    simp only [step] at hs <;> (repeat' split at hs) <;> cases hs <;> constructor <;>
    first | assumption | grind [newStream, lockFree, writerPending]

theorem inv_step_receiver (s s' : St) (l : Label) (h : Inv s) (hs : step s l = some s')
    (hl : l = .rRLock ∨ l = .rRecvMsg ∨ l = .rRecvErr ∨ l = .rDeliver ∨ l = .rDeliverBlock ∨ l = .rCancel ∨
      l = .rCancelBlock ∨ l = .rRcLock ∨ l = .rRcDo ∨ l = .rRcWake ∨ l = .rExitChk ∨ l = .rCancelExit ∨
      l = .rCancelExitBlock) : Inv s' := by
  obtain ⟨h1, h2, h3, h4, h5, h6, h7, h8, h9, h10, h11, h12, h13⟩ := h
  rcases hl with rfl | rfl | rfl | rfl | rfl | rfl | rfl | rfl | rfl | rfl | rfl | rfl | rfl <;>
    simp only [step] at hs <;> (repeat' split at hs) <;> cases hs <;> constructor <;>
    first | assumption | grind [newStream, lockFree, writerPending]

theorem inv_step_env (s s' : St) (l : Label) (h : Inv s) (hs : step s l = some s')
    (hl : l = .eRequest ∨ l = .eStreamFail ∨ l = .ePeerDown ∨ l = .ePeerUp ∨ l = .eFullStream ∨
      l = .eDeleteRouter ∨ l = .eClose) : Inv s' := by
  obtain ⟨h1, h2, h3, h4, h5, h6, h7, h8, h9, h10, h11, h12, h13⟩ := h
  rcases hl with rfl | rfl | rfl | rfl | rfl | rfl | rfl <;>
    simp only [step] at hs <;> (repeat' split at hs) <;> cases hs <;> constructor <;>
    first | assumption | grind [newStream, lockFree, writerPending]

theorem inv_step (s s' : St) (l : Label) (h : Inv s) (hs : step s l = some s') : Inv s' := by
  cases l with
  | sPop | sEval | sDial | sConnB | sRcEnter | sRcLock | sRcDo | sRcWake | sBrokenChk | sRLock | sSendOk
  | sSendFail | sExit => exact inv_step_sender s s' _ h hs (by simp)
  | rRLock | rRecvMsg | rRecvErr | rDeliver | rDeliverBlock | rCancel | rCancelBlock | rRcLock | rRcDo | rRcWake
  | rExitChk | rCancelExit | rCancelExitBlock => exact inv_step_receiver s s' _ h hs (by simp)
  | eRequest | eStreamFail | ePeerDown | ePeerUp | eFullStream | eDeleteRouter | eClose =>
    exact inv_step_env s s' _ h hs (by simp)

theorem inv_exec (ls : List Label) (s s' : St) (h : Inv s) (hs : exec s ls = some s') : Inv s' := by
  induction ls generalizing s with
  | nil => simp only [exec, Option.some.injEq] at hs; exact hs ▸ h
  | cons l ls ih =>
    simp only [exec] at hs
    cases hst : step s l with
    | none => simp [hst] at hs
    | some s1 =>
      rw [hst] at hs
      exact ih s1 (inv_step s s1 l h hst) hs

theorem inv_reachable (s : St) (h : Reachable s) : Inv s := by
  obtain ⟨ls, hls⟩ := h
  exact inv_exec ls init s inv_init hls

/-! ### which statements are enabled where -/

theorem stuck_none (s : St) (hs : Stuck s = true) (l : Label) (hl : l ∈ libLabels ++ benignLabels) :
    step s l = none := by
  have := (List.all_eq_true.mp hs) l hl
  simpa [enabled] using this

theorem not_stuck_of_step (s : St) (l : Label) (hl : l ∈ libLabels ++ benignLabels)
    (h : (step s l).isSome = true) : Stuck s = false := by
  cases hst : Stuck s with
  | false => rfl
  | true => rw [stuck_none s hst l hl] at h; cases h

/-- in these sender locations the sender's next statement is always enabled -/
theorem sender_moves (s : St)
    (hspc : s.spc = .eval ∨ s.spc = .dial ∨ s.spc = .connB ∨ s.spc = .rcPre ∨ s.spc = .rcHeld ∨
      s.spc = .rcSleep ∨ s.spc = .brokenChk ∨ s.spc = .sending) : Stuck s = false := by
  rcases hspc with h | h | h | h | h | h | h | h
  · apply not_stuck_of_step s .sEval (by decide); simp only [step, h]; (repeat' split) <;> simp_all
  · apply not_stuck_of_step s .sDial (by decide); simp only [step, h]; (repeat' split) <;> simp_all
  · apply not_stuck_of_step s .sConnB (by decide); simp only [step, h]; (repeat' split) <;> simp_all
  · apply not_stuck_of_step s .sRcEnter (by decide); simp only [step, h]; (repeat' split) <;> simp_all
  · apply not_stuck_of_step s .sRcDo (by decide); simp only [step, h]; (repeat' split) <;> simp_all
  · apply not_stuck_of_step s .sRcWake (by decide); simp only [step, h]; (repeat' split) <;> simp_all
  · apply not_stuck_of_step s .sBrokenChk (by decide); simp only [step, h]; (repeat' split) <;> simp_all
  · cases ha : s.alive
    · apply not_stuck_of_step s .sSendFail (by decide); simp [step, h, ha]
    · apply not_stuck_of_step s .sSendOk (by decide); simp [step, h, ha]

/-- in these receiver locations the receiver's next statement is always enabled -/
theorem receiver_moves (s : St)
    (hrpc : s.rpc = .deliver ∨ s.rpc = .cancel ∨ s.rpc = .rcHeld ∨ s.rpc = .rcSleep ∨ s.rpc = .exitChk ∨
      s.rpc = .cancelExit) : Stuck s = false := by
  rcases hrpc with h | h | h | h | h | h
  · apply not_stuck_of_step s .rDeliver (by decide); simp [step, h]
  · cases hf : s.fullStream
    · apply not_stuck_of_step s .rCancel (by decide); simp [step, h, hf]
    · apply not_stuck_of_step s .rCancelBlock (by decide); simp [step, h, hf]
  · apply not_stuck_of_step s .rRcDo (by decide); simp only [step, h]; (repeat' split) <;> simp_all
  · apply not_stuck_of_step s .rRcWake (by decide); simp only [step, h]; (repeat' split) <;> simp_all
  · apply not_stuck_of_step s .rExitChk (by decide); simp [step, h]
  · cases hf : s.fullStream
    · apply not_stuck_of_step s .rCancelExit (by decide); simp [step, h, hf]
    · apply not_stuck_of_step s .rCancelExitBlock (by decide); simp [step, h, hf]

/-- under `Inv` the lock is free unless the program counters say otherwise -/
theorem lockFree_of_pcs (s : St) (h : Inv s) (h1 : s.spc ≠ .sending) (h2 : s.rpc ≠ .reading)
    (h3 : s.spc ≠ .rcHeld) (h4 : s.rpc ≠ .rcHeld) : lockFree s = true := by
  have hw : s.writer = none := by
    cases hw : s.writer with
    | none => rfl
    | some w => cases w
                · exact absurd (h.writerS.mp hw) h3
                · exact absurd (h.writerR.mp hw) h4
  have hS : s.readS = false := by
    cases hS : s.readS with
    | false => rfl
    | true => exact absurd (h.readS.mp hS) h1
  have hR : s.readR = false := by
    cases hR : s.readR with
    | false => rfl
    | true => exact absurd (h.readR.mp hR) h2
  simp [lockFree, hw, hS, hR]

theorem writer_none_of_pcs (s : St) (h : Inv s) (h3 : s.spc ≠ .rcHeld) (h4 : s.rpc ≠ .rcHeld) :
    s.writer = none := by
  cases hw : s.writer with
  | none => rfl
  | some w => cases w
              · exact absurd (h.writerS.mp hw) h3
              · exact absurd (h.writerR.mp hw) h4

/-- a stuck state (under `Inv`): what remains possible for the receiver -/
theorem stuck_receiver (s : St) (h : Inv s) (hs : Stuck s = true) :
    s.rpc = .absent ∨ s.rpc = .exited ∨ s.rpc = .blockedSend ∨
    (s.rpc = .reading ∧ s.alive = true ∧ s.inflight = 0) ∨
    (s.rpc = .top ∧ s.spc = .rcWant) := by
  have hS : s.spc ≠ .rcHeld ∧ s.spc ≠ .sending := by
    constructor <;> intro hc <;> have := sender_moves s (by simp [hc]) <;> simp [hs] at this
  have hn := stuck_none s hs
  cases hrpc : s.rpc with
  | absent => simp
  | exited => simp
  | blockedSend => simp
  | deliver | cancel | rcHeld | rcSleep | exitChk | cancelExit => have := receiver_moves s (by simp [hrpc]); simp [hs] at this
  | reading =>
    have h1 := hn .rRecvMsg (by decide)
    have h2 := hn .rRecvErr (by decide)
    simp [step, hrpc] at h1 h2
    simp only [h2, forall_const] at h1
    simp [h1, h2]
  | top =>
    have h1 := hn .rRLock (by decide)
    have hw := writer_none_of_pcs s h hS.1 (by simp [hrpc])
    simp [step, hrpc, hw, writerPending] at h1
    simp [h1]
  | rcWant =>
    have h1 := hn .rRcLock (by decide)
    have hl := lockFree_of_pcs s h hS.2 (by simp [hrpc]) hS.1 (by simp [hrpc])
    simp [step, hrpc, hl] at h1

/-- a stuck state (under `Inv`): what remains possible for the sender -/
theorem stuck_sender (s : St) (h : Inv s) (hs : Stuck s = true) :
    s.spc = .exited ∨ (s.spc = .idle ∧ s.queued = 0 ∧ s.closed = false) ∨
    (s.spc = .rcWant ∧ s.rpc = .reading) := by
  have hR : s.rpc ≠ .rcHeld ∧ s.rpc ≠ .rcWant := by
    constructor <;> intro hc <;> rcases stuck_receiver s h hs with h' | h' | h' | h' | h' <;> simp [hc] at h'
  have hn := stuck_none s hs
  cases hspc : s.spc with
  | exited => simp
  | eval | dial | connB | rcPre | rcHeld | rcSleep | brokenChk | sending =>
    have := sender_moves s (by simp [hspc]); simp [hs] at this
  | idle =>
    have h1 := hn .sPop (by decide)
    have h2 := hn .sExit (by decide)
    simp [step, hspc] at h1 h2
    simp only [h2, Bool.false_eq_true, imp_false, Nat.not_lt, Nat.le_zero_eq] at h1
    simp [h1, h2]
  | rcWant =>
    have h1 := hn .sRcLock (by decide)
    by_cases hr : s.rpc = .reading
    · simp [hr]
    · have hl := lockFree_of_pcs s h (by simp [hspc]) hr (by simp [hspc]) hR.1
      simp [step, hspc, hl] at h1
  | wantR =>
    have h1 := hn .sRLock (by decide)
    have hw := writer_none_of_pcs s h (by simp [hspc]) hR.1
    simp [step, hspc, hw, writerPending, hR.2] at h1

/-- **C09, the complete list of wedges**: with a reachable peer and an open manager, a state in which
    something is owed and nothing the library or a well-behaved environment does is enabled has one of
    the two shapes -/
theorem wedge_shapes_any_peer (s : St) (h : Reachable s) (hc : s.closed = false)
    (ho : owes s = true) (hs : Stuck s = true) : ShapeStaleBroken s = true ∨ ShapeBackpressure s = true := by
  have hi := inv_reachable s h
  rcases stuck_sender s hi hs with h1 | ⟨h1, h2, _⟩ | ⟨h1, h2⟩
  · have := hi.exitedClosed.1 h1; simp [hc] at this
  · have hinf : s.inflight > 0 := by simpa [owes, h1, h2] using ho
    have ha := hi.inflightAlive hinf
    have hne := hi.receiverExists.mp (hi.aliveEstablished ha)
    rcases stuck_receiver s hi hs with h' | h' | h' | ⟨_, _, h'⟩ | ⟨_, h'⟩
    · exact absurd h' hne
    · have := hi.exitedClosed.2 h'; simp [hc] at this
    · right; simp [ShapeBackpressure, h']
    · omega
    · simp [h1] at h'
  · rcases stuck_receiver s hi hs with h' | h' | h' | ⟨_, h3, h4⟩ | ⟨h', _⟩ <;> try (simp [h2] at h'; done)
    left
    simp [ShapeStaleBroken, h1, h2, h3, h4, hi.readR.mpr h2]

/-- the statement as asked for (`hp` turns out not to be needed: with the peer down the sender gives up after
    one retry and the receiver's back-off timer keeps firing, so nothing else wedges either) -/
theorem wedge_shapes (s : St) (h : Reachable s) (_hp : s.peerUp = true) (hc : s.closed = false)
    (ho : owes s = true) (hs : Stuck s = true) : ShapeStaleBroken s = true ∨ ShapeBackpressure s = true :=
  wedge_shapes_any_peer s h hc ho hs

/-- both shapes are stuck states (so the list has no spurious entry); `Inv` is not needed -/
theorem staleBroken_is_stuck (s : St) (_h : Inv s) (hw : ShapeStaleBroken s = true) : Stuck s = true := by
  simp only [ShapeStaleBroken, Bool.and_eq_true, beq_iff_eq] at hw
  obtain ⟨⟨⟨⟨h1, h2⟩, h3⟩, h4⟩, h5⟩ := hw
  simp [Stuck, libLabels, benignLabels, enabled, step, h1, h2, h3, h4, h5, lockFree]
theorem backpressure_is_stuck_for_receiver (s : St) (hw : ShapeBackpressure s = true) :
    ∀ l ∈ [Label.rRLock, .rRecvMsg, .rRecvErr, .rDeliver, .rDeliverBlock, .rCancel, .rCancelBlock, .rRcLock, .rRcDo, .rRcWake, .rExitChk,
      .rCancelExit, .rCancelExitBlock],
      enabled s l = false := by
  simp only [ShapeBackpressure, beq_iff_eq] at hw
  simp [enabled, step, hw]

/-- **W1 is reachable** (known finding stale-broken): the stream fails while the sender has a request;
    the sender reads the stale flag in connect(), the receiver re-creates the stream and parks in RecvMsg,
    the sender then asks for the write lock -/
def traceStaleBroken : List Label :=
  [.eRequest, .sPop, .sEval, .sDial, .sConnB, .sBrokenChk, .sRLock, .rRLock, .sSendOk, .rRecvMsg, .rDeliver, .rExitChk, .rRLock,   -- one successful round trip
   .eStreamFail, .rRecvErr, .eRequest, .sPop, .sEval, .sConnB,     -- the sender reads broken = true …
   .rCancel, .rRcLock, .rRcDo, .rExitChk, .rRLock,                   -- … the receiver re-creates the stream and reads again
   .sRcEnter]                                                        -- … and only now does the sender call Lock()

theorem staleBroken_reachable :
    ∃ s, exec init traceStaleBroken = some s ∧ ShapeStaleBroken s = true ∧ Stuck s = true ∧ owes s = true ∧
      s.peerUp = true ∧ s.closed = false := by
  refine ⟨_, rfl, ?_, ?_, ?_, ?_, ?_⟩ <;> decide

/-- **W2 is reachable** (known finding stream-backpressure) -/
def traceBackpressure : List Label :=
  [.eRequest, .sPop, .sEval, .sDial, .sConnB, .sBrokenChk, .sRLock, .rRLock, .sSendOk, .eFullStream, .rRecvMsg, .rDeliverBlock]

theorem backpressure_reachable :
    ∃ s, exec init traceBackpressure = some s ∧ ShapeBackpressure s = true ∧ s.peerUp = true ∧ s.closed = false := by
  refine ⟨_, rfl, ?_, ?_, ?_⟩ <;> decide

/-- a step other than `eFullStream` keeps `fullStream = false ∧ rpc ≠ blockedSend` -/
theorem no_full_step (s s' : St) (l : Label) (h : s.fullStream = false ∧ s.rpc ≠ .blockedSend)
    (hs : step s l = some s') (hl : l ≠ .eFullStream) : s'.fullStream = false ∧ s'.rpc ≠ .blockedSend := by
  obtain ⟨h1, h2⟩ := h
  cases l <;> simp only [step] at hs <;> (repeat' split at hs) <;> cases hs <;>
    first | exact absurd rfl hl | (simp_all [newStream] <;> done) | (simp only [newStream]; split <;> simp_all)

theorem no_full_exec (ls : List Label) (s s' : St) (h : s.fullStream = false ∧ s.rpc ≠ .blockedSend)
    (hs : exec s ls = some s') (hnf : Label.eFullStream ∉ ls) :
    s'.fullStream = false ∧ s'.rpc ≠ .blockedSend := by
  induction ls generalizing s with
  | nil => simp only [exec, Option.some.injEq] at hs; exact hs ▸ h
  | cons l ls ih =>
    simp only [exec] at hs
    simp only [List.mem_cons, not_or] at hnf
    cases hst : step s l with
    | none => simp [hst] at hs
    | some s1 =>
      rw [hst] at hs
      exact ih s1 (no_full_step s s1 l h hst (Ne.symm hnf.1)) hs hnf.2

/-- without server-stream calls that end early (`eFullStream` never happens) W2 cannot occur -/
theorem no_backpressure_without_full_stream (ls : List Label) (s : St) (h : exec init ls = some s)
    (hnf : Label.eFullStream ∉ ls) : ShapeBackpressure s = false := by
  have := (no_full_exec ls init s (by decide) h hnf).2
  simp [ShapeBackpressure, this]

/-- **C08**: a caller's registration and a call's deferred router deletion need `responseMut`; it is
    unavailable for good only in the back-pressure shape: in every other state the deletion step is enabled -/
theorem deleteRouter_enabled_iff (s : St) : enabled s .eDeleteRouter = true ↔ ShapeBackpressure s = false := by
  cases hr : s.rpc <;> simp [enabled, step, ShapeBackpressure, hr]

/-- **C10, connect is retried for every request**: a request popped while the node is not connected
    always goes through connect() (dial or the second flag read) before the broken check -/
theorem retried_on_every_request (s s' : St) (hpc : s.spc = .eval) (hnc : (s.established && !s.broken) = false)
    (hs : step s .sEval = some s') : s'.spc = .dial ∨ s'.spc = .connB := by
  simp only [step, hpc, hnc] at hs
  (repeat' split at hs) <;> cases hs <;> simp_all

/-- **C10 refuted**: a reply can be available on a live stream while the receiver sleeps in its own
    back-off (the sender re-created the stream): only the timer lets it be read -/
def traceTimerWait : List Label :=
  [.eRequest, .sPop, .sEval, .sDial, .sConnB, .sBrokenChk, .sRLock, .rRLock, .sSendOk, .rRecvMsg, .rDeliver, .rExitChk, .rRLock,
   .ePeerDown, .rRecvErr, .rCancel, .rRcLock, .rRcDo,        -- receiver: stream creation fails, sleeps
   .ePeerUp, .eRequest, .sPop, .sEval, .sConnB, .sRcEnter, .sRcLock, .sRcDo, .sBrokenChk, .sRLock, .sSendOk]   -- sender re-creates the stream and sends

theorem timer_wait_reachable :
    ∃ s, exec init traceTimerWait = some s ∧ s.alive = true ∧ s.inflight > 0 ∧ s.rpc = .rcSleep ∧
      (∀ l ∈ libLabels, l ≠ .rRecvMsg → True) ∧ enabled s .rRecvMsg = false ∧ enabled s .rRcWake = true := by
  refine ⟨_, rfl, ?_, ?_, ?_, ?_, ?_, ?_⟩
  · decide
  · decide
  · decide
  · intros; trivial
  · decide
  · decide

/-- … and only then: if an answer is in flight and the receiver is neither sleeping nor wedged, some
    receiver step other than a timer is enabled, or the receiver is waiting for a lock the sender holds or wants -/
theorem reply_progress_without_timer (s : St) (h : Inv s) (hi : s.inflight > 0) (hc : s.closed = false)
    (hr : s.rpc ≠ .rcSleep) (hb : s.rpc ≠ .blockedSend) (he : s.rpc ≠ .exited) :
    (∃ l ∈ [Label.rRLock, .rRecvMsg, .rRecvErr, .rDeliver, .rCancel, .rCancelBlock, .rRcLock, .rRcDo, .rExitChk], enabled s l = true) ∨
    s.spc = .rcHeld ∨ s.spc = .rcWant ∨ s.spc = .sending := by
  have ha := h.inflightAlive hi
  have hne := h.receiverExists.mp (h.aliveEstablished ha)
  by_cases h1 : s.spc = .rcHeld
  · exact Or.inr (Or.inl h1)
  by_cases h2 : s.spc = .rcWant
  · exact Or.inr (Or.inr (Or.inl h2))
  by_cases h3 : s.spc = .sending
  · exact Or.inr (Or.inr (Or.inr h3))
  left
  cases hrpc : s.rpc with
  | absent => exact absurd hrpc hne
  | rcSleep => exact absurd hrpc hr
  | blockedSend => exact absurd hrpc hb
  | exited => exact absurd hrpc he
  | cancelExit => have := h.cancelExitClosed hrpc; simp [hc] at this
  | top =>
    have hw := writer_none_of_pcs s h h1 (by simp [hrpc])
    exact ⟨.rRLock, by simp, by simp [enabled, step, hrpc, hw, writerPending, h2]⟩
  | reading => exact ⟨.rRecvMsg, by simp, by simp [enabled, step, hrpc, ha, hi]⟩
  | deliver => exact ⟨.rDeliver, by simp, by simp [enabled, step, hrpc]⟩
  | cancel =>
    cases hf : s.fullStream
    · exact ⟨.rCancel, by simp, by simp [enabled, step, hrpc, hf]⟩
    · exact ⟨.rCancelBlock, by simp, by simp [enabled, step, hrpc, hf]⟩
  | rcWant =>
    have hl := lockFree_of_pcs s h h3 (by simp [hrpc]) h1 (by simp [hrpc])
    exact ⟨.rRcLock, by simp, by simp [enabled, step, hrpc, hl]⟩
  | rcHeld =>
    refine ⟨.rRcDo, by simp, ?_⟩
    simp only [enabled, step, hrpc]; (repeat' split) <;> simp_all
  | exitChk => exact ⟨.rExitChk, by simp, by simp [enabled, step, hrpc]⟩

/-- **C12**: after Close, a state in which nothing can move any more has both goroutines gone —
    unless it is one of the wedges -/
theorem closed_stuck_means_exited (s : St) (h : Reachable s) (hc : s.closed = true) (hs : Stuck s = true) :
    (s.spc = .exited ∧ (s.rpc = .exited ∨ s.rpc = .absent)) ∨ ShapeBackpressure s = true := by
  have hi := inv_reachable s h
  rcases stuck_sender s hi hs with h1 | ⟨_, _, h1⟩ | ⟨_, h2⟩
  · rcases stuck_receiver s hi hs with h' | h' | h' | ⟨_, h3, _⟩ | ⟨_, h'⟩
    · left; exact ⟨h1, Or.inr h'⟩
    · left; exact ⟨h1, Or.inl h'⟩
    · right; simp [ShapeBackpressure, h']
    · have := (hi.aliveOpen h3).1; simp [hc] at this
    · simp [h1] at h'
  · simp [hc] at h1
  · rcases stuck_receiver s hi hs with h' | h' | h' | ⟨_, h3, _⟩ | ⟨h', _⟩ <;> try (simp [h2] at h'; done)
    have := (hi.aliveOpen h3).1; simp [hc] at this

/-- after Close no stream is alive and no new request is accepted -/
theorem closed_no_stream (s : St) (h : Reachable s) (hc : s.closed = true) : s.alive = false ∧ enabled s .eRequest = false := by
  have hi := inv_reachable s h
  constructor
  · cases ha : s.alive with
    | false => rfl
    | true => have := (hi.aliveOpen ha).1; simp [hc] at this
  · simp [enabled, step, hc]

/-- **C12**: no request is left behind by the sender: once it has exited (it drains the queue on its
    way out, and nothing is accepted after Close) the queue is empty -/
theorem sender_exit_leaves_no_request (s : St) (h : Reachable s) (he : s.spc = .exited) : s.queued = 0 :=
  (inv_reachable s h).exitedDrained he

end GorumsV.C09
