import GorumsV.Props.C16
/-!
  C17 — generated stubs bind methods correctly; committed generated code is current.

  Binding half: for every accepted method the generator model emits exactly the stub of the
  declared call type, with the declared per-node wiring, quorum-function entry and server
  handler shape (theorems over `Gen`; the model is tied to the real plugin by C16's
  `table_is_model`, which also covers the method-name strings, column `methodStrOK`).
  Currency half: regenerate-and-compare of every committed generated file (tie).
-/
namespace GorumsV.C17
open GorumsV.Gen GorumsV.C16

/-- **the stub uses the call type declared for the method** -/
theorem stub_kind (o : Opts) (h : validate o = none) :
    (o.quorumcall = true → o.async = false → stubs o = ["Configuration.QuorumCall"]) ∧
    (o.quorumcall = true → o.async = true → stubs o = ["Configuration.AsyncCall"]) ∧
    (o.correctable = true → stubs o = ["Configuration.CorrectableCall"]) ∧
    (o.multicast = true → stubs o = ["Configuration.Multicast"]) ∧
    (o.unicast = true → stubs o = ["Node.Unicast"]) ∧
    (hasCallType o = false → stubs o = ["Node.RPCCall"]) := stub_is_declared o h

/-- **the server handler shape matches the client stub**: one-way stubs have handlers without a
    reply, correctable streams have streaming handlers, everything else is unary -/
theorem server_shape_matches (o : Opts) (h : validate o = none) :
    (serverShape o = "oneway" ↔ (stubs o = ["Configuration.Multicast"] ∨ stubs o = ["Node.Unicast"])) ∧
    (serverShape o = "stream" ↔ (stubs o = ["Configuration.CorrectableCall"] ∧ o.serverStream = true)) := by
  have := forall_of_all (fun o => (validate o).isSome ||
    (((serverShape o == "oneway") == (stubs o == ["Configuration.Multicast"] || stubs o == ["Node.Unicast"])) &&
     ((serverShape o == "stream") == (stubs o == ["Configuration.CorrectableCall"] && o.serverStream)))) (by decide) o
  simp only [h, Option.isSome_none, Bool.false_or, Bool.and_eq_true, beq_iff_eq] at this
  obtain ⟨h1, h2⟩ := this
  constructor
  · have := congrArg (· = true) h1
    simp only [beq_iff_eq, Bool.or_eq_true] at this
    exact Iff.of_eq this
  · have := congrArg (· = true) h2
    simp only [beq_iff_eq, Bool.and_eq_true] at this
    exact Iff.of_eq this

/-- quorum-function entry and per-node wiring follow the declaration -/
theorem qf_and_pernode (o : Opts) (h : validate o = none) :
    (hasQF o = true ↔ (stubs o = ["Configuration.QuorumCall"] ∨ stubs o = ["Configuration.AsyncCall"] ∨ stubs o = ["Configuration.CorrectableCall"])) ∧
    (perNodeSet o = true ↔ (o.perNode = true ∧ o.unicast = false)) := C16.qf_and_pernode o h

end GorumsV.C17
