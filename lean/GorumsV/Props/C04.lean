import GorumsV.Model.SrvConn
/-!
  C04 — a server runs one handler at a time per client connection until Release.
-/
namespace GorumsV.C04
open GorumsV.SrvConn

/-- reachable states of one connection -/
def Reachable (s : State) : Prop := ∃ ls, exec init ls = some s

/-- the invariant: the mutex is locked exactly when the loop is at the top of its cycle or a started
    handler still holds it; at most one started handler has not released; nothing fatal happened -/
structure Inv (s : State) : Prop where
  notFatal : s.fatal = false
  atTop : s.loopWaiting = false → s.locked = true ∧ unreleased s = 0
  waiting : s.loopWaiting = true → (s.locked = true ∧ unreleased s = 1) ∨ (s.locked = false ∧ unreleased s = 0)
  nodup : (started s).Nodup
  retReleased : ∀ h ∈ s.handlers, h.returned = true → h.released = true

/-! ### helper lemmas -/

theorem eq_of_nodup_map {α β : Type} (f : α → β) : ∀ (l : List α), (l.map f).Nodup →
    ∀ a ∈ l, ∀ b ∈ l, f a = f b → a = b := by
  intro l
  induction l with
  | nil => intro _ a ha; cases ha
  | cons x t ih =>
    intro hnd a ha b hb hab
    rw [List.map_cons, List.nodup_cons] at hnd
    rcases List.mem_cons.mp ha with rfl | ha'
    · rcases List.mem_cons.mp hb with rfl | hb'
      · rfl
      · exact absurd (hab ▸ List.mem_map_of_mem hb') hnd.1
    · rcases List.mem_cons.mp hb with rfl | hb'
      · exact absurd (hab ▸ List.mem_map_of_mem ha') hnd.1
      · exact ih hnd.2 a ha' b hb' hab

theorem unreleased_eq_zero_iff (s : State) :
    unreleased s = 0 ↔ ∀ h ∈ s.handlers, h.released = true := by
  simp [unreleased, List.filter_eq_nil_iff]

theorem unreleased_one_unique (s : State) (h1 : unreleased s = 1) {a b : Handler}
    (ha : a ∈ s.handlers) (hra : a.released = false)
    (hb : b ∈ s.handlers) (hrb : b.released = false) : a = b := by
  unfold unreleased at h1
  obtain ⟨x, hx⟩ := List.length_eq_one_iff.mp h1
  have ha' : a ∈ s.handlers.filter (fun h => !h.released) := by simp [List.mem_filter, ha, hra]
  have hb' : b ∈ s.handlers.filter (fun h => !h.released) := by simp [List.mem_filter, hb, hrb]
  rw [hx] at ha' hb'
  simp at ha' hb'
  rw [ha', hb']

/-- the `once.Do(mut.Unlock)` update of the handler list -/
abbrev markReleased (r : ReqId) (hs : List Handler) : List Handler :=
  hs.map (fun h' => if h'.req == r then { h' with released := true } else h')

/-- the "handler returned" update of the handler list -/
abbrev markReturned (r : ReqId) (hs : List Handler) : List Handler :=
  hs.map (fun h => if h.req == r then { h with returned := true } else h)

theorem map_req_markReleased (r : ReqId) (hs : List Handler) :
    (markReleased r hs).map (·.req) = hs.map (·.req) := by
  simp only [markReleased, List.map_map]
  apply List.map_congr_left
  intro a _
  simp only [Function.comp]
  split <;> rfl

theorem map_req_markReturned (r : ReqId) (hs : List Handler) :
    (markReturned r hs).map (·.req) = hs.map (·.req) := by
  simp only [markReturned, List.map_map]
  apply List.map_congr_left
  intro a _
  simp only [Function.comp]
  split <;> rfl

theorem started_fire (s : State) (r : ReqId) : started (fire s r) = started s := by
  unfold fire
  split
  · rfl
  · split
    · rfl
    · split <;> exact map_req_markReleased r s.handlers

theorem unreleased_markReturned (s : State) (r : ReqId) :
    unreleased { s with handlers := markReturned r s.handlers } = unreleased s := by
  simp only [unreleased, markReturned, List.filter_map, List.length_map]
  congr 2
  funext a
  simp only [Function.comp]
  split <;> rfl

/-- `fire` preserves the invariant (whether or not the handler exists / has already released) -/
theorem inv_fire (s : State) (r : ReqId) (h : Inv s) : Inv (fire s r) := by
  unfold fire
  split
  · exact h
  · rename_i h0 hfind
    split
    · exact h
    · rename_i hrel
      have hmem : h0 ∈ s.handlers := List.mem_of_find?_eq_some hfind
      have hreq : h0.req = r := by simpa using List.find?_some hfind
      have hrel' : h0.released = false := by simpa using hrel
      have hne : unreleased s ≠ 0 := by
        intro hz
        rw [unreleased_eq_zero_iff] at hz
        have := hz _ hmem
        simp [hrel'] at this
      have hw : s.loopWaiting = true := by
        cases hlw : s.loopWaiting with
        | true => rfl
        | false => exact absurd (h.atTop hlw).2 hne
      have hl : s.locked = true ∧ unreleased s = 1 := by
        rcases h.waiting hw with h1 | h1
        · exact h1
        · exact absurd h1.2 hne
      simp only [hl.1, if_true]
      refine ⟨h.notFatal, ?_, ?_, ?_, ?_⟩
      · intro hf
        simp only [hw] at hf
        cases hf
      · intro _
        refine Or.inr ⟨rfl, ?_⟩
        rw [unreleased_eq_zero_iff]
        intro a' ha'
        obtain ⟨a, ha, rfl⟩ := List.mem_map.mp ha'
        by_cases hq : a.req = r
        · simp [hq]
        · simp only [beq_iff_eq, hq, if_false]
          cases hra : a.released with
          | true => rfl
          | false =>
            have := unreleased_one_unique s hl.2 ha hra hmem hrel'
            exact absurd (this ▸ hreq) hq
      · show (List.map (·.req) (markReleased r s.handlers)).Nodup
        rw [map_req_markReleased]
        exact h.nodup
      · intro a' ha' hret
        obtain ⟨a, ha, rfl⟩ := List.mem_map.mp ha'
        by_cases hq : a.req = r
        · simp [hq]
        · simp only [beq_iff_eq, hq, if_false] at hret ⊢
          exact h.retReleased a ha hret

/-- after `fire s r` every handler of request `r` has released (needs distinct request ids) -/
theorem fire_released (s : State) (r : ReqId) (hnd : (started s).Nodup) :
    ∀ a ∈ (fire s r).handlers, a.req = r → a.released = true := by
  unfold fire
  split
  · rename_i hnone
    intro a ha hq
    have := List.find?_eq_none.mp hnone a ha
    simp [hq] at this
  · rename_i h0 hfind
    have hmem : h0 ∈ s.handlers := List.mem_of_find?_eq_some hfind
    have hreq : h0.req = r := by simpa using List.find?_some hfind
    split
    · rename_i hrel
      intro a ha hq
      have : a = h0 := eq_of_nodup_map (fun h : Handler => h.req) s.handlers hnd a ha h0 hmem (hq.trans hreq.symm)
      rw [this]; exact hrel
    · have key : ∀ a ∈ markReleased r s.handlers, a.req = r → a.released = true := by
        intro a' ha' hq
        obtain ⟨a, ha, rfl⟩ := List.mem_map.mp ha'
        by_cases hq' : a.req = r
        · simp [hq']
        · simp only [beq_iff_eq, hq', if_false] at hq
      split <;> exact key

theorem inv_markReturned (s : State) (r : ReqId) (h : Inv s)
    (hr : ∀ a ∈ s.handlers, a.req = r → a.released = true) :
    Inv { s with handlers := markReturned r s.handlers } := by
  refine ⟨h.notFatal, ?_, ?_, ?_, ?_⟩
  · intro hf
    rw [unreleased_markReturned]
    exact h.atTop hf
  · intro hf
    rw [unreleased_markReturned]
    exact h.waiting hf
  · show (List.map (·.req) (markReturned r s.handlers)).Nodup
    rw [map_req_markReturned]
    exact h.nodup
  · intro a' ha' hret
    obtain ⟨a, ha, rfl⟩ := List.mem_map.mp ha'
    by_cases hq : a.req = r
    · simp only [beq_iff_eq, hq, if_true]
      exact hr a ha hq
    · simp only [beq_iff_eq, hq, if_false] at hret ⊢
      exact h.retReleased a ha hret

/-! ### the invariant -/

theorem inv_init : Inv init := by
  refine ⟨rfl, ?_, ?_, ?_, ?_⟩
  · intro _; exact ⟨rfl, rfl⟩
  · intro hf; cases hf
  · exact List.nodup_nil
  · intro a ha; cases ha

theorem inv_step (s s' : State) (l : Label) (h : Inv s) (hs : step s l = some s') : Inv s' := by
  cases l with
  | recv r =>
    simp only [step] at hs
    split at hs
    · cases hs
    · rename_i hc
      simp only [Bool.or_eq_true, not_or, Bool.not_eq_true] at hc
      obtain ⟨⟨hlw, hfat⟩, hfresh⟩ := hc
      cases hs
      have ht := h.atTop hlw
      have hun : unreleased { s with handlers := s.handlers ++ [{ req := r }], loopWaiting := true }
          = unreleased s + 1 := by
        simp [unreleased, List.filter_append]
      refine ⟨h.notFatal, ?_, ?_, ?_, ?_⟩
      · intro hf; cases hf
      · intro _
        exact Or.inl ⟨ht.1, by rw [hun, ht.2]⟩
      · show (List.map (·.req) (s.handlers ++ [{ req := r }])).Nodup
        rw [List.map_append, List.nodup_append]
        refine ⟨h.nodup, by simp, ?_⟩
        intro a ha b hb
        simp only [List.map_cons, List.map_nil, List.mem_singleton] at hb
        subst hb
        intro hab
        subst hab
        obtain ⟨x, hx, hxr⟩ := List.mem_map.mp ha
        have := List.any_eq_false.mp hfresh x hx
        simp [hxr] at this
      · intro a ha hret
        rcases List.mem_append.mp ha with ha | ha
        · exact h.retReleased a ha hret
        · simp only [List.mem_singleton] at ha
          subst ha
          cases hret
  | release r =>
    simp only [step] at hs
    split at hs
    · cases hs
      exact inv_fire s r h
    · cases hs
  | ret r =>
    simp only [step] at hs
    split at hs
    · cases hs
      have hnd : (started s).Nodup := h.nodup
      exact inv_markReturned (fire s r) r (inv_fire s r h) (fire_released s r hnd)
    · cases hs
  | acquire =>
    simp only [step] at hs
    split at hs
    · rename_i hc
      simp only [Bool.and_eq_true, Bool.not_eq_true'] at hc
      cases hs
      have hun : unreleased { s with locked := true, loopWaiting := false } = unreleased s := rfl
      have h0 : unreleased s = 0 := by
        rcases h.waiting hc.1 with h1 | h1
        · rw [hc.2] at h1; cases h1.1
        · exact h1.2
      refine ⟨h.notFatal, ?_, ?_, h.nodup, h.retReleased⟩
      · intro _; exact ⟨rfl, by rw [hun, h0]⟩
      · intro hf; cases hf
    · cases hs

theorem inv_exec (ls : List Label) : ∀ (s s' : State), Inv s → exec s ls = some s' → Inv s' := by
  induction ls with
  | nil =>
    intro s s' h he
    simp only [exec] at he
    cases he
    exact h
  | cons l ls ih =>
    intro s s' h he
    simp only [exec] at he
    cases hst : step s l with
    | none => rw [hst] at he; cases he
    | some s1 =>
      rw [hst] at he
      exact ih s1 s' (inv_step s s1 l h hst) he

theorem inv_reachable (s : State) (h : Reachable s) : Inv s := by
  obtain ⟨ls, hls⟩ := h
  exact inv_exec ls init s inv_init hls

/-- **at most one handler that has not released, per connection, at every moment** -/
theorem at_most_one_unreleased (s : State) (h : Reachable s) : unreleased s ≤ 1 := by
  have hi := inv_reachable s h
  cases hlw : s.loopWaiting with
  | false => have := (hi.atTop hlw).2; omega
  | true =>
    rcases hi.waiting hlw with h1 | h1
    · have := h1.2; omega
    · have := h1.2; omega

/-- **the next handler starts only after the previous one has returned or released** -/
theorem start_requires_release (s s' : State) (r : ReqId) (h : Reachable s) (hs : step s (.recv r) = some s') :
    unreleased s = 0 := by
  have hi := inv_reachable s h
  simp only [step] at hs
  split at hs
  · cases hs
  · rename_i hc
    simp only [Bool.or_eq_true, not_or, Bool.not_eq_true] at hc
    exact (hi.atTop hc.1.1).2

/-- `fire` is idempotent -/
theorem fire_fire (s : State) (r : ReqId) : fire (fire s r) r = fire s r := by
  cases hfind : s.handlers.find? (fun h => h.req == r) with
  | none =>
    have : fire s r = s := by unfold fire; rw [hfind]
    rw [this, this]
  | some h0 =>
    cases hrel : h0.released with
    | true =>
      have : fire s r = s := by unfold fire; rw [hfind]; simp [hrel]
      rw [this, this]
    | false =>
      have hreq : h0.req = r := by simpa using List.find?_some hfind
      have hh : (fire s r).handlers = markReleased r s.handlers := by
        unfold fire; rw [hfind]; simp only [hrel, Bool.false_eq_true, if_false]
        split <;> rfl
      have hfind' : (fire s r).handlers.find? (fun h => h.req == r)
          = some { h0 with released := true } := by
        rw [hh, markReleased, List.find?_map]
        have : ((fun h : Handler => h.req == r) ∘
            (fun h' : Handler => if h'.req == r then { h' with released := true } else h'))
            = (fun h => h.req == r) := by
          funext a
          simp only [Function.comp]
          split <;> rfl
        rw [this, hfind]
        simp [hreq]
      generalize fire s r = t at hfind'
      unfold fire
      rw [hfind']
      simp

/-- **Release may be called any number of times, from any goroutine**: a second Release of the same
    request changes nothing (and in particular never unlocks an unlocked mutex) -/
theorem release_idempotent (s s' : State) (r : ReqId) (h : Reachable s) (hs : step s (.release r) = some s') :
    step s' (.release r) = some s' := by
  have _ := h  -- reachability is not needed for idempotence
  simp only [step] at hs
  split at hs
  · rename_i hany
    cases hs
    have hany' : (fire s r).handlers.any (fun h => h.req == r && !h.returned) = true := by
      obtain ⟨a, ha, hpa⟩ := List.any_eq_true.mp hany
      unfold fire
      split
      · exact hany
      · split
        · exact hany
        · have key : (markReleased r s.handlers).any (fun h => h.req == r && !h.returned) = true := by
            rw [List.any_eq_true]
            refine ⟨_, List.mem_map_of_mem (f := fun h' : Handler =>
              if h'.req == r then { h' with released := true } else h') ha, ?_⟩
            simp only [Bool.and_eq_true] at hpa
            simp [hpa.1]
            simpa using hpa.2
          split <;> exact key
    simp only [step, hany', if_true, fire_fire]
  · cases hs

/-- The statement of `return_releases` *as originally given* (no hypothesis on `s`) is FALSE: with two
    handler entries carrying the same request id, `fire` only inspects the first one (already
    released), so the second stays unreleased although it is marked returned. Such a state is not
    reachable (`Inv.nodup`), hence the true version below needs distinct ids. -/
theorem return_releases_counterexample :
    ¬ (∀ (s s' : State) (r : ReqId), step s (.ret r) = some s' →
        ∀ h ∈ s'.handlers, h.req = r → h.released = true ∧ h.returned = true) := by
  intro hall
  have := hall
    { handlers := [{ req := 1, released := true }, { req := 1, released := false }] }
    { handlers := [{ req := 1, released := true, returned := true },
                   { req := 1, released := false, returned := true }] }
    1 (by decide) { req := 1, released := false, returned := true } (by decide) rfl
  exact absurd this.1 (by decide)

/-- the true general form: it suffices that the started request ids are distinct -/
theorem return_releases_of_nodup (s s' : State) (r : ReqId) (hnd : (started s).Nodup)
    (hs : step s (.ret r) = some s') :
    ∀ h ∈ s'.handlers, h.req = r → h.released = true ∧ h.returned = true := by
  simp only [step] at hs
  split at hs
  · cases hs
    intro a' ha' hq
    obtain ⟨a, ha, rfl⟩ := List.mem_map.mp ha'
    by_cases hq' : a.req = r
    · simp only [beq_iff_eq, hq', if_true, and_true]
      exact fire_released s r hnd a ha hq'
    · simp only [beq_iff_eq, hq', if_false] at hq
  · cases hs

/-- **Release happens implicitly when the handler returns** (closest true version of the original
    statement: the extra hypothesis `Reachable s` was added, see `return_releases_counterexample`) -/
theorem return_releases (s s' : State) (r : ReqId) (h : Reachable s) (hs : step s (.ret r) = some s') :
    ∀ h ∈ s'.handlers, h.req = r → h.released = true ∧ h.returned = true :=
  return_releases_of_nodup s s' r (inv_reachable s h).nodup hs

/-- same as `return_releases`, under the `_partial` naming convention for amended statements -/
theorem return_releases_partial (s s' : State) (r : ReqId) (h : Reachable s) (hs : step s (.ret r) = some s') :
    ∀ h ∈ s'.handlers, h.req = r → h.released = true ∧ h.returned = true :=
  return_releases s s' r h hs

/-- the mutex is never unlocked twice (no "unlock of unlocked mutex" crash) -/
theorem never_fatal (s : State) (h : Reachable s) : s.fatal = false :=
  (inv_reachable s h).notFatal

theorem started_step (s s' : State) (l : Label) (hs : step s l = some s') :
    started s' = started s ++ (match l with | .recv r => [r] | _ => []) := by
  cases l with
  | recv r =>
    simp only [step] at hs
    split at hs
    · cases hs
    · cases hs
      simp [started]
  | release r =>
    simp only [step] at hs
    split at hs
    · cases hs
      simp [started_fire]
    · cases hs
  | ret r =>
    simp only [step] at hs
    split at hs
    · cases hs
      have : started { fire s r with handlers := markReturned r (fire s r).handlers }
          = started (fire s r) := map_req_markReturned r (fire s r).handlers
      simp only [List.append_nil]
      exact this.trans (started_fire s r)
    · cases hs
  | acquire =>
    simp only [step] at hs
    split at hs
    · cases hs
      simp [started]
    · cases hs

theorem started_exec (ls : List Label) : ∀ (s s' : State), exec s ls = some s' →
    started s' = started s ++ ls.filterMap (fun l => match l with | .recv r => some r | _ => none) := by
  induction ls with
  | nil =>
    intro s s' he
    simp only [exec] at he
    cases he
    simp
  | cons l ls ih =>
    intro s s' he
    simp only [exec] at he
    cases hst : step s l with
    | none => rw [hst] at he; cases he
    | some s1 =>
      rw [hst] at he
      rw [ih s1 s' he, started_step s s1 l hst]
      cases l <;> simp

/-- handlers are started in the order in which the requests were received, each once -/
theorem started_in_receive_order (ls : List Label) (s : State) (h : exec init ls = some s) :
    started s = ls.filterMap (fun l => match l with | .recv r => some r | _ => none) := by
  have := started_exec ls init s h
  simpa [started, init] using this

/-- a handler that has released may still be running while later ones start: releasing early does
    not wait for the return -/
theorem released_handlers_run_concurrently :
    ∃ s, Reachable s ∧ (s.handlers.filter (fun h => !h.returned)).length = 2 := by
  refine ⟨{ locked := true, loopWaiting := true,
            handlers := [{ req := 1, released := true }, { req := 2 }] },
          ⟨[.recv 1, .release 1, .acquire, .recv 2], by decide⟩, by decide⟩

/-- a server with several client connections: one independent `State` per connection
    (the mutex and the handler list are local to a `NodeStream` activation) -/
abbrev Sys := Nat → State

def stepSys (sys : Sys) (c : Nat) (l : Label) : Option Sys :=
  (step (sys c) l).map (fun s' => fun c' => if c' = c then s' else sys c')

/-- **a handler that never releases delays only later requests of its own connection**: a step of
    connection `c` leaves every other connection's state, and hence what it can do next, unchanged -/
theorem other_connections_unaffected (sys sys' : Sys) (c : Nat) (l : Label) (h : stepSys sys c l = some sys')
    (c' : Nat) (hne : c' ≠ c) : sys' c' = sys c' ∧ ∀ l', step (sys' c') l' = step (sys c') l' := by
  unfold stepSys at h
  cases hst : step (sys c) l with
  | none => rw [hst] at h; cases h
  | some s1 =>
    rw [hst] at h
    simp only [Option.map_some] at h
    cases h
    have : (fun c'' => if c'' = c then s1 else sys c'') c' = sys c' := by simp [hne]
    exact ⟨this, fun l' => by rw [this]⟩

end GorumsV.C04
