import GorumsV.Model.MgrClose
import GorumsV.Props.NodeConnP
/-!
  C12, manager level: once `Manager.Close` has returned, every node of the pool is closed, no connection of any node
  is live, no dial is in progress, and that stays so whatever the nodes' senders do afterwards and however often Close
  is called again.  Needs the four node facts and "the loop reaches every node" (both read from the tree); without the
  latter a node can be left open (counterexample).
-/
namespace GorumsV.MgrCloseP
open GorumsV GorumsV.MgrClose

/-! ### helper lemmas: node level -/

theorem node_closed_step (P : NodeConn.Params) (x x' : NodeConn.St) (l : NodeConn.Label)
    (h : NodeConn.step P x l = some x') (hc : x.closed = true) : x'.closed = true :=
  NodeConnP.closed_exec P [l] x x' hc (by simp [NodeConn.exec, h])

theorem node_close_closed (P : NodeConn.Params) (x x' : NodeConn.St)
    (h : NodeConn.step P x .close = some x') : x'.closed = true := by
  simp only [NodeConn.step] at h
  split at h
  · simp at h
  · simp at h; subst h; rfl

theorem node_exec_snoc (P : NodeConn.Params) (ls : List NodeConn.Label) (l : NodeConn.Label) :
    ∀ s, NodeConn.exec P s (ls ++ [l]) = (NodeConn.exec P s ls).bind (fun t => NodeConn.step P t l) := by
  induction ls with
  | nil =>
    intro s
    simp only [List.nil_append, NodeConn.exec, Option.bind]
    cases NodeConn.step P s l <;> rfl
  | cons a ls ih =>
    intro s
    simp only [List.cons_append, NodeConn.exec]
    cases NodeConn.step P s a with
    | none => rfl
    | some t => simpa using ih t

theorem node_reach_step (P : NodeConn.Params) (x x' : NodeConn.St) (l : NodeConn.Label)
    (hx : NodeConn.Reachable P x) (h : NodeConn.step P x l = some x') : NodeConn.Reachable P x' := by
  obtain ⟨ls, hls⟩ := hx
  refine ⟨ls ++ [l], ?_⟩
  rw [node_exec_snoc, hls]
  simpa using h

/-! ### helper lemmas: pool level -/

/-- what a successful composite step is -/
theorem step_cases (P : Params) (s s' : St) (l : Label) (h : step P s l = some s') :
    (∃ i x x' nl, s.nodes[i]? = some x ∧ NodeConn.step P.node x nl = some x' ∧
        s' = { s with nodes := s.nodes.set i x' }) ∨
    (s' = { s with closing := true }) ∨
    (s.returned = false ∧ ∃ x x', s.nodes[s.next]? = some x ∧ NodeConn.step P.node x .close = some x' ∧
        s' = { s with nodes := s.nodes.set s.next x', next := s.next + 1 }) ∨
    (s.returned = false ∧ (P.reachesAll = true → s.nodes.length ≤ s.next) ∧ s' = { s with returned := true }) := by
  cases l with
  | dialBegin i =>
    simp only [step] at h
    split at h
    · simp at h
    · rename_i x hx
      cases hn : NodeConn.step P.node x .dialBegin with
      | none => simp [hn] at h
      | some x' =>
        simp [hn, setNode] at h
        exact Or.inl ⟨i, x, x', _, hx, hn, h.symm⟩
  | dialEnd i ok =>
    simp only [step] at h
    split at h
    · simp at h
    · rename_i x hx
      cases hn : NodeConn.step P.node x (.dialEnd ok) with
      | none => simp [hn] at h
      | some x' =>
        simp [hn, setNode] at h
        exact Or.inl ⟨i, x, x', _, hx, hn, h.symm⟩
  | closeCall =>
    simp only [step] at h
    simp at h
    exact Or.inr (Or.inl h.symm)
  | closeNext =>
    simp only [step] at h
    split at h
    · simp at h
    · rename_i hg
      have hr : s.returned = false := by
        cases hrr : s.returned with
        | false => rfl
        | true => simp [hrr] at hg
      split at h
      · simp at h
      · rename_i x hx
        cases hn : NodeConn.step P.node x .close with
        | none => simp [hn] at h
        | some x' =>
          simp [hn, setNode] at h
          exact Or.inr (Or.inr (Or.inl ⟨hr, x, x', hx, hn, h.symm⟩))
  | closeReturn =>
    simp only [step] at h
    split at h
    · simp at h
    · rename_i hg
      have hr : s.returned = false := by
        cases hrr : s.returned with
        | false => rfl
        | true => simp [hrr] at hg
      split at h
      · simp at h
      · rename_i hg2
        simp at h
        refine Or.inr (Or.inr (Or.inr ⟨hr, ?_, h.symm⟩))
        intro hra
        simp [hra] at hg2
        exact hg2

theorem exec_inv (P : Params) (Inv : St → Prop)
    (hstep : ∀ s s' l, Inv s → step P s l = some s' → Inv s') (ls : List Label) :
    ∀ s s', Inv s → exec P s ls = some s' → Inv s' := by
  induction ls with
  | nil => intro s s' hI h; simp [exec] at h; subst h; exact hI
  | cons l ls ih =>
    intro s s' hI h
    simp only [exec] at h
    cases hs : step P s l with
    | none => simp [hs] at h
    | some t =>
      simp [hs] at h
      exact ih t s' (hstep s t l hI hs) h

theorem exec_append (P : Params) (l1 l2 : List Label) :
    ∀ s, exec P s (l1 ++ l2) = (exec P s l1).bind (fun t => exec P t l2) := by
  induction l1 with
  | nil => intro s; simp [exec]
  | cons a l1 ih =>
    intro s
    simp only [List.cons_append, exec]
    cases step P s a with
    | none => rfl
    | some t => simpa using ih t

theorem reachable_exec (P : Params) (n : Nat) (s s' : St) (ls : List Label)
    (h : Reachable P n s) (he : exec P s ls = some s') : Reachable P n s' := by
  obtain ⟨l0, h0⟩ := h
  refine ⟨l0 ++ ls, ?_⟩
  rw [exec_append, h0]
  simpa using he

/-- the inductive invariant -/
def J (P : Params) (n : Nat) (s : St) : Prop :=
  s.nodes.length = n ∧ (∀ x ∈ s.nodes, NodeConn.Reachable P.node x) ∧
  (∀ i, i < s.next → ∀ x, s.nodes[i]? = some x → x.closed = true) ∧
  (s.returned = true → P.reachesAll = true → s.nodes.length ≤ s.next)

theorem J_init (P : Params) (n : Nat) : J P n (init n) := by
  refine ⟨by simp [init], ?_, ?_, ?_⟩
  · intro x hx
    have : x = {} := List.eq_of_mem_replicate hx
    subst this
    exact ⟨[], rfl⟩
  · intro i hi; simp [init] at hi
  · intro hr; simp [init] at hr

theorem J_step (P : Params) (n : Nat) (s s' : St) (l : Label) (hJ : J P n s) (h : step P s l = some s') :
    J P n s' := by
  obtain ⟨j1, j2, j3, j4⟩ := hJ
  rcases step_cases P s s' l h with ⟨i, x, x', nl, hx, hn, rfl⟩ | rfl | ⟨hr, x, x', hx, hn, rfl⟩ | ⟨hr, hle, rfl⟩
  · have hxm : x ∈ s.nodes := List.mem_iff_getElem?.2 ⟨i, hx⟩
    refine ⟨by simpa using j1, ?_, ?_, ?_⟩
    · intro y hy
      rcases List.mem_or_eq_of_mem_set hy with hy | rfl
      · exact j2 y hy
      · exact node_reach_step P.node x y nl (j2 x hxm) hn
    · intro k hk y hy
      simp only [List.getElem?_set] at hy
      split at hy
      · rename_i hik
        subst hik
        split at hy
        · simp at hy; subst hy
          exact node_closed_step P.node x _ nl hn (j3 i hk x hx)
        · simp at hy
      · exact j3 k hk y hy
    · intro hr hra
      simpa using j4 hr hra
  · exact ⟨j1, j2, j3, j4⟩
  · have hxm : x ∈ s.nodes := List.mem_iff_getElem?.2 ⟨s.next, hx⟩
    refine ⟨by simpa using j1, ?_, ?_, ?_⟩
    · intro y hy
      rcases List.mem_or_eq_of_mem_set hy with hy | rfl
      · exact j2 y hy
      · exact node_reach_step P.node x y _ (j2 x hxm) hn
    · intro k hk y hy
      simp only [List.getElem?_set] at hy
      split at hy
      · rename_i hik
        split at hy
        · simp at hy; subst hy
          exact node_close_closed P.node x _ hn
        · simp at hy
      · rename_i hik
        have hk' : k < s.next := by
          have : k < s.next + 1 := hk
          omega
        exact j3 k hk' y hy
    · intro hr'
      simp [hr] at hr'
  · refine ⟨j1, j2, j3, ?_⟩
    intro _ hra
    exact hle hra

theorem J_reachable (P : Params) (n : Nat) (s : St) (h : Reachable P n s) : J P n s := by
  obtain ⟨ls, h⟩ := h
  exact exec_inv P (J P n) (fun s s' l => J_step P n s s' l) ls (init n) s (J_init P n) h

theorem returned_step (P : Params) (s s' : St) (l : Label) (hr : s.returned = true) (h : step P s l = some s') :
    s'.returned = true := by
  rcases step_cases P s s' l h with ⟨i, x, x', nl, hx, hn, rfl⟩ | rfl | ⟨hr', x, x', hx, hn, rfl⟩ | ⟨hr', hle, rfl⟩
  · exact hr
  · exact hr
  · exact hr
  · rfl

/-- every node of a reachable pool state is a reachable node-connection state -/
theorem nodes_reachable (P : Params) (n : Nat) (s : St) (h : Reachable P n s) :
    s.nodes.length = n ∧ ∀ x ∈ s.nodes, NodeConn.Reachable P.node x := by
  have hJ := J_reachable P n s h
  exact ⟨hJ.1, hJ.2.1⟩

/-- the nodes the loop has passed are closed -/
theorem passed_are_closed (P : Params) (hP : P.Good) (n : Nat) (s : St) (h : Reachable P n s) :
    ∀ i, i < s.next → ∀ x, s.nodes[i]? = some x → x.closed = true := by
  have _ := hP   -- not needed: close sets `closed` and dial keeps it whatever the node facts are
  exact (J_reachable P n s h).2.2.1

/-- **after Close has returned every node is closed and no connection is live** -/
theorem returned_all_closed (P : Params) (hP : P.Good) (n : Nat) (s : St) (h : Reachable P n s) (hr : s.returned = true) :
    ∀ x ∈ s.nodes, x.closed = true ∧ x.live = [] ∧ x.dialing = false := by
  obtain ⟨_, j2, j3, j4⟩ := J_reachable P n s h
  intro x hx
  obtain ⟨i, hi⟩ := List.getElem?_of_mem hx
  have hlt : i < s.nodes.length := by
    obtain ⟨hlt, _⟩ := List.getElem?_eq_some_iff.1 hi
    exact hlt
  have hle := j4 hr hP.2
  have hc : x.closed = true := j3 i (by omega) x hi
  exact ⟨hc, NodeConnP.closed_no_live P.node hP.1 x (j2 x hx) hc⟩

/-- … and that is final: whatever happens afterwards (dials, further Close calls) -/
theorem returned_is_final (P : Params) (hP : P.Good) (n : Nat) (s : St) (h : Reachable P n s) (hr : s.returned = true)
    (ls : List Label) (s' : St) (he : exec P s ls = some s') :
    s'.returned = true ∧ ∀ x ∈ s'.nodes, x.closed = true ∧ x.live = [] := by
  have hr' : s'.returned = true :=
    exec_inv P (fun t => t.returned = true) (fun a b l ha hs => returned_step P a b l ha hs) ls s s' hr he
  refine ⟨hr', ?_⟩
  intro x hx
  have := returned_all_closed P hP n s' (reachable_exec P n s s' ls h he) hr' x hx
  exact ⟨this.1, this.2.1⟩

def good : Params := { node := NodeConnP.good, reachesAll := true }
theorem good_good : good.Good := ⟨NodeConnP.good_good, rfl⟩

/-- non-vacuity: three nodes, two of them connected, a dial in progress on node 1 delays its close, Close returns -/
example : (exec good (init 3) [.dialBegin 0, .dialEnd 0 true, .dialBegin 1, .closeCall, .closeNext, .dialEnd 1 true, .closeNext, .closeNext, .closeReturn, .closeCall, .dialBegin 2]).map
    (fun s => (s.returned, s.nodes.map (fun x => (x.closed, x.live)))) = some (true, [(true, []), (true, []), (true, [])]) := by decide

/-- the loop must reach every node: with an early exit a node keeps its connection after Close has returned -/
theorem needs_reachesAll : ∃ s, exec { good with reachesAll := false } (init 2) [.dialBegin 1, .dialEnd 1 true, .closeCall, .closeNext, .closeReturn] = some s ∧
    s.returned = true ∧ (s.nodes.map (·.live)) = [[], [0]] := by
  exact ⟨_, rfl, rfl, rfl⟩

end GorumsV.MgrCloseP
