import GorumsV.Model.Gen
/-!
  C16 — the generator is total, deterministic and never silently emits broken code
  (decision-logic half: theorems over the model `Gen` of `validateOptions`, the `chkFn`s and
  the templates' choices; the tie proves that the model equals what the real plugin does on
  the whole lattice of 1 024 option combinations, regenerated on every run).
-/
namespace GorumsV.C16
open GorumsV.Gen

/-- a Boolean property checked on both Booleans -/
def forallB (P : Bool → Bool) : Bool := P false && P true

theorem forallB_spec (P : Bool → Bool) (h : forallB P = true) (b : Bool) : P b = true := by
  cases b <;> simp_all [forallB]

/-- a Boolean property checked on all 1 024 option combinations -/
def allOptsB (P : Opts → Bool) : Bool :=
  forallB fun a => forallB fun b => forallB fun c => forallB fun d => forallB fun e =>
  forallB fun f => forallB fun g => forallB fun h => forallB fun i => forallB fun j => P ⟨a, b, c, d, e, f, g, h, i, j⟩

/-- a property that holds on the whole lattice holds for every method -/
theorem forall_of_all (P : Opts → Bool) (h : allOptsB P = true) (o : Opts) : P o = true := by
  obtain ⟨a, b, c, d, e, f, g, h', i, j⟩ := o
  have h1 := forallB_spec _ h a
  have h2 := forallB_spec _ h1 b
  have h3 := forallB_spec _ h2 c
  have h4 := forallB_spec _ h3 d
  have h5 := forallB_spec _ h4 e
  have h6 := forallB_spec _ h5 f
  have h7 := forallB_spec _ h6 g
  have h8 := forallB_spec _ h7 h'
  have h9 := forallB_spec _ h8 i
  exact forallB_spec _ h9 j

/-- **exactly one client stub per accepted method** (never two methods with one name, never none) -/
theorem accepted_one_stub (o : Opts) (h : validate o = none) : (stubs o).length = 1 := by
  have := forall_of_all (fun o => (validate o).isSome || (stubs o).length == 1) (by decide) o
  simp [h] at this
  exact this

/-- the combinations the documentation allows: at most one call type; per-node arguments with
    multicast / quorum call / correctable (ignored on unicast); custom return type and async as in
    doc/method-options.md; client streams with multicast, server streams with correctable -/
def Documented (o : Opts) : Bool :=
  decide (nCallTypes o ≤ 1) && (!o.perNode || o.multicast || o.quorumcall || o.correctable || o.unicast) &&
  (!o.async || o.quorumcall) && (!o.clientStream || o.multicast) && (!o.serverStream || o.correctable)

/-- **every documented combination is accepted** -/
theorem accepts_documented (o : Opts) (h : Documented o = true) : validate o = none := by
  have := forall_of_all (fun o => !Documented o || (validate o).isNone) (by decide) o
  simp [h] at this
  exact this

/-- … and nothing else is: an accepted combination is a documented one -/
theorem accepted_is_documented (o : Opts) (h : validate o = none) : Documented o = true := by
  have := forall_of_all (fun o => (validate o).isSome || Documented o) (by decide) o
  simp [h] at this
  exact this

/-- **the documented illegal combinations are rejected with a diagnostic** -/
theorem rejects_illegal (o : Opts) :
    (o.async = true → o.quorumcall = false → (validate o).isSome = true) ∧
    (o.clientStream = true → o.multicast = false → (validate o).isSome = true) ∧
    (o.serverStream = true → o.correctable = false → (validate o).isSome = true) ∧
    (o.correctable = true → o.clientStream = true → (validate o).isSome = true) ∧
    (nCallTypes o > 1 → (validate o).isSome = true) ∧
    (o.perNode = true → hasCallType o = false → (validate o).isSome = true) := by
  have := forall_of_all (fun o =>
    (!(o.async && !o.quorumcall) || (validate o).isSome) && (!(o.clientStream && !o.multicast) || (validate o).isSome) &&
    (!(o.serverStream && !o.correctable) || (validate o).isSome) && (!(o.correctable && o.clientStream) || (validate o).isSome) &&
    (!decide (nCallTypes o > 1) || (validate o).isSome) && (!(o.perNode && !hasCallType o) || (validate o).isSome)) (by decide) o
  simp only [Bool.and_eq_true, Bool.or_eq_true, Bool.not_eq_true', Bool.and_eq_false_iff, decide_eq_false_iff_not, Bool.not_eq_true] at this
  obtain ⟨⟨⟨⟨⟨h1, h2⟩, h3⟩, h4⟩, h5⟩, h6⟩ := this
  refine ⟨?_, ?_, ?_, ?_, ?_, ?_⟩
  · intro a b; rcases h1 with (h | h) | h <;> simp_all
  · intro a b; rcases h2 with (h | h) | h <;> simp_all
  · intro a b; rcases h3 with (h | h) | h <;> simp_all
  · intro a b; rcases h4 with (h | h) | h <;> simp_all
  · intro a; rcases h5 with h | h <;> simp_all
  · intro a b; rcases h6 with (h | h) | h <;> simp_all

/-- the accepted stub is the one of the declared call type, with the declared options -/
theorem stub_is_declared (o : Opts) (h : validate o = none) :
    (o.quorumcall = true → o.async = false → stubs o = ["Configuration.QuorumCall"]) ∧
    (o.quorumcall = true → o.async = true → stubs o = ["Configuration.AsyncCall"]) ∧
    (o.correctable = true → stubs o = ["Configuration.CorrectableCall"]) ∧
    (o.multicast = true → stubs o = ["Configuration.Multicast"]) ∧
    (o.unicast = true → stubs o = ["Node.Unicast"]) ∧
    (hasCallType o = false → stubs o = ["Node.RPCCall"]) := by
  have := forall_of_all (fun o => (validate o).isSome ||
    ((!(o.quorumcall && !o.async) || stubs o == ["Configuration.QuorumCall"]) &&
     (!(o.quorumcall && o.async) || stubs o == ["Configuration.AsyncCall"]) &&
     (!o.correctable || stubs o == ["Configuration.CorrectableCall"]) &&
     (!o.multicast || stubs o == ["Configuration.Multicast"]) &&
     (!o.unicast || stubs o == ["Node.Unicast"]) &&
     (hasCallType o || stubs o == ["Node.RPCCall"]))) (by decide) o
  simp only [h, Option.isSome_none, Bool.false_or, Bool.and_eq_true, Bool.or_eq_true, Bool.not_eq_true', Bool.and_eq_false_iff,
    beq_iff_eq, Bool.not_eq_true] at this
  obtain ⟨⟨⟨⟨⟨h1, h2⟩, h3⟩, h4⟩, h5⟩, h6⟩ := this
  refine ⟨?_, ?_, ?_, ?_, ?_, ?_⟩
  · intro a b; rcases h1 with (h | h) | h <;> simp_all
  · intro a b; rcases h2 with (h | h) | h <;> simp_all
  · intro a; rcases h3 with h | h <;> simp_all
  · intro a; rcases h4 with h | h <;> simp_all
  · intro a; rcases h5 with h | h <;> simp_all
  · intro a; rcases h6 with h | h <;> simp_all

/-- a quorum function is declared exactly for the call types that use one, and per-node arguments are
    passed on exactly where they are declared and supported -/
theorem qf_and_pernode (o : Opts) (h : validate o = none) :
    (hasQF o = true ↔ (stubs o = ["Configuration.QuorumCall"] ∨ stubs o = ["Configuration.AsyncCall"] ∨ stubs o = ["Configuration.CorrectableCall"])) ∧
    (perNodeSet o = true ↔ (o.perNode = true ∧ o.unicast = false)) := by
  have := forall_of_all (fun o => (validate o).isSome ||
    ((hasQF o == (stubs o == ["Configuration.QuorumCall"] || stubs o == ["Configuration.AsyncCall"] || stubs o == ["Configuration.CorrectableCall"])) &&
     (perNodeSet o == (o.perNode && !o.unicast)))) (by decide) o
  simp only [h, Option.isSome_none, Bool.false_or, Bool.and_eq_true, beq_iff_eq] at this
  obtain ⟨h1, h2⟩ := this
  constructor
  · rw [h1]; simp [or_assoc]
  · rw [h2]; simp

/-- **services**: the client stubs of a service whose (accepted) methods have distinct names have
    distinct (receiver, name) keys — no declaration is emitted twice -/
def stubKeys (ms : List (String × Opts)) : List (String × String) :=
  ms.flatMap (fun m => (stubs m.2).map (fun s => (m.1, s)))

theorem stubKeys_names (ms : List (String × Opts)) (hv : ∀ m ∈ ms, validate m.2 = none) :
    (stubKeys ms).map (·.1) = ms.map (·.1) := by
  induction ms with
  | nil => simp [stubKeys]
  | cons m ms ih =>
    have h1 := accepted_one_stub m.2 (hv m (by simp))
    have ih' := ih (fun x hx => hv x (by simp [hx]))
    match hs : stubs m.2, h1 with
    | [s], _ =>
      simp only [stubKeys, List.flatMap_cons, hs, List.map_cons, List.map_nil, List.singleton_append]
      simp only [stubKeys] at ih'
      rw [ih']

theorem service_stub_keys_nodup (ms : List (String × Opts)) (hn : (ms.map (·.1)).Nodup)
    (hv : ∀ m ∈ ms, validate m.2 = none) : ((stubKeys ms).map (·.1)).Nodup := by
  rw [stubKeys_names ms hv]; exact hn

/-! non-vacuity -/
example : validate ⟨false, false, false, true, false, true, true, true, false, false⟩ = none := by decide
example : stubs ⟨false, false, false, true, false, true, true, true, false, false⟩ = ["Configuration.AsyncCall"] := by decide
example : validate ⟨false, false, true, true, false, false, false, false, false, false⟩ = some "call-types-combined" := by decide

end GorumsV.C16
