import GorumsV.Model.NodeConn
/-!
  C12, connection half: no connection outlives Close.  For the tree's `dial` / `close` (the four facts of
  `Params.Good`), in every reachable state the node has at most one live connection and it is the one in
  `n.conn`; once `close` has run there is none, no dial is in progress, and none can ever be created again.
  Each of the four facts is needed (four counterexamples; two of them are seeded changes C12-M2 / C12-M3).
-/
namespace GorumsV.NodeConnP
open GorumsV.NodeConn

/-- the inductive invariant of the good parameters -/
def I (s : St) : Prop :=
  s.live.length ≤ 1 ∧ (∀ c ∈ s.live, s.conn = some c) ∧
  (s.dialing = true → s.live = [] ∧ s.closed = false) ∧
  (s.closed = true → s.live = [] ∧ s.dialing = false)

theorem closeConn_nil (live : List Nat) (conn : Option Nat) (h : ∀ c ∈ live, conn = some c) :
    closeConn live conn = [] := by
  cases conn with
  | none =>
    cases live with
    | nil => rfl
    | cons a l => exact absurd (h a (by simp)) (by simp)
  | some c =>
    simp only [closeConn, List.filter_eq_nil_iff]
    intro a ha
    have := h a ha
    simp at this
    simp [this]

theorem I_init : I init := by
  simp [I, init]

theorem I_step (P : Params) (hP : P.Good) (s s' : St) (l : Label) (hI : I s) (h : step P s l = some s') : I s' := by
  obtain ⟨h1, h2, h3, h4⟩ := hP
  obtain ⟨i1, i2, i3, i4⟩ := hI
  have hn := closeConn_nil s.live s.conn i2
  cases l with
  | dialBegin =>
    simp only [step, h1, h2, Bool.true_and, if_true] at h
    split at h
    · simp at h
    · split at h
      · simp at h; subst h; exact ⟨i1, i2, i3, i4⟩
      · simp at h; subst h
        rename_i hd hc
        simp [I, hn]
        simpa using hc
  | dialEnd ok =>
    simp only [step] at h
    split at h
    · simp at h
    · rename_i hd
      have hd' : s.dialing = true := by simpa using hd
      obtain ⟨hl, hc⟩ := i3 hd'
      split at h
      · simp at h; subst h; simp [I, hl, hc]
      · simp at h; subst h; simp [I, hl, hc]
  | close =>
    simp only [step, h3, h4, Bool.true_and, if_true] at h
    split at h
    · simp at h
    · rename_i hd
      simp at h; subst h
      simp [I, hn]
      simpa using hd

theorem I_exec (P : Params) (hP : P.Good) (ls : List Label) : ∀ (s s' : St), I s → exec P s ls = some s' → I s' := by
  induction ls with
  | nil => intro s s' hI h; simp [exec] at h; subst h; exact hI
  | cons l ls ih =>
    intro s s' hI h
    simp only [exec] at h
    cases hs : step P s l with
    | none => simp [hs] at h
    | some t =>
      simp [hs] at h
      exact ih t s' (I_step P hP s t l hI hs) h

theorem I_reachable (P : Params) (hP : P.Good) (s : St) (h : Reachable P s) : I s := by
  obtain ⟨ls, h⟩ := h
  exact I_exec P hP ls init s I_init h

theorem closed_exec (P : Params) (ls : List Label) : ∀ (s s' : St), s.closed = true → exec P s ls = some s' → s'.closed = true := by
  induction ls with
  | nil => intro s s' hc h; simp [exec] at h; subst h; exact hc
  | cons l ls ih =>
    intro s s' hc h
    simp only [exec] at h
    cases hs : step P s l with
    | none => simp [hs] at h
    | some t =>
      simp [hs] at h
      refine ih t s' ?_ h
      cases l with
      | dialBegin =>
        simp only [step] at hs
        split at hs
        · simp at hs
        · split at hs <;> (simp at hs; subst hs; simp [hc])
      | dialEnd ok =>
        simp only [step] at hs
        split at hs
        · simp at hs
        · split at hs <;> (simp at hs; subst hs; simp [hc])
      | close =>
        simp only [step] at hs
        split at hs
        · simp at hs
        · simp at hs; subst hs; simp

/-- at most one live connection, and it is the current one -/
theorem live_is_current (P : Params) (hP : P.Good) (s : St) (h : Reachable P s) :
    s.live.length ≤ 1 ∧ ∀ c ∈ s.live, s.conn = some c := by
  have hI := I_reachable P hP s h
  exact ⟨hI.1, hI.2.1⟩

/-- **no connection outlives Close**: after `close` nothing is live and no dial is in progress -/
theorem closed_no_live (P : Params) (hP : P.Good) (s : St) (h : Reachable P s) (hc : s.closed = true) :
    s.live = [] ∧ s.dialing = false := by
  exact (I_reachable P hP s h).2.2.2 hc

/-- … and that stays so whatever happens afterwards (Close is final; calling it again changes nothing) -/
theorem closed_is_final (P : Params) (hP : P.Good) (s : St) (h : Reachable P s) (hc : s.closed = true)
    (ls : List Label) (s' : St) (he : exec P s ls = some s') : s'.closed = true ∧ s'.live = [] := by
  have hI := I_reachable P hP s h
  have hc' := closed_exec P ls s s' hc he
  exact ⟨hc', ((I_exec P hP ls s s' hI he).2.2.2 hc').1⟩

/-- a second close is a no-op -/
theorem close_idempotent (P : Params) (hP : P.Good) (s : St) (h : Reachable P s) (hc : s.closed = true) :
    step P s .close = some s := by
  obtain ⟨hl, hd⟩ := (I_reachable P hP s h).2.2.2 hc
  obtain ⟨h1, h2, h3, h4⟩ := hP
  cases s with
  | mk closed conn live next dialing =>
    simp at hc hl hd
    subst hc hl hd
    cases conn <;> simp [step, closeConn]

def good : Params := ⟨true, true, true, true⟩
theorem good_good : good.Good := ⟨rfl, rfl, rfl, rfl⟩

/-- non-vacuity: dial, re-dial, failed dial, dial, close — one live connection before the close, none after -/
example : exec good init [.dialBegin, .dialEnd true, .dialBegin, .dialEnd true, .dialBegin, .dialEnd false, .dialBegin, .dialEnd true] =
    some { closed := false, conn := some 2, live := [2], next := 3, dialing := false } := by decide
example : exec good init [.dialBegin, .dialEnd true, .dialBegin, .dialEnd true, .close, .dialBegin, .close] =
    some { closed := true, conn := some 1, live := [], next := 2, dialing := false } := by decide

/-- each fact is needed -/
theorem needs_closesOld : ∃ s, exec { good with closesOld := false } init [.dialBegin, .dialEnd true, .dialBegin, .dialEnd true, .close] = some s ∧
    s.closed = true ∧ s.live = [0] := by
  exact ⟨_, rfl, rfl, rfl⟩
theorem needs_checksClosed : ∃ s, exec { good with checksClosed := false } init [.close, .dialBegin, .dialEnd true] = some s ∧
    s.closed = true ∧ s.live = [0] := by
  exact ⟨_, rfl, rfl, rfl⟩
theorem needs_lockedDial : ∃ s, exec { good with lockedDial := false } init [.dialBegin, .close, .dialEnd true] = some s ∧
    s.closed = true ∧ s.live = [0] := by
  exact ⟨_, rfl, rfl, rfl⟩
theorem needs_closeCloses : ∃ s, exec { good with closeCloses := false } init [.dialBegin, .dialEnd true, .close] = some s ∧
    s.closed = true ∧ s.live = [0] := by
  exact ⟨_, rfl, rfl, rfl⟩

end GorumsV.NodeConnP
