import GorumsV.Model.Race
/-!
  C15 — the public API is free of data races under concurrent use (partial: which accesses the
  program makes and which locks it holds is extracted syntactically by `gx`; the Go memory model
  below lock discipline — atomics, channels, `go` — is covered by the race detector runs).
-/
namespace GorumsV.C15
open GorumsV.Race

/-! ### helpers: one-step behaviour of the hold counts, discrete intermediate value -/

theorem xCount_step (tr : Trace) (t : Tid) (l : Lock) (i : Nat) (e : Ev) (h : tr[i]? = some e) :
    xCount t l (tr.take (i+1)).reverse = xCount t l (tr.take i).reverse +
      (if e.tid = t ∧ e.op = .acq l then 1 else if e.tid = t ∧ e.op = .rel l then -1 else 0) := by
  simp [List.take_add_one, h, xCount]

theorem rCount_step (tr : Trace) (t : Tid) (l : Lock) (i : Nat) (e : Ev) (h : tr[i]? = some e) :
    rCount t l (tr.take (i+1)).reverse = rCount t l (tr.take i).reverse +
      (if e.tid = t ∧ e.op = .racq l then 1 else if e.tid = t ∧ e.op = .rrel l then -1 else 0) := by
  simp [List.take_add_one, h, rCount]

theorem xCount_step_none (tr : Trace) (t : Tid) (l : Lock) (i : Nat) (h : tr[i]? = none) :
    xCount t l (tr.take (i+1)).reverse = xCount t l (tr.take i).reverse := by
  simp [List.take_add_one, h]

theorem rCount_step_none (tr : Trace) (t : Tid) (l : Lock) (i : Nat) (h : tr[i]? = none) :
    rCount t l (tr.take (i+1)).reverse = rCount t l (tr.take i).reverse := by
  simp [List.take_add_one, h]

/-- the exclusive count of `t` becomes positive at `m+1` only through an `acq l` by `t` at `m` -/
theorem xCount_up (tr : Trace) (t : Tid) (l : Lock) (m : Nat)
    (h0 : xCount t l (tr.take m).reverse ≤ 0) (h1 : 0 < xCount t l (tr.take (m+1)).reverse) :
    ∃ e, tr[m]? = some e ∧ e.tid = t ∧ e.op = .acq l := by
  cases h : tr[m]? with
  | none => rw [xCount_step_none tr t l m h] at h1; omega
  | some e =>
    rw [xCount_step tr t l m e h] at h1
    refine ⟨e, rfl, ?_⟩
    by_cases c : e.tid = t ∧ e.op = .acq l
    · exact c
    · rw [if_neg c] at h1; split at h1 <;> omega

/-- the exclusive count of `t` drops to zero at `m+1` only through a `rel l` by `t` at `m` -/
theorem xCount_down (tr : Trace) (t : Tid) (l : Lock) (m : Nat)
    (h0 : 0 < xCount t l (tr.take m).reverse) (h1 : xCount t l (tr.take (m+1)).reverse ≤ 0) :
    ∃ e, tr[m]? = some e ∧ e.tid = t ∧ e.op = .rel l := by
  cases h : tr[m]? with
  | none => rw [xCount_step_none tr t l m h] at h1; omega
  | some e =>
    rw [xCount_step tr t l m e h] at h1
    refine ⟨e, rfl, ?_⟩
    by_cases c : e.tid = t ∧ e.op = .rel l
    · exact c
    · rw [if_neg c] at h1; split at h1 <;> omega

theorem rCount_up (tr : Trace) (t : Tid) (l : Lock) (m : Nat)
    (h0 : rCount t l (tr.take m).reverse ≤ 0) (h1 : 0 < rCount t l (tr.take (m+1)).reverse) :
    ∃ e, tr[m]? = some e ∧ e.tid = t ∧ e.op = .racq l := by
  cases h : tr[m]? with
  | none => rw [rCount_step_none tr t l m h] at h1; omega
  | some e =>
    rw [rCount_step tr t l m e h] at h1
    refine ⟨e, rfl, ?_⟩
    by_cases c : e.tid = t ∧ e.op = .racq l
    · exact c
    · rw [if_neg c] at h1; split at h1 <;> omega

theorem rCount_down (tr : Trace) (t : Tid) (l : Lock) (m : Nat)
    (h0 : 0 < rCount t l (tr.take m).reverse) (h1 : rCount t l (tr.take (m+1)).reverse ≤ 0) :
    ∃ e, tr[m]? = some e ∧ e.tid = t ∧ e.op = .rrel l := by
  cases h : tr[m]? with
  | none => rw [rCount_step_none tr t l m h] at h1; omega
  | some e =>
    rw [rCount_step tr t l m e h] at h1
    refine ⟨e, rfl, ?_⟩
    by_cases c : e.tid = t ∧ e.op = .rrel l
    · exact c
    · rw [if_neg c] at h1; split at h1 <;> omega

/-- discrete intermediate value: a count positive at `a` and non-positive at `b ≥ a` has a step
    `m → m+1` in between at which it stops being positive -/
theorem step_down (f : Nat → Int) (a b : Nat) (hab : a ≤ b) (ha : 0 < f a) (hb : f b ≤ 0) :
    ∃ m, a ≤ m ∧ m < b ∧ 0 < f m ∧ f (m+1) ≤ 0 := by
  induction b with
  | zero =>
    have : a = 0 := by omega
    subst this; omega
  | succ n ih =>
    by_cases han : a = n + 1
    · subst han; omega
    · by_cases hn : 0 < f n
      · exact ⟨n, by omega, by omega, hn, hb⟩
      · obtain ⟨m, h1, h2, h3, h4⟩ := ih (by omega) (by omega)
        exact ⟨m, h1, by omega, h3, h4⟩

theorem step_up (f : Nat → Int) (a b : Nat) (hab : a ≤ b) (ha : f a ≤ 0) (hb : 0 < f b) :
    ∃ m, a ≤ m ∧ m < b ∧ f m ≤ 0 ∧ 0 < f (m+1) := by
  have ha' : 0 < (fun n => 1 - f n) a := by show 0 < 1 - f a; omega
  have hb' : (fun n => 1 - f n) b ≤ 0 := by show 1 - f b ≤ 0; omega
  obtain ⟨m, h1, h2, h3, h4⟩ := step_down (fun n => 1 - f n) a b hab ha' hb'
  have h3' : 0 < 1 - f m := h3
  have h4' : 1 - f (m+1) ≤ 0 := h4
  exact ⟨m, h1, h2, by omega, by omega⟩

/-- the three-edge chain access → release → acquisition → access -/
theorem chain (tr : Trace) (i m k j : Nat) (a r q b : Ev)
    (hi : tr[i]? = some a) (hm : tr[m]? = some r) (hk : tr[k]? = some q) (hj : tr[j]? = some b)
    (him : i < m) (hmk : m < k) (hkj : k < j) (har : a.tid = r.tid) (hqb : q.tid = b.tid)
    (hrq : ∃ l, (r.op = .rel l ∧ (q.op = .acq l ∨ q.op = .racq l)) ∨ (r.op = .rrel l ∧ q.op = .acq l)) :
    hb tr i j :=
  hb.trans (hb.edge ⟨him, a, r, hi, hm, Or.inl har⟩)
    (hb.trans (hb.edge ⟨hmk, r, q, hm, hk, Or.inr hrq⟩) (hb.edge ⟨hkj, q, b, hk, hj, Or.inl hqb⟩))

/-- case "the earlier access holds `l` exclusively": `f2` is the later thread's count in the mode in
    which it holds `l` at `j` -/
theorem race_free_fst_excl (tr : Trace) (l : Lock) (i j : Nat) (a b : Ev) (hij : i < j)
    (hi : tr[i]? = some a) (hj : tr[j]? = some b) (hne : a.tid ≠ b.tid)
    (hnotrel : a.op ≠ .rel l)
    (f2 : Nat → Int)
    (hx1 : 0 < xCount a.tid l (tr.take i).reverse)
    (hexcl : ∀ p, p ≤ j → 0 < xCount a.tid l (tr.take p).reverse → f2 p ≤ 0)
    (hj2 : 0 < f2 j)
    (hup : ∀ m, f2 m ≤ 0 → 0 < f2 (m+1) →
      ∃ e, tr[m]? = some e ∧ e.tid = b.tid ∧ (e.op = .acq l ∨ e.op = .racq l)) :
    hb tr i j := by
  obtain ⟨k, hik, hkj, hk0, hk1⟩ := step_up f2 i j (by omega) (hexcl i (by omega) hx1) hj2
  obtain ⟨q, hq, hqt, hqo⟩ := hup k hk0 hk1
  have hx1k : xCount a.tid l (tr.take (k+1)).reverse ≤ 0 := by
    apply Classical.byContradiction
    intro hc
    have := hexcl (k+1) (by omega) (by omega)
    omega
  obtain ⟨m, him, hmk, hm0, hm1⟩ := step_down (fun p => xCount a.tid l (tr.take p).reverse) i (k+1) (by omega) hx1 hx1k
  obtain ⟨r, hr, hrt, hro⟩ := xCount_down tr a.tid l m hm0 hm1
  have hmi : m ≠ i := by
    intro h; subst h; rw [hi] at hr; cases hr; exact hnotrel hro
  have hmk' : m ≠ k := by
    intro h; subst h; rw [hq] at hr; cases hr; exact hne (hrt.symm.trans hqt)
  exact chain tr i m k j a r q b hi hr hq hj (by omega) (by omega) hkj hrt.symm hqt
    ⟨l, Or.inl ⟨hro, hqo⟩⟩

/-- case "the later access holds `l` exclusively": `f1` is the earlier thread's count in the mode in
    which it holds `l` at `i` -/
theorem race_free_snd_excl (tr : Trace) (l : Lock) (i j : Nat) (a b : Ev) (hij : i < j)
    (hi : tr[i]? = some a) (hj : tr[j]? = some b) (hne : a.tid ≠ b.tid)
    (f1 : Nat → Int) (relop : Op)
    (hnotrel : a.op ≠ relop)
    (hrelop : relop = .rel l ∨ relop = .rrel l)
    (hx2 : 0 < xCount b.tid l (tr.take j).reverse)
    (hexcl : ∀ p, p ≤ j → 0 < xCount b.tid l (tr.take p).reverse → f1 p ≤ 0)
    (hi1 : 0 < f1 i)
    (hdown : ∀ m, 0 < f1 m → f1 (m+1) ≤ 0 → ∃ e, tr[m]? = some e ∧ e.tid = a.tid ∧ e.op = relop) :
    hb tr i j := by
  obtain ⟨m, him, hmj, hm0, hm1⟩ := step_down f1 i j (by omega) hi1 (hexcl j (by omega) hx2)
  obtain ⟨r, hr, hrt, hro⟩ := hdown m hm0 hm1
  have hx2m : xCount b.tid l (tr.take m).reverse ≤ 0 := by
    apply Classical.byContradiction
    intro hc
    have := hexcl m (by omega) (by omega)
    omega
  obtain ⟨k, hmk, hkj, hk0, hk1⟩ := step_up (fun p => xCount b.tid l (tr.take p).reverse) m j (by omega) hx2m hx2
  obtain ⟨q, hq, hqt, hqo⟩ := xCount_up tr b.tid l k hk0 hk1
  have hmi : m ≠ i := by
    intro h; subst h; rw [hi] at hr; cases hr; exact hnotrel hro
  have hmk' : m ≠ k := by
    intro h; subst h; rw [hq] at hr; cases hr; exact hne (hrt.symm.trans hqt)
  refine chain tr i m k j a r q b hi hr hq hj (by omega) (by omega) hkj hrt.symm hqt ⟨l, ?_⟩
  rcases hrelop with h | h
  · exact Or.inl ⟨hro.trans h, Or.inl hqo⟩
  · exact Or.inr ⟨hro.trans h, hqo⟩

/-- **the lock discipline is sound**: in a trace that respects the locks' semantics, if x is guarded by l
    then any two conflicting accesses to x are ordered by happens-before — there is no data race on x -/
theorem guarded_race_free (tr : Trace) (x : Var) (l : Lock) (hw : WellLocked tr) (hg : GuardedBy tr x l)
    (i j : Nat) (hij : i < j) (hc : Conflict tr x i j) : hb tr i j := by
  obtain ⟨a, b, hi, hj, hne, haa, hab, hwr⟩ := hc
  have hjlen : j < tr.length := by
    rcases Nat.lt_or_ge j tr.length with h | h
    · exact h
    · rw [List.getElem?_eq_none h] at hj; cases hj
  have hga := hg i a hi
  have hgb := hg j b hj
  -- exclusion, in count form
  have exX : ∀ p t1 t2, p ≤ j → t1 ≠ t2 → 0 < xCount t1 l (tr.take p).reverse →
      xCount t2 l (tr.take p).reverse ≤ 0 := by
    intro p t1 t2 hp hne h
    have := (hw.exclusive p t1 t2 l (by omega) hne h).1
    unfold holdsX at this; omega
  have exR : ∀ p t1 t2, p ≤ j → t1 ≠ t2 → 0 < xCount t1 l (tr.take p).reverse →
      rCount t2 l (tr.take p).reverse ≤ 0 := by
    intro p t1 t2 hp hne h
    have := (hw.exclusive p t1 t2 l (by omega) hne h).2
    unfold holdsR at this; omega
  -- the earlier access holds l exclusively
  have caseA : holdsX tr i a.tid l → a.op ≠ .rel l → hb tr i j := by
    intro hx1 hnr
    have hb2 : holdsX tr j b.tid l ∨ holdsR tr j b.tid l := by
      rcases hab with h | h
      · exact hgb.2 h
      · exact Or.inl (hgb.1 h)
    rcases hb2 with h2 | h2
    · exact race_free_fst_excl tr l i j a b hij hi hj hne hnr
        (fun p => xCount b.tid l (tr.take p).reverse) hx1
        (fun p hp h => exX p a.tid b.tid hp hne h) h2
        (fun m h0 h1 => by
          obtain ⟨e, he, ht, ho⟩ := xCount_up tr b.tid l m h0 h1
          exact ⟨e, he, ht, Or.inl ho⟩)
    · exact race_free_fst_excl tr l i j a b hij hi hj hne hnr
        (fun p => rCount b.tid l (tr.take p).reverse) hx1
        (fun p hp h => exR p a.tid b.tid hp hne h) h2
        (fun m h0 h1 => by
          obtain ⟨e, he, ht, ho⟩ := rCount_up tr b.tid l m h0 h1
          exact ⟨e, he, ht, Or.inr ho⟩)
  rcases hwr with hwa | hwb
  · exact caseA (hga.1 hwa) (by rw [hwa]; intro h; cases h)
  · have hx2 : holdsX tr j b.tid l := hgb.1 hwb
    rcases haa with hra | hwa
    · rcases hga.2 hra with h1 | h1
      · exact caseA h1 (by rw [hra]; intro h; cases h)
      · exact race_free_snd_excl tr l i j a b hij hi hj hne
          (fun p => rCount a.tid l (tr.take p).reverse) (.rrel l)
          (by rw [hra]; intro h; cases h) (Or.inr rfl) hx2
          (fun p hp h => exR p b.tid a.tid hp (Ne.symm hne) h) h1
          (fun m h0 h1 => rCount_down tr a.tid l m h0 h1)
    · exact caseA (hga.1 hwa) (by rw [hwa]; intro h; cases h)

/-- non-vacuity: two threads writing x under the same mutex -/
def exTrace : Trace :=
  [⟨1, .acq 0⟩, ⟨1, .write 7⟩, ⟨1, .rel 0⟩, ⟨2, .acq 0⟩, ⟨2, .write 7⟩, ⟨2, .rel 0⟩]

example : Conflict exTrace 7 1 4 :=
  ⟨⟨1, .write 7⟩, ⟨2, .write 7⟩, rfl, rfl, by decide, Or.inr rfl, Or.inr rfl, Or.inl rfl⟩

example : hb exTrace 1 4 :=
  chain exTrace 1 2 3 4 ⟨1, .write 7⟩ ⟨1, .rel 0⟩ ⟨2, .acq 0⟩ ⟨2, .write 7⟩ rfl rfl rfl rfl
    (by decide) (by decide) (by decide) rfl rfl ⟨0, Or.inl ⟨rfl, Or.inl rfl⟩⟩

/-- every happens-before path starts with an edge -/
theorem hb_first_edge {tr : Trace} {i j : Nat} (h : hb tr i j) : ∃ k, hbEdge tr i k := by
  induction h with
  | edge e => exact ⟨_, e⟩
  | trans _ _ ih _ => exact ih

/-- the discipline is necessary for the argument: without the lock the same two writes are a race
    (no happens-before path): here simply two unguarded writes by different threads -/
def racyTrace : Trace := [⟨1, .write 7⟩, ⟨2, .write 7⟩]
theorem racy_not_ordered : ¬ hb racyTrace 0 1 := by
  intro h
  obtain ⟨k, hk, a, b, ha, hb', hor⟩ := hb_first_edge h
  have ha' : a = ⟨1, .write 7⟩ := by
    have : racyTrace[0]? = some ⟨1, .write 7⟩ := rfl
    rw [this] at ha; cases ha; rfl
  subst ha'
  match k, hk, hb' with
  | 1, _, hb' =>
    have : racyTrace[1]? = some ⟨2, .write 7⟩ := rfl
    rw [this] at hb'; cases hb'
    rcases hor with h | ⟨l, ⟨h, _⟩ | ⟨h, _⟩⟩
    · cases h
    · cases h
    · cases h
  | k+2, _, hb' =>
    have : racyTrace[k+2]? = none := rfl
    rw [this] at hb'; cases hb'

end GorumsV.C15
