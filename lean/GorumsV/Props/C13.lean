import GorumsV.Model.Codec
/-!
  C13 — the wire codec round-trips every message and never panics on any input.

  Everything that is Gorums' own — the varint framing, the length handling, the
  choice of message type by method name and direction, the descriptor assertion,
  the slice `b[mdLen:]` — is proved here for *all* byte strings; protobuf's own
  marshal/unmarshal and the registries are oracle parameters (trusted base).
-/
namespace GorumsV.C13
open GorumsV.Codec

theorem toNat_ofNat_lt (n : Nat) (h : n < 256) : (UInt8.ofNat n).toNat = n := by
  simp [Nat.mod_eq_of_lt h]

private theorem arith (n X acc : Nat) :
    acc + (n % 128 + 128 - 128) * X + n / 128 * (2 ^ 7 * X) = acc + n * X := by
  have h := Nat.mod_add_div n 128
  have e : n * X = (n % 128) * X + (n / 128) * (128 * X) := by
    have : (n % 128 + 128 * (n / 128)) * X = (n % 128) * X + (n / 128) * (128 * X) := by
      rw [Nat.add_mul, Nat.mul_comm 128 (n / 128), Nat.mul_assoc]
    rw [h] at this
    exact this
  rw [Nat.add_sub_cancel, e, show (2:Nat) ^ 7 = 128 from rfl, Nat.add_assoc]

theorem consumeVarintAux_put (n : Nat) : ∀ (i acc : Nat) (rest : Bytes), i ≤ 9 → n < 2 ^ (64 - 7 * i) →
    consumeVarintAux i acc (putUvarint n ++ rest) = .ok (acc + n * 2 ^ (7 * i), i + (putUvarint n).length) := by
  induction n using Nat.strongRecOn with
  | _ n ih =>
    intro i acc rest hi hn
    rw [putUvarint]
    split
    · rename_i h128
      simp only [List.cons_append, List.nil_append, consumeVarintAux, List.length_singleton]
      rw [toNat_ofNat_lt n (by omega)]
      by_cases h9 : i ≥ 9
      · have : i = 9 := by omega
        subst this
        simp at hn
        simp [hn]
      · simp [h9, h128]
    · rename_i h128
      simp only [List.cons_append, consumeVarintAux, List.length_cons]
      rw [toNat_ofNat_lt (n % 128 + 128) (by omega)]
      by_cases h9 : i ≥ 9
      · have : i = 9 := by omega
        subst this
        simp at hn
        omega
      · have hlt : ¬ (n % 128 + 128 < 128) := by omega
        simp only [h9, hlt, if_false]
        have hi' : i + 1 ≤ 9 := by omega
        have hpow : 2 ^ (64 - 7 * i) = 128 * 2 ^ (64 - 7 * (i + 1)) := by
          have : 64 - 7 * i = (64 - 7 * (i + 1)) + 7 := by omega
          rw [this, Nat.pow_add]; omega
        have hn' : n / 128 < 2 ^ (64 - 7 * (i + 1)) := by
          rw [hpow] at hn
          exact Nat.div_lt_of_lt_mul hn
        rw [ih (n / 128) (by omega) (i + 1) _ rest hi' hn']
        have hp : 2 ^ (7 * (i + 1)) = 2 ^ 7 * 2 ^ (7 * i) := by
          rw [show 7 * (i + 1) = 7 + 7 * i by omega, Nat.pow_add]
        rw [hp, arith]
        congr 2
        omega

/-- **varint round trip**, for every 64-bit value and every continuation -/
theorem uvarint_roundtrip (n : Nat) (h : n < 2 ^ 64) (rest : Bytes) :
    consumeVarint (putUvarint n ++ rest) = .ok (n, (putUvarint n).length) := by
  have := consumeVarintAux_put n 0 0 rest (by omega) (by simpa using h)
  simpa [consumeVarint] using this

/-- **length-prefixed part round trip**: whatever bytes `p` and continuation `rest` -/
theorem consumeBytes_part (p rest : Bytes) (h : p.length < 2 ^ 64) :
    consumeBytes (putUvarint p.length ++ p ++ rest) = (p, (((putUvarint p.length).length + p.length : Nat) : Int)) := by
  unfold consumeBytes
  rw [List.append_assoc, uvarint_roundtrip p.length h]
  have hd : List.drop (putUvarint p.length).length (putUvarint p.length ++ (p ++ rest)) = p ++ rest := by simp
  simp only [hd]
  have hlen : ¬ p.length > (p ++ rest).length := by simp
  simp only [hlen, if_false]
  simp

/-- **frame round trip**: decoding the frame of any two byte strings gives them back,
    the second one found exactly at the offset the first decoding reports -/
theorem frame_roundtrip (md msg : Bytes) (h1 : md.length < 2 ^ 64) (h2 : msg.length < 2 ^ 64) :
    (consumeBytes (encodeFrame md msg)).1 = md ∧
    0 ≤ (consumeBytes (encodeFrame md msg)).2 ∧
    (consumeBytes ((encodeFrame md msg).drop (consumeBytes (encodeFrame md msg)).2.toNat)).1 = msg := by
  have e1 : consumeBytes (encodeFrame md msg) = (md, (((putUvarint md.length).length + md.length : Nat) : Int)) := by
    unfold encodeFrame
    exact consumeBytes_part md _ h1
  rw [e1]
  refine ⟨rfl, by simp; omega, ?_⟩
  simp only [Int.toNat_natCast]
  have : (encodeFrame md msg).drop ((putUvarint md.length).length + md.length) = putUvarint msg.length ++ msg := by
    unfold encodeFrame
    have : (putUvarint md.length ++ md).length = (putUvarint md.length).length + md.length := by simp
    rw [← this, List.drop_left]
  rw [this]
  have := consumeBytes_part msg [] h2
  simp only [List.append_nil] at this
  rw [this]

/-- a negative length result always comes with an empty slice -/
theorem consumeBytes_neg (b : Bytes) (h : (consumeBytes b).2 < 0) : (consumeBytes b).1 = [] := by
  unfold consumeBytes at h ⊢
  cases hcv : consumeVarint b with
  | error c => simp
  | ok p =>
    obtain ⟨m, n⟩ := p
    simp only [hcv] at h ⊢
    split
    · rfl
    · rename_i hm
      simp only [hm, if_false] at h
      omega

theorem consumeVarintAux_le : ∀ (b : Bytes) (i acc v n : Nat),
    consumeVarintAux i acc b = .ok (v, n) → i ≤ 9 → n ≤ i + b.length ∧ i < n := by
  intro b
  induction b with
  | nil => intro i acc v n h; simp [consumeVarintAux] at h
  | cons y rest ih =>
    intro i acc v n h hi
    simp only [consumeVarintAux] at h
    split at h
    · split at h
      · simp at h; obtain ⟨_, rfl⟩ := h; simp; omega
      · simp at h
    · split at h
      · simp at h; obtain ⟨_, rfl⟩ := h; simp
      · have := ih (i + 1) _ v n h (by omega)
        simp; omega

theorem consumeVarintAux_err : ∀ (b : Bytes) (i acc : Nat) (c : Int),
    consumeVarintAux i acc b = .error c → c < 0 := by
  intro b
  induction b with
  | nil => intro i acc c h; simp [consumeVarintAux, errTruncated] at h; omega
  | cons y rest ih =>
    intro i acc c h
    simp only [consumeVarintAux] at h
    split at h
    · split at h
      · simp at h
      · simp [errOverflow] at h; omega
    · split at h
      · simp at h
      · exact ih _ _ c h

/-- a non-negative length result stays inside the buffer, so `b[mdLen:]` is in range -/
theorem consumeBytes_in_range (b : Bytes) (h : 0 ≤ (consumeBytes b).2) : (consumeBytes b).2.toNat ≤ b.length := by
  unfold consumeBytes at h ⊢
  cases hcv : consumeVarint b with
  | error c =>
    simp only [hcv] at h
    have := consumeVarintAux_err b 0 0 c hcv
    omega
  | ok p =>
    obtain ⟨m, n⟩ := p
    have hle := consumeVarintAux_le b 0 0 m n hcv (by omega)
    by_cases hm : m > (b.drop n).length
    · have hm' : b.length - n < m := by simpa using hm
      simp [hcv, hm', errTruncated] at h
    · simp only [hcv, hm, if_false]
      simp at hm ⊢
      omega

/-! ### `gorumsUnmarshal` -/

variable {Md Msg : Type}

/-- **decode ∘ encode**: for every registered method, metadata and message whose
    serialisations the protobuf oracles parse back, in both directions, the decoder
    yields that metadata and message, of the type the direction selects
    (`Input` for requests, `Output` for responses). -/
theorem unmarshal_marshal (O : Oracles Md Msg) (checked : Bool) (dir : Dir)
    (mdB msgB : Bytes) (md : Md) (m : Msg) (i o : String)
    (h1 : mdB.length < 2 ^ 64) (h2 : msgB.length < 2 ^ 64)
    (hmd : O.parseMetadata mdB = some md)
    (hl : O.lookup (O.methodOf md) = .method i o)
    (ht : O.hasType (pick dir i o) = true)
    (hm : O.parseMsg (pick dir i o) msgB = some m) :
    unmarshal O checked dir (encodeFrame mdB msgB) = .ok md (pick dir i o) m := by
  obtain ⟨f1, f2, f3⟩ := frame_roundtrip mdB msgB h1 h2
  unfold unmarshal
  generalize hcb : consumeBytes (encodeFrame mdB msgB) = cb at f1 f2 f3
  obtain ⟨mdBuf, mdLen⟩ := cb
  simp only at f1 f2 f3
  subst f1
  simp only [hmd, hl, ht]
  have : ¬ mdLen < 0 := by omega
  simp only [this, Bool.not_true, Bool.false_eq_true, if_false]
  generalize hcb2 : consumeBytes (List.drop mdLen.toNat (encodeFrame mdBuf msgB)) = cb2 at f3
  obtain ⟨msgBuf, n2⟩ := cb2
  simp only at f3
  subst f3
  simp [hm]

/-- **never panics on any input**, provided the descriptor assertion is checked and the
    (empty) metadata obtained from an unreadable length prefix names no registered
    entity — which holds for protobuf: an empty buffer parses to a metadata with the
    empty method name, and the registry has no entry for the empty name. -/
theorem unmarshal_total (O : Oracles Md Msg) (dir : Dir) (b : Bytes)
    (hempty : ∀ md, O.parseMetadata [] = some md → O.lookup (O.methodOf md) = .notFound) :
    ∀ why, unmarshal O true dir b ≠ .panic why := by
  intro why
  unfold unmarshal
  generalize hcb : consumeBytes b = cb
  obtain ⟨mdBuf, mdLen⟩ := cb
  simp only
  split
  · simp
  · rename_i md hmd
    split
    · simp
    · simp
    · rename_i i o hl
      split
      · simp
      · split
        · rename_i hneg
          -- negative length ⇒ empty slice ⇒ lookup fails: this branch is unreachable
          have he : mdBuf = [] := by
            have := consumeBytes_neg b (by rw [hcb]; exact hneg)
            rw [hcb] at this; exact this
          subst he
          rw [hempty md hmd] at hl
          simp at hl
        · split <;> simp

/-- with an unchecked assertion a frame whose method field names a non-method entity
    makes the decoder panic (defect D13 of the pinned tree) -/
theorem unmarshal_unchecked_panics :
    ∃ (O : Oracles String Unit) (b : Bytes), unmarshal O false .request b = .panic "interface conversion" := by
  refine ⟨{ parseMetadata := fun _ => some "ordering.Metadata", methodOf := id,
            lookup := fun s => if s = "ordering.Metadata" then .other else .notFound,
            hasType := fun _ => true, parseMsg := fun _ _ => some () }, [], ?_⟩
  simp [unmarshal, consumeBytes, consumeVarint, consumeVarintAux]

/-! ### status through `WrapMessage` / `status.FromProto(…).Err()` -/

inductive HandlerErr | none | status (code : Nat) (msg : String) | plain (text : String)
  deriving DecidableEq, Repr

/-- `WrapMessage`: `status.FromError(err)`; a non-status error becomes `Unknown` (code 2) with its text;
    nil becomes OK (code 0) -/
def wrapStatus : HandlerErr → Nat × String
  | .none => (0, "")
  | .status c m => (c, m)
  | .plain t => (2, t)

/-- the client side: `status.FromProto(st).Err()` is nil exactly for code OK -/
def unwrapStatus : Nat × String → Option (Nat × String)
  | (0, _) => Option.none
  | (c, m) => some (c, m)

theorem status_roundtrip (c : Nat) (m : String) (hc : c ≠ 0) :
    unwrapStatus (wrapStatus (.status c m)) = some (c, m) := by
  cases c with
  | zero => exact absurd rfl hc
  | succ c => rfl

theorem status_nil : unwrapStatus (wrapStatus .none) = Option.none := rfl
theorem status_plain (t : String) : unwrapStatus (wrapStatus (.plain t)) = some (2, t) := rfl

/-! non-vacuity -/
example : putUvarint 300 = [172, 2] := by simp [putUvarint]
example : consumeVarint ([172, 2] ++ [7]) = .ok (300, 2) := by rfl
example : consumeBytes ([3, 1, 2, 3] ++ [1, 9]) = ([1, 2, 3], 4) := by rfl
example : consumeBytes [5, 1] = ([], -1) := by rfl
example : consumeBytes [255, 255, 255, 255, 255, 255, 255, 255, 255, 2] = ([], -3) := by rfl

end GorumsV.C13
