import GorumsV.Model.Config
/-!
  C14 — configurations are sets of distinct pooled nodes; sound algebra, no aliasing.

  `PoolOK` is the manager invariant (one node object per ID), `CfgOK m c` says that
  `c` lists pooled node objects, each once, strictly sorted by ID.  Every constructor
  preserves `PoolOK` (also when it fails) and returns a `CfgOK` configuration; the
  membership theorems are the algebra (union / difference / exactly the named nodes);
  `nodeList_addrs` / `nodeMap_bindings` say that distinct addresses are never silently
  mapped to one node.
-/
namespace GorumsV.C14
open GorumsV.Config

def ids (c : Cfg) : List Nat := c.map (·.id)

/-- one node object per ID; uids are fresh -/
structure PoolOK (m : Mgr) : Prop where
  idsNodup : (ids m.nodes).Nodup
  uidsNodup : (m.nodes.map (·.uid)).Nodup
  uidsBelow : ∀ n ∈ m.nodes, n.uid < m.nextUid

/-- a configuration of pooled objects, each once, sorted by ID -/
structure CfgOK (m : Mgr) (c : Cfg) : Prop where
  sorted : (ids c).Pairwise (· < ·)
  pooled : ∀ n ∈ c, n ∈ m.nodes

/-- the pool only grows: a node object that was pooled stays pooled (same id, same address) -/
def Extends (m m' : Mgr) : Prop := ∀ n ∈ m.nodes, n ∈ m'.nodes

theorem poolOK_empty : PoolOK {} := ⟨by simp [ids], by simp, by simp⟩

/-! ### helper lemmas: ids, insertion sort, the pool -/

@[simp] theorem ids_nil : ids [] = [] := rfl

@[simp] theorem ids_cons (x : Node) (l : Cfg) : ids (x :: l) = x.id :: ids l := rfl

@[simp] theorem ids_append (a b : Cfg) : ids (a ++ b) = ids a ++ ids b := by simp [ids]

theorem mem_ids {c : Cfg} {i : Nat} : i ∈ ids c ↔ ∃ n ∈ c, n.id = i := by simp [ids]

theorem insId_perm (x : Node) (l : List Node) : (insId x l).Perm (x :: l) := by
  induction l with
  | nil => exact List.Perm.refl _
  | cons y ys ih =>
    simp only [insId]
    split
    · exact (List.Perm.cons y ih).trans (List.Perm.swap x y ys)
    · exact List.Perm.refl _

theorem sortId_perm (l : List Node) : (sortId l).Perm l := by
  induction l with
  | nil => exact List.Perm.refl _
  | cons x xs ih =>
    simp only [sortId]
    exact (insId_perm x (sortId xs)).trans (List.Perm.cons x ih)

theorem ids_sortId_perm (l : List Node) : (ids (sortId l)).Perm (ids l) := (sortId_perm l).map _

theorem insId_sorted (x : Node) (l : List Node) (hs : (ids l).Pairwise (· < ·)) (hx : x.id ∉ ids l) :
    (ids (insId x l)).Pairwise (· < ·) := by
  induction l with
  | nil => simp [insId]
  | cons y ys ih =>
    rw [ids_cons, List.pairwise_cons] at hs
    rw [ids_cons, List.mem_cons, not_or] at hx
    simp only [insId]
    split
    · rename_i hle
      rw [ids_cons, List.pairwise_cons]
      refine ⟨?_, ih hs.2 hx.2⟩
      intro z hz
      have hz' : z ∈ ids (x :: ys) := ((insId_perm x ys).map _).mem_iff.1 hz
      rw [ids_cons, List.mem_cons] at hz'
      rcases hz' with rfl | hz'
      · omega
      · exact hs.1 z hz'
    · rename_i hle
      rw [ids_cons, ids_cons, List.pairwise_cons, List.pairwise_cons]
      refine ⟨?_, hs⟩
      intro z hz
      rw [List.mem_cons] at hz
      rcases hz with rfl | hz
      · omega
      · have := hs.1 z hz; omega

theorem nodup_map_inj {α β : Type} {f : α → β} : ∀ {l : List α}, (l.map f).Nodup →
    ∀ {a b}, a ∈ l → b ∈ l → f a = f b → a = b := by
  intro l
  induction l with
  | nil => intro _ a b ha; cases ha
  | cons x xs ih =>
    intro h a b ha hb hab
    rw [List.map_cons, List.nodup_cons] at h
    rw [List.mem_cons] at ha hb
    rcases ha with rfl | ha <;> rcases hb with rfl | hb
    · rfl
    · exact absurd (hab ▸ List.mem_map_of_mem hb) h.1
    · exact absurd (hab ▸ List.mem_map_of_mem ha) h.1
    · exact ih h.2 ha hb hab

theorem pool_inj {m : Mgr} (h : PoolOK m) {n n' : Node} (hn : n ∈ m.nodes) (hn' : n' ∈ m.nodes)
    (hid : n.id = n'.id) : n = n' := nodup_map_inj h.idsNodup hn hn' hid

theorem lookup_some {m : Mgr} {i : Nat} {n : Node} (hl : m.lookup i = some n) : n ∈ m.nodes ∧ n.id = i := by
  unfold Mgr.lookup at hl
  exact ⟨List.mem_of_find?_eq_some hl, by simpa using List.find?_some hl⟩

theorem lookup_none {m : Mgr} {i : Nat} (hl : m.lookup i = none) : ∀ n ∈ m.nodes, n.id ≠ i := by
  unfold Mgr.lookup at hl
  simpa using hl

theorem lookup_none_ids {m : Mgr} {i : Nat} (hl : m.lookup i = none) : i ∉ ids m.nodes := by
  intro hi
  obtain ⟨n, hn, hni⟩ := mem_ids.1 hi
  exact lookup_none hl n hn hni

theorem lookup_of_mem {m : Mgr} (h : PoolOK m) {n : Node} (hn : n ∈ m.nodes) : m.lookup n.id = some n := by
  cases hl : m.lookup n.id with
  | none => exact absurd rfl (lookup_none hl n hn)
  | some n' =>
    have := lookup_some hl
    rw [pool_inj h this.1 hn this.2]

theorem hasId_iff {l : Cfg} {i : Nat} : hasId l i = true ↔ i ∈ ids l := by
  simp [hasId, ids]

theorem hasId_false_iff {l : Cfg} {i : Nat} : hasId l i = false ↔ i ∉ ids l := by
  rw [← hasId_iff]; simp

theorem poolOK_add {m : Mgr} (h : PoolOK m) {i : Nat} (a : String) (hl : m.lookup i = none) :
    PoolOK (m.add i a).1 := by
  refine ⟨?_, ?_, ?_⟩
  · simp only [Mgr.add, ids_append, ids_cons, ids_nil]
    rw [List.nodup_append]
    refine ⟨h.idsNodup, by simp, ?_⟩
    intro x hx y hy
    simp at hy
    subst hy
    intro hxy; subst hxy
    exact lookup_none_ids hl hx
  · simp only [Mgr.add, List.map_append, List.map_cons, List.map_nil]
    rw [List.nodup_append]
    refine ⟨h.uidsNodup, by simp, ?_⟩
    intro x hx y hy
    simp at hy
    subst hy
    intro hxy; subst hxy
    obtain ⟨n, hn, hnu⟩ := List.mem_map.1 hx
    have := h.uidsBelow n hn
    omega
  · intro n hn
    simp only [Mgr.add, List.mem_append, List.mem_singleton] at hn ⊢
    rcases hn with hn | rfl
    · have := h.uidsBelow n hn; omega
    · simp

theorem extends_add (m : Mgr) (i : Nat) (a : String) : Extends m (m.add i a).1 := by
  intro n hn; simp [Mgr.add, hn]

theorem Extends.refl (m : Mgr) : Extends m m := fun _ h => h

theorem Extends.trans {a b c : Mgr} (h1 : Extends a b) (h2 : Extends b c) : Extends a c :=
  fun n hn => h2 n (h1 n hn)

/-! ### sorting -/
theorem mem_sortId (l : List Node) (n : Node) : n ∈ sortId l ↔ n ∈ l := (sortId_perm l).mem_iff
theorem sortId_sorted (l : List Node) (h : (ids l).Nodup) : (ids (sortId l)).Pairwise (· < ·) := by
  induction l with
  | nil => simp [sortId]
  | cons x xs ih =>
    rw [ids_cons, List.nodup_cons] at h
    simp only [sortId]
    apply insId_sorted _ _ (ih h.2)
    intro hx
    exact h.1 ((ids_sortId_perm xs).mem_iff.1 hx)

/-! ### helper lemmas: `finish` and the generalised loop invariants -/

theorem finish_spec {m : Mgr} (h : PoolOK m) {acc : Cfg} (hn : (ids acc).Nodup) (hp : ∀ n ∈ acc, n ∈ m.nodes) :
    PoolOK (finish m acc).1 ∧ Extends m (finish m acc).1 ∧
    ∀ c, (finish m acc).2 = .ok c → CfgOK (finish m acc).1 c ∧ ∀ n, n ∈ c ↔ n ∈ acc := by
  refine ⟨⟨?_, ?_, ?_⟩, ?_, ?_⟩
  · exact (ids_sortId_perm m.nodes).nodup_iff.2 h.idsNodup
  · exact ((sortId_perm m.nodes).map _).nodup_iff.2 h.uidsNodup
  · intro n hn'
    exact h.uidsBelow n ((mem_sortId _ _).1 hn')
  · intro n hn'
    exact (mem_sortId _ _).2 hn'
  · intro c hc
    simp only [finish, Except.ok.injEq] at hc
    subst hc
    refine ⟨⟨sortId_sorted _ hn, ?_⟩, fun n => mem_sortId _ _⟩
    intro n hn'
    exact (mem_sortId _ _).2 (hp n ((mem_sortId _ _).1 hn'))

theorem nodeListLoop_spec (as : List String) : ∀ (m : Mgr) (acc : Cfg), PoolOK m → (ids acc).Nodup →
    (∀ n ∈ acc, n ∈ m.nodes) →
    PoolOK (nodeListLoop m acc as).1 ∧ Extends m (nodeListLoop m acc as).1 ∧
    ∀ c, (nodeListLoop m acc as).2 = .ok c →
      CfgOK (nodeListLoop m acc as).1 c ∧ (∀ n ∈ acc, n ∈ c) ∧
      (∀ a ∈ as, ∃ n ∈ c, n.addr = a ∧ n.id = fnv32a a) ∧ (∀ n ∈ c, n ∈ acc ∨ n.addr ∈ as) := by
  induction as with
  | nil =>
    intro m acc hm hn hp
    simp only [nodeListLoop]
    obtain ⟨h1, h2, h3⟩ := finish_spec hm hn hp
    refine ⟨h1, h2, fun c hc => ?_⟩
    obtain ⟨h4, h5⟩ := h3 c hc
    exact ⟨h4, fun n hn => (h5 n).2 hn, by simp, fun n hn => Or.inl ((h5 n).1 hn)⟩
  | cons a as ih =>
    intro m acc hm hn hp
    simp only [nodeListLoop]
    cases hl : m.lookup (fnv32a a) with
    | some n =>
      obtain ⟨hnm, hnid⟩ := lookup_some hl
      simp only []
      by_cases hne : n.addr = a
      · simp only [hne, bne_self_eq_false, Bool.false_eq_true, if_false]
        cases hh : hasId acc (fnv32a a) with
        | true =>
          simp only [if_true]
          obtain ⟨h1, h2, h3⟩ := ih m acc hm hn hp
          refine ⟨h1, h2, fun c hc => ?_⟩
          obtain ⟨h4, h5, h6, h7⟩ := h3 c hc
          refine ⟨h4, h5, ?_, ?_⟩
          · intro a' ha'
            rw [List.mem_cons] at ha'
            rcases ha' with rfl | ha'
            · obtain ⟨n', hn', hn'id⟩ := mem_ids.1 (hasId_iff.1 hh)
              have : n' = n := pool_inj hm (hp n' hn') hnm (hn'id.trans hnid.symm)
              subst this
              exact ⟨n', h5 n' hn', hne, hnid⟩
            · exact h6 a' ha'
          · intro n' hn'
            rcases h7 n' hn' with h | h
            · exact Or.inl h
            · exact Or.inr (List.mem_cons_of_mem _ h)
        | false =>
          simp only [Bool.false_eq_true, if_false]
          have hn2 : (ids (acc ++ [n])).Nodup := by
            rw [ids_append, List.nodup_append]
            refine ⟨hn, by simp, ?_⟩
            intro x hx y hy
            simp at hy
            subst hy
            intro hxy; subst hxy
            exact hasId_false_iff.1 hh (hnid ▸ hx)
          have hp2 : ∀ n' ∈ acc ++ [n], n' ∈ m.nodes := by
            intro n' hn'
            rw [List.mem_append, List.mem_singleton] at hn'
            rcases hn' with h | rfl
            · exact hp n' h
            · exact hnm
          obtain ⟨h1, h2, h3⟩ := ih m (acc ++ [n]) hm hn2 hp2
          refine ⟨h1, h2, fun c hc => ?_⟩
          obtain ⟨h4, h5, h6, h7⟩ := h3 c hc
          refine ⟨h4, fun n' hn' => h5 n' (List.mem_append_left _ hn'), ?_, ?_⟩
          · intro a' ha'
            rw [List.mem_cons] at ha'
            rcases ha' with rfl | ha'
            · exact ⟨n, h5 n (by simp), hne, hnid⟩
            · exact h6 a' ha'
          · intro n' hn'
            rcases h7 n' hn' with h | h
            · rw [List.mem_append, List.mem_singleton] at h
              rcases h with h | rfl
              · exact Or.inl h
              · exact Or.inr (by simp [hne])
            · exact Or.inr (List.mem_cons_of_mem _ h)
      · have : (n.addr != a) = true := by simpa using hne
        simp only [this, if_true]
        exact ⟨hm, Extends.refl m, fun c hc => by cases hc⟩
    | none =>
      simp only []
      have hm2 := poolOK_add hm a hl
      have hn2 : (ids (acc ++ [(m.add (fnv32a a) a).2])).Nodup := by
        rw [ids_append, List.nodup_append]
        refine ⟨hn, by simp, ?_⟩
        intro x hx y hy
        simp [Mgr.add] at hy
        subst hy
        intro hxy; subst hxy
        obtain ⟨n', hn', hn'id⟩ := mem_ids.1 hx
        exact lookup_none hl n' (hp n' hn') hn'id
      have hp2 : ∀ n' ∈ acc ++ [(m.add (fnv32a a) a).2], n' ∈ (m.add (fnv32a a) a).1.nodes := by
        intro n' hn'
        rw [List.mem_append, List.mem_singleton] at hn'
        rcases hn' with h | rfl
        · exact extends_add m _ _ n' (hp n' h)
        · simp [Mgr.add]
      obtain ⟨h1, h2, h3⟩ := ih _ _ hm2 hn2 hp2
      refine ⟨h1, (extends_add m _ _).trans h2, fun c hc => ?_⟩
      obtain ⟨h4, h5, h6, h7⟩ := h3 c hc
      refine ⟨h4, fun n' hn' => h5 n' (List.mem_append_left _ hn'), ?_, ?_⟩
      · intro a' ha'
        rw [List.mem_cons] at ha'
        rcases ha' with rfl | ha'
        · exact ⟨(m.add (fnv32a a') a').2, h5 _ (by simp), rfl, rfl⟩
        · exact h6 a' ha'
      · intro n' hn'
        rcases h7 n' hn' with h | h
        · rw [List.mem_append, List.mem_singleton] at h
          rcases h with h | rfl
          · exact Or.inl h
          · exact Or.inr (by simp [Mgr.add])
        · exact Or.inr (List.mem_cons_of_mem _ h)

theorem lookup_add_self (m : Mgr) (i : Nat) (a : String) (hl : m.lookup i = none) :
    (m.add i a).1.lookup i = some (m.add i a).2 := by
  unfold Mgr.lookup at hl ⊢
  simp [Mgr.add, List.find?_append, hl]

theorem lookup_add_ne (m : Mgr) (i j : Nat) (a : String) (hij : j ≠ i) :
    (m.add j a).1.lookup i = m.lookup i := by
  unfold Mgr.lookup
  simp [Mgr.add, List.find?_append, hij]

theorem mapValid_none (m : Mgr) : ∀ (es : List (String × Nat)) (seen : List Nat),
    mapValid m es seen = none →
    (es.map (·.2)).Nodup ∧ (∀ e ∈ es, e.2 ∉ seen) ∧
    (∀ e ∈ es, ∀ n, m.lookup e.2 = some n → n.addr = e.1) := by
  intro es
  induction es with
  | nil => intro seen _; simp
  | cons e es ih =>
    intro seen hv
    obtain ⟨a, i⟩ := e
    simp only [mapValid] at hv
    by_cases hs : seen.contains i = true
    · simp only [hs, if_true] at hv
      cases hv
    · simp only [hs, Bool.false_eq_true, if_false] at hv
      have hs' : i ∉ seen := by simpa using hs
      have key : mapValid m es (i :: seen) = none ∧ ∀ n, m.lookup i = some n → n.addr = a := by
        cases hl : m.lookup i with
        | none => rw [hl] at hv; exact ⟨hv, fun n hn => by cases hn⟩
        | some n =>
          rw [hl] at hv
          simp only [] at hv
          by_cases hne : n.addr = a
          · simp only [hne, bne_self_eq_false, Bool.false_eq_true, if_false] at hv
            exact ⟨hv, fun n' hn' => by cases hn'; exact hne⟩
          · have : (n.addr != a) = true := by simpa using hne
            simp [this] at hv
      obtain ⟨h1, h2, h3⟩ := ih (i :: seen) key.1
      refine ⟨?_, ?_, ?_⟩
      · rw [List.map_cons, List.nodup_cons]
        refine ⟨?_, h1⟩
        intro hi
        obtain ⟨e, he, hei⟩ := List.mem_map.1 hi
        exact h2 e he (by simp [hei])
      · intro e he
        rw [List.mem_cons] at he
        rcases he with rfl | he
        · exact hs'
        · intro hes; exact h2 e he (List.mem_cons_of_mem _ hes)
      · intro e he
        rw [List.mem_cons] at he
        rcases he with rfl | he
        · exact key.2
        · exact h3 e he

theorem mapLoop_spec (es : List (String × Nat)) : ∀ (m : Mgr) (acc : Cfg), PoolOK m → (ids acc).Nodup →
    (∀ n ∈ acc, n ∈ m.nodes) → (es.map (·.2)).Nodup → (∀ e ∈ es, e.2 ∉ ids acc) →
    (∀ e ∈ es, ∀ n, m.lookup e.2 = some n → n.addr = e.1) →
    PoolOK (mapLoop m acc es).1 ∧ Extends m (mapLoop m acc es).1 ∧
    ∀ c, (mapLoop m acc es).2 = .ok c →
      CfgOK (mapLoop m acc es).1 c ∧ (∀ n ∈ acc, n ∈ c) ∧
      (∀ e ∈ es, ∃ n ∈ c, n.addr = e.1 ∧ n.id = e.2) ∧ (∀ n ∈ c, n ∈ acc ∨ (n.addr, n.id) ∈ es) := by
  induction es with
  | nil =>
    intro m acc hm hn hp _ _ _
    simp only [mapLoop]
    obtain ⟨h1, h2, h3⟩ := finish_spec hm hn hp
    refine ⟨h1, h2, fun c hc => ?_⟩
    obtain ⟨h4, h5⟩ := h3 c hc
    exact ⟨h4, fun n hn => (h5 n).2 hn, by simp, fun n hn => Or.inl ((h5 n).1 hn)⟩
  | cons e es ih =>
    intro m acc hm hn hp hnd hdis hadr
    obtain ⟨a, i⟩ := e
    rw [List.map_cons, List.nodup_cons] at hnd
    have hi_acc : i ∉ ids acc := hdis (a, i) (by simp)
    have hes_ne : ∀ e ∈ es, e.2 ≠ i := by
      intro e he hei
      exact hnd.1 (hei ▸ List.mem_map_of_mem (f := (·.2)) he)
    simp only [mapLoop]
    -- common tail, given the node `n` appended and the next manager `m'`
    have tail : ∀ (m' : Mgr) (n : Node), PoolOK m' → Extends m m' → n ∈ m'.nodes → n.id = i → n.addr = a →
        (∀ e ∈ es, m'.lookup e.2 = m.lookup e.2) →
        PoolOK (mapLoop m' (acc ++ [n]) es).1 ∧ Extends m (mapLoop m' (acc ++ [n]) es).1 ∧
        ∀ c, (mapLoop m' (acc ++ [n]) es).2 = .ok c →
          CfgOK (mapLoop m' (acc ++ [n]) es).1 c ∧ (∀ n ∈ acc, n ∈ c) ∧
          (∀ e ∈ (a, i) :: es, ∃ n ∈ c, n.addr = e.1 ∧ n.id = e.2) ∧
          (∀ n ∈ c, n ∈ acc ∨ (n.addr, n.id) ∈ (a, i) :: es) := by
      intro m' n hm' hext hnm hnid hnaddr hlk
      have hn2 : (ids (acc ++ [n])).Nodup := by
        rw [ids_append, List.nodup_append]
        refine ⟨hn, by simp, ?_⟩
        intro x hx y hy
        simp at hy
        subst hy
        intro hxy; subst hxy
        exact hi_acc (hnid ▸ hx)
      have hp2 : ∀ n' ∈ acc ++ [n], n' ∈ m'.nodes := by
        intro n' hn'
        rw [List.mem_append, List.mem_singleton] at hn'
        rcases hn' with h | rfl
        · exact hext n' (hp n' h)
        · exact hnm
      have hdis2 : ∀ e ∈ es, e.2 ∉ ids (acc ++ [n]) := by
        intro e he
        rw [ids_append, List.mem_append, not_or]
        refine ⟨hdis e (List.mem_cons_of_mem _ he), ?_⟩
        simp [hnid, hes_ne e he]
      have hadr2 : ∀ e ∈ es, ∀ n, m'.lookup e.2 = some n → n.addr = e.1 := by
        intro e he n' hn'
        rw [hlk e he] at hn'
        exact hadr e (List.mem_cons_of_mem _ he) n' hn'
      obtain ⟨h1, h2, h3⟩ := ih m' (acc ++ [n]) hm' hn2 hp2 hnd.2 hdis2 hadr2
      refine ⟨h1, hext.trans h2, fun c hc => ?_⟩
      obtain ⟨h4, h5, h6, h7⟩ := h3 c hc
      refine ⟨h4, fun n' hn' => h5 n' (List.mem_append_left _ hn'), ?_, ?_⟩
      · intro e he
        rw [List.mem_cons] at he
        rcases he with rfl | he
        · exact ⟨n, h5 n (by simp), hnaddr, hnid⟩
        · exact h6 e he
      · intro n' hn'
        rcases h7 n' hn' with h | h
        · rw [List.mem_append, List.mem_singleton] at h
          rcases h with h | rfl
          · exact Or.inl h
          · exact Or.inr (by simp [hnaddr, hnid])
        · exact Or.inr (List.mem_cons_of_mem _ h)
    cases hl : m.lookup i with
    | some n =>
      simp only []
      obtain ⟨hnm, hnid⟩ := lookup_some hl
      exact tail m n hm (Extends.refl m) hnm hnid (hadr (a, i) (by simp) n hl) (fun _ _ => rfl)
    | none =>
      simp only []
      exact tail (m.add i a).1 (m.add i a).2 (poolOK_add hm a hl) (extends_add m i a)
        (by simp [Mgr.add]) rfl rfl (fun e he => lookup_add_ne m e.2 i a (fun h => hes_ne e he h.symm))

theorem nodeMap_spec (m : Mgr) (h : PoolOK m) (es : List (String × Nat)) :
    PoolOK (nodeMap m es).1 ∧ Extends m (nodeMap m es).1 ∧
    ∀ c, (nodeMap m es).2 = .ok c → CfgOK (nodeMap m es).1 c ∧
      (∀ e ∈ es, ∃ n ∈ c, n.addr = e.1 ∧ n.id = e.2) ∧ (∀ n ∈ c, (n.addr, n.id) ∈ es) ∧ es ≠ [] := by
  unfold nodeMap
  cases es with
  | nil => exact ⟨h, Extends.refl m, fun c hc => by cases hc⟩
  | cons e es =>
    simp only [List.isEmpty_cons, Bool.false_eq_true, if_false]
    cases hv : mapValid m (e :: es) [] with
    | some err => exact ⟨h, Extends.refl m, fun c hc => by cases hc⟩
    | none =>
      simp only []
      obtain ⟨v1, _, v3⟩ := mapValid_none m _ _ hv
      obtain ⟨h1, h2, h3⟩ := mapLoop_spec (e :: es) m [] h (by simp) (by simp) v1 (by simp) v3
      refine ⟨h1, h2, fun c hc => ?_⟩
      obtain ⟨h4, _, h6, h7⟩ := h3 c hc
      refine ⟨h4, h6, fun n hn => ?_, by simp⟩
      rcases h7 n hn with h | h
      · cases h
      · exact h

theorem idsLoop_spec (m : Mgr) (hm : PoolOK m) (l : List Nat) : ∀ (acc : Cfg), (ids acc).Nodup →
    (∀ n ∈ acc, n ∈ m.nodes) →
    PoolOK (idsLoop m acc l).1 ∧ Extends m (idsLoop m acc l).1 ∧
    ∀ c, (idsLoop m acc l).2 = .ok c →
      CfgOK (idsLoop m acc l).1 c ∧ (∀ n ∈ acc, n ∈ c) ∧
      (∀ i ∈ l, ∃ n ∈ c, n.id = i) ∧ (∀ n ∈ c, n ∈ m.nodes ∧ (n ∈ acc ∨ n.id ∈ l)) := by
  induction l with
  | nil =>
    intro acc hn hp
    simp only [idsLoop]
    obtain ⟨h1, h2, h3⟩ := finish_spec hm hn hp
    refine ⟨h1, h2, fun c hc => ?_⟩
    obtain ⟨h4, h5⟩ := h3 c hc
    exact ⟨h4, fun n hn => (h5 n).2 hn, by simp,
      fun n hn => ⟨hp n ((h5 n).1 hn), Or.inl ((h5 n).1 hn)⟩⟩
  | cons i l ih =>
    intro acc hn hp
    simp only [idsLoop]
    cases hl : m.lookup i with
    | none => exact ⟨hm, Extends.refl m, fun c hc => by cases hc⟩
    | some n =>
      obtain ⟨hnm, hnid⟩ := lookup_some hl
      simp only []
      cases hh : hasId acc i with
      | true =>
        simp only [if_true]
        obtain ⟨h1, h2, h3⟩ := ih acc hn hp
        refine ⟨h1, h2, fun c hc => ?_⟩
        obtain ⟨h4, h5, h6, h7⟩ := h3 c hc
        refine ⟨h4, h5, ?_, ?_⟩
        · intro j hj
          rw [List.mem_cons] at hj
          rcases hj with rfl | hj
          · obtain ⟨n', hn', hn'id⟩ := mem_ids.1 (hasId_iff.1 hh)
            exact ⟨n', h5 n' hn', hn'id⟩
          · exact h6 j hj
        · intro n' hn'
          obtain ⟨h8, h9⟩ := h7 n' hn'
          refine ⟨h8, ?_⟩
          rcases h9 with h | h
          · exact Or.inl h
          · exact Or.inr (List.mem_cons_of_mem _ h)
      | false =>
        simp only [Bool.false_eq_true, if_false]
        have hn2 : (ids (acc ++ [n])).Nodup := by
          rw [ids_append, List.nodup_append]
          refine ⟨hn, by simp, ?_⟩
          intro x hx y hy
          simp at hy
          subst hy
          intro hxy; subst hxy
          exact hasId_false_iff.1 hh (hnid ▸ hx)
        have hp2 : ∀ n' ∈ acc ++ [n], n' ∈ m.nodes := by
          intro n' hn'
          rw [List.mem_append, List.mem_singleton] at hn'
          rcases hn' with h | rfl
          · exact hp n' h
          · exact hnm
        obtain ⟨h1, h2, h3⟩ := ih (acc ++ [n]) hn2 hp2
        refine ⟨h1, h2, fun c hc => ?_⟩
        obtain ⟨h4, h5, h6, h7⟩ := h3 c hc
        refine ⟨h4, fun n' hn' => h5 n' (List.mem_append_left _ hn'), ?_, ?_⟩
        · intro j hj
          rw [List.mem_cons] at hj
          rcases hj with rfl | hj
          · exact ⟨n, h5 n (by simp), hnid⟩
          · exact h6 j hj
        · intro n' hn'
          obtain ⟨h8, h9⟩ := h7 n' hn'
          refine ⟨h8, ?_⟩
          rcases h9 with h | h
          · rw [List.mem_append, List.mem_singleton] at h
            rcases h with h | rfl
            · exact Or.inl h
            · exact Or.inr (by simp [hnid])
          · exact Or.inr (List.mem_cons_of_mem _ h)

theorem idsLoop_error_iff (m : Mgr) (l : List Nat) : ∀ (acc : Cfg),
    (∃ e, (idsLoop m acc l).2 = .error e) ↔ ∃ i ∈ l, m.lookup i = none := by
  induction l with
  | nil => intro acc; simp [idsLoop, finish]
  | cons i l ih =>
    intro acc
    simp only [idsLoop]
    cases hl : m.lookup i with
    | none => simp [hl]
    | some n =>
      simp only []
      cases hh : hasId acc i with
      | true => simp [ih acc, hl]
      | false => simp [ih (acc ++ [n]), hl]

theorem nodeIDs_spec (m : Mgr) (h : PoolOK m) (l : List Nat) :
    PoolOK (nodeIDs m l).1 ∧ Extends m (nodeIDs m l).1 ∧
    ∀ c, (nodeIDs m l).2 = .ok c → CfgOK (nodeIDs m l).1 c ∧
      (∀ i ∈ l, ∃ n ∈ c, n.id = i) ∧ (∀ n ∈ c, n ∈ m.nodes ∧ n.id ∈ l) ∧ l ≠ [] := by
  unfold nodeIDs
  cases l with
  | nil => exact ⟨h, Extends.refl m, fun c hc => by cases hc⟩
  | cons i l =>
    simp only [List.isEmpty_cons, Bool.false_eq_true, if_false]
    obtain ⟨h1, h2, h3⟩ := idsLoop_spec m h (i :: l) [] (by simp) (by simp)
    refine ⟨h1, h2, fun c hc => ?_⟩
    obtain ⟨h4, _, h6, h7⟩ := h3 c hc
    refine ⟨h4, h6, fun n hn => ?_, by simp⟩
    obtain ⟨h8, h9⟩ := h7 n hn
    refine ⟨h8, ?_⟩
    rcases h9 with h | h
    · cases h
    · exact h

theorem dedupLoop_spec (ns : List Node) : ∀ (acc : Cfg), (ids acc).Nodup →
    (ids (dedupLoop acc ns)).Nodup ∧ (∀ n ∈ acc, n ∈ dedupLoop acc ns) ∧
    (∀ n ∈ dedupLoop acc ns, n ∈ acc ∨ n ∈ ns) ∧ (∀ n ∈ ns, n.id ∈ ids (dedupLoop acc ns)) := by
  induction ns with
  | nil => intro acc hn; simp [dedupLoop, hn]
  | cons x xs ih =>
    intro acc hn
    simp only [dedupLoop]
    cases hh : hasId acc x.id with
    | true =>
      simp only [if_true]
      obtain ⟨h1, h2, h3, h4⟩ := ih acc hn
      refine ⟨h1, h2, ?_, ?_⟩
      · intro n hn'
        rcases h3 n hn' with h | h
        · exact Or.inl h
        · exact Or.inr (List.mem_cons_of_mem _ h)
      · intro n hn'
        rw [List.mem_cons] at hn'
        rcases hn' with rfl | hn'
        · obtain ⟨n', hn'', hn'id⟩ := mem_ids.1 (hasId_iff.1 hh)
          exact mem_ids.2 ⟨n', h2 n' hn'', hn'id⟩
        · exact h4 n hn'
    | false =>
      simp only [Bool.false_eq_true, if_false]
      have hn2 : (ids (acc ++ [x])).Nodup := by
        rw [ids_append, List.nodup_append]
        refine ⟨hn, by simp, ?_⟩
        intro a ha y hy
        simp at hy
        subst hy
        intro hxy; subst hxy
        exact hasId_false_iff.1 hh ha
      obtain ⟨h1, h2, h3, h4⟩ := ih (acc ++ [x]) hn2
      refine ⟨h1, fun n hn' => h2 n (List.mem_append_left _ hn'), ?_, ?_⟩
      · intro n hn'
        rcases h3 n hn' with h | h
        · rw [List.mem_append, List.mem_singleton] at h
          rcases h with h | rfl
          · exact Or.inl h
          · exact Or.inr (by simp)
        · exact Or.inr (List.mem_cons_of_mem _ h)
      · intro n hn'
        rw [List.mem_cons] at hn'
        rcases hn' with rfl | hn'
        · exact mem_ids.2 ⟨n, h2 n (by simp), rfl⟩
        · exact h4 n hn'

theorem mem_keepIDs (c : Cfg) (rm : List Nat) (i : Nat) :
    i ∈ keepIDs c rm ↔ ∃ n ∈ c, n.id ∉ rm ∧ n.id = i := by
  simp [keepIDs, and_assoc]

/-! ### the constructors preserve the pool invariant and return well-formed configurations -/

theorem nodeList_ok (m : Mgr) (h : PoolOK m) (addrs : List String) :
    PoolOK (nodeList m addrs).1 ∧ Extends m (nodeList m addrs).1 ∧
    ∀ c, (nodeList m addrs).2 = .ok c → CfgOK (nodeList m addrs).1 c ∧ c ≠ [] := by
  unfold nodeList
  cases addrs with
  | nil => exact ⟨h, Extends.refl m, fun c hc => by cases hc⟩
  | cons a as =>
    simp only [List.isEmpty_cons, Bool.false_eq_true, if_false]
    obtain ⟨h1, h2, h3⟩ := nodeListLoop_spec (a :: as) m [] h (by simp) (by simp)
    refine ⟨h1, h2, fun c hc => ?_⟩
    obtain ⟨h4, _, h6, _⟩ := h3 c hc
    refine ⟨h4, ?_⟩
    obtain ⟨n, hn, _⟩ := h6 a (by simp)
    exact List.ne_nil_of_mem hn

theorem nodeMap_ok (m : Mgr) (h : PoolOK m) (es : List (String × Nat)) :
    PoolOK (nodeMap m es).1 ∧ Extends m (nodeMap m es).1 ∧
    ∀ c, (nodeMap m es).2 = .ok c → CfgOK (nodeMap m es).1 c ∧ c ≠ [] := by
  obtain ⟨h1, h2, h3⟩ := nodeMap_spec m h es
  refine ⟨h1, h2, fun c hc => ?_⟩
  obtain ⟨h4, h5, _, h7⟩ := h3 c hc
  refine ⟨h4, ?_⟩
  cases es with
  | nil => exact absurd rfl h7
  | cons e es =>
    obtain ⟨n, hn, _⟩ := h5 e (by simp)
    exact List.ne_nil_of_mem hn

theorem nodeIDs_ok (m : Mgr) (h : PoolOK m) (l : List Nat) :
    PoolOK (nodeIDs m l).1 ∧ Extends m (nodeIDs m l).1 ∧
    ∀ c, (nodeIDs m l).2 = .ok c → CfgOK (nodeIDs m l).1 c ∧ c ≠ [] := by
  obtain ⟨h1, h2, h3⟩ := nodeIDs_spec m h l
  refine ⟨h1, h2, fun c hc => ?_⟩
  obtain ⟨h4, h5, _, h7⟩ := h3 c hc
  refine ⟨h4, ?_⟩
  cases l with
  | nil => exact absurd rfl h7
  | cons i l =>
    obtain ⟨n, hn, _⟩ := h5 i (by simp)
    exact List.ne_nil_of_mem hn

theorem addConfig_ok (m : Mgr) (h : PoolOK m) (a b : Cfg) (ha : CfgOK m a) (hb : CfgOK m b) :
    PoolOK (addConfig m a b).1 ∧ Extends m (addConfig m a b).1 ∧
    ∀ c, (addConfig m a b).2 = .ok c → CfgOK (addConfig m a b).1 c := by
  unfold addConfig
  obtain ⟨d1, _, d3, _⟩ := dedupLoop_spec (a ++ b) [] (by simp)
  have hp : ∀ n ∈ dedupLoop [] (a ++ b), n ∈ m.nodes := by
    intro n hn
    rcases d3 n hn with h | h
    · cases h
    · rw [List.mem_append] at h
      rcases h with h | h
      · exact ha.pooled n h
      · exact hb.pooled n h
  obtain ⟨h1, h2, h3⟩ := finish_spec h d1 hp
  exact ⟨h1, h2, fun c hc => (h3 c hc).1⟩

/-! ### the algebra -/

/-- **And is the union** -/
theorem addConfig_mem (m : Mgr) (h : PoolOK m) (a b : Cfg) (ha : CfgOK m a) (hb : CfgOK m b) (c : Cfg)
    (hc : (addConfig m a b).2 = .ok c) (n : Node) : n ∈ c ↔ n ∈ a ∨ n ∈ b := by
  unfold addConfig at hc
  simp only [finish, Except.ok.injEq] at hc
  subst hc
  rw [mem_sortId]
  obtain ⟨_, _, d3, d4⟩ := dedupLoop_spec (a ++ b) [] (by simp)
  have hpool : ∀ n ∈ a ++ b, n ∈ m.nodes := by
    intro n hn
    rw [List.mem_append] at hn
    rcases hn with h | h
    · exact ha.pooled n h
    · exact hb.pooled n h
  rw [← List.mem_append]
  constructor
  · intro hn
    rcases d3 n hn with h | h
    · cases h
    · exact h
  · intro hn
    obtain ⟨n', hn', hn'id⟩ := mem_ids.1 (d4 n hn)
    have hn'ab : n' ∈ a ++ b := by
      rcases d3 n' hn' with h | h
      · cases h
      · exact h
    have : n' = n := pool_inj h (hpool n' hn'ab) (hpool n hn) hn'id
    exact this ▸ hn'

/-- **WithNodeIDs yields exactly the named registered nodes, or an error** -/
theorem nodeIDs_mem (m : Mgr) (h : PoolOK m) (l : List Nat) (c : Cfg) (hc : (nodeIDs m l).2 = .ok c) (n : Node) :
    n ∈ c ↔ n ∈ m.nodes ∧ n.id ∈ l := by
  obtain ⟨_, _, h3⟩ := nodeIDs_spec m h l
  obtain ⟨_, h5, h6, _⟩ := h3 c hc
  refine ⟨h6 n, fun ⟨hnm, hnl⟩ => ?_⟩
  obtain ⟨n', hn', hn'id⟩ := h5 n.id hnl
  have : n' = n := pool_inj h (h6 n' hn').1 hnm hn'id
  exact this ▸ hn'

theorem nodeIDs_error_iff (m : Mgr) (l : List Nat) :
    (∃ e, (nodeIDs m l).2 = .error e) ↔ l = [] ∨ ∃ i ∈ l, m.lookup i = none := by
  unfold nodeIDs
  cases l with
  | nil => simp
  | cons i l =>
    simp only [List.isEmpty_cons, Bool.false_eq_true, if_false]
    rw [idsLoop_error_iff]
    simp

/-- **Except / WithoutNodes is the difference**; an empty difference is an error -/
theorem withoutNodes_mem (m : Mgr) (h : PoolOK m) (a : Cfg) (ha : CfgOK m a) (rm : List Nat) (c : Cfg)
    (hc : (withoutNodes m a rm).2 = .ok c) (n : Node) : n ∈ c ↔ n ∈ a ∧ n.id ∉ rm := by
  unfold withoutNodes at hc
  rw [nodeIDs_mem m h _ c hc n, mem_keepIDs]
  constructor
  · rintro ⟨hnm, n', hn', hn'rm, hn'id⟩
    have : n' = n := pool_inj h (ha.pooled n' hn') hnm hn'id
    subst this
    exact ⟨hn', hn'rm⟩
  · rintro ⟨hna, hnrm⟩
    exact ⟨ha.pooled n hna, n, hna, hnrm, rfl⟩

set_option linter.unusedVariables false in
theorem withoutNodes_empty (m : Mgr) (h : PoolOK m) (a : Cfg) (ha : CfgOK m a) (rm : List Nat)
    (hall : ∀ n ∈ a, n.id ∈ rm) : (withoutNodes m a rm).2 = .error .empty := by
  have hk : keepIDs a rm = [] := by
    cases hk : keepIDs a rm with
    | nil => rfl
    | cons i l =>
      have : i ∈ keepIDs a rm := by rw [hk]; simp
      obtain ⟨n, hn, hnrm, _⟩ := (mem_keepIDs a rm i).1 this
      exact absurd (hall n hn) hnrm
  unfold withoutNodes nodeIDs
  rw [hk]
  rfl

theorem exceptCfg_mem (m : Mgr) (h : PoolOK m) (a b : Cfg) (ha : CfgOK m a) (c : Cfg)
    (hc : (exceptCfg m a b).2 = .ok c) (n : Node) : n ∈ c ↔ n ∈ a ∧ n.id ∉ ids b :=
  withoutNodes_mem m h a ha (ids b) c hc n

/-! ### distinct addresses are never silently mapped to the same node -/

/-- **node list**: on success there is exactly one node per distinct address, carrying that address -/
theorem nodeList_addrs (m : Mgr) (h : PoolOK m) (addrs : List String) (c : Cfg)
    (hc : (nodeList m addrs).2 = .ok c) :
    (∀ a ∈ addrs, ∃ n ∈ c, n.addr = a ∧ n.id = fnv32a a) ∧ (∀ n ∈ c, n.addr ∈ addrs) := by
  unfold nodeList at hc
  cases addrs with
  | nil => cases hc
  | cons a as =>
    simp only [List.isEmpty_cons, Bool.false_eq_true, if_false] at hc
    obtain ⟨_, _, h3⟩ := nodeListLoop_spec (a :: as) m [] h (by simp) (by simp)
    obtain ⟨_, _, h6, h7⟩ := h3 c hc
    refine ⟨h6, fun n hn => ?_⟩
    rcases h7 n hn with h | h
    · cases h
    · exact h

/-- an address whose generated ID is pooled under another address makes the call fail -/
theorem nodeList_collision_fails (m : Mgr) (a b : String) (hab : a ≠ b) (hcol : fnv32a a = fnv32a b) :
    ∃ e, (nodeList m [a, b]).2 = .error e := by
  unfold nodeList
  simp only [List.isEmpty_cons, Bool.false_eq_true, if_false, nodeListLoop]
  cases hl : m.lookup (fnv32a a) with
  | some n =>
    simp only []
    by_cases hne : n.addr = a
    · have hnb : (n.addr != b) = true := by simpa [hne] using hab
      simp [hne, hasId, ← hcol, hl, hab]
    · have : (n.addr != a) = true := by simpa using hne
      simp only [this, if_true]
      exact ⟨_, rfl⟩
  | none =>
    simp only []
    rw [← hcol, lookup_add_self m _ a hl]
    have : ((m.add (fnv32a a) a).2.addr != b) = true := by simpa [Mgr.add] using hab
    simp only [this, if_true]
    exact ⟨_, rfl⟩

/-- **node map**: on success every (address ↦ id) pair is realised by a node with that id and address -/
theorem nodeMap_bindings (m : Mgr) (h : PoolOK m) (es : List (String × Nat)) (c : Cfg)
    (hc : (nodeMap m es).2 = .ok c) :
    (∀ e ∈ es, ∃ n ∈ c, n.addr = e.1 ∧ n.id = e.2) ∧ (∀ n ∈ c, (n.addr, n.id) ∈ es) := by
  obtain ⟨_, _, h3⟩ := nodeMap_spec m h es
  obtain ⟨_, h5, h6, _⟩ := h3 c hc
  exact ⟨h5, h6⟩

/-- the documented FNV-1a collision is real -/
theorem fnv_collision : fnv32a "10.0.1.16:5319" = fnv32a "10.0.2.47:8124" := by decide

end GorumsV.C14
