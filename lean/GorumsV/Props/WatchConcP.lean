import GorumsV.Model.WatchConc
/-!
  C11, the concurrency of `Watch`: with Watch and set as single steps (what the tree does: one exclusive critical section
  each) no watcher is ever stranded — open although its level has been published or the call is completed — whatever
  the interleaving of Watch calls and publications (also non-monotone ones); with a Watch whose test and registration
  are separate steps a publication between the two strands the watcher, for good if the call completed.
-/
namespace GorumsV.WatchConcP
open GorumsV.WatchConc GorumsV.Correctable

/-- the invariant of the atomic Watch: an open watcher is still waiting -/
def Inv (s : St) : Prop :=
  ∀ w ∈ s.obj.watchers, w.closed = false → ¬ (w.level ≤ s.obj.level) ∧ s.obj.done = false

theorem inv_init : Inv WatchConc.init := by
  intro w hw
  simp [WatchConc.init] at hw

theorem inv_step {s s' : St} {l : Label} (hi : Inv s) (h : step true s l = some s') : Inv s' := by
  cases l with
  | watch l =>
    simp [step] at h
    subst h
    intro w hw ho
    simp only [Obj.watch, List.mem_append, List.mem_singleton] at hw
    rcases hw with hw | hw
    · exact hi w hw ho
    · subst hw
      simp only [Bool.or_eq_false_iff, decide_eq_false_iff_not] at ho
      exact ho
  | test l => simp [step] at h
  | register l => simp [step] at h
  | publish level done =>
    simp only [step, Obj.set] at h
    cases hd : s.obj.done with
    | true => simp [hd] at h
    | false =>
      simp only [hd] at h
      simp at h
      subst h
      intro w hw ho
      simp only [List.mem_map] at hw
      obtain ⟨w0, hw0, he⟩ := hw
      by_cases hc : done = true ∨ w0.level ≤ level
      · rw [if_pos hc] at he
        subst he
        simp at ho
      · rw [if_neg hc] at he
        subst he
        refine ⟨fun hle => hc (Or.inr hle), ?_⟩
        cases done with
        | false => rfl
        | true => exact absurd (Or.inl rfl) hc

theorem inv_exec (ls : List Label) : ∀ {s s' : St}, Inv s → exec true s ls = some s' → Inv s' := by
  induction ls with
  | nil =>
    intro s s' hi h
    simp [exec] at h
    subst h
    exact hi
  | cons l ls ih =>
    intro s s' hi h
    simp only [exec] at h
    cases hs : step true s l with
    | none => simp [hs] at h
    | some s1 =>
      simp [hs] at h
      exact ih (inv_step hi hs) h

theorem inv_reachable {s : St} (h : Reachable true s) : Inv s := by
  obtain ⟨ls, h⟩ := h
  exact inv_exec ls inv_init h

/-- **no stranded watcher, for every interleaving of Watch calls and publications** -/
theorem atomic_never_stranded (s : St) (h : Reachable true s) : stranded s = false := by
  have hi := inv_reachable h
  unfold stranded
  rw [List.any_eq_false]
  intro w hw
  cases hc : w.closed with
  | true => simp
  | false =>
    have := hi w hw hc
    simp [this.1, this.2]

/-- … stated per watcher: an open watcher's level has not been reached and the call is not completed -/
theorem atomic_open_means_waiting (s : St) (h : Reachable true s) (w : Watcher) (hw : w ∈ s.obj.watchers)
    (ho : w.closed = false) : ¬ (w.level ≤ s.obj.level) ∧ s.obj.done = false :=
  inv_reachable h w hw ho

/-- the two-step Watch strands a watcher when a publication falls between its test and its registration -/
theorem twostep_strands :
    ∃ s, exec false init [.test 1, .publish 1 false, .register 1] = some s ∧ stranded s = true :=
  ⟨_, rfl, by decide⟩

/-- … for good when that publication completed the call: nothing can be published any more -/
theorem twostep_strands_for_good :
    ∃ s, exec false init [.test 2, .publish 0 true, .register 2] = some s ∧ stranded s = true ∧
      ∀ level done, step false s (.publish level done) = none :=
  ⟨_, rfl, by decide, fun _ _ => rfl⟩

/-- non-vacuity of the atomic case: watchers at three levels, two publications, the completion -/
example : (exec true init [.watch 1, .watch 2, .publish 1 false, .watch 1, .watch 3, .publish 0 true, .watch 5]).map
    (fun s => (s.obj.watchers.map (·.closed), stranded s)) = some ([true, true, true, true, true], false) := by decide

end GorumsV.WatchConcP
