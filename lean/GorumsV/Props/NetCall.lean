import GorumsV.Props.Net
import GorumsV.Props.C01
import GorumsV.Props.C03
import GorumsV.Lemmas.NetCall
/-!
  The composite system, call level: what the reply loop of a call and the handlers of a node see.

  * `qf_sees_only_genuine` (C01): compose the loop theorem "every entry of every reply set shown to the quorum
    function is a reply arrival of this call" with `NetP.provenance`: every entry (n, v) of every reply set is
    what node n's handler computed from the payload this call addressed to n.
  * `net_start_order` (C03): inside the composite the stream contract that `C03.start_order` assumes is a
    theorem: what node n's server has received on the current connection, followed by what is still in
    transit, is a subsequence of what the client's sender wrote, hence of what callers handed off — also
    across lost writes and dead streams.
  * `handler_payload_is_addressed` (C06): the payload a running handler holds is the payload of *the*
    request with that id addressed to that node.
-/
namespace GorumsV.NetP
open GorumsV GorumsV.Net

/-- an arrival history of call c is genuine in s when each of its reply arrivals (n, v) is a delivery of
    node n's channel to call c (that is where `replyChan` gets its values from: `routeResponse`) -/
def GenuineFor {E : Type} (s : State) (c : Chan.CallId) (as : List (ReplyLoop.Arrival Nat E)) : Prop :=
  ∀ n v, ReplyLoop.Arrival.reply n v ∈ as → ∃ id, (⟨id, c, Chan.Resp.reply v⟩ : Chan.Delivery) ∈ (s.nodes n).chan.deliveries

/-- **C01, end to end**: every entry of every reply set the quorum function is shown is, under node n, the value
    n's handler computed from the payload this very call addressed to n -/
theorem qf_sees_only_genuine {E R : Type} (P : Params) (hP : P.Good) (s : State) (h : Reachable P s)
    (c : Chan.CallId) (as : List (ReplyLoop.Arrival Nat E)) (hg : GenuineFor s c as)
    (LP : ReplyLoop.Params) (qf : ReplyLoop.RepMap Nat → R × Bool) (x : Nat)
    (reps : ReplyLoop.RepMap Nat) (hr : reps ∈ (ReplyLoop.run LP qf x as).2) (n : NodeId) (v : Nat) (hv : (n, v) ∈ reps) :
    ∃ id p, (⟨id, c, n, p⟩ : Issue) ∈ s.issued ∧ P.handler n p = .reply v := by
  obtain ⟨k, _, hlog⟩ := C01.log_is_reply_prefixes LP qf x as
  rw [hlog] at hr
  obtain ⟨pre, hpre, rfl⟩ := List.mem_map.1 hr
  have hext := (List.mem_filter.1 hpre).1
  have hin := C01.replySet_entries_are_replies pre n v hv
  have hk := mem_of_mem_extensions_nil _ _ hext _ hin
  have has : ReplyLoop.Arrival.reply n v ∈ as := List.mem_of_mem_take hk
  obtain ⟨id, hd⟩ := hg n v has
  obtain ⟨p, hp, hh⟩ := provenance P hP s h n _ hd v rfl
  exact ⟨id, p, hp, hh⟩

/-- **C03, end to end**: on every node, handlers started on the current connection followed by the requests
    still in transit form a subsequence of what the sender wrote to the stream -/
theorem net_stream_contract (P : Params) (s : State) (h : Reachable P s) (n : NodeId) :
    (SrvConn.started (s.nodes n).srv ++ (s.nodes n).up.map (·.1)).Sublist (s.nodes n).chan.sent := by
  exact streamInv_reachable P s h n

/-- … hence of what callers handed to the node's queue, without repetition: no request overtakes another -/
theorem net_start_order (P : Params) (s : State) (h : Reachable P s) (n : NodeId) :
    (SrvConn.started (s.nodes n).srv).Sublist (s.nodes n).chan.pushed ∧ (SrvConn.started (s.nodes n).srv).Nodup := by
  have h1 := net_stream_contract P s h n
  obtain ⟨h2, h3⟩ := C05.sent_in_handoff_order _ (chan_reachable P s h n)
  have h4 : (SrvConn.started (s.nodes n).srv).Sublist (s.nodes n).chan.pushed :=
    ((List.sublist_append_left _ _).trans h1).trans h2
  exact ⟨h4, h4.nodup h3⟩

/-- **C06, end to end**: the payload a handler runs with is the payload of the one request with that id that was
    addressed to that node -/
theorem handler_payload_is_addressed (P : Params) (s : State) (h : Reachable P s) (n : NodeId)
    (id : Chan.MsgId) (p : Payload) (hr : (id, p) ∈ (s.nodes n).running)
    (a : Issue) (ha : a ∈ s.issued) (hid : a.id = id) (hn : a.node = n) : a.payload = p := by
  obtain ⟨c, hc⟩ := server_receives_own_payload P s h n id p (Or.inl hr)
  have := issue_unique P s h a _ ha hc hn (Or.inr hid)
  rw [this]

/-- non-vacuity: two calls on two nodes; call 1 gets node 0's answer to its own payload, and the premises of
    `qf_sees_only_genuine` hold of the resulting state for a history with that reply -/
def goodP : Params := { handler := fun n p => .reply (1000 * n + p), replyId := fun i => i }

def demoTrace : List Label :=
  [.newCall 1, .newCall 2, .target 1 0 7 false, .target 1 1 8 false, .target 2 0 9 false,
   .chan 0 (.handoff 1), .chan 1 (.handoff 1), .chan 0 (.handoff 2), .chan 0 .pop, .send 0 false false,
   .chan 0 .pop, .send 0 false false, .srvRecv 0, .srvRelease 0 1, .srvAcquire 0, .srvRecv 0, .srvReply 0 2, .srvReply 0 1,
   .recv 0, .recv 0, .chan 1 .pop, .wireDie 1, .send 1 false true, .chan 1 .streamDown]

theorem demo_deliveries :
    (exec goodP init demoTrace).map (fun s => ((s.nodes 0).chan.deliveries, (s.nodes 1).chan.deliveries)) =
      some ([⟨2, 2, .reply 9⟩, ⟨1, 1, .reply 7⟩], [⟨1, 1, .err 0⟩]) := by
  rfl

theorem goodP_good : goodP.Good := fun _ => rfl

end GorumsV.NetP
