import GorumsV.Lemmas.ReplyLoop
/-!
  C02 — a quorum call ends exactly on quorum, exhaustion (Incomplete) or context end.

  `verdict` is the declarative reading of the property: what a history decides
  when looked at *as a whole* (its last element, the set of replies, the list of
  errors — all computed by folds over the history, not by the loop's state).
  `spec` = the verdict of the shortest prefix that has one, otherwise `waiting` —
  where an Incomplete verdict at the very moment at which the context has ended
  (its end is the next event) is reported as the context's error (`adjust`:
  the exhaustion branch consults the context, `incompleteCause`, errors.go).
  `run_eq_spec` says the loop computes exactly that, for every parameter value;
  the remaining theorems read the spec under the *good* parameter values, which
  the tie lemmas (Tie/C02.lean) establish for the expressions found in the tree.
-/
namespace GorumsV.C02
open GorumsV.ReplyLoop
variable {M E R : Type}

/-- What the history `pre`, taken as a whole, decides (if anything). -/
def verdict (P : Params) (qf : RepMap M → R × Bool) (expected : Nat) (pre : List (Arrival M E)) :
    Option (Outcome R E) :=
  match pre.getLast? with
  | none => if P.preCheck && P.exhausted 0 0 expected then some (.incomplete [] 0) else none
  | some (.ctxDone c) => some (.ctxErr c (errsOf pre) (replySet pre).length)
  | some (.error _ _) =>
      if P.exhausted (errsOf pre).length (replySet pre).length expected
      then some (.incomplete (errsOf pre) (replySet pre).length) else none
  | some (.reply _ _) =>
      if (qf (replySet pre)).2 then some (.ok (qf (replySet pre)).1)
      else if P.exhausted (errsOf pre).length (replySet pre).length expected
      then some (.incomplete (errsOf pre) (replySet pre).length) else none

/-- An Incomplete verdict is reported as the context's error when the context has ended,
    i.e. when its end is the next event (`rest` = the history after the deciding prefix). -/
def adjust (P : Params) (rest : List (Arrival M E)) : Outcome R E → Outcome R E
  | .incomplete errs n => exhaustedOutcome P errs n rest
  | o => o

/-- the verdict of the prefix `p` of the history `as`, as reported -/
def verdictAt (P : Params) (qf : RepMap M → R × Bool) (expected : Nat) (as p : List (Arrival M E)) :
    Option (Outcome R E) :=
  (verdict P qf expected p).map (adjust P (as.drop p.length))

/-- The outcome the property prescribes for a history. -/
def spec (P : Params) (qf : RepMap M → R × Bool) (expected : Nat) (as : List (Arrival M E)) : Outcome R E :=
  ((prefixes as).findSome? (verdictAt P qf expected as)).getD .waiting

/-! ### the loop computes the spec -/

/-- all `pre ++ p` for the non-empty prefixes `p` of the argument, shortest first -/
def extensions {α} (pre : List α) : List α → List (List α)
  | [] => []
  | a :: as => (pre ++ [a]) :: extensions (pre ++ [a]) as

theorem map_prefixes {α} (pre as : List α) : (prefixes as).map (pre ++ ·) = pre :: extensions pre as := by
  induction as generalizing pre with
  | nil => simp [prefixes, extensions]
  | cons a as ih =>
    have := ih (pre ++ [a])
    simp only [prefixes, List.map_cons, List.append_nil, List.map_map, extensions]
    congr 1
    rw [← this]
    apply List.map_congr_left
    intro p _
    simp

theorem prefixes_eq {α} (as : List α) : prefixes as = [] :: extensions [] as := by
  have := map_prefixes [] as
  simpa using this

theorem drop_snoc {α} (pre : List α) (a : α) (as : List α) :
    (pre ++ a :: as).drop (pre ++ [a]).length = as := by
  have h : pre ++ a :: as = (pre ++ [a]) ++ as := by simp
  rw [h, List.drop_left]

theorem loop_eq (P : Params) (qf : RepMap M → R × Bool) (expected : Nat) (pre as : List (Arrival M E)) :
    (loop P qf expected ⟨errsOf pre, replySet pre⟩ as).1
      = ((extensions pre as).findSome? (verdictAt P qf expected (pre ++ as))).getD .waiting := by
  induction as generalizing pre with
  | nil => simp [loop, extensions]
  | cons a as ih =>
    have hlast : (pre ++ [a]).getLast? = some a := by simp
    have hdrop := drop_snoc pre a as
    have happ : (pre ++ [a]) ++ as = pre ++ a :: as := by simp
    cases a with
    | ctxDone c =>
      simp [loop, extensions, verdictAt, verdict, adjust, hlast, replySet, errsOf, addReplies]
    | error n c =>
      have he : errsOf (pre ++ [Arrival.error n c]) = errsOf pre ++ [(n, c)] := by simp [errsOf]
      have hr : replySet (pre ++ [Arrival.error (M := M) n c]) = replySet pre := by simp [replySet, addReplies]
      have ih' := ih (pre ++ [Arrival.error n c])
      rw [he, hr, happ] at ih'
      simp only [loop, extensions, List.findSome?_cons, verdictAt, verdict, hlast, he, hr, hdrop]
      split
      · simp [adjust]
      · simp [ih']
    | reply n m =>
      have he : errsOf (pre ++ [Arrival.reply (E := E) n m]) = errsOf pre := by simp [errsOf]
      have hr : replySet (pre ++ [Arrival.reply (E := E) n m]) = (replySet pre).insert n m := by
        simp [replySet, addReplies]
      have ih' := ih (pre ++ [Arrival.reply n m])
      rw [he, hr, happ] at ih'
      simp only [loop, extensions, List.findSome?_cons, verdictAt, verdict, hlast, he, hr, hdrop]
      cases hq : qf ((replySet pre).insert n m) with
      | mk v q =>
        cases q with
        | true => simp [adjust]
        | false =>
          simp only [Bool.false_eq_true, ↓reduceIte]
          split
          · simp [adjust]
          · simp [ih']

/-- **The loop computes the spec**, for every parameter value, quorum function,
    number of targeted nodes and history. -/
theorem run_eq_spec (P : Params) (qf : RepMap M → R × Bool) (expected : Nat) (as : List (Arrival M E)) :
    (run P qf expected as).1 = spec P qf expected as := by
  unfold run spec
  rw [prefixes_eq]
  simp only [List.findSome?_cons]
  have h0 : verdictAt P qf expected as ([] : List (Arrival M E)) =
      if (P.preCheck && P.exhausted 0 0 expected) = true then some (exhaustedOutcome P [] 0 as) else none := by
    simp only [verdictAt, verdict, List.getLast?_nil, List.length_nil, List.drop_zero]
    split <;> simp [adjust]
  rw [h0]
  split
  · simp
  · have := loop_eq P qf expected [] as
    simpa [errsOf, replySet, addReplies] using this

/-! ### reading the spec under the good parameters -/

/-- number of nodes that have answered (reply or error) in a history -/
def answered (pre : List (Arrival M E)) : Nat := (errsOf pre).length + (replySet pre).length

/-- Under the good parameters a history has *no* verdict exactly when: its last
    element is not a context end, not a reply on which QF reports a quorum, and
    the number of answers differs from the number of targeted nodes. -/
theorem verdict_none_iff (P : Params) (hP : P.Good) (qf : RepMap M → R × Bool) (expected : Nat)
    (pre : List (Arrival M E)) :
    verdict P qf expected pre = none ↔
      (∀ c, pre.getLast? ≠ some (.ctxDone c)) ∧
      (∀ n m, pre.getLast? = some (.reply n m) → (qf (replySet pre)).2 = false) ∧
      answered pre ≠ expected := by
  obtain ⟨hex, hpre, _⟩ := hP
  unfold verdict answered
  cases hl : pre.getLast? with
  | none =>
    have : pre = [] := by simpa using hl
    subst this
    simp [hex, hpre, errsOf, replySet, addReplies]
  | some a =>
    cases a with
    | ctxDone c => simp
    | error n c => simp [hex]
    | reply n m =>
      simp only [hex]
      cases (qf (replySet pre)).2 <;> simp

/-- A verdict is never `waiting`. -/
theorem verdict_ne_waiting (P : Params) (qf : RepMap M → R × Bool) (expected : Nat) (p : List (Arrival M E)) :
    verdict P qf expected p ≠ some .waiting := by
  unfold verdict
  split
  · split <;> simp
  · simp
  · split <;> simp
  · split
    · simp
    · split <;> simp

/-! helper facts about `adjust`, `verdictAt` and the first prefix with a verdict -/

theorem adjust_eq_waiting {P : Params} {rest : List (Arrival M E)} {o : Outcome R E}
    (h : adjust P rest o = .waiting) : o = .waiting := by
  cases o with
  | incomplete errs n => exact absurd h (exhaustedOutcome_ne_waiting P errs n rest)
  | ok v => simp [adjust] at h
  | ctxErr c errs n => simp [adjust] at h
  | waiting => rfl

theorem adjust_eq_incomplete {P : Params} {rest : List (Arrival M E)} {o : Outcome R E}
    {errs : List (NodeId × E)} {n : Nat}
    (h : adjust P rest o = .incomplete errs n) : o = .incomplete errs n := by
  cases o with
  | incomplete errs' n' =>
    obtain ⟨rfl, rfl⟩ := exhaustedOutcome_eq_incomplete (R := R) h
    rfl
  | ok v => simp [adjust] at h
  | ctxErr c errs n => simp [adjust] at h
  | waiting => simp [adjust] at h

theorem verdictAt_eq_none_iff (P : Params) (qf : RepMap M → R × Bool) (expected : Nat) (as p : List (Arrival M E)) :
    verdictAt P qf expected as p = none ↔ verdict P qf expected p = none := by
  simp [verdictAt]

theorem verdictAt_ne_waiting (P : Params) (qf : RepMap M → R × Bool) (expected : Nat) (as p : List (Arrival M E)) :
    verdictAt P qf expected as p ≠ some .waiting := by
  intro h
  unfold verdictAt at h
  cases hv : verdict P qf expected p with
  | none => simp [hv] at h
  | some o =>
    simp only [hv, Option.map_some, Option.some.injEq] at h
    have := adjust_eq_waiting h
    subst this
    exact verdict_ne_waiting P qf expected p hv

/-- the first prefix on which `f` answers decides `findSome?` over all prefixes -/
theorem findSome_prefixes_first {α β} (f : List α → Option β) (pre post : List α) (o : β)
    (h : ∀ p ∈ prefixes pre, p ≠ pre → f p = none) (hv : f pre = some o) :
    (prefixes (pre ++ post)).findSome? f = some o := by
  induction pre generalizing f with
  | nil =>
    rw [List.nil_append, prefixes_eq, List.findSome?_cons, hv]
  | cons a pre ih =>
    rw [List.cons_append, prefixes_cons, List.findSome?_cons, h [] (by simp [prefixes_cons]) (by simp),
      List.findSome?_map]
    apply ih (f ∘ (a :: ·))
    · intro p hp hne
      exact h (a :: p) (by simp [prefixes_cons, hp]) (by simpa using hne)
    · exact hv

/-- a prefix of `pre ++ [a]` other than the whole is a prefix of `pre` -/
theorem mem_prefixes_concat {α} {p pre : List α} {a : α} (h : p ∈ prefixes (pre ++ [a])) (hne : p ≠ pre ++ [a]) :
    p ∈ prefixes pre := by
  obtain ⟨s, hs⟩ := mem_prefixes.mp h
  rcases List.eq_nil_or_concat s with rfl | ⟨s', b, rfl⟩
  · simp at hs; exact absurd hs.symm hne
  · rw [List.concat_eq_append, ← List.append_assoc] at hs
    have := List.append_inj' hs (by simp)
    exact mem_prefixes.mpr ⟨s', this.1⟩

/-- an outcome other than `waiting` is the (reported) verdict of a prefix of the history -/
theorem spec_verdict {P : Params} {qf : RepMap M → R × Bool} {expected : Nat} {as : List (Arrival M E)}
    {o : Outcome R E} (h : spec P qf expected as = o) (ho : o ≠ .waiting) :
    ∃ p ∈ prefixes as, ∃ o', verdict P qf expected p = some o' ∧ adjust P (as.drop p.length) o' = o := by
  unfold spec at h
  cases hf : (prefixes as).findSome? (verdictAt P qf expected as) with
  | none => rw [hf] at h; exact absurd h.symm ho
  | some o1 =>
    rw [hf] at h
    simp only [Option.getD_some] at h
    subst h
    obtain ⟨q, hq, hv⟩ := List.exists_of_findSome?_eq_some hf
    unfold verdictAt at hv
    cases hv' : verdict P qf expected q with
    | none => simp [hv'] at hv
    | some o' => exact ⟨q, hq, o', hv', by simpa [hv'] using hv⟩

/-- an Incomplete outcome is the Incomplete verdict of a prefix of the history -/
theorem run_incomplete_verdict {P : Params} {qf : RepMap M → R × Bool} {expected : Nat}
    {as : List (Arrival M E)} {errs : List (NodeId × E)} {n : Nat}
    (h : (run P qf expected as).1 = .incomplete errs n) :
    ∃ p ∈ prefixes as, verdict P qf expected p = some (.incomplete errs n) := by
  rw [run_eq_spec] at h
  obtain ⟨p, hp, o', hv, ha⟩ := spec_verdict h (by simp)
  exact ⟨p, hp, by rw [hv, adjust_eq_incomplete ha]⟩

/-- **Never keeps waiting**: the call is still waiting after a history only if no
    prefix of it (the empty one included: also when nothing is targeted) contains
    a reason to stop. -/
theorem waiting_iff (P : Params) (qf : RepMap M → R × Bool) (expected : Nat) (as : List (Arrival M E)) :
    (run P qf expected as).1 = .waiting ↔
      ∀ p ∈ prefixes as, verdict P qf expected p = none ∨ verdict P qf expected p = some .waiting := by
  rw [run_eq_spec]
  unfold spec
  constructor
  · intro h p hp
    cases hv : verdict P qf expected p with
    | none => left; rfl
    | some o =>
      right
      -- the first prefix with a verdict decides; all verdicts before it are none
      exfalso
      cases hf : (prefixes as).findSome? (verdictAt P qf expected as) with
      | none =>
        have := List.findSome?_eq_none_iff.mp hf p hp
        rw [verdictAt_eq_none_iff] at this
        simp [hv] at this
      | some o' =>
        rw [hf] at h
        simp at h
        subst h
        -- a verdict is never `waiting`
        obtain ⟨q, _, hq⟩ := List.exists_of_findSome?_eq_some hf
        exact verdictAt_ne_waiting P qf expected as q hq
  · intro h
    cases hf : (prefixes as).findSome? (verdictAt P qf expected as) with
    | none => rfl
    | some o =>
      exfalso
      obtain ⟨q, hq, hv⟩ := List.exists_of_findSome?_eq_some hf
      cases h q hq with
      | inl h => rw [(verdictAt_eq_none_iff P qf expected as q).mpr h] at hv; simp at hv
      | inr h => exact verdict_ne_waiting P qf expected q h

/-- **Incomplete accounting**: under the good parameters an Incomplete outcome
    reports numbers of errors and replies that add up to the number of targeted
    nodes. -/
theorem incomplete_accounting (P : Params) (hP : P.Good) (qf : RepMap M → R × Bool) (expected : Nat)
    (as : List (Arrival M E)) (errs : List (NodeId × E)) (n : Nat)
    (h : (run P qf expected as).1 = .incomplete errs n) : errs.length + n = expected := by
  obtain ⟨q, _, hq⟩ := run_incomplete_verdict h
  obtain ⟨hex, hpre, _⟩ := hP
  unfold verdict at hq
  simp only [hex, hpre] at hq
  split at hq
  · split at hq
    · simp at hq; obtain ⟨rfl, rfl⟩ := hq; simp_all
    · simp at hq
  · simp at hq
  · split at hq
    · simp at hq; obtain ⟨rfl, rfl⟩ := hq; simp_all
    · simp at hq
  · split at hq
    · simp at hq
    · split at hq
      · simp at hq; obtain ⟨rfl, rfl⟩ := hq; simp_all
      · simp at hq

/-- **Zero targeted nodes**: under the good parameters a call that targets no
    node ends at once, whatever arrives: Incomplete — or the context's error if the
    context has already ended. -/
theorem zero_targets (P : Params) (hP : P.Good) (qf : RepMap M → R × Bool) (as : List (Arrival M E)) :
    (run P qf 0 as).1 = (match as with | .ctxDone c :: _ => .ctxErr c [] 0 | _ => .incomplete [] 0) := by
  have h2 : (run P qf 0 as).1 = exhaustedOutcome P [] 0 as := by
    obtain ⟨hex, hpre, _⟩ := hP
    simp [run, hpre, hex]
  exact h2.trans (exhaustedOutcome_good hP [] 0 as)

/-- … in particular it never waits. -/
theorem zero_targets_not_waiting (P : Params) (hP : P.Good) (qf : RepMap M → R × Bool) (as : List (Arrival M E)) :
    (run P qf 0 as).1 ≠ .waiting := by
  rw [zero_targets P hP]
  split <;> simp

/-- Why the pre-check matters: without it a call that targets nothing waits
    (until its context ends).  This is the defect of the pinned tree (D1). -/
theorem zero_targets_needs_precheck (P : Params) (hpre : P.preCheck = false) (qf : RepMap M → R × Bool) :
    (run P qf 0 ([] : List (Arrival M E))).1 = .waiting := by
  simp [run, hpre, loop]

/-- **Context end**: if the context ends right after a history that had no
    verdict, the outcome is the context's error with the counts so far. -/
theorem ctx_outcome (P : Params) (qf : RepMap M → R × Bool) (expected : Nat)
    (pre post : List (Arrival M E)) (c : E)
    (hpre : ∀ p ∈ prefixes pre, verdict P qf expected p = none) :
    (run P qf expected (pre ++ .ctxDone c :: post)).1 = .ctxErr c (errsOf pre) (replySet pre).length := by
  rw [run_eq_spec]
  unfold spec
  have happ : pre ++ .ctxDone c :: post = (pre ++ [.ctxDone c]) ++ post := by simp
  have key := findSome_prefixes_first (verdictAt P qf expected (pre ++ [Arrival.ctxDone c] ++ post))
    (pre ++ [Arrival.ctxDone c]) post (Outcome.ctxErr c (errsOf pre) (replySet pre).length)
    (fun p hp hne => (verdictAt_eq_none_iff P qf expected _ p).mpr (hpre p (mem_prefixes_concat hp hne)))
    (by simp [verdictAt, verdict, adjust, errsOf, replySet, addReplies])
  rw [happ, key]
  rfl

/-- **Exhaustion**: if a history `pre` is the first to have a verdict and that verdict is
    Incomplete, the outcome is Incomplete with those lists — unless the context has ended by
    then (its end is the next event), in which case, under the good parameters, the outcome is
    the context's error with the same lists ("the context's error when the context ends first"). -/
theorem exhaustion_outcome (P : Params) (hP : P.Good) (qf : RepMap M → R × Bool) (expected : Nat)
    (pre post : List (Arrival M E)) (errs : List (NodeId × E)) (n : Nat)
    (hpre : ∀ p ∈ prefixes pre, p ≠ pre → verdict P qf expected p = none)
    (hv : verdict P qf expected pre = some (.incomplete errs n)) :
    (run P qf expected (pre ++ post)).1 =
      (match post with | .ctxDone c :: _ => .ctxErr c errs n | _ => .incomplete errs n) := by
  refine Eq.trans ?_ (exhaustedOutcome_good hP errs n post)
  rw [run_eq_spec]
  unfold spec
  rw [findSome_prefixes_first _ pre post (exhaustedOutcome P errs n post)]
  · rfl
  · intro p hp hne
    rw [verdictAt_eq_none_iff]
    exact hpre p hp hne
  · simp [verdictAt, hv, adjust]

/-- Why the parameter matters: a loop whose exhaustion branch does not consult the context
    reports Incomplete although the context had ended (the defect repaired by the C08 "fix:"
    commit `incompleteCause`). -/
theorem exhaustion_needs_ctxCause (P : Params) (hc : P.ctxCause = false) (hpre : P.preCheck = true)
    (hex : ∀ e r x, P.exhausted e r x = decide (e + r = x)) (qf : RepMap M → R × Bool) (c : E) :
    (run P qf 0 ([.ctxDone c] : List (Arrival M E))).1 = .incomplete [] 0 := by
  simp [run, hpre, hex, exhaustedOutcome, hc]

/-- **Success**: a reply on which QF reports a quorum, after a history without
    verdict, yields exactly QF's value. -/
theorem ok_outcome (P : Params) (qf : RepMap M → R × Bool) (expected : Nat)
    (pre post : List (Arrival M E)) (n : NodeId) (m : M)
    (hpre : ∀ p ∈ prefixes pre, verdict P qf expected p = none)
    (hq : (qf (replySet (pre ++ [.reply n m]))).2 = true) :
    (run P qf expected (pre ++ .reply n m :: post)).1 = .ok (qf (replySet (pre ++ [.reply n m]))).1 := by
  rw [run_eq_spec]
  unfold spec
  have happ : pre ++ .reply n m :: post = (pre ++ [.reply n m]) ++ post := by simp
  have key := findSome_prefixes_first (verdictAt P qf expected (pre ++ [Arrival.reply n m] ++ post))
    (pre ++ [Arrival.reply n m]) post (Outcome.ok (qf (replySet (pre ++ [Arrival.reply n m]))).1)
    (fun p hp hne => (verdictAt_eq_none_iff P qf expected _ p).mpr (hpre p (mem_prefixes_concat hp hne)))
    (by simp [verdictAt, verdict, adjust, hq])
  rw [happ, key]
  rfl

/-! ### futures (async.go) -/

/-- the future completes under the same rule as the synchronous call -/
theorem async_same_as_sync (P : Params) (qf : RepMap M → R × Bool) (expected : Nat) (as : List (Arrival M E)) :
    (runAsync P qf expected as).1.result =
      (match (run P qf expected as).1 with | .waiting => none | o => some o) := by
  unfold runAsync
  split <;> simp_all

theorem async_done_iff (P : Params) (qf : RepMap M → R × Bool) (expected : Nat) (as : List (Arrival M E)) :
    (runAsync P qf expected as).1.done = true ↔ (run P qf expected as).1 ≠ .waiting := by
  unfold Async.done
  rw [async_same_as_sync]
  split <;> simp_all

/-- `Get` yields the same outcome on every invocation -/
theorem async_get_stable (f : Async R E) : (f.get.2).get.1 = f.get.1 ∧ f.get.2 = f := by
  simp [Async.get]

/-! ### non-vacuity: concrete histories exercising every outcome -/

def P₁ : Params := { exhausted := fun e r x => decide (e + r = x), preCheck := true, ctxCause := true }
theorem P₁_good : P₁.Good := ⟨fun _ _ _ => rfl, rfl, rfl⟩
/-- threshold-2 quorum function returning the number of replies -/
def qf2 : RepMap Nat → Nat × Bool := fun r => (r.length, decide (2 ≤ r.length))

example : (run P₁ qf2 3 [.reply 1 10, .error 2 "x", .reply 3 30] : Outcome Nat String × _).1 = .ok 2 := by decide
example : (run P₁ qf2 3 [.reply 1 10, .error 2 "x", .error 3 "y"] : Outcome Nat String × _).1
    = .incomplete [(2, "x"), (3, "y")] 1 := by decide
example : (run P₁ qf2 3 [.reply 1 10, .ctxDone "canceled", .reply 3 30] : Outcome Nat String × _).1
    = .ctxErr "canceled" [] 1 := by decide
example : (run P₁ qf2 3 [.reply 1 10] : Outcome Nat String × _).1 = .waiting := by decide
example : (run P₁ qf2 0 [] : Outcome Nat String × _).1 = .incomplete [] 0 := by decide
example : (run P₁ qf2 0 [.ctxDone "canceled"] : Outcome Nat String × _).1 = .ctxErr "canceled" [] 0 := by decide
example : (run P₁ qf2 2 [.error 1 "x", .error 2 "y", .ctxDone "canceled"] : Outcome Nat String × _).1
    = .ctxErr "canceled" [(1, "x"), (2, "y")] 0 := by decide
example : (run P₁ qf2 2 [.error 1 "x", .error 2 "y", .reply 3 1, .ctxDone "canceled"] : Outcome Nat String × _).1
    = .incomplete [(1, "x"), (2, "y")] 0 := by decide

end GorumsV.C02
