import GorumsV.Lemmas.ReplyLoop
/-!
  C02 — a quorum call ends exactly on quorum, exhaustion (Incomplete) or context end.

  `verdict` is the declarative reading of the property: what a history decides
  when looked at *as a whole* (its last element, the set of replies, the list of
  errors — all computed by folds over the history, not by the loop's state).
  `spec` = the verdict of the shortest prefix that has one, otherwise `waiting`.
  `run_eq_spec` says the loop computes exactly that, for every parameter value;
  the remaining theorems read the spec under the *good* parameter values, which
  the tie lemmas (Tie/C02.lean) establish for the expressions found in the tree.
-/
namespace GorumsV.C02
open GorumsV.ReplyLoop
variable {M E R : Type}

/-- What the history `pre`, taken as a whole, decides (if anything). -/
def verdict (P : Params) (qf : RepMap M → R × Bool) (expected : Nat) (pre : List (Arrival M E)) :
    Option (Outcome R E) :=
  match pre.getLast? with
  | none => if P.preCheck && P.exhausted 0 0 expected then some (.incomplete [] 0) else none
  | some (.ctxDone c) => some (.ctxErr c (errsOf pre) (replySet pre).length)
  | some (.error _ _) =>
      if P.exhausted (errsOf pre).length (replySet pre).length expected
      then some (.incomplete (errsOf pre) (replySet pre).length) else none
  | some (.reply _ _) =>
      if (qf (replySet pre)).2 then some (.ok (qf (replySet pre)).1)
      else if P.exhausted (errsOf pre).length (replySet pre).length expected
      then some (.incomplete (errsOf pre) (replySet pre).length) else none

/-- The outcome the property prescribes for a history. -/
def spec (P : Params) (qf : RepMap M → R × Bool) (expected : Nat) (as : List (Arrival M E)) : Outcome R E :=
  ((prefixes as).findSome? (verdict P qf expected)).getD .waiting

/-! ### the loop computes the spec -/

/-- all `pre ++ p` for the non-empty prefixes `p` of the argument, shortest first -/
def extensions {α} (pre : List α) : List α → List (List α)
  | [] => []
  | a :: as => (pre ++ [a]) :: extensions (pre ++ [a]) as

theorem map_prefixes {α} (pre as : List α) : (prefixes as).map (pre ++ ·) = pre :: extensions pre as := by
  induction as generalizing pre with
  | nil => simp [prefixes, extensions]
  | cons a as ih =>
    have := ih (pre ++ [a])
    simp only [prefixes, List.map_cons, List.append_nil, List.map_map, extensions]
    congr 1
    rw [← this]
    apply List.map_congr_left
    intro p _
    simp

theorem prefixes_eq {α} (as : List α) : prefixes as = [] :: extensions [] as := by
  have := map_prefixes [] as
  simpa using this

theorem loop_eq (P : Params) (qf : RepMap M → R × Bool) (expected : Nat) (pre as : List (Arrival M E)) :
    (loop P qf expected ⟨errsOf pre, replySet pre⟩ as).1
      = ((extensions pre as).findSome? (verdict P qf expected)).getD .waiting := by
  induction as generalizing pre with
  | nil => simp [loop, extensions]
  | cons a as ih =>
    have hlast : (pre ++ [a]).getLast? = some a := by simp
    cases a with
    | ctxDone c =>
      simp [loop, extensions, verdict, hlast, replySet, errsOf, addReplies]
    | error n c =>
      have he : errsOf (pre ++ [Arrival.error n c]) = errsOf pre ++ [(n, c)] := by simp [errsOf]
      have hr : replySet (pre ++ [Arrival.error (M := M) n c]) = replySet pre := by simp [replySet, addReplies]
      have ih' := ih (pre ++ [Arrival.error n c])
      rw [he, hr] at ih'
      simp only [loop, extensions, List.findSome?_cons, verdict, hlast, he, hr]
      split
      · simp
      · simp [ih']
    | reply n m =>
      have he : errsOf (pre ++ [Arrival.reply (E := E) n m]) = errsOf pre := by simp [errsOf]
      have hr : replySet (pre ++ [Arrival.reply (E := E) n m]) = (replySet pre).insert n m := by
        simp [replySet, addReplies]
      have ih' := ih (pre ++ [Arrival.reply n m])
      rw [he, hr] at ih'
      simp only [loop, extensions, List.findSome?_cons, verdict, hlast, he, hr]
      cases hq : qf ((replySet pre).insert n m) with
      | mk v q =>
        cases q with
        | true => simp
        | false =>
          simp only [Bool.false_eq_true, ↓reduceIte]
          split
          · simp
          · simp [ih']

/-- **The loop computes the spec**, for every parameter value, quorum function,
    number of targeted nodes and history. -/
theorem run_eq_spec (P : Params) (qf : RepMap M → R × Bool) (expected : Nat) (as : List (Arrival M E)) :
    (run P qf expected as).1 = spec P qf expected as := by
  unfold run spec
  rw [prefixes_eq]
  simp only [List.findSome?_cons]
  have h0 : verdict P qf expected ([] : List (Arrival M E)) =
      if (P.preCheck && P.exhausted 0 0 expected) = true then some (.incomplete [] 0) else none := by
    simp [verdict]
  rw [h0]
  split
  · simp
  · have := loop_eq P qf expected [] as
    simpa [errsOf, replySet, addReplies] using this

/-! ### reading the spec under the good parameters -/

/-- number of nodes that have answered (reply or error) in a history -/
def answered (pre : List (Arrival M E)) : Nat := (errsOf pre).length + (replySet pre).length

/-- Under the good parameters a history has *no* verdict exactly when: its last
    element is not a context end, not a reply on which QF reports a quorum, and
    the number of answers differs from the number of targeted nodes. -/
theorem verdict_none_iff (P : Params) (hP : P.Good) (qf : RepMap M → R × Bool) (expected : Nat)
    (pre : List (Arrival M E)) :
    verdict P qf expected pre = none ↔
      (∀ c, pre.getLast? ≠ some (.ctxDone c)) ∧
      (∀ n m, pre.getLast? = some (.reply n m) → (qf (replySet pre)).2 = false) ∧
      answered pre ≠ expected := by
  obtain ⟨hex, hpre⟩ := hP
  unfold verdict answered
  cases hl : pre.getLast? with
  | none =>
    have : pre = [] := by simpa using hl
    subst this
    simp [hex, hpre, errsOf, replySet, addReplies]
  | some a =>
    cases a with
    | ctxDone c => simp
    | error n c => simp [hex]
    | reply n m =>
      simp only [hex]
      cases (qf (replySet pre)).2 <;> simp

/-- A verdict is never `waiting`. -/
theorem verdict_ne_waiting (P : Params) (qf : RepMap M → R × Bool) (expected : Nat) (p : List (Arrival M E)) :
    verdict P qf expected p ≠ some .waiting := by
  unfold verdict
  split
  · split <;> simp
  · simp
  · split <;> simp
  · split
    · simp
    · split <;> simp

/-- **Never keeps waiting**: the call is still waiting after a history only if no
    prefix of it (the empty one included: also when nothing is targeted) contains
    a reason to stop. -/
theorem waiting_iff (P : Params) (qf : RepMap M → R × Bool) (expected : Nat) (as : List (Arrival M E)) :
    (run P qf expected as).1 = .waiting ↔
      ∀ p ∈ prefixes as, verdict P qf expected p = none ∨ verdict P qf expected p = some .waiting := by
  rw [run_eq_spec]
  unfold spec
  constructor
  · intro h p hp
    cases hv : verdict P qf expected p with
    | none => left; rfl
    | some o =>
      right
      -- the first prefix with a verdict decides; all verdicts before it are none
      cases hf : (prefixes as).findSome? (verdict P qf expected) with
      | none =>
        have := List.findSome?_eq_none_iff.mp hf p hp
        simp [hv] at this
      | some o' =>
        rw [hf] at h
        simp at h
        subst h
        -- a verdict is never `waiting`
        exfalso
        obtain ⟨q, _, hq⟩ := List.exists_of_findSome?_eq_some hf
        exact verdict_ne_waiting P qf expected q hq
  · intro h
    cases hf : (prefixes as).findSome? (verdict P qf expected) with
    | none => rfl
    | some o =>
      obtain ⟨q, hq, hv⟩ := List.exists_of_findSome?_eq_some hf
      cases h q hq with
      | inl h => simp [h] at hv
      | inr h => simp [h] at hv; simp [← hv]

/-- **Incomplete accounting**: under the good parameters an Incomplete outcome
    reports numbers of errors and replies that add up to the number of targeted
    nodes. -/
theorem incomplete_accounting (P : Params) (hP : P.Good) (qf : RepMap M → R × Bool) (expected : Nat)
    (as : List (Arrival M E)) (errs : List (NodeId × E)) (n : Nat)
    (h : (run P qf expected as).1 = .incomplete errs n) : errs.length + n = expected := by
  rw [run_eq_spec] at h
  unfold spec at h
  cases hf : (prefixes as).findSome? (verdict P qf expected) with
  | none => simp [hf] at h
  | some o =>
    simp [hf] at h
    subst h
    obtain ⟨q, _, hq⟩ := List.exists_of_findSome?_eq_some hf
    obtain ⟨hex, hpre⟩ := hP
    unfold verdict at hq
    simp only [hex, hpre] at hq
    split at hq
    · split at hq
      · simp at hq; obtain ⟨rfl, rfl⟩ := hq; simp_all
      · simp at hq
    · simp at hq
    · split at hq
      · simp at hq; obtain ⟨rfl, rfl⟩ := hq; simp_all
      · simp at hq
    · split at hq
      · simp at hq
      · split at hq
        · simp at hq; obtain ⟨rfl, rfl⟩ := hq; simp_all
        · simp at hq

/-- **Zero targeted nodes**: under the good parameters a call that targets no
    node is Incomplete at once, whatever arrives. -/
theorem zero_targets (P : Params) (hP : P.Good) (qf : RepMap M → R × Bool) (as : List (Arrival M E)) :
    (run P qf 0 as).1 = .incomplete [] 0 := by
  obtain ⟨hex, hpre⟩ := hP
  simp [run, hex, hpre]

/-- Why the pre-check matters: without it a call that targets nothing waits
    (until its context ends).  This is the defect of the pinned tree (D1). -/
theorem zero_targets_needs_precheck (P : Params) (hpre : P.preCheck = false) (qf : RepMap M → R × Bool) :
    (run P qf 0 ([] : List (Arrival M E))).1 = .waiting := by
  simp [run, hpre, loop]

/-- **Context end**: if the context ends right after a history that had no
    verdict, the outcome is the context's error with the counts so far. -/
theorem ctx_outcome (P : Params) (qf : RepMap M → R × Bool) (expected : Nat)
    (pre post : List (Arrival M E)) (c : E)
    (hpre : ∀ p ∈ prefixes pre, verdict P qf expected p = none) :
    (run P qf expected (pre ++ .ctxDone c :: post)).1 = .ctxErr c (errsOf pre) (replySet pre).length := by
  rw [run_eq_spec]
  unfold spec
  have key : ∀ (pre₀ pre post : List (Arrival M E)),
      (∀ p ∈ extensions pre₀ pre, verdict P qf expected p = none) →
      (extensions pre₀ (pre ++ .ctxDone c :: post)).findSome? (verdict P qf expected)
        = some (.ctxErr c (errsOf (pre₀ ++ pre)) (replySet (pre₀ ++ pre)).length) := by
    intro pre₀ pre
    induction pre generalizing pre₀ with
    | nil =>
      intro post _
      simp [extensions, verdict, errsOf, replySet, addReplies]
    | cons a pre ih =>
      intro post h
      simp only [List.cons_append, extensions, List.findSome?_cons]
      have h1 := h (pre₀ ++ [a]) (by simp [extensions])
      rw [h1]
      have := ih (pre₀ ++ [a]) post (fun p hp => h p (by simp [extensions, hp]))
      simpa using this
  rw [prefixes_eq] at hpre ⊢
  simp only [List.findSome?_cons]
  rw [hpre [] (by simp)]
  have := key [] pre post (fun p hp => hpre p (by simp [hp]))
  simp [this]

/-- **Success**: a reply on which QF reports a quorum, after a history without
    verdict, yields exactly QF's value. -/
theorem ok_outcome (P : Params) (qf : RepMap M → R × Bool) (expected : Nat)
    (pre post : List (Arrival M E)) (n : NodeId) (m : M)
    (hpre : ∀ p ∈ prefixes pre, verdict P qf expected p = none)
    (hq : (qf (replySet (pre ++ [.reply n m]))).2 = true) :
    (run P qf expected (pre ++ .reply n m :: post)).1 = .ok (qf (replySet (pre ++ [.reply n m]))).1 := by
  rw [run_eq_spec]
  unfold spec
  have key : ∀ (pre₀ pre : List (Arrival M E)),
      (∀ p ∈ extensions pre₀ pre, verdict P qf expected p = none) →
      (qf (replySet (pre₀ ++ pre ++ [.reply n m]))).2 = true →
      (extensions pre₀ (pre ++ .reply n m :: post)).findSome? (verdict P qf expected)
        = some (.ok (qf (replySet (pre₀ ++ pre ++ [.reply n m]))).1) := by
    intro pre₀ pre
    induction pre generalizing pre₀ with
    | nil =>
      intro _ hq
      simp at hq
      simp [extensions, verdict, hq]
    | cons a pre ih =>
      intro h hq
      simp only [List.cons_append, extensions, List.findSome?_cons]
      have h1 := h (pre₀ ++ [a]) (by simp [extensions])
      rw [h1]
      have := ih (pre₀ ++ [a]) (fun p hp => h p (by simp [extensions, hp])) (by simpa using hq)
      simpa using this
  rw [prefixes_eq] at hpre ⊢
  simp only [List.findSome?_cons]
  rw [hpre [] (by simp)]
  have := key [] pre (fun p hp => hpre p (by simp [hp])) (by simpa using hq)
  simp at this
  simp [this]

/-! ### futures (async.go) -/

/-- the future completes under the same rule as the synchronous call -/
theorem async_same_as_sync (P : Params) (qf : RepMap M → R × Bool) (expected : Nat) (as : List (Arrival M E)) :
    (runAsync P qf expected as).1.result =
      (match (run P qf expected as).1 with | .waiting => none | o => some o) := by
  unfold runAsync
  split <;> simp_all

theorem async_done_iff (P : Params) (qf : RepMap M → R × Bool) (expected : Nat) (as : List (Arrival M E)) :
    (runAsync P qf expected as).1.done = true ↔ (run P qf expected as).1 ≠ .waiting := by
  unfold Async.done
  rw [async_same_as_sync]
  split <;> simp_all

/-- `Get` yields the same outcome on every invocation -/
theorem async_get_stable (f : Async R E) : (f.get.2).get.1 = f.get.1 ∧ f.get.2 = f := by
  simp [Async.get]

/-! ### non-vacuity: concrete histories exercising every outcome -/

def P₁ : Params := { exhausted := fun e r x => decide (e + r = x), preCheck := true }
theorem P₁_good : P₁.Good := ⟨fun _ _ _ => rfl, rfl⟩
/-- threshold-2 quorum function returning the number of replies -/
def qf2 : RepMap Nat → Nat × Bool := fun r => (r.length, decide (2 ≤ r.length))

example : (run P₁ qf2 3 [.reply 1 10, .error 2 "x", .reply 3 30] : Outcome Nat String × _).1 = .ok 2 := by decide
example : (run P₁ qf2 3 [.reply 1 10, .error 2 "x", .error 3 "y"] : Outcome Nat String × _).1
    = .incomplete [(2, "x"), (3, "y")] 1 := by decide
example : (run P₁ qf2 3 [.reply 1 10, .ctxDone "canceled", .reply 3 30] : Outcome Nat String × _).1
    = .ctxErr "canceled" [] 1 := by decide
example : (run P₁ qf2 3 [.reply 1 10] : Outcome Nat String × _).1 = .waiting := by decide
example : (run P₁ qf2 0 [] : Outcome Nat String × _).1 = .incomplete [] 0 := by decide

end GorumsV.C02
