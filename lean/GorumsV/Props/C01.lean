import GorumsV.Props.C02
/-!
  C01 — a quorum call returns exactly its quorum function's verdict on genuine replies.

  Loop-level half: what the quorum function is shown, when, and what the call returns
  (theorems over `ReplyLoop.run`).  Provenance of the entries (each reply is what that
  node's handler produced for this call's request) is the routing property C05; it is
  checked on the real code by the stamps of engines qc / xtalk.
-/
namespace GorumsV.C01
open GorumsV.ReplyLoop GorumsV.C02
variable {M E R : Type}

/-- does a history end with a successful reply -/
def endsInReply (p : List (Arrival M E)) : Bool :=
  match p.getLast? with
  | some (.reply _ _) => true
  | _ => false

/-! ### the loop, from an arbitrary state -/

theorem loop_ok_last (P : Params) (qf : RepMap M → R × Bool) (x : Nat) (as : List (Arrival M E))
    (st : St M E) (v : R) (log : List (RepMap M)) (h : loop P qf x st as = (.ok v, log)) :
    ∃ reps, log.getLast? = some reps ∧ qf reps = (v, true) := by
  induction as generalizing st log with
  | nil => simp [loop] at h
  | cons a as ih =>
    cases a with
    | ctxDone c => simp [loop] at h
    | error n c =>
      simp only [loop] at h
      split at h
      · simp only [Prod.mk.injEq] at h
        exact absurd h.1 (exhaustedOutcome_ne_ok P _ _ _ v)
      · exact ih _ _ h
    | reply n m =>
      simp only [loop] at h
      cases hq : qf (st.replies.insert n m) with
      | mk v' q =>
        rw [hq] at h
        cases q with
        | true =>
          simp only [↓reduceIte, Prod.mk.injEq, Outcome.ok.injEq] at h
          obtain ⟨rfl, rfl⟩ := h
          exact ⟨_, by simp, hq⟩
        | false =>
          simp only [Bool.false_eq_true, ↓reduceIte] at h
          split at h
          · simp only [Prod.mk.injEq] at h
            exact absurd h.1 (exhaustedOutcome_ne_ok P _ _ _ v)
          · cases hl : loop P qf x { st with replies := st.replies.insert n m } as with
            | mk o log' =>
              rw [hl] at h
              simp only [Prod.mk.injEq] at h
              obtain ⟨rfl, rfl⟩ := h
              obtain ⟨reps, h1, h2⟩ := ih _ _ hl
              refine ⟨reps, ?_, h2⟩
              rw [List.getLast?_cons, h1]; rfl

theorem loop_no_invocation_after_quorum (P : Params) (qf : RepMap M → R × Bool) (x : Nat)
    (as : List (Arrival M E)) (st : St M E)
    (pre : List (RepMap M)) (reps : RepMap M) (post : List (RepMap M))
    (h : (loop P qf x st as).2 = pre ++ reps :: post) (hpost : post ≠ []) : (qf reps).2 = false := by
  induction as generalizing st pre with
  | nil => simp [loop] at h
  | cons a as ih =>
    cases a with
    | ctxDone c => simp [loop] at h
    | error n c =>
      simp only [loop] at h
      split at h
      · simp at h
      · exact ih _ _ h
    | reply n m =>
      simp only [loop] at h
      have single : ∀ r : RepMap M, [r] = pre ++ reps :: post → False := by
        intro r hr
        have := congrArg List.length hr
        have : 0 < post.length := List.length_pos_iff.mpr hpost
        simp at *; omega
      cases hq : qf (st.replies.insert n m) with
      | mk v' q =>
        rw [hq] at h
        cases q with
        | true => exact (single _ h).elim
        | false =>
          simp only [Bool.false_eq_true, ↓reduceIte] at h
          split at h
          · exact (single _ h).elim
          · cases hl : loop P qf x { st with replies := st.replies.insert n m } as with
            | mk o log' =>
              rw [hl] at h
              simp only at h
              cases pre with
              | nil =>
                simp only [List.nil_append, List.cons.injEq] at h
                rw [← h.1, hq]
              | cons r pre' =>
                simp only [List.cons_append, List.cons.injEq] at h
                exact ih _ pre' (by rw [hl]; exact h.2)

theorem endsInReply_append_reply (pre : List (Arrival M E)) (n : NodeId) (m : M) :
    endsInReply (pre ++ [Arrival.reply n m]) = true := by simp [endsInReply]
theorem endsInReply_append_error (pre : List (Arrival M E)) (n : NodeId) (c : E) :
    endsInReply (pre ++ [Arrival.error (M := M) n c]) = false := by simp [endsInReply]

theorem loop_log_is_reply_prefixes (P : Params) (qf : RepMap M → R × Bool) (x : Nat)
    (pre as : List (Arrival M E)) :
    ∃ k, k ≤ as.length ∧
      (loop P qf x ⟨errsOf pre, replySet pre⟩ as).2
        = ((extensions pre (as.take k)).filter endsInReply).map replySet := by
  induction as generalizing pre with
  | nil => exact ⟨0, by simp, by simp [loop, extensions]⟩
  | cons a as ih =>
    cases a with
    | ctxDone c => exact ⟨0, by simp, by simp [loop, extensions]⟩
    | error n c =>
      simp only [loop]
      split
      · exact ⟨0, by simp, by simp [extensions]⟩
      · obtain ⟨k, hk, h⟩ := ih (pre ++ [Arrival.error n c])
        have he : errsOf (pre ++ [Arrival.error (M := M) n c]) = errsOf pre ++ [(n, c)] := by simp [errsOf]
        rw [he, replySet_append_error] at h
        refine ⟨k + 1, by simp; omega, ?_⟩
        rw [h]
        simp [extensions, endsInReply_append_error]
    | reply n m =>
      have he : errsOf (pre ++ [Arrival.reply (E := E) n m]) = errsOf pre := by simp [errsOf]
      simp only [loop]
      cases hq : qf ((replySet pre).insert n m) with
      | mk v' q =>
        have one : [(replySet pre).insert n m]
            = ((extensions pre ((Arrival.reply n m :: as).take 1)).filter endsInReply).map replySet := by
          simp [extensions, endsInReply_append_reply, replySet_append_reply]
        cases q with
        | true => exact ⟨1, by simp, by simpa using one⟩
        | false =>
          simp only [Bool.false_eq_true, ↓reduceIte]
          split
          · exact ⟨1, by simp, by simpa using one⟩
          · obtain ⟨k, hk, h⟩ := ih (pre ++ [Arrival.reply n m])
            rw [he, replySet_append_reply] at h
            refine ⟨k + 1, by simp; omega, ?_⟩
            simp only [h]
            simp [extensions, endsInReply_append_reply, replySet_append_reply]

/-- **success is exactly the quorum function's verdict**: the returned value is the value the
    quorum function returned, together with "quorum reached", on its last invocation -/
theorem ok_is_qf_verdict (P : Params) (qf : RepMap M → R × Bool) (x : Nat) (as : List (Arrival M E))
    (v : R) (log : List (RepMap M)) (h : run P qf x as = (.ok v, log)) :
    ∃ reps, log.getLast? = some reps ∧ qf reps = (v, true) := by
  unfold run at h
  split at h
  · simp only [Prod.mk.injEq] at h
    exact absurd h.1 (exhaustedOutcome_ne_ok P _ _ _ v)
  · exact loop_ok_last P qf x as _ v log h

/-- **never again after it has reported a quorum**: every invocation but the last reported "no quorum" -/
theorem no_invocation_after_quorum (P : Params) (qf : RepMap M → R × Bool) (x : Nat) (as : List (Arrival M E))
    (pre : List (RepMap M)) (reps : RepMap M) (post : List (RepMap M))
    (h : (run P qf x as).2 = pre ++ reps :: post) (hpost : post ≠ []) : (qf reps).2 = false := by
  unfold run at h
  split at h
  · simp at h
  · exact loop_no_invocation_after_quorum P qf x as _ pre reps post h hpost

/-- **one invocation per newly arrived successful reply, in order, on the cumulative reply set**:
    there is a number `k` of consumed arrivals such that the invocation log is exactly the list of
    reply sets of the prefixes (of the first `k` arrivals) that end in a reply -/
theorem log_is_reply_prefixes (P : Params) (qf : RepMap M → R × Bool) (x : Nat) (as : List (Arrival M E)) :
    ∃ k, k ≤ as.length ∧
      (run P qf x as).2 = ((extensions [] (as.take k)).filter endsInReply).map replySet := by
  unfold run
  split
  · exact ⟨0, by simp, by simp [extensions]⟩
  · have := loop_log_is_reply_prefixes P qf x [] as
    simpa [errsOf, replySet, addReplies] using this

/-- every entry shown to the quorum function is a reply that arrived for this call: an error
    arrival never creates an entry (**never an entry for a node that failed**) -/
theorem replySet_entries_are_replies (pre : List (Arrival M E)) (n : NodeId) (m : M)
    (h : (n, m) ∈ replySet pre) : Arrival.reply n m ∈ pre := by
  rcases mem_addReplies h with h' | h'
  · simp at h'
  · exact h'

/-- each node has at most one entry, and it is its latest reply -/
theorem replySet_keys_nodup (pre : List (Arrival M E)) : ((replySet pre).map (·.1)).Nodup :=
  addReplies_keys_nodup pre (by simp)

/-- **the reply set only grows**: a reply of a node that has not replied before adds exactly one entry
    and keeps all the others -/
theorem replySet_grows (pre : List (Arrival M E)) (n : NodeId) (m : M)
    (hnew : ∀ m', Arrival.reply n m' ∉ pre) :
    replySet (pre ++ [.reply n m]) = (n, m) :: replySet pre := by
  rw [replySet_append_reply]
  apply RepMap.insert_of_not_mem
  rintro ⟨n', m'⟩ hp rfl
  exact hnew m' (replySet_entries_are_replies pre _ m' hp)

/-- the size of the reply set is bounded by the number of arrivals -/
theorem replySet_length_le (pre : List (Arrival M E)) : (replySet pre).length ≤ pre.length := by
  have := errsOf_addReplies_length_le ([] : RepMap M) pre
  simp only [List.length_nil, Nat.zero_add] at this
  unfold replySet
  omega

/-- the asynchronous variant invokes the quorum function exactly like the synchronous one -/
theorem async_same_log (P : Params) (qf : RepMap M → R × Bool) (x : Nat) (as : List (Arrival M E)) :
    (runAsync P qf x as).2 = (run P qf x as).2 := by
  unfold runAsync
  split <;> simp_all

end GorumsV.C01
