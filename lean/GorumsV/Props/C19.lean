import GorumsV.Model.Sort
/-!
  C19 — node sorters order by their keys.

  * `multiLess_is_lex`: `MultiSorter.Less` is the lexicographic order of its keys;
  * `lex_swo`: the lexicographic order of strict weak orders is a strict weak order
    (so each provided key can be used in any position, given `byID_swo`,
    `byPort_swo`, `byLastErr_swo`);
  * `isort_perm`, `isort_sorted`: a sort driven by a strict weak order yields a
    permutation without inversions (the reference used to predict the real
    `sort.Sort`, whose own contract is in the trusted base);
  * `sorted_ties`: in such an output, nodes equal under k1 are ordered by k2….
-/
namespace GorumsV.C19
open GorumsV.NodeSort

/-- strict weak ordering, in the "negatively transitive" presentation -/
structure StrictWeak (lt : LessFn) : Prop where
  irrefl : ∀ a, lt a a = false
  trans : ∀ a b c, lt a b = true → lt b c = true → lt a c = true
  negtrans : ∀ a b c, lt a b = false → lt b c = false → lt a c = false

/-- the textbook form: incomparability is transitive -/
theorem StrictWeak.incomp_trans {lt : LessFn} (h : StrictWeak lt) (a b c : Key)
    (h1 : lt a b = false) (h2 : lt b a = false) (h3 : lt b c = false) (h4 : lt c b = false) :
    lt a c = false ∧ lt c a = false :=
  ⟨h.negtrans a b c h1 h3, h.negtrans c b a h4 h2⟩

theorem StrictWeak.asymm {lt : LessFn} (h : StrictWeak lt) (a b : Key) (hab : lt a b = true) : lt b a = false := by
  cases hba : lt b a with
  | false => rfl
  | true => have := h.trans a b a hab hba; rw [h.irrefl] at this; exact absurd this (by simp)

/-- **`Less` is the lexicographic order of its keys** (for a non-empty key list). -/
theorem multiLess_is_lex (ks : List LessFn) (hne : ks ≠ []) (p q : Key) :
    multiLess ks p q = some (lexLt ks p q) := by
  induction ks with
  | nil => exact absurd rfl hne
  | cons k ks ih =>
    cases ks with
    | nil => simp [multiLess, lexLt]
    | cons k' ks =>
      have ih' := ih (by simp)
      simp only [multiLess]
      cases h1 : k p q <;> cases h2 : k q p <;> simp [lexLt, h1, h2, ih']

/-- without keys `Less` panics (index out of range); `OrderedBy()` is outside "k1, …, kn" -/
theorem multiLess_nil (p q : Key) : multiLess [] p q = none := rfl

/-- **The lexicographic order of strict weak orders is a strict weak order.** -/
theorem lex_swo (ks : List LessFn) (hk : ∀ k ∈ ks, StrictWeak k) : StrictWeak (lexLt ks) := by
  induction ks with
  | nil => exact ⟨fun _ => rfl, fun _ _ _ h => by simp [lexLt] at h, fun _ _ _ _ _ => rfl⟩
  | cons k ks ih =>
    have K : StrictWeak k := hk k (by simp)
    have T := ih (fun k' hk' => hk k' (by simp [hk']))
    refine ⟨?_, ?_, ?_⟩
    · intro a
      simp [lexLt, K.irrefl, T.irrefl]
    · intro a b c hab hbc
      simp only [lexLt, Bool.or_eq_true, Bool.and_eq_true, Bool.not_eq_true'] at hab hbc ⊢
      rcases hab with hab | ⟨hba, tab⟩ <;> rcases hbc with hbc | ⟨hcb, tbc⟩
      · exact Or.inl (K.trans a b c hab hbc)
      · left
        cases hac : k a c with
        | true => rfl
        | false => have := K.negtrans a c b hac hcb; rw [hab] at this; exact absurd this (by simp)
      · left
        cases hac : k a c with
        | true => rfl
        | false => have := K.negtrans b a c hba hac; rw [hbc] at this; exact absurd this (by simp)
      · cases hac : k a c with
        | true => exact Or.inl rfl
        | false => exact Or.inr ⟨K.negtrans c b a hcb hba, T.trans a b c tab tbc⟩
    · intro a b c hab hbc
      simp only [lexLt, Bool.or_eq_false_iff, Bool.and_eq_false_iff, Bool.not_eq_false'] at hab hbc ⊢
      obtain ⟨kab, hab'⟩ := hab
      obtain ⟨kbc, hbc'⟩ := hbc
      refine ⟨K.negtrans a b c kab kbc, ?_⟩
      cases hca : k c a with
      | true => exact Or.inl rfl
      | false =>
        right
        rcases hab' with kba | tab
        · have := K.negtrans b c a kbc hca; rw [kba] at this; exact absurd this (by simp)
        · rcases hbc' with kcb | tbc
          · have := K.negtrans c a b hca kab; rw [kcb] at this; exact absurd this (by simp)
          · exact T.negtrans a b c tab tbc

/-! ### the provided keys are strict weak orders -/

theorem byID_swo : StrictWeak byID := by
  refine ⟨?_, ?_, ?_⟩ <;> intros <;> simp_all [byID] <;> omega

theorem byPort_swo : StrictWeak byPort := by
  refine ⟨?_, ?_, ?_⟩ <;> intros <;> simp_all [byPort] <;> omega

theorem byLastErr_swo : StrictWeak byLastErr := by
  refine ⟨?_, ?_, ?_⟩
  · intro a; cases h : a.hasErr <;> simp [byLastErr, h]
  · intro a b c; cases ha : a.hasErr <;> cases hb : b.hasErr <;> cases hc : c.hasErr <;> simp [byLastErr, ha, hb, hc]
  · intro a b c; cases ha : a.hasErr <;> cases hb : b.hasErr <;> cases hc : c.hasErr <;> simp [byLastErr, ha, hb, hc]

/-- the key as written in the pinned tree (`true` unless n1 failed and n2 did not) is
    *not* irreflexive: it claims a node is less than itself (defect D16). -/
theorem pinned_lastErr_not_swo :
    ¬ StrictWeak (fun a b => !(a.hasErr && !b.hasErr)) := by
  intro h
  have := h.irrefl ⟨0, 0, false⟩
  simp at this

/-! ### a sort driven by a strict weak order -/

theorem insert_perm (lt : LessFn) (x : Key) (l : List Key) : (ins lt x l).Perm (x :: l) := by
  induction l with
  | nil => exact List.Perm.refl _
  | cons y ys ih =>
    simp only [ins]
    split
    · exact (List.Perm.cons y ih).trans (List.Perm.swap x y ys)
    · exact List.Perm.refl _

/-- the reference sort returns a permutation of its input -/
theorem isort_perm (lt : LessFn) (l : List Key) : (isort lt l).Perm l := by
  induction l with
  | nil => exact List.Perm.refl _
  | cons x xs ih => exact (insert_perm lt x _).trans (List.Perm.cons x ih)

/-- "no inversion": no later element is strictly less than an earlier one -/
def Sorted (lt : LessFn) (l : List Key) : Prop := l.Pairwise (fun a b => lt b a = false)

theorem insert_sorted (lt : LessFn) (h : StrictWeak lt) (x : Key) (l : List Key) (hs : Sorted lt l) :
    Sorted lt (ins lt x l) := by
  induction l with
  | nil => simp [ins, Sorted]
  | cons y ys ih =>
    unfold Sorted at hs ih ⊢
    rw [List.pairwise_cons] at hs
    simp only [ins]
    split
    · rename_i hyx
      rw [List.pairwise_cons]
      refine ⟨?_, ih hs.2⟩
      intro z hz
      have := (insert_perm lt x ys).mem_iff.mp hz
      rcases List.mem_cons.mp this with rfl | hz'
      · exact h.asymm y z hyx
      · exact hs.1 z hz'
    · rename_i hyx
      simp only [Bool.not_eq_true] at hyx
      rw [List.pairwise_cons, List.pairwise_cons]
      refine ⟨?_, hs.1, hs.2⟩
      intro z hz
      rcases List.mem_cons.mp hz with rfl | hz'
      · exact hyx
      · -- ¬ y < x and ¬ z < y  ⇒ ¬ z < x
        exact h.negtrans z y x (hs.1 z hz') hyx

/-- **the reference sort has no inversions** when `lt` is a strict weak order -/
theorem isort_sorted (lt : LessFn) (h : StrictWeak lt) (l : List Key) : Sorted lt (isort lt l) := by
  induction l with
  | nil => simp [isort, Sorted]
  | cons x xs ih => exact insert_sorted lt h x _ ih

/-- **ties under the first key are ordered by the remaining keys**: in an output
    without inversions for `k :: ks`, two elements that `k` does not separate are
    not inverted for `ks` either. -/
theorem sorted_ties (k : LessFn) (ks : List LessFn) (l : List Key)
    (hs : Sorted (lexLt (k :: ks)) l) :
    l.Pairwise (fun a b => k a b = false → k b a = false → lexLt ks b a = false) := by
  unfold Sorted at hs
  refine hs.imp ?_
  intro a b h hab hba
  simp only [lexLt, Bool.or_eq_false_iff, Bool.and_eq_false_iff, Bool.not_eq_false'] at h
  rcases h.2 with h' | h'
  · rw [hab] at h'; exact absurd h' (by simp)
  · exact h'

/-- … and it is ordered by the first key -/
theorem sorted_first (k : LessFn) (ks : List LessFn) (l : List Key)
    (hs : Sorted (lexLt (k :: ks)) l) : Sorted k l := by
  unfold Sorted at hs ⊢
  refine hs.imp ?_
  intro a b h
  simp only [lexLt, Bool.or_eq_false_iff] at h
  exact h.1

/-! non-vacuity -/
example : isort (lexLt [byLastErr, byID]) [⟨3, 1, true⟩, ⟨2, 1, false⟩, ⟨1, 1, true⟩, ⟨4, 1, false⟩]
    = [⟨2, 1, false⟩, ⟨4, 1, false⟩, ⟨1, 1, true⟩, ⟨3, 1, true⟩] := by decide
example : multiLess [byLastErr, byID] ⟨3, 1, true⟩ ⟨1, 1, true⟩ = some false := by decide

end GorumsV.C19
