import GorumsV.Props.C09
/-!
  C10 — nodes that come back are used again; each connection carries metadata (partial: timers
  are abstract; metadata and the connect callback are observed on the real code by engine reconn
  and pinned by the digests of newContext / newNodeStream / reconnect / NodeStream).
-/
namespace GorumsV.C10
open GorumsV.ConnMgr

/-- connect() is retried for every request popped while the node is not connected -/
theorem retried_on_every_request (s s' : St) (hpc : s.spc = .eval) (hnc : (s.established && !s.broken) = false)
    (hs : step s .sEval = some s') : s'.spc = .dial ∨ s'.spc = .connB := C09.retried_on_every_request s s' hpc hnc hs

/-- with a reachable peer the only states in which a node stays unusable are the two wedges of C09 -/
theorem comes_back_unless_wedged (s : St) (h : Reachable s) (hp : s.peerUp = true) (hc : s.closed = false)
    (ho : owes s = true) (hs : Stuck s = true) : ShapeStaleBroken s = true ∨ ShapeBackpressure s = true :=
  C09.wedge_shapes s h hp hc ho hs

/-- **the no-timer clause is false on the tree** (known finding reply-waits-for-backoff-timer):
    a reply can sit on a live stream while the receiver sleeps in its own back-off -/
theorem timer_wait_reachable :
    ∃ s, exec init C09.traceTimerWait = some s ∧ s.alive = true ∧ s.inflight > 0 ∧ s.rpc = .rcSleep ∧
      enabled s .rRecvMsg = false ∧ enabled s .rRcWake = true := by
  obtain ⟨s, h1, h2, h3, h4, _, h5, h6⟩ := C09.timer_wait_reachable
  exact ⟨s, h1, h2, h3, h4, h5, h6⟩

/-- … and only then (partial): with an answer in flight and the receiver neither sleeping nor wedged nor gone,
    a receiver step that is not a timer is enabled, or the receiver waits for a lock the sender holds or wants -/
theorem no_timer_wait_partial (s : St) (h : C09.Inv s) (hi : s.inflight > 0) (hc : s.closed = false)
    (hr : s.rpc ≠ .rcSleep) (hb : s.rpc ≠ .blockedSend) (he : s.rpc ≠ .exited) :
    (∃ l ∈ [Label.rRLock, .rRecvMsg, .rRecvErr, .rDeliver, .rCancel, .rCancelBlock, .rRcLock, .rRcDo, .rExitChk], enabled s l = true) ∨
    s.spc = .rcHeld ∨ s.spc = .rcWant ∨ s.spc = .sending := C09.reply_progress_without_timer s h hi hc hr hb he

end GorumsV.C10
