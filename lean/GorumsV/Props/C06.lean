import GorumsV.Model.ReplyLoop
/-!
  C06 — each node gets exactly its own message; one-way calls never wait for handlers
  (the targeting loop shared by all call types, and the multicast wait loop).
-/
namespace GorumsV.C06
open GorumsV.ReplyLoop
variable {Q : Type}

/-- **without a per-node function every node receives the caller's request** -/
theorem targets_none (cfg : List NodeId) (req : Q) : targets cfg none req = cfg.map (fun n => (n, req)) := rfl

/-- **with a per-node function f, node i receives exactly f(request, i)**, and nodes for which f
    yields no message receive nothing -/
theorem targets_some (cfg : List NodeId) (f : Q → NodeId → Option Q) (req : Q) (n : NodeId) (q : Q) :
    (n, q) ∈ targets cfg (some f) req ↔ n ∈ cfg ∧ f req n = some q := by
  simp only [targets, List.mem_filterMap, Option.map_eq_some_iff, Prod.mk.injEq]
  constructor
  · rintro ⟨a, ha, b, hb, rfl, rfl⟩
    exact ⟨ha, hb⟩
  · rintro ⟨hn, hq⟩
    exact ⟨n, hn, q, hq, rfl, rfl⟩

/-- the nodes targeted are the configuration's nodes for which a message exists, in order -/
theorem targets_keys_sublist (cfg : List NodeId) (pn : Option (Q → NodeId → Option Q)) (req : Q) :
    ((targets cfg pn req).map (·.1)).Sublist cfg := by
  cases pn with
  | none => simp [targets, List.map_map, Function.comp_def]
  | some f =>
    simp only [targets]
    induction cfg with
    | nil => simp
    | cons a cfg ih =>
      cases h : f req a with
      | none => simp only [List.filterMap_cons, h, Option.map_none]; exact ih.cons _
      | some q => simp only [List.filterMap_cons, h, Option.map_some, List.map_cons]; exact ih.cons_cons _

/-- each targeted node is targeted once (configurations list each node once) -/
theorem targets_nodup (cfg : List NodeId) (pn : Option (Q → NodeId → Option Q)) (req : Q) (h : cfg.Nodup) :
    ((targets cfg pn req).map (·.1)).Nodup :=
  (targets_keys_sublist cfg pn req).nodup h

/-- targets are issued in configuration order -/
theorem targets_order (cfg : List NodeId) (pn : Option (Q → NodeId → Option Q)) (req : Q) :
    ((targets cfg pn req).map (·.1)).Sublist cfg :=
  targets_keys_sublist cfg pn req

/-- **skipped nodes are neither waited for nor counted**: the number of replies the call expects
    (`expectedReplies`, decremented once per skipped node) is the number of targeted nodes -/
theorem expected_eq_targets (cfg : List NodeId) (pn : Option (Q → NodeId → Option Q)) (req : Q) :
    expectedOf cfg pn req = (targets cfg pn req).length := by
  cases pn with
  | none => simp [expectedOf, targets]
  | some f =>
    simp only [expectedOf, targets]
    have key : ∀ (l : List NodeId) (e : Nat),
        l.foldl (fun e n => if (f req n).isSome then e else e - 1) (e + l.length)
          = e + (l.filterMap (fun n => (f req n).map (fun q => (n, q)))).length := by
      intro l
      induction l with
      | nil => intro e; simp
      | cons a l ih =>
        intro e
        cases h : f req a with
        | none =>
          simp only [List.foldl_cons, List.length_cons, h, Option.isSome_none, Bool.false_eq_true,
            ↓reduceIte, List.filterMap_cons, Option.map_none]
          have : e + (l.length + 1) - 1 = e + l.length := by omega
          rw [this]; exact ih e
        | some q =>
          simp only [List.foldl_cons, List.length_cons, h, Option.isSome_some, ↓reduceIte,
            List.filterMap_cons, Option.map_some]
          have : e + (l.length + 1) = (e + 1) + l.length := by omega
          rw [this, ih (e + 1)]; omega
    simpa using key cfg 0

/-- the multicast wait loop returns exactly when every sent message has been confirmed … -/
theorem mcast_waits_for_confirmations (sent k : Nat) : mcastReturns false sent k = true ↔ sent ≤ k := by
  simp [mcastReturns, mcastRemaining]; omega

/-- … and with the no-send-waiting option it returns without waiting for any confirmation -/
theorem mcast_nosendwaiting (sent k : Nat) : mcastReturns true sent k = true := by
  simp [mcastReturns]

end GorumsV.C06
