import GorumsV.Model.LockOrder
/-!
  What the evaluated `LockOrder.acyclic es fuel = true` means: there is no walk of length at most `fuel + 1` along the
  lock order that returns to its start.  (The lock order of the tree has two edges and `fuel = 8`; a shortest cycle
  never repeats an edge, so for `es.length ≤ fuel + 1` this excludes every cycle — that last step, a pigeonhole
  argument, is not formalised.)
-/
namespace GorumsV.LockOrderP
open GorumsV.LockOrder

/-- a walk of `k ≥ 1` edges from `a` to `c` -/
inductive Walk (es : List (String × String)) : Nat → String → String → Prop where
  | one {a b : String} : (a, b) ∈ es → Walk es 1 a b
  | cons {a b c : String} {k : Nat} : (a, b) ∈ es → Walk es k b c → Walk es (k + 1) a c

theorem mem_succs (es : List (String × String)) (a b : String) : b ∈ succs es a ↔ (a, b) ∈ es := by
  unfold succs
  rw [List.mem_filterMap]
  constructor
  · rintro ⟨⟨x, y⟩, hm, hf⟩
    by_cases hx : x = a
    · subst hx
      simp at hf
      subst hf
      exact hm
    · simp [hx] at hf
  · intro hm
    exact ⟨(a, b), hm, by simp⟩

theorem mem_step (es : List (String × String)) (ns : List String) (x : String) :
    x ∈ (ns ++ ns.flatMap (succs es)).eraseDups ↔ x ∈ ns ∨ ∃ a, a ∈ ns ∧ (a, x) ∈ es := by
  rw [List.mem_eraseDups, List.mem_append, List.mem_flatMap]
  constructor
  · rintro (h | ⟨a, ha, hb⟩)
    · exact Or.inl h
    · exact Or.inr ⟨a, ha, (mem_succs es a x).1 hb⟩
  · rintro (h | ⟨a, ha, hb⟩)
    · exact Or.inl h
    · exact Or.inr ⟨a, ha, (mem_succs es a x).2 hb⟩

/-- `reach es k ns` contains `ns` -/
theorem subset_reach (es : List (String × String)) (k : Nat) : ∀ (ns : List String) (x : String),
    x ∈ ns → x ∈ reach es k ns := by
  induction k with
  | zero => intro ns x hx; exact hx
  | succ k ih =>
    intro ns x hx
    show x ∈ reach es k (ns ++ ns.flatMap (succs es)).eraseDups
    exact ih _ x ((mem_step es ns x).2 (Or.inl hx))

/-- `reach es k ns` contains `ns` and is closed under up to `k` steps -/
theorem walk_in_reach (es : List (String × String)) (k : Nat) (a c : String) (ns : List String)
    (ha : a ∈ ns) (h : Walk es k a c) (fuel : Nat) (hk : k ≤ fuel) : c ∈ reach es fuel ns := by
  induction h generalizing ns fuel with
  | one hab =>
    cases fuel with
    | zero => omega
    | succ f =>
      show _ ∈ reach es f (ns ++ ns.flatMap (succs es)).eraseDups
      exact subset_reach es f _ _ ((mem_step es ns _).2 (Or.inr ⟨_, ha, hab⟩))
  | cons hab _ ih =>
    cases fuel with
    | zero => omega
    | succ f =>
      show _ ∈ reach es f (ns ++ ns.flatMap (succs es)).eraseDups
      exact ih _ ((mem_step es ns _).2 (Or.inr ⟨_, ha, hab⟩)) f (by omega)

/-- **soundness of the evaluated check**: if `acyclic es fuel` holds, no walk of at most `fuel + 1` edges returns to its start -/
theorem acyclic_no_short_cycle (es : List (String × String)) (fuel : Nat) (h : acyclic es fuel = true)
    (n : String) (k : Nat) (hk : k ≤ fuel + 1) : ¬ Walk es k n n := by
  intro w
  have key : ∀ b, (n, b) ∈ es → n ∈ reach es fuel (succs es n) → False := by
    intro b hb hr
    have hn : n ∈ es.map (·.1) := List.mem_map.2 ⟨(n, b), hb, rfl⟩
    unfold acyclic at h
    have := (List.all_eq_true.1 h) n hn
    simp at this
    exact this hr
  cases w with
  | one hab =>
    exact key _ hab (subset_reach es fuel _ _ ((mem_succs es n n).2 hab))
  | cons hab hbc =>
    exact key _ hab (walk_in_reach es _ _ n _ ((mem_succs es n _).2 hab) hbc fuel (by omega))

end GorumsV.LockOrderP
