/-!
  `goe_arith` closes what is left of a tie lemma after `simp` has evaluated
  `GoE.ev` on the generated term: a Boolean identity between integer
  (in)equalities.  It is deliberately generic, so that harmless rewrites of the
  Go expression (`a+b == x`, `x == b+a`, `!(a+b != x)` …) keep proving, while a
  semantic change (`>=`, an off-by-one) makes it fail for all inputs at once.
-/
set_option linter.unusedSimpArgs false

macro "goe_arith" : tactic => `(tactic| first
  | done
  | omega
  | (rw [Bool.eq_iff_iff]
     simp only [beq_iff_eq, bne_iff_ne, decide_eq_true_eq, Bool.and_eq_true, Bool.or_eq_true,
       Bool.not_eq_true', Bool.not_eq_eq_eq_not, ne_eq, decide_eq_false_iff_not, Bool.not_true, Bool.not_false]
     omega)
  | (simp only [Bool.eq_iff_iff, beq_iff_eq, bne_iff_ne, decide_eq_true_eq, Bool.and_eq_true, Bool.or_eq_true,
       Bool.not_eq_true', ne_eq, decide_eq_false_iff_not]
     omega))
