import GorumsV.Model.ReplyLoop
/-!
  Helper definitions and lemmas about the reply loop: the *declarative* reading
  of an arrival history (what was answered, the reply set, the errors) and the
  link between the loop's incremental state and that reading.
-/
namespace GorumsV.ReplyLoop
variable {M E R : Type}

/-- accumulate replies of `as` on top of `acc` -/
def addReplies (acc : RepMap M) : List (Arrival M E) → RepMap M
  | [] => acc
  | .reply n m :: as => addReplies (acc.insert n m) as
  | _ :: as => addReplies acc as

/-- the reply set after a history: a fold of map insertions over the whole history -/
def replySet (as : List (Arrival M E)) : RepMap M := addReplies [] as

/-- the error list after a history, in arrival order -/
def errsOf : List (Arrival M E) → List (NodeId × E)
  | [] => []
  | .error n c :: as => (n, c) :: errsOf as
  | _ :: as => errsOf as

@[simp] theorem errsOf_append (xs ys : List (Arrival M E)) : errsOf (xs ++ ys) = errsOf xs ++ errsOf ys := by
  induction xs with
  | nil => rfl
  | cons a xs ih => cases a <;> simp [errsOf, ih]

@[simp] theorem addReplies_append (acc : RepMap M) (xs ys : List (Arrival M E)) :
    addReplies acc (xs ++ ys) = addReplies (addReplies acc xs) ys := by
  induction xs generalizing acc with
  | nil => rfl
  | cons a xs ih => cases a <;> simp [addReplies, ih]

/-- all prefixes, shortest first -/
def prefixes {α} : List α → List (List α)
  | [] => [[]]
  | a :: as => [] :: (prefixes as).map (a :: ·)

theorem prefixes_cons {α} (a : α) (as : List α) : prefixes (a :: as) = [] :: (prefixes as).map (a :: ·) := rfl

theorem mem_prefixes {α} {p as : List α} : p ∈ prefixes as ↔ ∃ s, as = p ++ s := by
  induction as generalizing p with
  | nil =>
    simp [prefixes]
  | cons a as ih =>
    simp only [prefixes, List.mem_cons, List.mem_map]
    constructor
    · rintro (h | ⟨q, hq, rfl⟩)
      · subst h; exact ⟨_, rfl⟩
      · obtain ⟨s, hs⟩ := ih.mp hq
        exact ⟨s, by simp [hs]⟩
    · rintro ⟨s, hs⟩
      cases p with
      | nil => left; rfl
      | cons b p =>
        right
        simp at hs
        obtain ⟨rfl, hs⟩ := hs
        exact ⟨p, ih.mpr ⟨s, hs⟩, rfl⟩

end GorumsV.ReplyLoop
