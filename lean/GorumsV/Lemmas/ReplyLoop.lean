import GorumsV.Model.ReplyLoop
/-!
  Helper definitions and lemmas about the reply loop: the *declarative* reading
  of an arrival history (what was answered, the reply set, the errors) and the
  link between the loop's incremental state and that reading.
-/
namespace GorumsV.ReplyLoop
variable {M E R : Type}

/-- accumulate replies of `as` on top of `acc` -/
def addReplies (acc : RepMap M) : List (Arrival M E) → RepMap M
  | [] => acc
  | .reply n m :: as => addReplies (acc.insert n m) as
  | _ :: as => addReplies acc as

/-- the reply set after a history: a fold of map insertions over the whole history -/
def replySet (as : List (Arrival M E)) : RepMap M := addReplies [] as

/-- the error list after a history, in arrival order -/
def errsOf : List (Arrival M E) → List (NodeId × E)
  | [] => []
  | .error n c :: as => (n, c) :: errsOf as
  | _ :: as => errsOf as

@[simp] theorem errsOf_append (xs ys : List (Arrival M E)) : errsOf (xs ++ ys) = errsOf xs ++ errsOf ys := by
  induction xs with
  | nil => rfl
  | cons a xs ih => cases a <;> simp [errsOf, ih]

@[simp] theorem addReplies_append (acc : RepMap M) (xs ys : List (Arrival M E)) :
    addReplies acc (xs ++ ys) = addReplies (addReplies acc xs) ys := by
  induction xs generalizing acc with
  | nil => rfl
  | cons a xs ih => cases a <;> simp [addReplies, ih]

/-- all prefixes, shortest first -/
def prefixes {α} : List α → List (List α)
  | [] => [[]]
  | a :: as => [] :: (prefixes as).map (a :: ·)

theorem prefixes_cons {α} (a : α) (as : List α) : prefixes (a :: as) = [] :: (prefixes as).map (a :: ·) := rfl

theorem mem_prefixes {α} {p as : List α} : p ∈ prefixes as ↔ ∃ s, as = p ++ s := by
  induction as generalizing p with
  | nil =>
    simp [prefixes]
  | cons a as ih =>
    simp only [prefixes, List.mem_cons, List.mem_map]
    constructor
    · rintro (h | ⟨q, hq, rfl⟩)
      · subst h; exact ⟨_, rfl⟩
      · obtain ⟨s, hs⟩ := ih.mp hq
        exact ⟨s, by simp [hs]⟩
    · rintro ⟨s, hs⟩
      cases p with
      | nil => left; rfl
      | cons b p =>
        right
        simp at hs
        obtain ⟨rfl, hs⟩ := hs
        exact ⟨p, ih.mpr ⟨s, hs⟩, rfl⟩

/-! ### map insertion and the reply fold -/

theorem RepMap.mem_insert {m : RepMap M} {k : NodeId} {v : M} {p : NodeId × M} :
    p ∈ m.insert k v ↔ p = (k, v) ∨ (p ∈ m ∧ p.1 ≠ k) := by
  simp [RepMap.insert, List.mem_filter]

theorem RepMap.length_insert_le (m : RepMap M) (k : NodeId) (v : M) :
    (m.insert k v).length ≤ m.length + 1 := by
  simp only [RepMap.insert, List.length_cons]
  exact Nat.succ_le_succ (List.length_filter_le _ _)

theorem RepMap.keys_nodup_insert {m : RepMap M} (h : (m.map (·.1)).Nodup) (k : NodeId) (v : M) :
    ((m.insert k v).map (·.1)).Nodup := by
  simp only [RepMap.insert, List.map_cons, List.nodup_cons]
  constructor
  · simp [List.mem_map, List.mem_filter]
  · exact (List.Sublist.map _ List.filter_sublist).nodup h

/-- inserting a key that is not bound yet is a plain `cons` -/
theorem RepMap.insert_of_not_mem {m : RepMap M} {k : NodeId} (h : ∀ p ∈ m, p.1 ≠ k) (v : M) :
    m.insert k v = (k, v) :: m := by
  simp only [RepMap.insert, List.cons.injEq, true_and]
  apply List.filter_eq_self.mpr
  intro p hp
  simpa using h p hp

theorem replySet_append_reply (pre : List (Arrival M E)) (n : NodeId) (m : M) :
    replySet (pre ++ [Arrival.reply n m]) = (replySet pre).insert n m := by
  simp [replySet, addReplies]

theorem replySet_append_error (pre : List (Arrival M E)) (n : NodeId) (c : E) :
    replySet (pre ++ [Arrival.error n c]) = replySet pre := by
  simp [replySet, addReplies]

theorem replySet_append_ctxDone (pre : List (Arrival M E)) (c : E) :
    replySet (pre ++ [Arrival.ctxDone c]) = replySet pre := by
  simp [replySet, addReplies]

/-- every entry of the fold is an entry of the accumulator or a reply of the history -/
theorem mem_addReplies {acc : RepMap M} {as : List (Arrival M E)} {n : NodeId} {m : M}
    (h : (n, m) ∈ addReplies acc as) : (n, m) ∈ acc ∨ Arrival.reply n m ∈ as := by
  induction as generalizing acc with
  | nil => left; exact h
  | cons a as ih =>
    cases a with
    | reply n' m' =>
      simp only [addReplies] at h
      rcases ih h with h' | h'
      · rcases RepMap.mem_insert.mp h' with h'' | ⟨h'', _⟩
        · right; simp only [Prod.mk.injEq] at h''; obtain ⟨rfl, rfl⟩ := h''; simp
        · left; exact h''
      · right; exact List.mem_cons_of_mem _ h'
    | error n' c =>
      simp only [addReplies] at h
      rcases ih h with h' | h'
      · left; exact h'
      · right; exact List.mem_cons_of_mem _ h'
    | ctxDone c =>
      simp only [addReplies] at h
      rcases ih h with h' | h'
      · left; exact h'
      · right; exact List.mem_cons_of_mem _ h'

theorem addReplies_keys_nodup {acc : RepMap M} (as : List (Arrival M E)) (h : (acc.map (·.1)).Nodup) :
    ((addReplies acc as).map (·.1)).Nodup := by
  induction as generalizing acc with
  | nil => exact h
  | cons a as ih =>
    cases a with
    | reply n m => exact ih (RepMap.keys_nodup_insert h n m)
    | error n c => exact ih h
    | ctxDone c => exact ih h

/-- every arrival adds at most one answer (an error or a map entry) -/
theorem errsOf_addReplies_length_le (acc : RepMap M) (as : List (Arrival M E)) :
    (errsOf as).length + (addReplies acc as).length ≤ acc.length + as.length := by
  induction as generalizing acc with
  | nil => simp [errsOf, addReplies]
  | cons a as ih =>
    cases a with
    | reply n m =>
      have := ih (acc.insert n m)
      have := RepMap.length_insert_le acc n m
      simp only [errsOf, addReplies, List.length_cons]; omega
    | error n c =>
      have := ih acc
      simp only [errsOf, addReplies, List.length_cons]; omega
    | ctxDone c =>
      have := ih acc
      simp only [errsOf, addReplies, List.length_cons]; omega

theorem prefixes_length_le {α} {p as : List α} (h : p ∈ prefixes as) : p.length ≤ as.length := by
  obtain ⟨s, rfl⟩ := mem_prefixes.mp h
  simp

theorem mem_of_mem_prefixes {α} {p as : List α} (h : p ∈ prefixes as) {a : α} (ha : a ∈ p) : a ∈ as := by
  obtain ⟨s, rfl⟩ := mem_prefixes.mp h
  exact List.mem_append_left _ ha

/-! ### the outcome of the exhaustion branch -/

theorem exhaustedOutcome_ne_waiting (P : Params) (errs : List (NodeId × E)) (n : Nat) (rest : List (Arrival M E)) :
    (exhaustedOutcome P errs n rest : Outcome R E) ≠ .waiting := by
  unfold exhaustedOutcome
  split
  · split <;> simp
  · simp

theorem exhaustedOutcome_eq_incomplete {P : Params} {errs errs' : List (NodeId × E)} {n n' : Nat}
    {rest : List (Arrival M E)}
    (h : (exhaustedOutcome P errs n rest : Outcome R E) = .incomplete errs' n') : errs = errs' ∧ n = n' := by
  unfold exhaustedOutcome at h
  split at h
  · split at h <;> simp at h
    exact h
  · simpa using h

/-- under the good parameters: the context's error if the context's end is the next event -/
theorem exhaustedOutcome_good {P : Params} (hP : P.Good) (errs : List (NodeId × E)) (n : Nat)
    (rest : List (Arrival M E)) :
    (exhaustedOutcome P errs n rest : Outcome R E) =
      (match rest with | .ctxDone c :: _ => .ctxErr c errs n | _ => .incomplete errs n) := by
  obtain ⟨_, _, hc⟩ := hP
  unfold exhaustedOutcome
  split <;> simp [hc]

theorem exhaustedOutcome_ne_ok (P : Params) (errs : List (NodeId × E)) (n : Nat) (rest : List (Arrival M E))
    (v : R) : (exhaustedOutcome P errs n rest : Outcome R E) ≠ .ok v := by
  unfold exhaustedOutcome
  split
  · split <;> simp
  · simp

/-- the exhaustion branch reports Incomplete or the context's error, with the given lists -/
theorem exhaustedOutcome_cases (P : Params) (errs : List (NodeId × E)) (n : Nat) (rest : List (Arrival M E)) :
    (exhaustedOutcome P errs n rest : Outcome R E) = .incomplete errs n ∨
      ∃ c post, rest = .ctxDone c :: post ∧ P.ctxCause = true ∧
        (exhaustedOutcome P errs n rest : Outcome R E) = .ctxErr c errs n := by
  unfold exhaustedOutcome
  split
  · rename_i c post
    cases h : P.ctxCause
    · left; simp
    · right; exact ⟨c, post, rfl, rfl, by simp⟩
  · left; rfl

end GorumsV.ReplyLoop
