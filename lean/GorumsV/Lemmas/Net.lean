import GorumsV.Model.Net
/-!
  Helper lemmas for Props/Net.lean: the components of the composite stay reachable, and the
  inductive invariant from which the end-to-end statements follow.
-/
namespace GorumsV.Net
open GorumsV

/-! ### setNode -/

@[simp] theorem setNode_nodes_self (s : State) (n : NodeId) (x : NodeSt) : (setNode s n x).nodes n = x := by
  simp [setNode]

theorem setNode_nodes_ne (s : State) (n m : NodeId) (x : NodeSt) (h : m ≠ n) :
    (setNode s n x).nodes m = s.nodes m := by
  simp [setNode, h]

@[simp] theorem setNode_issued (s : State) (n : NodeId) (x : NodeSt) : (setNode s n x).issued = s.issued := rfl
@[simp] theorem setNode_calls (s : State) (n : NodeId) (x : NodeSt) : (setNode s n x).calls = s.calls := rfl
@[simp] theorem setNode_nextId (s : State) (n : NodeId) (x : NodeSt) : (setNode s n x).nextId = s.nextId := rfl

/-! ### exec over append -/

theorem chan_exec_append (s : Chan.State) (ls : List Chan.Label) (l : Chan.Label) :
    Chan.exec s (ls ++ [l]) = (Chan.exec s ls).bind (fun t => Chan.step t l) := by
  induction ls generalizing s with
  | nil =>
    simp only [List.nil_append, Chan.exec, Option.bind_some]
    cases Chan.step s l <;> simp
  | cons a ls ih =>
    simp only [List.cons_append, Chan.exec]
    cases Chan.step s a with
    | none => simp
    | some t => simp [ih]

theorem srv_exec_append (s : SrvConn.State) (ls : List SrvConn.Label) (l : SrvConn.Label) :
    SrvConn.exec s (ls ++ [l]) = (SrvConn.exec s ls).bind (fun t => SrvConn.step t l) := by
  induction ls generalizing s with
  | nil =>
    simp only [List.nil_append, SrvConn.exec, Option.bind_some]
    cases SrvConn.step s l <;> simp
  | cons a ls ih =>
    simp only [List.cons_append, SrvConn.exec]
    cases SrvConn.step s a with
    | none => simp
    | some t => simp [ih]

theorem chan_reachable_step (c c' : Chan.State) (l : Chan.Label) (h : Chan.Reachable c)
    (hs : Chan.step c l = some c') : Chan.Reachable c' := by
  obtain ⟨ls, hls⟩ := h
  exact ⟨ls ++ [l], by rw [chan_exec_append, hls]; exact hs⟩

def SrvReachable (v : SrvConn.State) : Prop := ∃ ls, SrvConn.exec SrvConn.init ls = some v

theorem srv_reachable_step (c c' : SrvConn.State) (l : SrvConn.Label) (h : SrvReachable c)
    (hs : SrvConn.step c l = some c') : SrvReachable c' := by
  obtain ⟨ls, hls⟩ := h
  exact ⟨ls ++ [l], by rw [srv_exec_append, hls]; exact hs⟩

theorem srv_reachable_init : SrvReachable SrvConn.init := ⟨[], rfl⟩
theorem chan_reachable_init : Chan.Reachable Chan.init := ⟨[], rfl⟩

/-! ### what a composite step does to the components of a node -/

/-- the shape of a successful step: either a manager step (nodes untouched), or one node is replaced -/
theorem step_nodes (P : Params) (s s' : State) (l : Label) (h : step P s l = some s') :
    (s'.nodes = s.nodes) ∨
    (∃ n x, s'.nodes = (setNode s n x).nodes ∧
      (x.chan = (s.nodes n).chan ∨ ∃ cl, Chan.step (s.nodes n).chan cl = some x.chan) ∧
      (x.srv = (s.nodes n).srv ∨ x.srv = SrvConn.init ∨ ∃ sl, SrvConn.step (s.nodes n).srv sl = some x.srv)) := by
  cases l with
  | newCall c =>
    simp only [step] at h
    split at h
    · cases h
    · cases h; exact Or.inl rfl
  | target c n p streaming =>
    simp only [step] at h
    split at h
    · cases h
    · split at h
      · cases h
      · obtain ⟨ch, hch, rfl⟩ := Option.map_eq_some_iff.1 h
        exact Or.inr ⟨n, { s.nodes n with chan := ch }, rfl, Or.inr ⟨_, hch⟩, Or.inl rfl⟩
  | chan n cl =>
    simp only [step] at h
    split at h
    · obtain ⟨ch, hch, rfl⟩ := Option.map_eq_some_iff.1 h
      exact Or.inr ⟨n, { s.nodes n with chan := ch }, rfl, Or.inr ⟨_, hch⟩, Or.inl rfl⟩
    · cases h
  | send n confirm lost =>
    simp only [step] at h
    split at h
    · cases h
    · split at h
      · cases h
      · obtain ⟨ch, hch, rfl⟩ := Option.map_eq_some_iff.1 h
        exact Or.inr ⟨n, _, rfl, Or.inr ⟨_, hch⟩, Or.inl rfl⟩
  | srvRecv n =>
    simp only [step] at h
    split at h
    · cases h
    · obtain ⟨sv, hsv, rfl⟩ := Option.map_eq_some_iff.1 h
      exact Or.inr ⟨n, _, rfl, Or.inl rfl, Or.inr (Or.inr ⟨_, hsv⟩)⟩
  | srvRelease n id =>
    simp only [step] at h
    obtain ⟨sv, hsv, rfl⟩ := Option.map_eq_some_iff.1 h
    exact Or.inr ⟨n, _, rfl, Or.inl rfl, Or.inr (Or.inr ⟨_, hsv⟩)⟩
  | srvAcquire n =>
    simp only [step] at h
    obtain ⟨sv, hsv, rfl⟩ := Option.map_eq_some_iff.1 h
    exact Or.inr ⟨n, _, rfl, Or.inl rfl, Or.inr (Or.inr ⟨_, hsv⟩)⟩
  | srvReply n id =>
    simp only [step] at h
    split at h
    · cases h
    · obtain ⟨sv, hsv, rfl⟩ := Option.map_eq_some_iff.1 h
      exact Or.inr ⟨n, _, rfl, Or.inl rfl, Or.inr (Or.inr ⟨_, hsv⟩)⟩
  | recv n =>
    simp only [step] at h
    split at h
    · cases h
    · obtain ⟨ch, hch, rfl⟩ := Option.map_eq_some_iff.1 h
      exact Or.inr ⟨n, _, rfl, Or.inr ⟨_, hch⟩, Or.inl rfl⟩
  | wireDie n =>
    simp only [step] at h
    cases h
    exact Or.inr ⟨n, _, rfl, Or.inl rfl, Or.inr (Or.inl rfl)⟩

/-- the components of every node are reachable states of the component models -/
def CompReach (s : State) : Prop :=
  ∀ n, Chan.Reachable (s.nodes n).chan ∧ SrvReachable (s.nodes n).srv

theorem compReach_step (P : Params) (s s' : State) (l : Label) (hi : CompReach s) (h : step P s l = some s') :
    CompReach s' := by
  rcases step_nodes P s s' l h with hn | ⟨n, x, hn, hc, hv⟩
  · intro m; rw [hn]; exact hi m
  · intro m
    rw [hn]
    by_cases hm : m = n
    · subst hm
      rw [setNode_nodes_self]
      refine ⟨?_, ?_⟩
      · rcases hc with hc | ⟨cl, hc⟩
        · rw [hc]; exact (hi m).1
        · exact chan_reachable_step _ _ cl (hi m).1 hc
      · rcases hv with hv | hv | ⟨sl, hv⟩
        · rw [hv]; exact (hi m).2
        · rw [hv]; exact srv_reachable_init
        · exact srv_reachable_step _ _ sl (hi m).2 hv
    · rw [setNode_nodes_ne _ _ _ _ hm]; exact hi m

theorem exec_induct (P : Params) (Q : State → Prop)
    (hstep : ∀ s s' l, Q s → step P s l = some s' → Q s') :
    ∀ (ls : List Label) (s s' : State), Q s → exec P s ls = some s' → Q s' := by
  intro ls
  induction ls with
  | nil =>
    intro s s' h he
    simp only [exec] at he
    cases he
    exact h
  | cons l ls ih =>
    intro s s' h he
    simp only [exec] at he
    cases hst : step P s l with
    | none => rw [hst] at he; cases he
    | some s1 =>
      rw [hst] at he
      exact ih s1 s' (hstep s s1 l h hst) he

theorem compReach_init : CompReach init := by
  intro n
  exact ⟨chan_reachable_init, srv_reachable_init⟩

theorem compReach_reachable (P : Params) (s : State) (h : Reachable P s) : CompReach s := by
  obtain ⟨ls, hls⟩ := h
  exact exec_induct P CompReach (compReach_step P) ls init s compReach_init hls

/-! ### routers and deliveries of the channel model -/

theorem route_routers (s : Chan.State) (id : Chan.MsgId) (r : Chan.Resp) (x : Chan.Router)
    (hx : x ∈ (Chan.route s id r).routers) : x ∈ s.routers := by
  unfold Chan.route at hx
  split at hx
  · exact hx
  · simp only at hx
    split at hx
    · exact hx
    · exact (List.mem_filter.1 hx).1

theorem route_deliv (s : Chan.State) (id : Chan.MsgId) (r : Chan.Resp) (d : Chan.Delivery)
    (hd : d ∈ (Chan.route s id r).deliveries) :
    d ∈ s.deliveries ∨ (d.id = id ∧ d.resp = r ∧ ∃ x ∈ s.routers, x.id = id ∧ x.call = d.call) := by
  unfold Chan.route at hd
  split at hd
  · exact Or.inl hd
  · rename_i x hx
    simp only at hd
    rcases List.mem_append.1 hd with hd | hd
    · exact Or.inl hd
    · rw [List.mem_singleton] at hd
      subst hd
      have hmem := List.mem_of_find?_eq_some hx
      have hp := List.find?_some hx
      simp only [beq_iff_eq] at hp
      exact Or.inr ⟨rfl, rfl, x, hmem, hp, rfl⟩

theorem route_deliv_noreply (s : Chan.State) (id : Chan.MsgId) (r : Chan.Resp) (hr : ∀ v, r ≠ .reply v)
    (d : Chan.Delivery) (hd : d ∈ (Chan.route s id r).deliveries) :
    d ∈ s.deliveries ∨ ∀ v, d.resp ≠ .reply v := by
  rcases route_deliv s id r d hd with h | ⟨_, h, _⟩
  · exact Or.inl h
  · exact Or.inr (by rw [h]; exact hr)

theorem chan_step_routers (c c' : Chan.State) (l : Chan.Label)
    (hl : ∀ id cc st, l ≠ .register id cc st) (h : Chan.step c l = some c') :
    ∀ x ∈ c'.routers, x ∈ c.routers := by
  intro x hx
  cases l with
  | register id cc st => exact absurd rfl (hl id cc st)
  | handoff id =>
    simp only [Chan.step] at h
    split at h
    · cases h
    · cases h; exact hx
  | closedAnswer id =>
    simp only [Chan.step, Option.some.injEq] at h
    subst h; exact route_routers _ _ _ _ hx
  | pop =>
    simp only [Chan.step] at h
    split at h
    · cases h; exact hx
    · cases h
  | sendOk confirm =>
    simp only [Chan.step] at h
    split at h
    · cases h
    · cases h
      split at hx
      · exact (route_routers _ _ _ _ hx :)
      · exact hx
  | sendFail kind confirm =>
    simp only [Chan.step] at h
    split at h
    · cases h
    · cases h
      have hx := route_routers _ _ _ _ hx
      split at hx
      · exact (route_routers _ _ _ _ hx :)
      · exact hx
  | recvReply id r =>
    simp only [Chan.step, Option.some.injEq] at h
    subst h; exact route_routers _ _ _ _ hx
  | streamDown =>
    simp only [Chan.step, Option.some.injEq] at h
    subst h; simp [Chan.cancelAll] at hx
  | replaceCancel =>
    simp only [Chan.step, Option.some.injEq] at h
    subst h
    simp only [Chan.cancelWritten] at hx
    exact (List.mem_filter.1 hx).1
  | deleteRouter id =>
    simp only [Chan.step, Option.some.injEq] at h
    subst h
    exact (List.mem_filter.1 hx).1

theorem chan_step_deliv (c c' : Chan.State) (l : Chan.Label)
    (hl : ∀ id r, l ≠ .recvReply id r) (h : Chan.step c l = some c') :
    ∀ d ∈ c'.deliveries, d ∈ c.deliveries ∨ ∀ v, d.resp ≠ .reply v := by
  intro d hd
  cases l with
  | register id cc st =>
    simp only [Chan.step] at h
    split at h
    · cases h
    · cases h; exact Or.inl hd
  | handoff id =>
    simp only [Chan.step] at h
    split at h
    · cases h
    · cases h; exact Or.inl hd
  | closedAnswer id =>
    simp only [Chan.step, Option.some.injEq] at h
    subst h; exact route_deliv_noreply _ _ _ (by intro v hv; cases hv) _ hd
  | pop =>
    simp only [Chan.step] at h
    split at h
    · cases h; exact Or.inl hd
    · cases h
  | sendOk confirm =>
    simp only [Chan.step] at h
    split at h
    · cases h
    · cases h
      split at hd
      · exact (route_deliv_noreply _ _ .sent (by intro v hv; cases hv) _ hd :)
      · exact Or.inl hd
  | sendFail kind confirm =>
    simp only [Chan.step] at h
    split at h
    · cases h
    · cases h
      rcases route_deliv_noreply _ _ _ (by intro v hv; cases hv) _ hd with hd | hd
      · split at hd
        · exact (route_deliv_noreply _ _ .sent (by intro v hv; cases hv) _ hd :)
        · exact Or.inl hd
      · exact Or.inr hd
  | recvReply id r => exact absurd rfl (hl id r)
  | streamDown =>
    simp only [Chan.step, Option.some.injEq] at h
    subst h
    simp only [Chan.cancelAll] at hd
    rcases List.mem_append.1 hd with hd | hd
    · exact Or.inl hd
    · obtain ⟨x, _, rfl⟩ := List.mem_map.1 hd
      exact Or.inr (by intro v hv; cases hv)
  | replaceCancel =>
    simp only [Chan.step, Option.some.injEq] at h
    subst h
    simp only [Chan.cancelWritten] at hd
    rcases List.mem_append.1 hd with hd | hd
    · exact Or.inl hd
    · obtain ⟨x, _, rfl⟩ := List.mem_map.1 hd
      exact Or.inr (by intro v hv; cases hv)
  | deleteRouter id =>
    simp only [Chan.step, Option.some.injEq] at h
    subst h
    exact Or.inl hd

theorem chan_step_register (c c' : Chan.State) (id : Chan.MsgId) (cc : Chan.CallId) (st : Bool)
    (h : Chan.step c (.register id cc st) = some c') :
    c'.routers = ⟨id, cc, st⟩ :: c.routers ∧ c'.deliveries = c.deliveries := by
  simp only [Chan.step] at h
  split at h
  · cases h
  · cases h; exact ⟨rfl, rfl⟩

theorem localLabel_not_register (l : Chan.Label) (h : localLabel l = true) :
    ∀ id cc st, l ≠ .register id cc st := by
  intro id cc st hl; subst hl; simp [localLabel] at h

theorem localLabel_not_recvReply (l : Chan.Label) (h : localLabel l = true) :
    ∀ id r, l ≠ .recvReply id r := by
  intro id r hl; subst hl; simp [localLabel] at h

/-! ### the invariant -/

/-- what holds of one node, relative to the list of requests issued so far -/
structure NodeInv (P : Params) (iss : List Issue) (n : NodeId) (x : NodeSt) : Prop where
  routerIssued : ∀ r ∈ x.chan.routers, ∃ p, (⟨r.id, r.call, n, p⟩ : Issue) ∈ iss
  upIssued : ∀ q ∈ x.up, ∃ c, (⟨q.1, c, n, q.2⟩ : Issue) ∈ iss
  runningIssued : ∀ q ∈ x.running, ∃ c, (⟨q.1, c, n, q.2⟩ : Issue) ∈ iss
  downGenuine : ∀ q ∈ x.down, ∃ id c p, q.1 = P.replyId id ∧ (⟨id, c, n, p⟩ : Issue) ∈ iss ∧ q.2 = P.handler n p
  delivGenuine : P.Good → ∀ d ∈ x.chan.deliveries, ∀ v, d.resp = .reply v →
      ∃ p, (⟨d.id, d.call, n, p⟩ : Issue) ∈ iss ∧ P.handler n p = .reply v

theorem NodeInv.mono {P : Params} {iss iss' : List Issue} {n : NodeId} {x : NodeSt}
    (h : NodeInv P iss n x) (hsub : ∀ a ∈ iss, a ∈ iss') : NodeInv P iss' n x := by
  refine ⟨?_, ?_, ?_, ?_, ?_⟩
  · intro r hr; obtain ⟨p, hp⟩ := h.routerIssued r hr; exact ⟨p, hsub _ hp⟩
  · intro q hq; obtain ⟨c, hc⟩ := h.upIssued q hq; exact ⟨c, hsub _ hc⟩
  · intro q hq; obtain ⟨c, hc⟩ := h.runningIssued q hq; exact ⟨c, hsub _ hc⟩
  · intro q hq; obtain ⟨id, c, p, h1, h2, h3⟩ := h.downGenuine q hq; exact ⟨id, c, p, h1, hsub _ h2, h3⟩
  · intro hP d hd v hv; obtain ⟨p, h1, h2⟩ := h.delivGenuine hP d hd v hv; exact ⟨p, hsub _ h1, h2⟩

/-- a channel step that is neither a registration nor the arrival of a message keeps the node's invariant -/
theorem NodeInv.chan {P : Params} {iss : List Issue} {n : NodeId} {x : NodeSt} (h : NodeInv P iss n x)
    (ch : Chan.State) (hr : ∀ r ∈ ch.routers, r ∈ x.chan.routers)
    (hd : ∀ d ∈ ch.deliveries, d ∈ x.chan.deliveries ∨ ∀ v, d.resp ≠ .reply v) :
    NodeInv P iss n { x with chan := ch } := by
  refine ⟨?_, h.upIssued, h.runningIssued, h.downGenuine, ?_⟩
  · intro r hr'; exact h.routerIssued r (hr r hr')
  · intro hP d hd' v hv
    rcases hd d hd' with hd'' | hd''
    · exact h.delivGenuine hP d hd'' v hv
    · exact absurd hv (hd'' v)

structure Inv (P : Params) (s : State) : Prop where
  callsFresh : ∀ q ∈ s.calls, q.2 < s.nextId
  callsFun : ∀ c i i', (c, i) ∈ s.calls → (c, i') ∈ s.calls → i = i'
  callsInj : ∀ c c' i, (c, i) ∈ s.calls → (c', i) ∈ s.calls → c = c'
  issuedCall : ∀ a ∈ s.issued, (a.call, a.id) ∈ s.calls
  issuedOnce : ∀ a b, a ∈ s.issued → b ∈ s.issued → a.node = b.node → a.call = b.call → a = b
  node : ∀ n, NodeInv P s.issued n (s.nodes n)

theorem Inv.issuedOnceId {P : Params} {s : State} (h : Inv P s) (a b : Issue)
    (ha : a ∈ s.issued) (hb : b ∈ s.issued) (hn : a.node = b.node) (hi : a.id = b.id) : a = b := by
  have h1 := h.issuedCall a ha
  have h2 := h.issuedCall b hb
  rw [hi] at h1
  exact h.issuedOnce a b ha hb hn (h.callsInj _ _ _ h1 h2)

theorem Inv.setNode {P : Params} {s : State} (h : Inv P s) (n : NodeId) (x : NodeSt)
    (hx : NodeInv P s.issued n x) : Inv P (setNode s n x) := by
  refine ⟨h.callsFresh, h.callsFun, h.callsInj, h.issuedCall, h.issuedOnce, ?_⟩
  intro m
  by_cases hm : m = n
  · subst hm; rw [setNode_nodes_self]; exact hx
  · rw [setNode_nodes_ne _ _ _ _ hm]; exact h.node m

theorem inv_init (P : Params) : Inv P init := by
  refine ⟨?_, ?_, ?_, ?_, ?_, ?_⟩
  · intro q hq; cases hq
  · intro c i i' hq; cases hq
  · intro c c' i hq; cases hq
  · intro a ha; cases ha
  · intro a b ha; cases ha
  · intro n
    refine ⟨?_, ?_, ?_, ?_, ?_⟩
    · intro r hr; cases hr
    · intro r hr; cases hr
    · intro r hr; cases hr
    · intro r hr; cases hr
    · intro _ r hr; cases hr

theorem payloadOf_some (s : State) (id : Chan.MsgId) (n : NodeId) (p : Payload)
    (h : payloadOf s id n = some p) : ∃ c, (⟨id, c, n, p⟩ : Issue) ∈ s.issued := by
  unfold payloadOf at h
  obtain ⟨a, ha, rfl⟩ := Option.map_eq_some_iff.1 h
  have hmem := List.mem_of_find?_eq_some ha
  have hp := List.find?_some ha
  simp only [Bool.and_eq_true, beq_iff_eq] at hp
  obtain ⟨h1, h2⟩ := hp
  subst h1; subst h2
  exact ⟨a.call, hmem⟩

/-! ### the invariant is preserved -/

theorem inv_newCall (P : Params) (s : State) (c : Chan.CallId) (h : Inv P s)
    (hc : ∀ q ∈ s.calls, q.1 ≠ c) :
    Inv P { s with calls := s.calls ++ [(c, s.nextId)], nextId := s.nextId + 1 } := by
  refine ⟨?_, ?_, ?_, ?_, h.issuedOnce, h.node⟩
  · intro q hq
    rcases List.mem_append.1 hq with hq | hq
    · exact Nat.lt_succ_of_lt (h.callsFresh q hq)
    · rw [List.mem_singleton] at hq; subst hq; exact Nat.lt_succ_self _
  · intro c0 i i' h1 h2
    rcases List.mem_append.1 h1 with h1 | h1 <;> rcases List.mem_append.1 h2 with h2 | h2
    · exact h.callsFun c0 i i' h1 h2
    · rw [List.mem_singleton] at h2; cases h2; exact absurd rfl (hc _ h1)
    · rw [List.mem_singleton] at h1; cases h1; exact absurd rfl (hc _ h2)
    · rw [List.mem_singleton] at h1 h2; cases h1; cases h2; rfl
  · intro c0 c1 i h1 h2
    rcases List.mem_append.1 h1 with h1 | h1 <;> rcases List.mem_append.1 h2 with h2 | h2
    · exact h.callsInj c0 c1 i h1 h2
    · rw [List.mem_singleton] at h2; cases h2; exact absurd (h.callsFresh _ h1) (Nat.lt_irrefl _)
    · rw [List.mem_singleton] at h1; cases h1; exact absurd (h.callsFresh _ h2) (Nat.lt_irrefl _)
    · rw [List.mem_singleton] at h1 h2; cases h1; cases h2; rfl
  · intro a ha
    exact List.mem_append_left _ (h.issuedCall a ha)

theorem inv_target (P : Params) (s : State) (c : Chan.CallId) (n : NodeId) (p : Payload) (st : Bool)
    (id : Chan.MsgId) (ch : Chan.State) (h : Inv P s)
    (hcall : (c, id) ∈ s.calls)
    (hnew : ∀ a ∈ s.issued, ¬ (a.call = c ∧ a.node = n))
    (hch : Chan.step (s.nodes n).chan (.register id c st) = some ch) :
    Inv P { setNode s n { s.nodes n with chan := ch } with issued := s.issued ++ [⟨id, c, n, p⟩] } := by
  obtain ⟨hrt, hdl⟩ := chan_step_register _ _ _ _ _ hch
  refine ⟨h.callsFresh, h.callsFun, h.callsInj, ?_, ?_, ?_⟩
  · intro a ha
    rcases List.mem_append.1 ha with ha | ha
    · exact h.issuedCall a ha
    · rw [List.mem_singleton] at ha; subst ha; exact hcall
  · intro a b ha hb hn hcc
    rcases List.mem_append.1 ha with ha | ha <;> rcases List.mem_append.1 hb with hb | hb
    · exact h.issuedOnce a b ha hb hn hcc
    · rw [List.mem_singleton] at hb; subst hb
      exact absurd ⟨hcc, hn⟩ (hnew a ha)
    · rw [List.mem_singleton] at ha; subst ha
      exact absurd ⟨hcc.symm, hn.symm⟩ (hnew b hb)
    · rw [List.mem_singleton] at ha hb; rw [ha, hb]
  · intro m
    show NodeInv P (s.issued ++ [⟨id, c, n, p⟩]) m ((setNode s n { s.nodes n with chan := ch }).nodes m)
    by_cases hm : m = n
    · subst hm
      rw [setNode_nodes_self]
      have hold := (h.node m).mono (iss' := s.issued ++ [⟨id, c, m, p⟩]) (fun a ha => List.mem_append_left _ ha)
      refine ⟨?_, hold.upIssued, hold.runningIssued, hold.downGenuine, ?_⟩
      · intro r hr
        change r ∈ ch.routers at hr
        rw [hrt] at hr
        rcases List.mem_cons.1 hr with hr | hr
        · subst hr; exact ⟨p, List.mem_append_right _ (List.mem_singleton.2 rfl)⟩
        · exact hold.routerIssued r hr
      · intro hP d hd
        change d ∈ ch.deliveries at hd
        rw [hdl] at hd
        exact hold.delivGenuine hP d hd
    · rw [setNode_nodes_ne _ _ _ _ hm]
      exact (h.node m).mono (fun a ha => List.mem_append_left _ ha)

theorem nodeInv_recv (P : Params) (s : State) (n : NodeId) (h : Inv P s)
    (i : Chan.MsgId) (r : Chan.Resp) (rest : List (Chan.MsgId × Chan.Resp))
    (hdown : (s.nodes n).down = (i, r) :: rest) :
    NodeInv P s.issued n { s.nodes n with chan := Chan.route (s.nodes n).chan i r, down := rest } := by
  have hN := h.node n
  refine ⟨?_, hN.upIssued, hN.runningIssued, ?_, ?_⟩
  · intro x hx; exact hN.routerIssued x (route_routers _ _ _ _ hx)
  · intro q hq
    exact hN.downGenuine q (by rw [hdown]; exact List.mem_cons_of_mem _ hq)
  · intro hP d hd v hv
    rcases route_deliv _ _ _ _ hd with hd | ⟨hid, hresp, x, hx, hxid, hxcall⟩
    · exact hN.delivGenuine hP d hd v hv
    · obtain ⟨id, c, p, h1, h2, h3⟩ := hN.downGenuine (i, r) (by rw [hdown]; exact List.mem_cons_self ..)
      simp only at h1 h3
      rw [hP id] at h1
      obtain ⟨p', hp'⟩ := hN.routerIssued x hx
      have heq := h.issuedOnceId _ _ h2 hp' rfl (by simp only; rw [hxid, ← h1])
      cases heq
      refine ⟨p, ?_, ?_⟩
      · rw [hid, ← hxcall, h1]; exact h2
      · rw [← h3, ← hresp]; exact hv

theorem inv_step (P : Params) (s s' : State) (l : Label) (h : Inv P s) (hs : step P s l = some s') :
    Inv P s' := by
  cases l with
  | newCall c =>
    simp only [step] at hs
    split at hs
    · cases hs
    · rename_i hany
      cases hs
      apply inv_newCall P s c h
      intro q hq hqc
      apply hany
      rw [List.any_eq_true]
      exact ⟨q, hq, by simp [hqc]⟩
  | target c n p streaming =>
    simp only [step] at hs
    split at hs
    · cases hs
    · rename_i c' id hfind
      split at hs
      · cases hs
      · rename_i hany
        obtain ⟨ch, hch, rfl⟩ := Option.map_eq_some_iff.1 hs
        have hmem := List.mem_of_find?_eq_some hfind
        have hp := List.find?_some hfind
        simp only [beq_iff_eq] at hp
        subst hp
        apply inv_target P s _ n p streaming id ch h hmem _ hch
        intro a ha hac
        apply hany
        rw [List.any_eq_true]
        exact ⟨a, ha, by simp [hac.1, hac.2]⟩
  | chan n cl =>
    simp only [step] at hs
    split at hs
    · rename_i hloc
      obtain ⟨ch, hch, rfl⟩ := Option.map_eq_some_iff.1 hs
      apply h.setNode
      exact (h.node n).chan ch (chan_step_routers _ _ _ (localLabel_not_register _ hloc) hch)
        (chan_step_deliv _ _ _ (localLabel_not_recvReply _ hloc) hch)
    · cases hs
  | send n confirm lost =>
    simp only [step] at hs
    split at hs
    · cases hs
    · rename_i id hheld
      split at hs
      · cases hs
      · rename_i p hpay
        obtain ⟨ch, hch, rfl⟩ := Option.map_eq_some_iff.1 hs
        apply h.setNode
        have hN := (h.node n).chan ch
          (chan_step_routers _ _ _ (by intro _ _ _ hl; cases hl) hch)
          (chan_step_deliv _ _ _ (by intro _ _ hl; cases hl) hch)
        refine ⟨hN.routerIssued, ?_, hN.runningIssued, hN.downGenuine, hN.delivGenuine⟩
        intro q hq
        simp only at hq
        split at hq
        · exact hN.upIssued q hq
        · rcases List.mem_append.1 hq with hq | hq
          · exact hN.upIssued q hq
          · rw [List.mem_singleton] at hq; subst hq
            exact payloadOf_some s id n p hpay
  | srvRecv n =>
    simp only [step] at hs
    split at hs
    · cases hs
    · rename_i id p rest hup
      obtain ⟨sv, hsv, rfl⟩ := Option.map_eq_some_iff.1 hs
      apply h.setNode
      have hN := h.node n
      refine ⟨hN.routerIssued, ?_, ?_, hN.downGenuine, hN.delivGenuine⟩
      · intro q hq
        exact hN.upIssued q (by rw [hup]; exact List.mem_cons_of_mem _ hq)
      · intro q hq
        rcases List.mem_append.1 hq with hq | hq
        · exact hN.runningIssued q hq
        · rw [List.mem_singleton] at hq; subst hq
          exact hN.upIssued (id, p) (by rw [hup]; exact List.mem_cons_self ..)
  | srvRelease n id =>
    simp only [step] at hs
    obtain ⟨sv, hsv, rfl⟩ := Option.map_eq_some_iff.1 hs
    apply h.setNode
    have hN := h.node n
    exact ⟨hN.routerIssued, hN.upIssued, hN.runningIssued, hN.downGenuine, hN.delivGenuine⟩
  | srvAcquire n =>
    simp only [step] at hs
    obtain ⟨sv, hsv, rfl⟩ := Option.map_eq_some_iff.1 hs
    apply h.setNode
    have hN := h.node n
    exact ⟨hN.routerIssued, hN.upIssued, hN.runningIssued, hN.downGenuine, hN.delivGenuine⟩
  | srvReply n id =>
    simp only [step] at hs
    split at hs
    · cases hs
    · rename_i id' p hfind
      obtain ⟨sv, hsv, rfl⟩ := Option.map_eq_some_iff.1 hs
      have hmem := List.mem_of_find?_eq_some hfind
      have hp := List.find?_some hfind
      simp only [beq_iff_eq] at hp
      subst hp
      apply h.setNode
      have hN := h.node n
      refine ⟨hN.routerIssued, hN.upIssued, ?_, ?_, hN.delivGenuine⟩
      · intro q hq
        exact hN.runningIssued q (List.mem_filter.1 hq).1
      · intro q hq
        rcases List.mem_append.1 hq with hq | hq
        · exact hN.downGenuine q hq
        · rw [List.mem_singleton] at hq; subst hq
          obtain ⟨c, hc⟩ := hN.runningIssued _ hmem
          exact ⟨id', c, p, rfl, hc, rfl⟩
  | recv n =>
    simp only [step] at hs
    split at hs
    · cases hs
    · rename_i i r rest hdown
      obtain ⟨ch, hch, rfl⟩ := Option.map_eq_some_iff.1 hs
      simp only [Chan.step, Option.some.injEq] at hch
      subst hch
      apply h.setNode
      exact nodeInv_recv P s n h i r rest hdown
  | wireDie n =>
    simp only [step, Option.some.injEq] at hs
    subst hs
    apply h.setNode
    have hN := h.node n
    refine ⟨hN.routerIssued, ?_, ?_, ?_, hN.delivGenuine⟩
    · intro q hq; cases hq
    · intro q hq; cases hq
    · intro q hq; cases hq

theorem inv_reachable (P : Params) (s : State) (h : Reachable P s) : Inv P s := by
  obtain ⟨ls, hls⟩ := h
  exact exec_induct P (Inv P) (inv_step P) ls init s (inv_init P) hls

end GorumsV.Net
