import GorumsV.Props.Net
import GorumsV.Props.C01
/-!
  Helper lemmas for Props/NetCall.lean: members of `extensions` are prefixes; what the steps of the
  channel and of the server connection do to `sent` / `started`; the stream invariant of the composite.
-/
namespace GorumsV.Net
open GorumsV

/-! ### extensions -/

theorem mem_extensions {α} (l : List α) : ∀ (acc p : List α), p ∈ C02.extensions acc l →
    ∃ q, q <+: l ∧ p = acc ++ q := by
  induction l with
  | nil => intro acc p hp; simp [C02.extensions] at hp
  | cons a as ih =>
    intro acc p hp
    simp only [C02.extensions, List.mem_cons] at hp
    rcases hp with hp | hp
    · exact ⟨[a], by simp [List.prefix_iff_eq_append], hp⟩
    · obtain ⟨q, hq, rfl⟩ := ih _ _ hp
      refine ⟨a :: q, ?_, by simp⟩
      obtain ⟨t, rfl⟩ := hq
      exact ⟨t, by simp⟩

theorem mem_of_mem_extensions_nil {α} (l p : List α) (hp : p ∈ C02.extensions [] l) (x : α) (hx : x ∈ p) :
    x ∈ l := by
  obtain ⟨q, hq, hpq⟩ := mem_extensions l [] p hp
  rw [List.nil_append] at hpq
  subst hpq
  exact hq.subset hx

/-! ### `sent` of the channel -/

@[simp] theorem route_sent (s : Chan.State) (id : Chan.MsgId) (r : Chan.Resp) : (Chan.route s id r).sent = s.sent := by
  unfold Chan.route
  split <;> rfl

theorem chan_step_sent (c c' : Chan.State) (l : Chan.Label)
    (hl : ∀ cf, l ≠ .sendOk cf) (h : Chan.step c l = some c') : c'.sent = c.sent := by
  cases l with
  | register id cc st =>
    simp only [Chan.step] at h
    split at h
    · cases h
    · cases h; rfl
  | handoff id =>
    simp only [Chan.step] at h
    split at h
    · cases h
    · cases h; rfl
  | closedAnswer id =>
    simp only [Chan.step, Option.some.injEq] at h
    subst h; simp
  | pop =>
    simp only [Chan.step] at h
    split at h
    · cases h; rfl
    · cases h
  | sendOk confirm => exact absurd rfl (hl confirm)
  | sendFail kind confirm =>
    simp only [Chan.step] at h
    split at h
    · cases h
    · cases h
      rw [route_sent]
      split
      · rw [route_sent]
      · rfl
  | recvReply id r =>
    simp only [Chan.step, Option.some.injEq] at h
    subst h; simp
  | streamDown =>
    simp only [Chan.step, Option.some.injEq] at h
    subst h; rfl
  | replaceCancel =>
    simp only [Chan.step, Option.some.injEq] at h
    subst h; rfl
  | deleteRouter id =>
    simp only [Chan.step, Option.some.injEq] at h
    subst h; rfl

theorem chan_step_sendOk_sent (c c' : Chan.State) (cf : Bool) (id : Chan.MsgId) (hh : c.held = some id)
    (h : Chan.step c (.sendOk cf) = some c') : c'.sent = c.sent ++ [id] := by
  simp only [Chan.step, hh, Option.some.injEq] at h
  subst h
  split
  · rw [route_sent]
  · rfl

theorem localLabel_not_sendOk (l : Chan.Label) (h : localLabel l = true) : ∀ cf, l ≠ .sendOk cf := by
  intro cf hl; subst hl; simp [localLabel] at h

/-! ### `started` of the server connection -/

theorem fire_started (s : SrvConn.State) (r : SrvConn.ReqId) :
    SrvConn.started (SrvConn.fire s r) = SrvConn.started s := by
  have hm : (s.handlers.map (fun h' => if h'.req == r then { h' with released := true } else h')).map (·.req)
      = s.handlers.map (·.req) := by
    rw [List.map_map]
    apply List.map_congr_left
    intro h _
    simp only [Function.comp]
    split <;> rfl
  unfold SrvConn.fire
  split
  · rfl
  · split
    · rfl
    · simp only [SrvConn.started]
      split <;> exact hm

theorem srv_step_recv_started (s s' : SrvConn.State) (r : SrvConn.ReqId)
    (h : SrvConn.step s (.recv r) = some s') : SrvConn.started s' = SrvConn.started s ++ [r] := by
  simp only [SrvConn.step] at h
  split at h
  · cases h
  · cases h; simp [SrvConn.started]

theorem srv_step_started (s s' : SrvConn.State) (l : SrvConn.Label) (hl : ∀ r, l ≠ .recv r)
    (h : SrvConn.step s l = some s') : SrvConn.started s' = SrvConn.started s := by
  cases l with
  | recv r => exact absurd rfl (hl r)
  | release r =>
    simp only [SrvConn.step] at h
    split at h
    · cases h; exact fire_started s r
    · cases h
  | ret r =>
    simp only [SrvConn.step] at h
    split at h
    · cases h
      rw [← fire_started s r]
      simp only [SrvConn.started]
      rw [List.map_map]
      apply List.map_congr_left
      intro h _
      simp only [Function.comp]
      split <;> rfl
    · cases h
  | acquire =>
    simp only [SrvConn.step] at h
    split at h
    · cases h; rfl
    · cases h

/-! ### the stream invariant -/

def StreamOk (x : NodeSt) : Prop :=
  (SrvConn.started x.srv ++ x.up.map (·.1)).Sublist x.chan.sent

def StreamInv (s : State) : Prop := ∀ n, StreamOk (s.nodes n)

theorem StreamInv.setNode {s : State} (h : StreamInv s) (n : NodeId) (x : NodeSt) (hx : StreamOk x) :
    StreamInv (setNode s n x) := by
  intro m
  by_cases hm : m = n
  · subst hm; rw [setNode_nodes_self]; exact hx
  · rw [setNode_nodes_ne _ _ _ _ hm]; exact h m

theorem streamInv_init : StreamInv init := by
  intro n
  simp [StreamOk, init, SrvConn.started]

theorem streamInv_step (P : Params) (s s' : State) (l : Label) (h : StreamInv s) (hs : step P s l = some s') :
    StreamInv s' := by
  cases l with
  | newCall c =>
    simp only [step] at hs
    split at hs
    · cases hs
    · cases hs; exact h
  | target c n p streaming =>
    simp only [step] at hs
    split at hs
    · cases hs
    · split at hs
      · cases hs
      · obtain ⟨ch, hch, rfl⟩ := Option.map_eq_some_iff.1 hs
        have hsent := chan_step_sent _ _ _ (by intro _ hl; cases hl) hch
        have := h n
        intro m
        show StreamOk ((setNode s n { s.nodes n with chan := ch }).nodes m)
        refine StreamInv.setNode h n _ ?_ m
        simp only [StreamOk, hsent]
        exact this
  | chan n cl =>
    simp only [step] at hs
    split at hs
    · rename_i hloc
      obtain ⟨ch, hch, rfl⟩ := Option.map_eq_some_iff.1 hs
      have hsent := chan_step_sent _ _ _ (localLabel_not_sendOk _ hloc) hch
      apply h.setNode
      have := h n
      simp only [StreamOk, hsent]
      exact this
    · cases hs
  | send n confirm lost =>
    simp only [step] at hs
    split at hs
    · cases hs
    · rename_i id hheld
      split at hs
      · cases hs
      · rename_i p hpay
        obtain ⟨ch, hch, rfl⟩ := Option.map_eq_some_iff.1 hs
        have hsent := chan_step_sendOk_sent _ _ _ id hheld hch
        apply h.setNode
        have := h n
        simp only [StreamOk, hsent]
        split
        · exact List.Sublist.trans this (List.sublist_append_left _ _)
        · simp only [List.map_append, List.map_cons, List.map_nil, ← List.append_assoc]
          exact List.Sublist.append this (List.Sublist.refl _)
  | srvRecv n =>
    simp only [step] at hs
    split at hs
    · cases hs
    · rename_i id p rest hup
      obtain ⟨sv, hsv, rfl⟩ := Option.map_eq_some_iff.1 hs
      have hst := srv_step_recv_started _ _ _ hsv
      apply h.setNode
      have := h n
      simp only [StreamOk, hup, List.map_cons] at this
      simp only [StreamOk, hst, List.append_assoc, List.singleton_append]
      exact this
  | srvRelease n id =>
    simp only [step] at hs
    obtain ⟨sv, hsv, rfl⟩ := Option.map_eq_some_iff.1 hs
    have hst := srv_step_started _ _ _ (by intro _ hl; cases hl) hsv
    apply h.setNode
    have := h n
    simp only [StreamOk, hst]
    exact this
  | srvAcquire n =>
    simp only [step] at hs
    obtain ⟨sv, hsv, rfl⟩ := Option.map_eq_some_iff.1 hs
    have hst := srv_step_started _ _ _ (by intro _ hl; cases hl) hsv
    apply h.setNode
    have := h n
    simp only [StreamOk, hst]
    exact this
  | srvReply n id =>
    simp only [step] at hs
    split at hs
    · cases hs
    · obtain ⟨sv, hsv, rfl⟩ := Option.map_eq_some_iff.1 hs
      have hst := srv_step_started _ _ _ (by intro _ hl; cases hl) hsv
      apply h.setNode
      have := h n
      simp only [StreamOk, hst]
      exact this
  | recv n =>
    simp only [step] at hs
    split at hs
    · cases hs
    · obtain ⟨ch, hch, rfl⟩ := Option.map_eq_some_iff.1 hs
      have hsent := chan_step_sent _ _ _ (by intro _ hl; cases hl) hch
      apply h.setNode
      have := h n
      simp only [StreamOk, hsent]
      exact this
  | wireDie n =>
    simp only [step, Option.some.injEq] at hs
    subst hs
    apply h.setNode
    simp [StreamOk, SrvConn.started, SrvConn.init]

theorem streamInv_reachable (P : Params) (s : State) (h : Reachable P s) : StreamInv s := by
  obtain ⟨ls, hls⟩ := h
  exact exec_induct P StreamInv (streamInv_step P) ls init s streamInv_init hls

end GorumsV.Net
