import GorumsV.Model.NodeConn
import Driver.Util
/-!
  Engine `nodeconn`:  nodeconn id=<n> ops=d,f,c,d,…      d: dial that succeeds · f: dial that fails · c: close
  answers            id=<n> snaps=<closed><conn><live>|…  one snapshot per operation: closed 0/1, n.conn set 0/1,
                                                          number of connections created and not closed
  The model runs with the good parameters (what the tree has: Tie/C12 `nodeConn_good`); a dial is `dialBegin`
  followed by `dialEnd` (the implementation's dial is one call).
-/
namespace GorumsV.Driver
open GorumsV.NodeConn

def ncGood : Params := ⟨true, true, true, true⟩

def ncSnap (s : St) : String :=
  s!"{if s.closed then 1 else 0}{if s.conn.isSome then 1 else 0}{s.live.length}"

def ncOp (s : St) (op : String) : Option St :=
  match op with
  | "d" => (step ncGood s .dialBegin).bind fun s' => if s'.dialing then step ncGood s' (.dialEnd true) else some s'
  | "f" => (step ncGood s .dialBegin).bind fun s' => if s'.dialing then step ncGood s' (.dialEnd false) else some s'
  | "c" => step ncGood s .close
  | _ => none

def nodeconnLine (line : String) : String :=
  let fs := fields line
  match field? fs "id", field? fs "ops" with
  | some id, some ops =>
    let rec go (s : St) (l : List String) (acc : List String) : Option (List String) :=
      match l with
      | [] => some acc.reverse
      | op :: rest =>
        match ncOp s op with
        | none => none
        | some s' => go s' rest (ncSnap s' :: acc)
    match go init (splitNonEmpty ops ",") [] with
    | none => s!"id={id} bad-op"
    | some snaps => s!"id={id} snaps={String.intercalate "|" snaps}"
  | _, _ => "bad-op"

end GorumsV.Driver
