import GorumsV.Model.ReplyLoop
import Driver.Util
/-!
  Engine `qc`: the reply loop of the quorum-call family, run with the *good*
  parameters (the ones the property needs), on the arrival list of the case.
  Line format (see /verif/harness/cmd/hx/qc.go):
    qc id=<n> m=<variant> x=<expected> qf=<thr|maj|sum>:<k> arr=<a>,… cfg=… skip=…
    a ::= r<nid>:<val> | e<nid>:<code> | x<nid>:0 | c
-/
namespace GorumsV.Driver
open GorumsV.ReplyLoop

def goodParams : Params := { exhausted := fun e r x => decide (e + r = x), preCheck := true, ctxCause := true }

/-- the table-driven quorum functions the harness implements as well -/
def qfEval (kind : String) (k : Int) (reps : RepMap Int) : Int × Bool :=
  let vals := reps.map (·.2)
  match kind with
  | "thr" => (vals.foldl (fun a b => if b > a then b else a) 0, decide (k ≤ (vals.length : Int)))
  | "maj" =>
      let good := vals.filter (fun v => decide (k ≤ ((vals.filter (· == v)).length : Int)))
      match good with
      | [] => (-1, false)
      | v :: vs => (vs.foldl (fun a b => if b < a then b else a) v, true)
  | "sum" => let s := vals.foldl (· + ·) 0; (s, decide (k ≤ s))
  | _ => (0, false)

def parseArrival (s : String) : Option (Arrival Int Nat) :=
  if s == "c" then some (.ctxDone 0)
  else
    let body := (s.drop 1).toString
    match body.splitOn ":" with
    | [n, v] =>
      match n.toNat?, v.toInt? with
      | some n, some v =>
        if s.startsWith "r" then some (.reply n v)
        else if s.startsWith "e" || s.startsWith "x" then some (.error n n)   -- x = the node's connection breaks while its request is pending
        else none
      | _, _ => none
    | _ => none

def showMap (m : RepMap Int) : String :=
  String.intercalate "+" ((sortBy (·.1) m).map fun p => s!"{p.1}={p.2}")

def showIds (l : List (NodeId × Nat)) : String := String.intercalate "." (l.map fun p => toString p.1)

def showOutcome : Outcome Int Nat → String
  | .ok v => s!"ok:{v}"
  | .incomplete errs n => s!"inc:{showIds errs}:{n}"
  | .ctxErr _ errs n => s!"ctx:{showIds errs}:{n}"
  | .waiting => "wait"

def isCtxDone : Arrival Int Nat → Bool
  | .ctxDone _ => true
  | _ => false

/-- The schedule the harness realises: it ends the context only after the arrival before it has been
    consumed — i.e. after the loop has been through its exhaustion test — except when the context's end is
    the first event of the case, which the harness issues before the call.  So the history the model is run
    on is the case's arrival list, unless the part before the context's end already decides the call. -/
def runCase (qf : RepMap Int → Int × Bool) (x : Nat) (as : List (Arrival Int Nat)) :
    Outcome Int Nat × List (RepMap Int) :=
  let pre := as.takeWhile (fun a => !isCtxDone a)
  if pre.isEmpty then run goodParams qf x as
  else
    let r := run goodParams qf x pre
    match r.1 with
    | .waiting => run goodParams qf x as
    | _ => r

def qcLine (line : String) : String :=
  let fs := fields line
  match field? fs "id", (field? fs "x").bind String.toNat?, field? fs "qf", field? fs "arr" with
  | some id, some x, some qf, some arr =>
    match qf.splitOn ":" with
    | [kind, k] =>
      match k.toInt? with
      | some k =>
        let as := (splitNonEmpty arr ",").map parseArrival
        if as.any Option.isNone then s!"id={id} bad-op"
        else
          let as := as.filterMap (fun a => a)
          let (o, log) := runCase (qfEval kind k) x as
          s!"id={id} out={showOutcome o} log={joinOr (log.map showMap) ";"}"
      | none => s!"id={id} bad-op"
    | _ => s!"id={id} bad-op"
  | _, _, _, _ => "id=? bad-op"

end GorumsV.Driver
