import GorumsV.Model.Codec
import Driver.Util
/-!
  Engine `codec`.
    enc id=<n> md=<hex> msg=<hex>
        -> id=<n> frame=<hex>
    dec id=<n> dir=req|resp b=<hex> mdok=0|1 kind=none|other|method in=<T> out=<T> hasin=0|1 hasout=0|1 msgok=0|1
        -> id=<n> mdbuf=<hex> mdlen=<int> msgbuf=<hex> out=ok:<T> | err:<stage> | panic:<why>
  The oracle answers (`mdok`, `kind`, …) are what the real third-party functions said
  about the slices the real framing produced; the driver computes its own slices with
  the Lean model of protowire and prints them, so the harness can compare both.
-/
namespace GorumsV.Driver
open GorumsV.Codec

def hexDigit (c : Char) : Option Nat :=
  if '0' ≤ c && c ≤ '9' then some (c.toNat - '0'.toNat)
  else if 'a' ≤ c && c ≤ 'f' then some (c.toNat - 'a'.toNat + 10)
  else none

def parseHex (s : String) : Option Bytes :=
  if s == "-" then some [] else
  let rec go : List Char → Option Bytes
    | [] => some []
    | [_] => none
    | a :: b :: rest =>
      match hexDigit a, hexDigit b, go rest with
      | some x, some y, some r => some (UInt8.ofNat (x * 16 + y) :: r)
      | _, _, _ => none
  go s.toList

def hexOf (b : Bytes) : String :=
  if b.isEmpty then "-" else
  let d (n : Nat) : Char := if n < 10 then Char.ofNat (n + '0'.toNat) else Char.ofNat (n - 10 + 'a'.toNat)
  String.ofList (b.flatMap fun x => [d (x.toNat / 16), d (x.toNat % 16)])

def codecLine (line : String) : String :=
  let fs := fields line
  let id := (field? fs "id").getD "?"
  if line.startsWith "enc " then
    match (field? fs "md").bind parseHex, (field? fs "msg").bind parseHex with
    | some md, some msg => s!"id={id} frame={hexOf (encodeFrame md msg)}"
    | _, _ => s!"id={id} bad-op"
  else if line.startsWith "dec " then
    match (field? fs "b").bind parseHex, field? fs "dir", field? fs "kind" with
    | some b, some dir, some kind =>
      let flag (k : String) : Bool := field? fs k == some "1"
      let inT := (field? fs "in").getD ""
      let outT := (field? fs "out").getD ""
      let O : Oracles Unit Unit :=
        { parseMetadata := fun _ => if flag "mdok" then some () else none
          methodOf := fun _ => "m"
          lookup := fun _ => match kind with
            | "method" => .method inT outT
            | "other" => .other
            | _ => .notFound
          hasType := fun n => if n == inT then flag "hasin" else flag "hasout"
          parseMsg := fun _ _ => if flag "msgok" then some () else none }
      let d : Dir := if dir == "req" then .request else .response
      let (mdBuf, mdLen) := consumeBytes b
      let msgBuf := if mdLen < 0 then [] else (consumeBytes (b.drop mdLen.toNat)).1
      let out := match unmarshal O true d b with
        | .ok _ t _ => s!"ok:{t}"
        | .error st => s!"err:{st}"
        | .panic w => s!"panic:{w.replace " " "_"}"
      s!"id={id} mdbuf={hexOf mdBuf} mdlen={mdLen} msgbuf={hexOf msgBuf} out={out}"
    | _, _, _ => s!"id={id} bad-op"
  else s!"id={id} bad-op"

end GorumsV.Driver
