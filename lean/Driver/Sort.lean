import GorumsV.Model.Sort
import Driver.Util
/-!
  Engine `sort`:  sort id=<n> keys=ID,Port,… nodes=<id>/<port>/<0|1>;…
  answers        id=<n> less=<matrix of multiLess over the given list, row-major, 0/1/P>
                        proj=<key tuples, projected on the used keys, of the model's own sort>
-/
namespace GorumsV.Driver
open GorumsV.NodeSort

def keyOf : String → Option LessFn
  | "ID" => some byID
  | "Port" => some byPort
  | "LastNodeError" => some byLastErr
  | _ => none

def parseNode (s : String) : Option Key :=
  match s.splitOn "/" with
  | [i, p, e] =>
    match i.toNat?, p.toInt?, e with
    | some i, some p, "0" => some ⟨i, p, false⟩
    | some i, some p, "1" => some ⟨i, p, true⟩
    | _, _, _ => none
  | _ => none

def proj (names : List String) (k : Key) : String :=
  String.intercalate "/" (names.map fun n =>
    match n with
    | "ID" => toString k.id
    | "Port" => toString k.port
    | _ => if k.hasErr then "1" else "0")

def sortLine (line : String) : String :=
  let fs := fields line
  match field? fs "id", field? fs "keys", field? fs "nodes" with
  | some id, some keys, some nodes =>
    let names := splitNonEmpty keys ","
    let ks := names.map keyOf
    let ns := (splitNonEmpty nodes ";").map parseNode
    if ks.any Option.isNone || ns.any Option.isNone then s!"id={id} bad-op"
    else
      let ks := ks.filterMap (fun a => a)
      let ns := ns.filterMap (fun a => a)
      let cell (p q : Key) : String :=
        match multiLess ks p q with
        | none => "P"
        | some true => "1"
        | some false => "0"
      let less := String.join (ns.map fun p => String.join (ns.map fun q => cell p q))
      let sorted := isort (lexLt ks) ns
      s!"id={id} less={if less.isEmpty then "-" else less} proj={joinOr (sorted.map (proj names)) ";"}"
  | _, _, _ => "id=? bad-op"

end GorumsV.Driver
