import GorumsV.Model.SrvConn
import GorumsV.Model.Chan
import Driver.Util
/-!
  Engine `srv` — trace acceptor for one client connection of a server (model `SrvConn`):
    srv id=<n> ev=e1,r1,x1,e2,…      e<k> handler of request k entered · r<k> Release called · x<k> handler returned
  answers  id=<n> accept max=<max unreleased>  |  id=<n> reject@<index>:<event>
  The internal `acquire` (the loop's Lock succeeding) is inserted where the next `enter` needs it.

  Engine `order` — per node: is the order in which handlers were started a duplicate-free
  subsequence of the order in which the requests were handed to the node (models `Chan` + `SrvConn`)?
    order id=<n> pushed=1,2,3,… started=1,3,…  calm=0|1
  answers  id=<n> ok | id=<n> bad:<reason>
-/
namespace GorumsV.Driver
open GorumsV.SrvConn

def parseEv (s : String) : Option (Char × Nat) :=
  match s.toList with
  | c :: rest => (String.ofList rest).toNat?.map (fun n => (c, n))
  | [] => none

def srvRun : State → Nat → Nat → List (Char × Nat) → String
  | _, _, mx, [] => s!"accept max={mx}"
  | s, i, mx, (c, r) :: rest =>
    let bad := s!"reject@{i}:{c}{r}"
    match c with
    | 'e' =>
      -- the loop must be able to take the mutex again before it can receive the next request
      let s1 := if s.loopWaiting then step s .acquire else some s
      match s1.bind (fun s1 => step s1 (.recv r)) with
      | some s' => srvRun s' (i + 1) (max mx (unreleased s')) rest
      | none => bad
    | 'r' => match step s (.release r) with
      | some s' => if s'.fatal then s!"reject@{i}:fatal-unlock" else srvRun s' (i + 1) mx rest
      | none => bad
    | 'x' => match step s (.ret r) with
      | some s' => if s'.fatal then s!"reject@{i}:fatal-unlock" else srvRun s' (i + 1) mx rest
      | none => bad
    | _ => bad

def srvLine (line : String) : String :=
  let fs := fields line
  match field? fs "id", field? fs "ev" with
  | some id, some ev =>
    let evs := (splitNonEmpty ev ",").map parseEv
    if evs.any Option.isNone then s!"id={id} bad-op"
    else s!"id={id} {srvRun init 0 0 (evs.filterMap (fun a => a))}"
  | _, _ => "id=? bad-op"

def isSublist : List Nat → List Nat → Bool
  | [], _ => true
  | _ :: _, [] => false
  | a :: as, b :: bs => if a == b then isSublist as bs else isSublist (a :: as) bs

def orderLine (line : String) : String :=
  let fs := fields line
  match field? fs "id", field? fs "pushed", field? fs "started" with
  | some id, some p, some st =>
    let p := (splitNonEmpty p ",").filterMap String.toNat?
    let st := (splitNonEmpty st ",").filterMap String.toNat?
    let calm := field? fs "calm" == some "1"
    if !(st.eraseDups.length == st.length) then s!"id={id} bad:handler-started-twice"
    else if !isSublist st p then s!"id={id} bad:start-order-differs-from-issue-order"
    else if calm && st != p then s!"id={id} bad:not-every-call-handled"
    else s!"id={id} ok"
  | _, _, _ => "id=? bad-op"

end GorumsV.Driver
