import GorumsV.Model.Correctable
import Driver.Util
import Driver.QC
/-!
  Engine `corr`:
    corr id=<n> m=<variant> stream=0|1 x=<expected> qf=<cnt|val|zig|dlow>:<k> seq=<item>,…
    item ::= r<nid>:<val> | e<nid>:<code> | x<nid>:0 | c | w<level>
             (w = register Watch(level) now; x = the server behind the node dies: its stream fails)
  answers  id=<n> snaps=<s0>|<s1>|…   one snapshot after the call was issued (6 watchers for the
  levels -1,0,1,2,3,5 registered) and one after every item, each
    v=<raw value|nil>,tv=<typed value|nil|PANIC>,l=<level>,e=<none|inc:ids:n|ctx:ids:n>,d=<0|1>,w=<closed flags>
-/
namespace GorumsV.Driver
open GorumsV.ReplyLoop GorumsV.Correctable

def cqfEval (kind : String) (k : Int) (reps : RepMap Int) : Int × Int × Bool :=
  let vals := reps.map (·.2)
  let n : Int := vals.length
  let mx := vals.foldl (fun a b => if b > a then b else a) 0
  let sm := vals.foldl (· + ·) 0
  match kind with
  | "cnt" => (mx, n, decide (k ≤ n))
  | "val" => (sm, mx, decide (k ≤ sm))
  | "zig" => (n, (n * 3) % 4, decide (k ≤ n))
  | "dlow" => (mx, if decide (k ≤ n) then 0 else n, decide (k ≤ n))
  | _ => (0, 0, false)

inductive CItem | arr (a : Arrival Int Nat) | watch (l : Int) | crash (n : NodeId)

def parseCItem (s : String) : Option CItem :=
  if s.startsWith "w" then ((s.drop 1).toString.toInt?).map CItem.watch
  else if s.startsWith "x" then
    match ((s.drop 1).toString.splitOn ":") with
    | [n, _] => n.toNat?.map CItem.crash
    | _ => none
  else (parseArrival s).map CItem.arr

def showCErr : Option (CErr Nat) → String
  | none => "none"
  | some (.incomplete errs n) => s!"inc:{showIds errs}:{n}"
  | some (.ctx _ errs n) => s!"ctx:{showIds errs}:{n}"

def showSnap (o : Obj Int Nat) : String :=
  let v := match o.reply with | some v => toString v | none => "nil"
  let tv := match (o.typedGet (fun _ => true)).1 with | .value v => toString v | .nil => "nil" | .panic => "PANIC"
  let w := String.join (o.watchers.map fun w => if w.closed then "1" else "0")
  s!"v={v},tv={tv},l={o.level},e={showCErr o.err},d={if o.done then 1 else 0},w={w}"

/-- the arrivals among the items of a case (the part of the history that has not been consumed) -/
def arrivalsOf (items : List CItem) : List (Arrival Int Nat) :=
  items.filterMap fun i => match i with | .arr a => some a | _ => none

/-- settle: the top-of-loop exhaustion test after the last consumed arrival; `rest` = the part of the history
    the test can see (the branch reports the context's error when the context's end is the next event, exactly
    as `Correctable.run` does).  The harness ends the context only after it has taken the snapshot that follows
    the previous arrival — i.e. after that exhaustion test — so `rest` is empty there; only a context end that is
    the first item of a case is issued before the call (see `corrLine`). -/
def settle (stream : Bool) (x : Nat) (st : LoopSt Int Nat Int) (o : Obj Int Nat)
    (rest : List (Arrival Int Nat)) : Obj Int Nat :=
  if o.done then o
  else if exhausted stream st.errs.length st.replies.length x then
    (o.set st.resp st.clevel (some (exhaustedErr st.errs st.replies.length rest)) true).getD o
  else o

def corrRun (qf : RepMap Int → Int × Int × Bool) (stream : Bool) (x : Nat) :
    LoopSt Int Nat Int → Obj Int Nat → List CItem → List String
  | _, _, [] => []
  | st, o, .watch l :: rest =>
    let o' := o.watch l
    showSnap o' :: corrRun qf stream x st o' rest
  | st, o, .crash n :: rest =>
    -- the node's stream fails: every request that still has a router on it is answered with one error; a
    -- request that the node has already answered with an error has none (Chan: `no_router_after_error`,
    -- `at_most_one_error`), so a node that has failed is not reported a second time
    if o.done || st.errs.any (fun p => p.1 == n) then showSnap o :: corrRun qf stream x st o rest
    else match stepArrival qf stream x st o (.error n n) with
      | none => ["SET-PANIC"]
      | some (st', o', _) =>
        let o'' := settle stream x st' o' []
        showSnap o'' :: corrRun qf stream x st' o'' rest
  | st, o, .arr a :: rest =>
    if o.done then showSnap o :: corrRun qf stream x st o rest   -- the loop has returned: nothing is consumed
    else match stepArrival qf stream x st o a with
      | none => ["SET-PANIC"]
      | some (st', o', _) =>
        let o'' := settle stream x st' o' []
        showSnap o'' :: corrRun qf stream x st' o'' rest

def corrLine (line : String) : String :=
  let fs := fields line
  match field? fs "id", (field? fs "x").bind String.toNat?, field? fs "qf", field? fs "seq", field? fs "stream" with
  | some id, some x, some qf, some seq, some stream =>
    match qf.splitOn ":" with
    | [kind, k] =>
      match k.toInt? with
      | some k =>
        let items := (splitNonEmpty seq ",").map parseCItem
        if items.any Option.isNone then s!"id={id} bad-op"
        else
          let items := items.filterMap (fun a => a)
          let st : LoopSt Int Nat Int := {}
          let first : List (Arrival Int Nat) := match items with
            | .arr (.ctxDone c) :: _ => [.ctxDone c]
            | _ => []
          let o0 : Obj Int Nat := settle (stream == "1") x st init first
          let o1 := [-1, 0, 1, 2, 3, 5].foldl (fun o l => o.watch l) o0
          let snaps := showSnap o1 :: corrRun (cqfEval kind k) (stream == "1") x st o1 items
          s!"id={id} snaps={String.intercalate "|" snaps}"
      | none => s!"id={id} bad-op"
    | _ => s!"id={id} bad-op"
  | _, _, _, _, _ => "id=? bad-op"

end GorumsV.Driver
