import GorumsV.Model.Config
import Driver.Util
/-!
  Engine `cfg` (stateful): a sequence of configuration-building operations on one manager.
    cfg id=<n> op=new
    cfg id=<n> op=list addrs=a;b;c
    cfg id=<n> op=map m=addr~id;addr~id
    cfg id=<n> op=ids ids=1;2
    cfg id=<n> op=and a=<k> b=<k>        (k = index of an earlier successfully created configuration)
    cfg id=<n> op=except a=<k> b=<k>
    cfg id=<n> op=without a=<k> ids=1;2
    cfg id=<n> op=newnodes a=<k> addrs=a;b
    cfg id=<n> op=hash addr=a
  answers  id=<n> res=ok:<id@addr,…>|err pool=<id@addr,…>     (pool sorted by id for comparison)
-/
namespace GorumsV.Driver
open GorumsV.Config

structure CfgState where
  mgr : Mgr := {}
  cfgs : Array Cfg := #[]

def showCfg (c : Cfg) : String := joinOr (c.map fun n => s!"{n.id}@{n.addr}") ","

def natList (s : String) : Option (List Nat) :=
  let parts := splitNonEmpty s ";"
  let ns := parts.map String.toNat?
  if ns.any Option.isNone then none else some (ns.filterMap (fun a => a))

def cfgStep (st : CfgState) (line : String) : CfgState × String :=
  let fs := fields line
  let id := (field? fs "id").getD "?"
  let bad := (st, s!"id={id} bad-op")
  let finish (r : Mgr × Except Err Cfg) : CfgState × String :=
    let pool := showCfg (sortId r.1.nodes)
    match r.2 with
    | .ok c => ({ mgr := r.1, cfgs := st.cfgs.push c }, s!"id={id} res=ok:{showCfg c} pool={pool}")
    | .error _ => ({ st with mgr := r.1 }, s!"id={id} res=err pool={pool}")
  let cfgAt (k : String) : Option Cfg := (field? fs k).bind String.toNat? |>.bind (fun i => st.cfgs[i]?)
  match field? fs "op" with
  | some "new" => ({}, s!"id={id} res=new pool=-")
  | some "hash" => (st, s!"id={id} res=hash:{fnv32a ((field? fs "addr").getD "")} pool=-")
  | some "list" => finish (nodeList st.mgr (splitNonEmpty ((field? fs "addrs").getD "-") ";"))
  | some "map" =>
    let es := (splitNonEmpty ((field? fs "m").getD "-") ";").map fun e =>
      match e.splitOn "~" with
      | [a, i] => i.toNat?.map (fun i => (a, i))
      | _ => none
    if es.any Option.isNone then bad else finish (nodeMap st.mgr (es.filterMap (fun a => a)))
  | some "ids" =>
    match natList ((field? fs "ids").getD "-") with
    | some l => finish (nodeIDs st.mgr l)
    | none => bad
  | some "and" =>
    match cfgAt "a", cfgAt "b" with
    | some a, some b => finish (addConfig st.mgr a b)
    | _, _ => bad
  | some "except" =>
    match cfgAt "a", cfgAt "b" with
    | some a, some b => finish (exceptCfg st.mgr a b)
    | _, _ => bad
  | some "without" =>
    match cfgAt "a", natList ((field? fs "ids").getD "-") with
    | some a, some l => finish (withoutNodes st.mgr a l)
    | _, _ => bad
  | some "newnodes" =>
    match cfgAt "a" with
    | some a => finish (withNewNodes st.mgr a (splitNonEmpty ((field? fs "addrs").getD "-") ";"))
    | none => bad
  | _ => bad

end GorumsV.Driver
