/-! parsing helpers shared by the engines of the driver -/
namespace GorumsV.Driver

/-- `k=v` fields of a line (after the first word) -/
def fields (line : String) : List (String × String) :=
  (line.splitOn " ").filterMap fun f =>
    match f.splitOn "=" with
    | k :: v :: rest => some (k, String.intercalate "=" (v :: rest))
    | _ => none

def field? (fs : List (String × String)) (k : String) : Option String :=
  (fs.find? (·.1 == k)).map (·.2)

def splitNonEmpty (s : String) (sep : String) : List String :=
  if s == "-" || s.isEmpty then [] else s.splitOn sep

def joinOr (l : List String) (sep : String) : String :=
  if l.isEmpty then "-" else String.intercalate sep l

/-- insertion sort on a key (for canonical output) -/
def sortBy {α} (key : α → Nat) (l : List α) : List α :=
  l.foldl (fun acc x =>
    let (lo, hi) := acc.span (fun y => key y ≤ key x)
    lo ++ x :: hi) []

end GorumsV.Driver
