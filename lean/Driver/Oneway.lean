import GorumsV.Model.ReplyLoop
import Driver.Util
/-!
  Engine `oneway`:  oneway id=<n> m=<variant> pn=0|1 nsw=0|1 cfg=1.2.3 skip=2 empty=3
  answers          id=<n> deliver=<nid>:<o|p|e>,…  wait=<number of confirmations awaited>
  (o = the caller's original request, p = the per-node payload, e = the empty message)
-/
namespace GorumsV.Driver
open GorumsV.ReplyLoop

def idList (s : String) : List Nat := (splitNonEmpty s ".").filterMap String.toNat?

def onewayLine (line : String) : String :=
  let fs := fields line
  match field? fs "id", field? fs "cfg" with
  | some id, some cfg =>
    let cfg := idList cfg
    let skip := idList ((field? fs "skip").getD "-")
    let empty := idList ((field? fs "empty").getD "-")
    let pn := field? fs "pn" == some "1"
    let nsw := field? fs "nsw" == some "1"
    let f : String → NodeId → Option String := fun _ n =>
      if skip.contains n then none else if empty.contains n then some "e" else some "p"
    let ts := targets cfg (if pn then some f else none) "o"
    let wait := if nsw then 0 else mcastRemaining ts.length 0
    s!"id={id} deliver={joinOr (ts.map fun t => s!"{t.1}:{t.2}") ","} wait={wait}"
  | _, _ => "id=? bad-op"

end GorumsV.Driver
