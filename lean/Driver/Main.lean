import Driver.QC
import Driver.Sort
import Driver.Codec
import Driver.Cfg
import Driver.Corr
import Driver.Oneway
import Driver.Srv
import Driver.NodeConn
/-!
  The model driver (line protocol, DESIGN.md 3.5): reads one case per line on
  stdin, runs the executable Lean model, prints what it predicts.
  `driver <engine>`; every output line starts with `id=<n>`.
  Anything unparsable is answered with `bad-op` — the driver never defaults.
-/
open GorumsV.Driver

partial def loop (h : IO.FS.Stream) (f : String → String) : IO Unit := do
  let line ← h.getLine
  if line.isEmpty then return ()
  let l := line.trimAscii.toString
  if l.isEmpty then loop h f
  else
    IO.println (f l)
    loop h f

partial def loopSt {σ} (h : IO.FS.Stream) (f : σ → String → σ × String) (st : σ) : IO Unit := do
  let line ← h.getLine
  if line.isEmpty then return ()
  let l := line.trimAscii.toString
  if l.isEmpty then loopSt h f st
  else
    let (st', out) := f st l
    IO.println out
    loopSt h f st'

def main (args : List String) : IO UInt32 := do
  let stdin ← IO.getStdin
  match args with
  | ["qc"] => loop stdin qcLine; return 0
  | ["sort"] => loop stdin sortLine; return 0
  | ["codec"] => loop stdin codecLine; return 0
  | ["corr"] => loop stdin corrLine; return 0
  | ["oneway"] => loop stdin onewayLine; return 0
  | ["srv"] => loop stdin srvLine; return 0
  | ["order"] => loop stdin orderLine; return 0
  | ["nodeconn"] => loop stdin nodeconnLine; return 0
  | ["cfg"] => loopSt stdin cfgStep {}; return 0
  | _ => IO.eprintln "usage: driver <engine>"; return 2
