#!/usr/bin/env python3
"""Pins the skeleton digests the hand-written models were derived from:
copies the digests of lean/GorumsV/Generated/Skel.lean (current tree) into
lean/GorumsV/Model/Skeletons.lean as `expected_<name>`.  Run BY HAND, after
reviewing that the models still describe the code (never by ./check)."""
import re, os
V = os.path.dirname(os.path.dirname(os.path.abspath(__file__)))
src = open(os.path.join(V, "lean/GorumsV/Generated/Skel.lean")).read()
out = ["/-! Skeleton digests (sha256/64 of the normalised function bodies, see tools/gx) of the code",
       "    the hand-written models were derived from.  Pinned by scripts/pin_skel.py; compared with",
       "    the digests regenerated from /repo on every run by the `skel_*` obligations of the tie files. -/",
       "namespace GorumsV.Skeletons", ""]
for m in re.finditer(r'def (skel_\w+) : String := ("[0-9a-f]+")', src):
    out.append(f"def expected_{m.group(1)} : String := {m.group(2)}")
out += ["", "end GorumsV.Skeletons", ""]
open(os.path.join(V, "lean/GorumsV/Model/Skeletons.lean"), "w").write("\n".join(out))
print(len(out) - 7, "digests pinned")

# keep the normalised texts behind the pinned digests, so that a violation report can show old vs new
import shutil
src_dir = os.path.join(V, "out", "skel")
dst_dir = os.path.join(V, "skel_pinned")
if os.path.isdir(src_dir):
    shutil.rmtree(dst_dir, ignore_errors=True)
    shutil.copytree(src_dir, dst_dir)
