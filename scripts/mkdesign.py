#!/usr/bin/env python3
"""DESIGN.tmpl.md -> DESIGN.md: fills section 5 from scripts/props.py and section 11 from seeded/*/meta.json."""
import json, os, sys, glob
V = os.path.dirname(os.path.dirname(os.path.abspath(__file__)))
sys.path.insert(0, os.path.join(V, "scripts"))
import props

titles = {}
for l in open(os.path.join(V, "properties.jsonl")):
    d = json.loads(l)
    titles[d["id"]] = d["title"]

out = []
for k in sorted(props.PROPS):
    p = props.PROPS[k]
    engs = ", ".join("`%s` (%d / %d)" % (e["name"], e["quick"], e["thorough"]) for e in p["engines"]) or "none of its own (pre/post hook, see text)"
    skels = props.SKELS.get(k)
    out.append("### %s — %s\n" % (k, titles[k]))
    out.append("*Level claimed:* `%s`.  *Engines (quick / thorough cases):* %s.%s\n" % (
        p["level"], engs, ("  *Digests (T2):* %d functions / template files." % len(skels)) if skels else ""))
    out.append(p["text"] + "\n")
    if p.get("note"):
        out.append("*Limits / trusted:* " + p["note"] + "\n")
PROPS = "\n".join(out)

rows = ["| change | property | what it does | compiles + suite + demo confirmed | reported by (quick tier, seed 1) | how |", "|---|---|---|---|---|---|"]
n = caught = 0
for d in sorted(glob.glob(os.path.join(V, "seeded", "*"))):
    mf = os.path.join(d, "meta.json")
    if not os.path.exists(mf):
        continue
    m = json.load(open(mf))
    n += 1
    det = m.get("detected_by") or []
    if det:
        caught += 1
    how = []
    for p_, r in (m.get("checks") or {}).items():
        obs = []
        for u in r.get("undischarged") or []:
            u = u.replace("undischarged:", "").strip()
            name = u.split(":")[0].split(".")[-1]
            if name and name not in obs and not name.startswith("<"):
                obs.append(name)
        if obs:
            how.append("%s obligations: %s" % (p_, ", ".join("`%s`" % o for o in obs[:4]) + (" …" if len(obs) > 4 else "")))
        for d in (r.get("disagreements") or [])[:1]:
            d = d.replace("disagreement", "").strip()
            eng_ = d[d.find("[") + 1:d.find("]")] if "[" in d else ""
            exp = d[d.find("expected:"):][:150].replace("|", "/") if "expected:" in d else d[:150].replace("|", "/")
            how.append("engine `%s`: %s" % (eng_, exp))
    rows.append("| %s | %s | %s | %s | %s | %s |" % (m["id"], m["property"], m.get("summary", ""), "yes" if m.get("confirmed") else "NO",
                                                 ", ".join(det) if det else "**missed**", m.get("how") or "; ".join(how)))
SEEDED = "\n".join(rows) + "\n\n%d of %d seeded changes are reported by at least one check.\n" % (caught, n)
extra = os.path.join(V, "seeded", "NOTES.md")
if os.path.exists(extra):
    SEEDED += "\n" + open(extra).read()

s = open(os.path.join(V, "DESIGN.tmpl.md")).read()
s = s.replace("@@PROPS@@", PROPS).replace("@@SEEDED@@", SEEDED)
open(os.path.join(V, "DESIGN.md"), "w").write(s)
print("DESIGN.md written: %d lines" % s.count("\n"))
