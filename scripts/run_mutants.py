#!/usr/bin/env python3
"""run_mutants.py [ids...]: for each seeded change: apply to /repo, run the quick check of its property (and of the extra
properties named in EXTRA), revert; write seeded/<id>/meta.json (keeps summary/how if present) and print one line each.
Never commits anything to /repo; evidence is not rewritten (VERIF_NO_EVIDENCE=1)."""
import json, os, re, subprocess, sys, glob, time

V = os.path.dirname(os.path.dirname(os.path.abspath(__file__)))
ENV = dict(os.environ, GOFLAGS="-mod=mod", GOPROXY="off", GOSUMDB="off", GOTOOLCHAIN="local", VERIF_NO_EVIDENCE="1")
EXTRA = {}  # id -> extra properties whose checks are run too


def sh(cmd, cwd, timeout=2400):
    p = subprocess.run(cmd, shell=True, cwd=cwd, env=ENV, stdout=subprocess.PIPE, stderr=subprocess.STDOUT, text=True, timeout=timeout)
    return p.returncode, p.stdout


def clean_repo():
    sh("git checkout -- . && git clean -fdq", "/repo")


def run(mid, props=None):
    d = os.path.join(V, "seeded", mid)
    prop = mid.split("-")[0]
    meta_f = os.path.join(d, "meta.json")
    meta = json.load(open(meta_f)) if os.path.exists(meta_f) else {}
    meta.update(id=mid, property=prop)
    cf = os.path.join(d, "confirm.json")
    if os.path.exists(cf):
        c = json.load(open(cf))
        meta["confirmed"] = bool(c.get("confirmed"))
        meta["confirmed_at_repo_head"] = c.get("head")
    rc, out = sh("git status --porcelain", "/repo")
    if out.strip():
        raise SystemExit("/repo is not clean:\n" + out)
    rc, out = sh("git apply %s/patch.diff && go build ./..." % d, "/repo")
    if rc != 0:
        clean_repo()
        meta["error"] = "does not apply/build: " + out[-300:]
        json.dump(meta, open(meta_f, "w"), indent=1)
        return meta
    meta["files_changed"] = sh("git diff --name-only", "/repo")[1].split()
    results = {}
    try:
        for p in (props or [prop] + EXTRA.get(mid, [])):
            t0 = time.time()
            try:
                rc, out = sh("./check %s --tier quick" % p, V)
            except subprocess.TimeoutExpired:
                rc, out = 124, "TIMEOUT"
            viol = [l for l in out.splitlines() if l.startswith("VIOLATION")]
            und = [l.strip() for l in out.splitlines() if "undischarged" in l]
            dis = [l.strip() for l in out.splitlines() if l.strip().startswith("disagreement")]
            summary = [l for l in out.splitlines() if l.startswith("check ")]
            with_input = [v for v in viol if not v.rstrip().endswith("no-failing-input-found")]
            results[p] = dict(exit=rc, violations=len(viol), with_failing_input=len(with_input), undischarged=und[:6], disagreements=dis[:4],
                              summary=summary[-1] if summary else out[-300:], seconds=round(time.time() - t0, 1))
            # keep one replay as the sample
            if with_input:
                m = re.search(r"replay=(\S+)", with_input[0])
                if m and os.path.exists(m.group(1)):
                    try:
                        r = json.load(open(m.group(1)))
                        results[p]["sample_replay"] = {k: (v if not isinstance(v, str) else v[:600]) for k, v in r.items() if k in ("property", "engine", "case", "expected", "observed")}
                    except Exception:
                        pass
    finally:
        clean_repo()
    meta["checks"] = results
    det = []
    for p, r in results.items():
        if r["exit"] != 0 and r["violations"]:
            det.append("%s (%s)" % (p, "failing input" if r["with_failing_input"] else "no-failing-input-found"))
    meta["detected_by"] = det
    json.dump(meta, open(meta_f, "w"), indent=1)
    return meta


if __name__ == "__main__":
    ids = [a for a in sys.argv[1:] if not a.startswith("--")] or sorted(os.path.basename(p) for p in glob.glob(os.path.join(V, "seeded", "C*")))
    for mid in ids:
        m = run(mid)
        print(mid, "DETECTED" if m.get("detected_by") else "MISSED", m.get("detected_by") or m.get("error", ""), flush=True)
        for p, r in (m.get("checks") or {}).items():
            print("   ", r["summary"][:160], flush=True)
            for u in r["undischarged"][:3] + r["disagreements"][:2]:
                print("      ", u[:200], flush=True)
