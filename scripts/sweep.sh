#!/bin/bash
# usage: sweep.sh <tier> <seed-from> <seed-to> <prop> [<prop>...] — runs the checks over a seed range on the unchanged tree, one line per run.
tier=$1; a=$2; b=$3; shift 3
cd "$(dirname "$0")/.."
[ -x out/bin/hx ] || ./scripts/setup.sh >/dev/null 2>&1
for s in $(seq $a $b); do
  for p in "$@"; do
    out=$(VERIF_SEED=$s ./check $p --tier $tier 2>&1)
    echo "seed=$s $(echo "$out" | grep -E '^check' | head -1)"
    echo "$out" | grep -E "VIOLATION|undischarged|KNOWN" | cut -c1-300 | sed 's/^/    /'
    if echo "$out" | grep -q VIOLATION; then
      for f in out/$p/violation_*.json; do echo "    --- $f"; head -c 1500 "$f" | sed 's/^/      /'; echo; done
    fi
  done
done
