"""Per-property configuration of ./check (engines, sizes, labels, level)."""

TRUSTED_BASE = [
    "Lean 4.33 kernel; axioms audited per obligation: subset of {propext, Classical.choice, Quot.sound}; no sorry/admit/native_decide/bv_decide/implemented_by/unsafe (grepped on every run)",
    "extractor /verif/tools/gx (go/parser): faithful translation of the decision expressions into GoE terms and of function bodies into normalised skeleton digests",
    "GoE.ev: reading of Go's && || ! == != < <= > >= + - on ints, bools, nil and comparable references",
    "the hand-written Lean model of the functions named in the evidence (modelled, not verified; tied by T1 expressions, T2 digests and the T3 correspondence run)",
    "harness /verif/harness (Go): gating sequences arrivals, canonicalisation does not hide differences",
    "Go runtime semantics assumed by the model: channels FIFO, select picks any ready case, sync primitives as documented",
    "transport assumed by the composite model Net: a gRPC stream is an ordered channel per connection that may lose a suffix and die at any moment; the server side of a dead connection delivers nothing to a later one",
    "gx lock-set walk (syntactic, intra-procedural, deferred unlocks handled): the table of lock acquisitions, blocking operations and intra-package calls with the locks held",
]


def eng(name, quick, thorough, **kw):
    d = dict(name=name, quick=quick, thorough=thorough)
    d.update(kw)
    return d


# functions (skeleton names of tools/gx) each property's model was written from; scripts/mk_tie_skel.py
# turns each list into the digest obligations lean/GorumsV/Tie/<prop>Skel.lean
LOOPS = ["QuorumCall", "AsyncCall", "handleAsyncCall"]
SKELS = {
    "C01": LOOPS + ["AsyncGet", "AsyncDone", "tmplfile_quorumcall", "tmplfile_async", "tmplfile_datatypes", "tmplfile_qspec"],
    "C02": LOOPS + ["AsyncGet", "AsyncDone", "QCEError", "nodeErrorError", "incompleteCause"],
    "C03": ["ch_enqueue", "ch_sender", "ch_sendMsg", "ch_newChannel", "srv_NodeStream", "QuorumCall", "AsyncCall", "CorrectableCall", "Multicast", "Unicast", "RPCCall", "tmplfile_server"],
    "C04": ["srv_NodeStream", "srv_Release", "srv_SendMessage", "tmplfile_server"],
    "C05": ["ch_enqueue", "ch_routeResponse", "ch_cancelPendingMsgs", "ch_deleteRouter", "ch_receiver", "mgr_RawManager_getMsgID", "cfg_RawConfiguration_getMsgID",
            "WrapMessage", "RPCCall", "QuorumCall", "AsyncCall", "CorrectableCall", "Multicast", "Unicast"],
    "C06": ["Multicast", "Unicast", "getCallOptions", "WithNoSendWaiting", "ch_sendMsg", "ch_waitForSend", "QuorumCall", "AsyncCall", "CorrectableCall",
            "tmplfile_multicast", "tmplfile_unicast"],
    "C07": ["ch_sender", "ch_receiver", "ch_cancelPendingMsgs", "ch_connect", "ch_reconnect", "ch_routeResponse", "QuorumCall", "handleAsyncCall", "QCEError", "nodeErrorError", "WrapMessage"],
    "C08": ["ch_enqueue", "RPCCall", "QuorumCall", "handleAsyncCall", "handleCorrectableCall", "Multicast", "Unicast", "ch_sendMsg", "ch_reconnect", "incompleteCause"],
    "C09": ["ch_newNodeStream", "ch_enqueue", "ch_routeResponse", "ch_cancelPendingMsgs", "ch_deleteRouter", "ch_sendMsg", "ch_sender", "ch_receiver", "ch_connect", "ch_reconnect",
            "ch_isConnected", "handleCorrectableCall"],
    "C10": ["ch_connect", "ch_reconnect", "ch_newNodeStream", "ch_receiver", "ch_sender", "ch_newChannel", "node_RawNode_newContext", "node_RawNode_dial", "node_RawNode_connect", "srv_NodeStream"],
    "C12": ["mgr_RawManager_Close", "mgr_RawManager_closeNodeConns", "node_RawNode_close", "node_RawNode_connect", "node_RawNode_dial", "ch_enqueue", "ch_sender", "ch_receiver", "ch_reconnect", "Multicast", "Unicast"],
    "C18": ["ch_routeResponse", "ch_enqueue", "ch_deleteRouter", "ch_cancelPendingMsgs", "ch_sendMsg", "ch_receiver", "ch_reconnect", "handleAsyncCall", "handleCorrectableCall", "QuorumCall"],
}

TECH = "Lean 4 theorems over a hand-written executable model; tie = decision expressions regenerated from the Go source (gx) + skeleton digests + differential run of the real code against the Lean driver"

NOT_APPLICABLE = {}

PROPS = {
    "C08": dict(
        level="proof", engines=[eng("ctx", 250, 5000, timeout=900)], labels=["C08"],
        text="Partial. Theorems (Props/C08.lean): a call waits at three kinds of places only; the reply loop returns the context's error as soon as the context end is consumed (ctx_returns_at_once, for every "
             "parameter value, quorum function and history); the router lock a caller needs is unavailable for good only in the back-pressure wedge of C09, which needs a server-stream call that ended early; a one-way call's wait for send confirmations returns as soon as the "
             "context's end is consumed (oneway_ctx_returns; without the context case it keeps waiting: oneway_needs_ctx_case). "
             "Tie: loop parameters (Tie/C02), connection decisions (Tie/C09), the three cases of enqueue's select (parent context, caller's context, send queue: the repair of defect D2) and the context case of the one-way waits regenerated from the tree; digests of enqueue, the reply loops, the one-way waits, sendMsg and "
             "reconnect; engine ctx: call type x node behaviour {healthy, down, silent, peer not reading} x background traffic x instant of the context end, return within 2 s and errors.Is(err, ctx.Err()); plus a server-stream call that completed under a long-lived context whose servers stream on afterwards: calls with deadlines on the same nodes keep returning.",
        note="Partial: wall-clock delay, scheduler fairness and transport time-outs are outside the model; the 2 s bound is a test. The errors.Is clause is decided by the model (Props/C02 exhaustion_outcome: the exhaustion branch reports the context's error once the context has ended; repaired by fix ba53414).",
    ),
    "C09": dict(
        level="proof", engines=[eng("wedge", 40, 1500, timeout=1500)], labels=["C09"],
        text="Partial. Theorems (Props/C09.lean) over the LTS ConnMgr (sender and receiver program counters, streamMut with writer preference, streamBroken, responseMut, stream liveness, answers in flight and requests lost with a dead stream, queue, Close; 41 labels): "
             "a 19-clause invariant is inductive; wedge_shapes: in every reachable state with an open manager in which something is owed and neither the library nor a well-behaved environment can move, the state has "
             "one of exactly two shapes (stale-broken, stream back-pressure) — a complete list; both shapes are stuck and both are reachable (explicit traces checked by the kernel): the two known findings; requests written to a stream that has died are never forgotten "
             "(lost_is_cancelled, parked_means_nothing_lost: whoever replaces a stream answers them first), whereas the pinned code reaches a quiet state with a request lost for good (pinned_leak_reachable). "
             "Tie: the table of every lock acquisition, blocking operation and intra-package call with the locks held there (lock-set walk by gx, regenerated on every run): the lock order computed from it is exactly streamMut → responseMut, streamMut → mu and acyclic (lockOrder_good, lockOrder_acyclic; lockOrder_no_cycle: by the proved soundness of the evaluated check, no walk along the tree's lock order returns to its start), and every place where the tree can block while holding a lock is a step of ConnMgr / NodeConn / SrvConn (blocking_sites_modelled: the wedge analysis is complete with respect to the code's blocking sites); for the sites under streamMut the program counter that stands for the site holds exactly the lock and mode the table shows, in every reachable state of the LTS (Props/SitesP.lean: recvMsg_under_read, sendMsg_under_read, reconnect_under_write_*); these obligations live in Tie/C09Locks.lean, elaborated on its own. Further tie: isConnected, the give-up test and the three facts of the stream replacement (cancel under the write lock before the new stream, mark before SendMsg, unmarked requests skipped) regenerated from channel.go; digests of the twelve functions the LTS was written from; engine wedge: workload phases with cancellations, slow quorum functions and handlers, "
             "restarts, then a probe RPC per node; every hang is classified by goroutine signature; two deliberate replays reproduce the known findings; a burst of calls made with an already-ended context on healthy idle nodes "
             "(no stream fails there, so any node that stops answering is a violation whatever the shape).",
        note="Partial: relative to the model's list of shapes; real scheduling is not modelled; a new way to get stuck that is not in the LTS is caught by the digests and by an unknown signature in engine wedge.",
    ),
    "C10": dict(
        level="proof", engines=[eng("reconn", 40, 800, timeout=1500)], labels=["C10"],
        text="Partial. Theorems (Props/C10.lean): connect() is retried for every request popped while the node is not connected; with a reachable peer a node stays unusable only in the two wedges of C09; "
             "the no-timer clause is refuted on the model (timer_wait_reachable: a reply on a live stream while the receiver sleeps in its back-off — the known finding) and holds outside that state (no_timer_wait_partial). "
             "Tie: connection decisions regenerated; the back-off arithmetic of reconnect read from the tree (backoffArith_good) and modelled (Model/Backoff.lean): for every configuration with a multiplier of at least one and a jitter of at most one, every number of failed attempts and every draw, the wait between two attempts is at most MaxDelay·(1+Jitter), at least delay·(1−Jitter), never shrinks as failures accumulate and stays at the cap once it is reached (sleep_le, sleep_ge, delay_mono, delay_capped): a node that listens again is retried within a bound that does not depend on the length of the outage; the manager adds no dial option besides the codec's content subtype and the connect parameters (dialOpts_good); the manager's back-off configuration reaches both the channel's reconnect loop and gRPC's re-dialling (backoff_forwarded_good, read from NewRawManager / newChannel); digests of connect / reconnect / newNodeStream / receiver / sender / newChannel / newContext / dial / NodeStream; engine reconn: nodes down at creation, stop/start rounds, "
             "back-off base 1.5 s vs 30 ms, lag between 'handler replied' and 'call returned', an RPC whose request the restarted server handled must not fail, general and per-node metadata and exactly one connect callback on every accepted stream.",
        note="Partial: timers are abstract in the LTS (a timer wait is recognised at runtime by a lag above 1 s with a 1.5 s base delay); the back-off arithmetic is modelled over natural numbers with products rounded down, the code computes in float64; gRPC's own re-dialling is outside the model (its configuration is a T1 fact, its effect is observed by engine reconn's outage scenario).",
    ),
    "C12": dict(
        level="proof", engines=[eng("close", 20, 400, timeout=1500), eng("nodeconn", 40, 800, timeout=900)], labels=["C12"],
        text="Partial. Theorems (Props/C12.lean): after Close, a state in which nothing can move has both goroutines exited (unless the receiver is blocked in the back-pressure wedge); no stream is alive and no request is "
             "accepted after Close; the exiting sender leaves no request in the queue and the exiting receiver no request unanswered; hence after Close, at rest, nothing is owed — no caller is stranded — outside the back-pressure wedge (closed_rest_owes_nothing). Connections (model NodeConn of RawNode.dial / close, Props/NodeConnP.lean): a node has at most one live connection, the current one; once close has run none is live, no dial is in progress and none can be created again; close is idempotent; each of the four facts this rests on is needed (needs_closesOld, needs_checksClosed, needs_lockedDial, needs_closeCloses). Over the pool (model MgrClose, Props/MgrCloseP.lean: Close's loop interleaved with the dials of the nodes' senders): once Manager.Close has returned every node is closed, no connection of any node is live and no dial is in progress, whatever happens afterwards and however often Close is called again (returned_all_closed, returned_is_final); the loop must reach every node (needs_reachesAll). Tie: send-queue capacity regenerated; the four facts of dial / close (connMu held throughout dial, refusal after close, the replaced connection is closed, close sets the flag and closes under connMu) and 'Manager.Close reaches every node once' read from node.go / mgr.go (nodeConn_good, mgrClose_good); engine nodeconn: the model NodeConn against the real RawNode.dial / close, operation by operation (dial with the server up / down, close; closed flag, n.conn set, connections not shut down: exact); digests of Close / closeNodeConns / RawNode.close / connect / enqueue / sender / receiver / reconnect / "
             "Multicast / Unicast; engine close: send buffer {0,1,8} x node states x in-flight calls of all types x Close once / twice / concurrently: every in-flight call returns within 3 s, calls after Close fail fast "
             "without panic, client-side library goroutines and the goroutines of the gRPC client connections are gone.",
        note="Partial: goroutine exit and socket closure are observed at runtime, not proved.",
    ),
    "C15": dict(
        level="proof", engines=[], labels=["C15"],
        text="Partial. Theorem (Props/C15.lean) guarded_race_free: in any trace that respects the semantics of sync.Mutex / sync.RWMutex, if every write to x holds lock l exclusively and every read holds it exclusively or "
             "shared, then any two conflicting accesses to x are ordered by happens-before (program order + Unlock->Lock/RLock + RUnlock->Lock edges): no data race on x; without the lock the same writes are unordered. "
             "Tie (Tie/C15.lean): the access table of all selectors on the tracked fields of channel / RawManager / RawNode / Correctable with the locks held at each (lock-set walk by gx, regenerated on every run) "
             "is proved row by row to obey the field's policy (lock-guarded fields; fields that are set once in newChannel before the goroutines exist and only read afterwards; the channel's *rand.Rand, which must not be used at all afterwards); the atomic flags go through sync/atomic only. Behavioural: thirteen engines built with -race; every report with a library frame is a violation.",
        note="Partial: which accesses the program makes and which locks it holds is a syntactic, intra-procedural extraction by gx (trusted); atomics, channels and `go` edges are covered only by the race detector runs.",
        technique="Lean 4 theorem that the lock discipline implies happens-before ordering; tie = lock-set access table regenerated from the source and checked against the policy by the kernel; Go race detector on the behavioural engines",
    ),
    "C16": dict(
        level="proof", engines=[], labels=["C16"],
        text="Theorems (Props/C16.lean) over the decision model Gen (validateOptions, chkFns, template choices), each proved for all 1 024 option combinations: an accepted method gets exactly one client stub; "
             "accepted = documented (both directions); the documented illegal combinations, two call types on one method and per_node_arg on an ordered RPC are rejected; the stub is the one of the declared call type; "
             "quorum-function entry and per-node wiring follow the declaration; services with distinct method names get distinct stub declarations. Tie (Tie/C16.lean): the table obtained on every run by executing "
             "the real plugin, built from the tree, on all 1 024 single-method services (3+ runs each) is proved row by row (decide +kernel) to equal the model: outcome / diagnostic class, byte-identical output, "
             "stub list, no duplicate declaration, handler shape, QF entry, per-node wiring, method strings (the row's method has a proto name, foo_bar, that differs from its Go name); a second table, of plugin invocations with two "
             "files whose services have a method of the same name (an accepted row first, then every rejected row and a sample of accepted ones), is proved to show the model's decision about the second file alone, with "
             "byte-identical output (pairs_is_model, pairs_cover_rejected). Behavioural: every accepted row and N random multi-method services are compiled together with protoc-gen-go output.",
        note="Trusted: Lean kernel; gentool gr (descriptor synthesis, go/ast extraction of the stub facts, normaliser); 'compiles' is tested with go build, not proved; that the generator's behaviour on a request is its per-method "
             "behaviour is checked for two-file requests by the pairs table, and for multi-method services by compilation only; name clashes with the static code are known findings.",
        technique="Lean 4 theorems over a hand-written decision model; tie = exhaustive table regenerated by executing the real plugin over the whole option lattice, compared with the model by kernel evaluation; go build of emitted packages",
    ),
    "C17": dict(
        level="translation_validation", engines=[], labels=["C17"],
        text="Currency: every committed *_gorums.pb.go (tests/*, benchmark, examples, the nine dev/zorums_* files) and the bundled template_static.go is regenerated with the plugin built from the working tree and compared "
             "after normalisation; Lean re-checks that every file is equal, that none lacks a descriptor and that no binding differs (Tie/C17.lean). Binding: theorems (Props/C17.lean) that the generator model emits the stub "
             "of the declared call type with matching handler shape, QF entry and per-node wiring, tied to the real plugin by C16's kernel-checked table (which includes the method-name strings); the bindings of all 62 "
             "methods of the repository's services are extracted from the regenerated code and compared with the descriptors.",
        note="Trusted: gentool gr's normaliser (comments dropped, go/format) and binding extractor; descriptors are read from the committed *.pb.go (there is no protoc: an edit to a .proto text file alone is not seen); Lean kernel.",
        technique="regenerate-and-compare of all committed generated files (translation validation) + Lean 4 binding theorems over the generator model tied by the exhaustive plugin table",
    ),
    "C03": dict(
        level="proof", engines=[eng("order", 300, 6000, timeout=900), eng("srv", 300, 6000, timeout=900)], labels=["C03", "C04"],
        text="Theorems (Props/C03.lean, composing Chan and SrvConn): what is written to a node's stream is, in order, a subsequence of what was handed to its send queue, each request at most once; "
             "the queue is FIFO (popped is a prefix of pushed); the server starts handlers in receive order, once each; hence over one connection the start order is a duplicate-free subsequence of "
             "the hand-off order and no request overtakes another (start_order, no_overtaking). Inside the composite system Net the stream contract that start_order assumes is itself a theorem, also across lost writes and dead streams: handlers started on the current connection followed by the requests in transit are a subsequence of what the sender wrote (net_stream_contract, net_start_order). Tie: plain hand-off statements in all per-node loops and the send-queue capacity regenerated from the tree; "
             "digests of enqueue/sender/sendMsg/newChannel/NodeStream and of the six issuing functions; engine order runs mixed-call programs with stragglers, send buffers {0,1,4,64}, large payloads and "
             "explicit releases and lets the Lean model judge every node's start order; engine srv checks per-connection traces.",
        note="Trusted: Lean kernel; gRPC delivers a stream's messages in order at most once; Go channels are FIFO; happens-before between two calls implies the first call's hand-offs completed before the second's "
             "begin (hand-offs are plain statements of the issuing function). Connections on which a reconnection happened during a program are excluded from the completeness claim.",
    ),
    "C05": dict(
        level="proof", engines=[eng("xtalk", 4000, 100000, timeout=900), eng("qc", 1500, 30000)], labels=["C05"],
        text="Theorems (Props/C05.lean) over the node-channel LTS Chan (router table, send queue, sender, receiver, stream-down, deferred deletion), invariant proved inductive over all label sequences: "
             "every delivery goes to the call that registered the id (ids registered at most once); at most one delivery per non-streaming request; a reply without router is dropped and changes nothing; "
             "stream-down answers every pending request with an error; an error is the last thing delivered for a request. End to end, over the composite system Net: every node's channel is a reachable Chan state and every server connection a reachable SrvConn state (chan_reachable, srv_reachable), calls never share an id (ids_unique), a call addresses a node at most once (issue_unique), and a reply that node n's channel delivers to a call is what n's handler computed from the payload that call addressed to n (provenance; echo_needed: a server answering under another id hands a call the answer to another call's request). the facts Net takes as given — one id per call from the manager-wide counter, the server answers under the request's own id, every answer names the channel's own node — are read from the tree on every run (net_ids_good, net_echo_good, net_nid_good). Tie: deletion guards regenerated from routeResponse / cancelPendingMsgs; digests of the router functions, getMsgID (one counter per manager), "
             "WrapMessage and all issuing functions; engine xtalk (8..32 goroutines, overlapping configurations, late replies, mixed RPC/quorum/async/correctable/one-way) checks the (call, node) stamp of every "
             "reply-set entry and result; engine qc checks stamps under gating.",
        note="Trusted: Lean kernel; the hand-written LTS; 'message ids are fresh' is a precondition of the register step (justified by the digest of the manager-wide atomic counter, 64 bit, assumed not to wrap); "
             "server-stream calls are left out of the concurrent workload because they trigger the known finding C09/stream-backpressure (their stamps are checked by engine corr).",
    ),
    "C18": dict(
        level="proof", engines=[eng("xtalk", 4000, 100000, timeout=900), eng("residue", 1, 5, timeout=900), eng("corr", 800, 10000), eng("oneway", 500, 5000)], labels=["C18"],
        text="Theorems (Props/C18.lean, invariants of Chan): once a non-streaming request has been answered no router is kept; a router that exists belongs to an unanswered request; one router per request, "
             "bounded by the registrations; deferred deletion removes a streaming router; stream-down leaves no router; a request answered with an error keeps no router, streaming or not; the replacement of a stream answers exactly the requests "
             "written to it (replaceCancel_answers_written); over ConnMgr: no request written to a dead stream is forgotten (lost_is_cancelled; the pinned code leaks: pinned_leak_reachable). End to end (Net, Props/NetFail.lean): on every node an answered request keeps no router and every router belongs to a request some call issued to that node (net_no_router_after_answer, net_no_router_after_error, net_router_is_issued). Tie: deletion guards and the facts of the stream replacement regenerated; digests of the router functions, sendMsg and the "
             "call goroutines; engines: xtalk (after quiescence zero routers on every node and library goroutines back to the baseline), residue (every way a call can end, sequentially, with failing sends and "
             "contexts that end before the send), corr / oneway (zero routers after every case).",
        note="Trusted: as C05. Goroutine exit is observed at runtime (goroutine profile filtered to library frames), not proved.",
    ),
    "C04": dict(
        level="proof", engines=[eng("srv", 400, 10000, timeout=300)], labels=["C04"],
        text="Theorems (Props/C04.lean) over the per-connection LTS SrvConn (receive loop, handler goroutines, the mutex, once-guarded Release, implicit release at return): the invariant "
             "'mutex locked iff loop at top or exactly one started handler has not released' is inductive; at most one unreleased handler at every reachable state; a handler start requires "
             "zero unreleased handlers; a second Release is a no-op and the mutex is never unlocked twice; return releases; handlers start in receive order, once each; released handlers run "
             "concurrently; a step of one connection leaves every other connection's state and enabled steps unchanged. Tie: digests of NodeStream / Release / SendMessage / the server template; "
             "engine srv feeds every per-connection event trace of the real server (release modes early/late/twice/helper/storm/none, up to 3 connections, one never releasing) to the Lean acceptor.",
        note="Trusted: Lean kernel; the hand-written LTS (tied by digests and trace acceptance); sync.Mutex / sync.Once semantics; handler events are logged by the harness' handlers "
             "(release and exit are logged just before they take effect, enter just after), which only makes the acceptor stricter.",
    ),
    "C01": dict(
        level="proof", engines=[eng("qc", 3000, 60000), eng("xtalk", 2000, 60000)], labels=["C01", "C05"],
        text="Theorems (Props/C01.lean): success returns exactly the value the quorum function returned with 'quorum' on its last invocation; every earlier invocation said 'no quorum'; "
             "the invocation log is exactly the list of cumulative reply sets of the consumed prefixes that end in a reply (one invocation per newly arrived successful reply, in order); "
             "every entry is a reply arrival (never a failed node), one entry per node, sets only grow; the async loop invokes QF like the sync one. End to end, over the composite system Net (manager counter, calls, per node: channel + stream + server connection + handlers; Props/Net.lean, Props/NetCall.lean): every entry (n, v) of every reply set shown to the quorum function is what node n's handler computed from the payload this very call addressed to n (qf_sees_only_genuine, from provenance); the facts Net takes as given — one id per call from the manager-wide counter, the server answers under the request's own id, every answer names the channel's own node — are read from the tree on every run (net_ids_good, net_echo_good, net_nid_good). Tie: loop parameters (Tie/C02), error guard "
             "and reply-channel capacity regenerated from the tree; digests of the loops, Async accessors and the four client templates; exact differential run of all 13 variants with gated and "
             "burst arrivals: QF invocation log, request identity, overlap counter, provenance stamps (call, node) in every entry; engine xtalk checks the same stamps under concurrency "
             "(8..32 goroutines, overlapping configurations, late replies).",
        note="Trusted: Lean kernel; gx; the loop model. Provenance (each entry is what that node's handler produced for this call's request) is proved over the composite model Net and "
             "additionally checked on the real code by the stamps the puppet handlers put into replies; Net abstracts gRPC to an ordered lossy stream per connection and the payload to a number.",
    ),
    "C06": dict(
        level="proof", engines=[eng("oneway", 1500, 30000), eng("qc", 1500, 20000)], labels=["C06"],
        text="Theorems (Props/C06.lean): without a per-node function every node is targeted with the caller's request; with f, node i is targeted with exactly f(request, i) and nodes for which f "
             "yields nothing are not targeted; targets are issued once each, in configuration order; the expected-replies counter equals the number of targets; the multicast wait loop returns "
             "exactly when every sent message is confirmed, at once with no-send-waiting. End to end (Net): the payload a handler runs with on node n is the payload of the one request with that id that some call addressed to n (server_receives_own_payload, handler_payload_is_addressed). Tie: skip test, counter decrement, plain hand-off statements, wait-loop condition and waitForSend "
             "regenerated from the four per-node loops and channel.go; digests; engines oneway (blocked handlers: return without waiting, payload and count per node; plus a back-to-back run of send-waiting calls whose context is cancelled the moment the call has returned: every message delivered exactly once, no call waits) and qc (payloads of quorum calls).",
        note="Trusted: Lean kernel; gx; 'without waiting for the connection' is observed with a generous bound on an otherwise idle channel; HTTP/2 flow control behind a blocked handler is transport behaviour outside the model.",
    ),
    "C07": dict(
        level="proof", engines=[eng("qc", 3000, 60000), eng("crashrace", 30, 800)], labels=["C07"],
        text="Theorems (Props/C07.lean): the reported error list has exactly one entry per consumed error arrival, in order; an error arrival never changes the reply set; failures interleaved "
             "before a quorum reply do not prevent success (tolerates_failures); an Incomplete outcome lists exactly the failures of a history in which all targeted nodes answered; status round trip "
             "(C13); over Chan: a request, streaming or not, is answered with at most one error and nothing after it (at_most_one_error, error_is_last: the failing node is reported once; the pinned code reported a node "
             "twice: pinned_streaming_router_reports_twice); over ConnMgr: requests written to a stream that dies are answered (lost_is_cancelled). End to end (composite system Net, Props/NetFail.lean): on every node of a call a request is answered with at most one error and nothing after it (net_at_most_one_error, net_error_is_last), so a failing node is reported at most once per call whatever fails. Tie: error guards and loop parameters regenerated; digests of sender/receiver/cancelPendingMsgs/connect/routeResponse and the error formatters; engine qc checks code + message per failing node in the error text; engine crashrace stops a server at a random instant while quorum calls are being issued to it concurrently "
             "(requests registered, queued, being written or awaiting replies): every failing node contributes exactly one error, errors + replies add up.",
        note="Trusted: as C01. The liveness half ('a waiting call is completed when the connection breaks') is the ConnMgr statement lost_is_cancelled (a safety statement: a cancellation is on its way; that it arrives needs the scheduler assumption) and is exercised by the crash arrivals of engines qc / crashrace / corr.",
    ),
    "C11": dict(
        level="proof", engines=[eng("corr", 2000, 40000)], labels=["C11"],
        text="Theorems (Props/C11.lean): the object starts at LevelNotSet with no reply; the watcher invariant (closed iff level reached or completed) is preserved by Watch at any "
             "moment and by every publication; the loop never calls set on a completed object; published levels never decrease; only the last snapshot can be completed (done is final); "
             "a strictly higher level is published at once with the quorum function's value and releases the watchers at or below it; done publishes QF's value, releases everything; "
             "context end / exhaustion (also zero targets; streams: all failed) complete with the right error; every stored reply is a QF value, so the typed accessors never panic; Watch (test and registration) and set are single steps: each runs in one exclusive critical section (atomic_good, read from the tree); over the concurrent model WatchConc (Watch calls interleaved with publications, also non-monotone ones) no watcher is ever stranded — open although its level has been published or the call is completed — at the tree's atomicity (tree_never_stranded), whereas a Watch whose test and registration are separate steps strands a watcher, for good if the call completed (twostep_strands, twostep_strands_for_good); 'every node has failed' counts nodes, not errors: a node answers a request with at most one error (Chan: at_most_one_error, the repair of D18), and then the stream arm of the exhaustion test holds exactly when every targeted node has failed (stream_exhausted_iff_all_failed; pinned_double_error_completes shows the count alone says nothing). "
             "Tie (Tie/C11.lean): initial level, both exhaustion arms and their position, both watcher comparisons and the publication structure of the reply case are regenerated from "
             "correctable.go on every run; digests; exact differential run of all 12 correctable variants (gated arrivals, crashes of a node's server during a stream, snapshots of raw/typed Get, Done and every Watch channel after every arrival) plus a Watch-versus-publication workload (goroutines calling Watch(l) at the instant set publishes l or completes: once both have returned every channel is closed).",
        note="Trusted: Lean kernel; gx; the hand-written loop/object model (tied by T1 facts, digests and the exact T3 run). Not observable without instrumentation: the order in which two "
             "error arrivals that do not change the published state are consumed (error lists are compared as sets) and, for streams, whether an error arrival was consumed before the context ended.",
    ),
    "C14": dict(
        level="proof", engines=[eng("cfg", 20000, 1000000)], labels=["C14"],
        text="Theorems (Props/C14.lean, 49 lemmas): the manager invariant PoolOK (one node object per ID) is preserved by every constructor, also when it fails; every created "
             "configuration lists pooled objects once, strictly sorted by ID (CfgOK) and is non-empty; And is the union, Except/WithoutNodes the difference (empty difference = error), "
             "WithNodeIDs exactly the named registered nodes or an error; a node list yields one node per distinct address carrying that address, an address whose generated ID is "
             "pooled under another address fails (the FNV-1a collision 10.0.1.16:5319 / 10.0.2.47:8124 is a kernel-checked fact); a node map realises every (address, id) pair or fails. "
             "Tie: digests of the 25 constructor / accessor functions (config_opts.go, config.go, mgr.go, node.go, dev/mgr.go, dev/config.go) regenerated on every run; "
             "exact differential run of operation sequences (raw API and generated dev.Manager; IPv4, IPv6 and zoned link-local IPv6 literals) against the Lean model, with every live configuration re-dumped after every operation.",
        note="Trusted: Lean kernel; net.ResolveTCPAddr is the identity on canonical ip:port literals; pointer identity is modelled by a uid; sort.Sort on distinct IDs; "
             "the hand-written constructor model (tied by digests and by the exact T3 run).",
    ),
    "C13": dict(
        level="proof", engines=[eng("codec", 30000, 400000)], labels=["C13"],
        text="Theorems (Props/C13.lean): LEB128 varint round trip for every 64-bit value and continuation; frame round trip for all byte strings; a non-negative "
             "length result stays inside the buffer and a negative one comes with an empty slice; decode(encode) yields the same metadata and message of the type the "
             "direction selects; with the checked assertion the decoder panics on no byte string (unmarshal_total). Tie (Tie/C13.lean): the comma-ok form of the descriptor "
             "assertion and the two arms of the direction switch are read from encoding.go on every run; digests of the codec functions; exact differential run of "
             "Marshal/Unmarshal (under recover) against the Lean framing model, with protowire's own slices compared with the model's on every input; a third of the valid messages carry fields the message type does not declare (they must survive the round trip); the decoder's configuration (no DiscardUnknown) is read from NewCodec on every run.",
        note="Trusted: Lean kernel; protobuf marshal/unmarshal round trip and registry consistency (oracle parameters: the harness feeds the real functions' answers to the model); "
             "an empty metadata buffer names no registered entity; gx's reading of the assertion form and the switch arms.",
    ),
    "C19": dict(
        level="proof", engines=[eng("sort", 20000, 2000000)], labels=["C19"],
        text="Theorems (Props/C19.lean): MultiSorter.Less is the lexicographic order of its keys (multiLess_is_lex); the lexicographic order of strict weak orders is a "
             "strict weak order (lex_swo); ID, Port, LastNodeError are strict weak orders; a sort driven by a strict weak order yields a permutation without inversions, "
             "ties under k1 ordered by k2 (isort_perm, isort_sorted, sorted_ties). Tie (Tie/C19.lean): the three key bodies and the loop bound / switch / final return of Less are "
             "regenerated from node.go on every run and proved equal to the model's keys for all nodes; exact differential run of Less(i,j) and Sort on generated slices (failed nodes carry distinct error values).",
        note="Trusted: Lean kernel; gx's translation of the three key bodies and of Less's decisions; sort.Sort's contract for strict weak orders (pdqsort itself is not modelled; "
             "its output is compared with the model's sort on every generated slice); strconv.Atoi/Port() read as 'the numeric port'.",
    ),
    "C02": dict(
        level="proof", engines=[eng("qc", 4000, 80000)], labels=["C02"],
        text="Theorems (Props/C02.lean): the reply loop computes, for every parameter value, quorum function, number of targeted nodes and arrival history, "
             "the verdict of the shortest prefix that has one (run_eq_spec); under the parameters proved for the tree's own expressions (Tie/C02.lean: the exhaustion test "
             "is errs+replies = expected, is evaluated before the first select, and its branch reports the context's error once the context has ended) Incomplete adds up, zero targets terminate at once, "
             "a context that has ended when every node has answered yields the context's error (exhaustion_outcome), the future completes by the same rule. "
             "Tie: exhaustion expressions, their position and the cause they report regenerated from quorumcall.go/async.go on every run; errors.Is decision regenerated from errors.go; "
             "exact differential run of all 13 zorums quorum-call variants with gated arrival orders against the Lean driver. Every other context of the engines is cancelled with a cause (context.WithCancelCause), so that context.Cause(ctx) differs from ctx.Err(): the call must report ctx.Err().",
        note="Trusted: Lean kernel; gx's translation of the two exhaustion tests, their position and QuorumCallError.Is; the hand-written loop model (tied by digest of the loop functions and the exact T3 run); "
             "gating harness. The harness ends a context only before the call or after the arrival before it has been consumed (Driver/QC.lean runCase states this schedule); after a context has ended, which of the locally produced answers the loop still consumes is not constrained, so the error list of a context outcome is compared on the nodes whose failure was delivered before the cancellation.",
    ),
}
