#!/bin/bash
# intake.sh <property> <new-id> '<setup cmd using $M>' '<test cmd>' : copies a sub-agent's deliverable from /tmp/mut/<property>/_deliver
# to seeded/<new-id>/ and writes the demonstration recipe (demo/INSTALL.json)
set -e
P=$1; ID=$2; SETUP=$3; CMD=$4
D=/tmp/mut/$P/_deliver; T=/verif/seeded/$ID
mkdir -p $T; cp $D/patch.diff $T/; rm -rf $T/demo; cp -r $D/demo $T/demo; cp $D/README.md $T/README.md; [ -f $D/results.txt ] && cp $D/results.txt $T/agent_results.txt
python3 - "$T" "$SETUP" "$CMD" <<'PY'
import json,sys
json.dump({"setup":[sys.argv[2]],"cmd":sys.argv[3]}, open(sys.argv[1]+"/demo/INSTALL.json","w"), indent=1)
PY
echo "intake $ID done"
