#!/bin/bash
# MANIFEST.setup_cmd: builds the framework from files on disk only (offline).
set -e
cd "$(dirname "$0")/.."
export GOFLAGS=-mod=mod GOPROXY=off GOSUMDB=off GOTOOLCHAIN=local
mkdir -p out/bin evidence
(cd tools && go build -o ../out/bin/gx ./gx)
./out/bin/gx -repo /repo -lean "$PWD/lean" -out "$PWD/out"
(cd lean && lake build GorumsV driver)
cp /repo/go.sum harness/go.sum
printf '{"Replace": {"/repo/verif_access.go": "%s/harness/overlay/verif_access.go.src"}}\n' "$PWD" > out/overlay.json
(cd harness && go build -tags verif -overlay ../out/overlay.json -o ../out/bin/hx ./cmd/hx)
echo setup ok
