#!/bin/bash
# MANIFEST.setup_cmd: builds the framework from files on disk only (offline).
set -e
cd "$(dirname "$0")/.."
export GOFLAGS=-mod=mod GOPROXY=off GOSUMDB=off GOTOOLCHAIN=local
mkdir -p out/bin evidence
(cd tools && go build -o ../out/bin/gx ./gx)
(cd gentool && cp /repo/go.sum go.sum 2>/dev/null; go build -o ../out/bin/gr ./cmd/gr)
./out/bin/gx -repo /repo -lean "$PWD/lean" -out "$PWD/out"
./out/bin/gr table -repo /repo -out out/table.json -lean "$PWD/lean/GorumsV/Generated/GenTable.lean" -runs 3 >/dev/null 2>&1 || true
(cd lean && lake build GorumsV driver)
cp /repo/go.sum harness/go.sum
printf '{"Replace": {"/repo/verif_access.go": "%s/harness/overlay/verif_access.go.src"}}\n' "$PWD" > out/overlay.json
(cd harness && go build -tags verif -overlay ../out/overlay.json -o ../out/bin/hx ./cmd/hx)
echo setup ok
