#!/bin/bash
# usage: try_mutant.sh <patch.diff> <prop> [<prop>...]  — applies the patch to /repo, runs the quick checks, reverts.
patch=$1; shift
cd /repo || exit 2
if ! git apply --check "$patch" 2>/dev/null; then
  if git apply --check -3 "$patch" 2>/dev/null; then echo "(3-way)"; else echo "PATCH DOES NOT APPLY: $patch"; exit 3; fi
fi
git apply "$patch" || exit 3
export GOFLAGS=-mod=mod GOPROXY=off GOSUMDB=off GOTOOLCHAIN=local
if ! go build ./... 2>/tmp/mut_build.log; then echo "MUTANT DOES NOT BUILD"; cat /tmp/mut_build.log | head; git checkout -- .; exit 4; fi
cd /verif
for p in "$@"; do
  echo "--- $p"
  VERIF_NO_EVIDENCE=1 timeout 1200 ./check "$p" 2>&1 | grep -E "^check|^VIOLATION|undischarged|KNOWN|disagreement" | cut -c1-400 | head -12
done
cd /repo && git checkout -- . && git status --short | head -3
