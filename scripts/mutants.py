#!/usr/bin/env python3
"""Seeded changes (seeded/<id>/): how each demonstration is installed and run.
  confirm <id>...   in a scratch worktree of /repo: the demonstration passes without the patch; with the patch the tree
                    builds, the pinned suite passes and the demonstration fails.  Writes seeded/<id>/confirm.json.
  list              ids
The scratch worktree is created under /tmp and removed afterwards."""
import json, os, subprocess, sys, shutil, glob

V = os.path.dirname(os.path.dirname(os.path.abspath(__file__)))
ENV = dict(os.environ, GOFLAGS="-mod=mod", GOPROXY="off", GOSUMDB="off", GOTOOLCHAIN="local")


def inplace(k, tags=None, extra=""):
    t = ("-tags %s " % tags) if tags else ""
    return (["mkdir -p mutation%d && cp -r $M/demo mutation%d/ && if [ -f $M/go.mod ]; then cp $M/go.mod mutation%d/; fi" % (k, k, k)],
            "go test -vet=off -count=1 %s%s./mutation%d/demo/" % (t, extra, k))


DEMOS = {
    "C01-M1": inplace(1, "c01demo"), "C01-M2": inplace(2, "c01demo"),
    "C02-M1": inplace(1, "c02demo"), "C02-M2": inplace(2, "c02demo"),
    "C03-M1": inplace(1, "c03demo"), "C03-M2": inplace(2, "c03demo"),
    "C04-M1": inplace(1, "c04demo"), "C04-M2": inplace(2, "c04demo"),
    "C05-M1": (["cp $M/demo/c05_late_reply_test.go cmd/protoc-gen-gorums/dev/"], "go test -vet=off -count=1 -run TestC05LateReply ./cmd/protoc-gen-gorums/dev/"),
    "C05-M2": (["cp $M/demo/c05_mixed_calls_test.go cmd/protoc-gen-gorums/dev/"], "go test -vet=off -count=1 -run TestC05MixedCallKinds ./cmd/protoc-gen-gorums/dev/"),
    "C06-M1": inplace(1, "c06demo"), "C06-M2": inplace(2, "c06demo"),
    "C07-M1": (["mkdir -p c07demo1 && cp $M/demo/c07_inflight_crash_test.go c07demo1/"], "go test -vet=off -count=1 -tags c07demo -run TestC07 ./c07demo1/"),
    "C07-M2": (["mkdir -p c07demo2 && cp $M/demo/c07_queued_crash_test.go c07demo2/"], "go test -vet=off -count=1 -tags c07demo -run TestC07QueuedRequestCrash ./c07demo2/"),
    "C08-M1": inplace(1, "c08demo"), "C08-M2": inplace(2, "c08demo"),
    "C09-M1": inplace(1, "c09demo"), "C09-M2": inplace(2, "c09demo"),
    "C10-M1": (["cp $M/demo/reconnect_metadata_demo_test.go tests/metadata/"], "go test -vet=off -count=1 -run TestC10Demo ./tests/metadata/"),
    "C10-M2": (["cp $M/demo/c10_demo_*_test.go ."], "go test -vet=off -count=1 -run TestC10Demo ."),
    "C11-M1": (["cp $M/demo/watchers_demo_test.go.txt tests/correctable/watchers_demo_test.go"], "go test -vet=off -count=1 -run TestDemoTwoWatchersSameLevel ./tests/correctable/"),
    "C11-M2": (["cp $M/demo/ctxend_demo_test.go.txt tests/correctable/ctxend_demo_test.go"], "go test -vet=off -count=1 -run TestDemoContextEnds ./tests/correctable/"),
    "C12-M2": (["cp $M/demo/close_neverconnected_test.go tests/dummy/"], "go test -vet=off -count=1 -run TestCloseReleasesNeverConnectedNode ./tests/dummy/"),
    "C12-M3": inplace(1, "c12demo"),
    "C13-M1": (["cp $M/demo/_copy_to_worktree_root/*.go ."], "go test -vet=off -count=1 -run TestC13 ."),
    "C13-M2": (["cp $M/demo/_copy_to_worktree_root/*.go ."], "go test -vet=off -count=1 -run TestC13 ."),
    "C14-M1": (["cp $M/demo/c14_operand_alias_test.go ."], "go test -vet=off -count=1 -run TestC14 ."),
    "C14-M2": (["cp $M/demo/c14_colliding_list_test.go ."], "go test -vet=off -count=1 -run TestC14 ."),
    "C15-M1": inplace(1, None, "-race "), "C15-M2": inplace(2, None, "-race "),
    "C16-M1": inplace(1, "c16demo"), "C16-M2": inplace(2, "c16demo"),
    "C17-M1": (["cp -r $M/demo/c17demo1 internal/c17demo1"], "go test -vet=off -count=1 ./internal/c17demo1/"),
    "C17-M2": (["cp -r $M/demo/c17demo2 internal/c17demo2"], "go test -vet=off -count=1 ./internal/c17demo2/"),
    "C18-M1": (["cp $M/demo/residue_senderr_test.go ."], "go test -vet=off -count=1 -run TestNoGoroutineResidueAfterSendError ."),
    "C18-M2": (["cp $M/demo/export_residue_test.go $M/demo/residue_cancel_test.go ."], "go test -vet=off -count=1 -run TestNoRoutingResidueAfterEarlyCancel ."),
    "C19-M1": (["cp $M/demo/c19_lasterr_demo_test.go ."], "go test -vet=off -count=1 -tags c19demo -run TestC19 ."),
    "C19-M2": (["cp $M/demo/c19_multikey_demo_test.go ."], "go test -vet=off -count=1 -tags c19demo -run TestC19Multi ."),
}


def sh(cmd, cwd, timeout=1500):
    try:
        p = subprocess.run(cmd, shell=True, cwd=cwd, env=ENV, stdout=subprocess.PIPE, stderr=subprocess.STDOUT, text=True, timeout=timeout)
        return p.returncode, p.stdout
    except subprocess.TimeoutExpired as e:
        return 124, (e.stdout or "") + "\nTIMEOUT"


def suite(wt):
    """the pinned suite in the worktree: stable tests that do not pass"""
    rc, out = sh("go test -mod=mod -json -vet=off -count=1 -timeout 25m $(go list ./... | grep -v '/mutation\\|c07demo\\|c17demo') 2>/dev/null", wt, 1800)
    passed = set()
    for l in out.splitlines():
        try:
            e = json.loads(l)
        except Exception:
            continue
        if e.get("Action") == "pass" and e.get("Test"):
            passed.add(e["Package"] + "::" + e["Test"])
    base = json.load(open("/root/.vp/BASELINE.json"))["stable_pass"]
    return [t for t in base if t not in passed]


def confirm(mid, runs=3):
    M = os.path.join(V, "seeded", mid)
    wt = "/tmp/confirm_" + mid
    subprocess.run(["git", "-C", "/repo", "worktree", "remove", "--force", wt], stdout=subprocess.DEVNULL, stderr=subprocess.DEVNULL)
    shutil.rmtree(wt, ignore_errors=True)
    subprocess.run(["git", "-C", "/repo", "worktree", "add", "--detach", wt, "HEAD", "-q"], check=True)
    res = dict(id=mid, head=subprocess.run(["git", "-C", "/repo", "rev-parse", "--short", "HEAD"], stdout=subprocess.PIPE, text=True).stdout.strip())
    try:
        if mid in DEMOS:
            setup, cmd = DEMOS[mid]
        else:
            # later batches: the recipe is kept next to the demonstration
            inst = json.load(open(os.path.join(M, "demo", "INSTALL.json")))
            setup, cmd = inst["setup"], inst["cmd"]
        # with the patch, before the demonstration is installed: builds, and the pinned suite passes
        rc, out = sh("git apply %s/patch.diff && go build ./..." % M, wt)
        if rc != 0:
            res["error"] = "apply/build: " + out[-400:]
            return res
        res["suite_missing"] = suite(wt)
        for s in setup:
            rc, out = sh(s.replace("$M", M), wt)
            if rc != 0:
                res["error"] = "setup: " + out[-400:]
                return res
        # with the patch: the demonstration fails
        res["with"] = []
        for i in range(runs):
            rc, out = sh(cmd, wt)
            res["with"].append(rc)
            if rc != 0:
                res["with_tail"] = out[-1500:]
        # without the patch: it passes (every run)
        rc, out = sh("git apply -R %s/patch.diff && go build ./..." % M, wt)
        if rc != 0:
            res["error"] = "revert: " + out[-400:]
            return res
        res["without"] = []
        for i in range(runs):
            rc, out = sh(cmd, wt)
            res["without"].append(rc)
            if rc != 0:
                res["without_tail"] = out[-1500:]
        res["confirmed"] = all(r == 0 for r in res["without"]) and any(r != 0 for r in res["with"]) and not res["suite_missing"]
        return res
    finally:
        subprocess.run(["git", "-C", "/repo", "worktree", "remove", "--force", wt], stdout=subprocess.DEVNULL, stderr=subprocess.DEVNULL)
        shutil.rmtree(wt, ignore_errors=True)
        subprocess.run(["git", "-C", "/repo", "worktree", "prune"])


if __name__ == "__main__":
    if sys.argv[1] == "list":
        print(" ".join(sorted(DEMOS)))
    elif sys.argv[1] == "confirm":
        ids = sys.argv[2:] or sorted(d for d in os.listdir(os.path.join(V, "seeded")) if os.path.isdir(os.path.join(V, "seeded", d)))
        for mid in ids:
            r = confirm(mid)
            json.dump(r, open(os.path.join(V, "seeded", mid, "confirm.json"), "w"), indent=1)
            print(mid, "confirmed" if r.get("confirmed") else "NOT CONFIRMED", "without=%s with=%s suite_missing=%d %s" % (r.get("without"), r.get("with"), len(r.get("suite_missing", [])), r.get("error", "")), flush=True)
