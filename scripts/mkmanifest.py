#!/usr/bin/env python3
"""Regenerates /verif/MANIFEST.json from scripts/props.py (so that it is always valid and current)."""
import json, os, sys
V = os.path.dirname(os.path.dirname(os.path.abspath(__file__)))
sys.path.insert(0, os.path.join(V, "scripts"))
from props import PROPS, NOT_APPLICABLE, TECH  # noqa
all_ids = [json.loads(l)["id"] for l in open(os.path.join(V, "properties.jsonl"))]
checks = []
for pid in all_ids:
    if pid not in PROPS:
        continue
    c = PROPS[pid]
    checks.append(dict(
        property_id=pid,
        quick_cmd="./check %s --tier quick" % pid,
        thorough_cmd="./check %s --tier thorough" % pid,
        evidence_file="/verif/evidence/%s.json" % pid,
        replay_cmd_template="./check %s --replay {path}" % pid,
        engine=",".join(e["name"] for e in c.get("engines", [])) or "lean",
        level_claimed=dict(category=c["level"], text=c["text"], design_ref=c.get("design_ref", "DESIGN.md section 5 / " + pid)),
        level_note=c["note"],
        technique=c.get("technique", TECH),
    ))
na = [dict(property_id=p, reason=r) for p, r in NOT_APPLICABLE.items() if p not in PROPS]
for pid in all_ids:
    if pid not in PROPS and pid not in NOT_APPLICABLE:
        na.append(dict(property_id=pid, reason="not yet built in this round: no check is claimed for it (the technique applies; see DESIGN.md section 5)"))
m = dict(
    version=1,
    setup_cmd="./scripts/setup.sh",
    hooks=dict(guard="verif", enable="go build -tags verif -overlay /verif/out/overlay.json (adds the accessor file harness/overlay/verif_access.go.src to package gorums at build time; nothing is committed to /repo)",
               baseline_off_cmd="/verif/scripts/baseline.sh", source_commits=[], add_only=True),
    engines=[dict(name="lean", path="/verif/lean", serves_properties=sorted(PROPS), kind_free_text="Lean 4 model + theorems (GorumsV), tie files elaborated against facts regenerated from /repo by tools/gx"),
             dict(name="hx", path="/verif/harness", serves_properties=sorted(p for p in PROPS if PROPS[p].get("engines")), kind_free_text="Go harness driving the real implementation against puppet servers; compared with the Lean driver's predictions (line protocol)")],
    checks=checks,
    notes="All checks: ./check <id>. Known findings: /verif/KNOWN_FINDINGS.txt. Design: /verif/DESIGN.md.",
    not_applicable=na,
)
json.dump(m, open(os.path.join(V, "MANIFEST.json"), "w"), indent=1)
print("MANIFEST.json:", len(checks), "checks,", len(na), "not claimed")
