#!/bin/bash
# usage, from a snapshot of /verif (vp run --with-repo -- ./scripts/isolated.sh <tier> <seed-from> <seed-to> <prop>...):
# points the snapshot at the snapshot of /repo ($VP_RUN_REPO), builds everything there and sweeps the seeds.
# Nothing it writes is evidence (VERIF_NO_EVIDENCE=1); it is a soak of the unchanged tree.
R=${VP_RUN_REPO:-/repo}
cd "$(dirname "$0")/.."
export VERIF_REPO=$R VERIF_NO_EVIDENCE=1
if [ "$R" != "/repo" ]; then
  sed -i "s#=> /repo#=> $R#" harness/go.mod
  sed -i "s#/repo#$R#g" scripts/setup.sh
fi
./scripts/setup.sh > setup.log 2>&1 || { echo "setup failed"; tail -20 setup.log; exit 2; }
tier=$1; a=$2; b=$3; shift 3
for s in $(seq $a $b); do
  for p in "$@"; do
    out=$(VERIF_SEED=$s ./check $p --tier $tier 2>&1)
    echo "seed=$s $(echo "$out" | grep -E '^check' | head -1)"
    echo "$out" | grep -E "VIOLATION|undischarged|disagreement" | cut -c1-400 | sed 's/^/    /'
    if echo "$out" | grep -q VIOLATION; then
      for f in out/$p/violation_*.json; do echo "    --- $f"; head -c 2500 "$f" | sed 's/^/      /'; echo; done
    fi
  done
done
