#!/bin/bash
# Runs the repository's pinned test suite (guard OFF: no build tag, no overlay) and
# compares the set of passing tests with /root/.vp/BASELINE.json's stable_pass list.
# exit 0 iff every stable test passes.
export GOFLAGS=-mod=mod GOPROXY=off GOSUMDB=off GOTOOLCHAIN=local
cd /repo || exit 2
out=$(mktemp)
go test -mod=mod -json -vet=off -count=1 -timeout 25m ./... > "$out" 2>/dev/null
python3 - "$out" <<'PY'
import json, sys
passed=set()
for l in open(sys.argv[1]):
    try: e=json.loads(l)
    except Exception: continue
    if e.get('Action')=='pass' and e.get('Test'):
        passed.add(e['Package']+'::'+e['Test'])
base=json.load(open('/root/.vp/BASELINE.json'))['stable_pass']
missing=[t for t in base if t not in passed]
print(f"baseline: {len(base)-len(missing)}/{len(base)} stable tests pass")
for t in missing: print("  MISSING", t)
sys.exit(1 if missing else 0)
PY
rc=$?
rm -f "$out"
exit $rc
