#!/bin/bash
# runs every registered quick check on the unchanged tree (refreshes evidence/*.json); prints one line per check
cd "$(dirname "$0")/.."
tier=${1:-quick}
for p in $(python3 -c "import json;print(' '.join(c['property_id'] for c in json.load(open('MANIFEST.json'))['checks']))"); do
  ./check $p --tier $tier 2>&1 | grep -E "^check|VIOLATION|KNOWN|undischarged|disagreement" | cut -c1-260
done
