package main

import (
	"bytes"
	"flag"
	"fmt"
	"os"
	"path"
	"path/filepath"
	"sort"
	"strconv"
	"strings"
	"time"

	"google.golang.org/protobuf/types/descriptorpb"
	"google.golang.org/protobuf/types/pluginpb"
)

// ServerInfo is the server side of a single-method row.
type ServerInfo struct {
	Literal      string   `json:"literal"`            // string passed to srv.RegisterHandler ("" if none)
	Literals     []string `json:"literals,omitempty"` // all of them when there is not exactly one
	Shape        string   `json:"shape"`              // shape of the interface method Svc.Foo: unary | oneway | stream | ""
	HandlerShape string   `json:"handler_shape"`      // shape of the impl.Foo call in the registered handler
	IfaceSig     string   `json:"iface_sig"`
}

// DevInfo is the result of running the same row with Parameter "dev=true".
type DevInfo struct {
	Outcome         string   `json:"outcome"`
	Diag            string   `json:"diag"`
	Runs            int      `json:"runs"`
	Files           int      `json:"files"`
	FileNames       []string `json:"file_names"`        // sorted base names, row name normalised
	Deterministic   bool     `json:"deterministic"`     // the set {file name -> content} is the same in all runs
	FileOrderStable bool     `json:"file_order_stable"` // the files were listed in the same order in all runs
	Orders          int      `json:"orders"`            // number of distinct file orders seen
	SameBindings    bool     `json:"same_bindings"`     // stubs/server/qf extracted from the dev files equal those of the single file
}

// Row is one row of the lattice table.
type Row struct {
	ID            int      `json:"id"`
	Opts          RowOpts  `json:"opts"`
	OptsText      string   `json:"opts_text"`
	Outcome       string   `json:"outcome"`
	Outcomes      []string `json:"outcomes,omitempty"` // per run, only when they differ
	Exit          int      `json:"exit"`
	Diag          string   `json:"diag"`
	DiagClass     string   `json:"diag_class"`
	Deterministic bool     `json:"deterministic"`
	Runs          int      `json:"runs"`
	Variants      int      `json:"variants"` // number of distinct responses seen
	// CodeDeterministic: the runs agree after dropping comments (true for deterministic rows)
	CodeDeterministic bool     `json:"code_deterministic"`
	NondetDiff        []string `json:"nondet_diff,omitempty"`
	Files             int      `json:"files"`
	FileNames         []string `json:"file_names"`

	ParseError string `json:"parse_error,omitempty"`
	// Decls/Duplicates: for a row whose output varies between runs these hold the keys found in
	// EVERY observed variant; the keys found only in some variants are in the *_some_runs lists.
	Decls              []string `json:"decls"`
	DeclsSomeRuns      []string `json:"decls_some_runs,omitempty"`
	Duplicates         []string `json:"duplicates"`
	DuplicatesSomeRuns []string `json:"duplicates_some_runs,omitempty"`
	// BindingsStable (non-deterministic rows only): stubs, server shape, QF presence, method strings
	// and per-node flag are the same in all observed variants.
	BindingsStable bool         `json:"bindings_stable,omitempty"`
	ClientStubs    []ClientStub `json:"client_stubs"`
	Server         *ServerInfo  `json:"server_reg"`
	QF             string       `json:"qf"`
	MethodStrOK    bool         `json:"method_str_ok"`
	PerNodeSet     bool         `json:"per_node_set"`

	Dev *DevInfo `json:"dev,omitempty"`

	gen map[string]string // generated files of the first run (name -> content)
}

// TableOutput is the JSON document of `gr table`.
type TableOutput struct {
	Tool          string         `json:"tool"`
	Cmd           string         `json:"cmd"`
	Repo          string         `json:"repo"`
	PluginBuildOK bool           `json:"plugin_build_ok"`
	Error         string         `json:"error,omitempty"`
	BitOrder      []string       `json:"bit_order"`
	Runs          int            `json:"runs"`
	MaxRuns       int            `json:"max_runs"`
	NDRuns        int            `json:"nd_runs"`
	Jobs          int            `json:"jobs"`
	Summary       map[string]any `json:"summary"`
	Rows          []*Row         `json:"rows"`
	WallS         float64        `json:"wall_s"`
}

func responseFiles(resp *pluginpb.CodeGeneratorResponse) (names []string, content map[string]string) {
	content = map[string]string{}
	for _, f := range resp.GetFile() {
		n := f.GetName()
		if n == "" && len(names) > 0 {
			// continuation of the previous file (insertion points are not used by the plugin)
			content[names[len(names)-1]] += f.GetContent()
			continue
		}
		names = append(names, n)
		content[n] += f.GetContent()
	}
	return
}

func setKey(content map[string]string) string {
	names := make([]string, 0, len(content))
	for n := range content {
		names = append(names, n)
	}
	sort.Strings(names)
	var b strings.Builder
	for _, n := range names {
		fmt.Fprintf(&b, "%s\x00%d\x00%s\x00", n, len(content[n]), content[n])
	}
	return b.String()
}

// normSetKey is setKey over the comment-free, re-formatted files.
func normSetKey(content map[string]string) string {
	n := map[string]string{}
	for name, src := range content {
		if t, err := normalizeGo(name, []byte(src)); err == nil {
			n[name] = t
		} else {
			n[name] = src
		}
	}
	return setKey(n)
}

// runKey identifies a run for determinism: the raw response bytes for clean runs, the
// exit status and the (time-stamp free) stderr otherwise.
func runKey(r *PluginRun) string {
	switch o := r.Outcome(); o {
	case OutcomeCrash, OutcomeTimeout:
		// a stack trace contains addresses: only the first line counts
		return fmt.Sprintf("%s\x00%d\x00%s", o, r.Exit, r.Diag())
	default:
		return fmt.Sprintf("%s\x00%d\x00%s\x00%s", o, r.Exit, r.stderrNorm(), r.Stdout)
	}
}

// RunCfg says how often the plugin is run per row.
type RunCfg struct {
	Runs    int // runs of every row
	MaxRuns int // accepted rows that still look deterministic are re-run up to this many times
	NDRuns  int // rows found to be non-deterministic are re-run up to this many times (to stabilise what is reported about them)
	Dev     bool
	Timeout time.Duration
}

func (c *RunCfg) normalize() {
	if c.Runs < 1 {
		c.Runs = 1
	}
	if c.MaxRuns < c.Runs {
		c.MaxRuns = c.Runs
	}
	if c.NDRuns < c.MaxRuns {
		c.NDRuns = c.MaxRuns
	}
	if c.Timeout <= 0 {
		c.Timeout = 10 * time.Second
	}
}

type variant struct {
	run  *PluginRun
	freq int
}

// computeRow runs the plugin on one row.
func computeRow(env *Env, tree *Tree, id int, cfg RunCfg) (row *Row) {
	row = &Row{ID: id, Opts: rowOpts(id), Decls: []string{}, Duplicates: []string{}, ClientStubs: []ClientStub{}, FileNames: []string{}}
	row.OptsText = row.Opts.String()
	defer func() {
		if p := recover(); p != nil {
			row.Outcome = OutcomeCrash
			row.Diag = fmt.Sprintf("gr: internal error: %v", p)
			row.DiagClass = "other"
		}
	}()
	fdp := tree.synthRow(id)
	req, err := tree.Request(fdp, "", "")
	if err != nil {
		row.Outcome = OutcomeCrash
		row.Diag = "gr: request: " + err.Error()
		row.DiagClass = "other"
		return row
	}
	var first *PluginRun
	keys := map[string]*variant{}
	var order []*variant
	var outcomes []string
	for i := 0; ; i++ {
		if i >= cfg.Runs {
			generated := first.Outcome() == OutcomeOK && len(first.Resp.GetFile()) > 0
			// extra runs only look for rarely shown non-determinism of generated code, and
			// sample the variants of rows that are known to vary
			if !generated || (len(keys) == 1 && i >= cfg.MaxRuns) || (len(keys) > 1 && i >= cfg.NDRuns) {
				break
			}
		}
		r := runPlugin(env.Plugin, req, cfg.Timeout)
		row.Runs++
		if first == nil {
			first = r
		}
		outcomes = append(outcomes, r.Outcome())
		k := runKey(r)
		if v, ok := keys[k]; ok {
			v.freq++
		} else {
			v = &variant{run: r, freq: 1}
			keys[k] = v
			order = append(order, v)
		}
	}
	row.Outcome = first.Outcome()
	row.Exit = first.Exit
	row.Diag = normNames(first.Diag())
	row.DiagClass = classifyDiag(row.Outcome, row.Diag)
	row.Variants = len(keys)
	row.Deterministic = len(keys) == 1
	for _, o := range outcomes {
		if o != row.Outcome {
			row.Outcomes = outcomes
			break
		}
	}
	row.CodeDeterministic = true
	row.MethodStrOK = true
	if row.Outcome == OutcomeOK {
		names, content := responseFiles(first.Resp)
		row.Files = len(names)
		for _, n := range names {
			row.FileNames = append(row.FileNames, normNames(path.Base(n)))
		}
		row.gen = content
		if len(names) > 0 {
			fillBindings(row, analyzeGo(content), id)
		}
	}
	if !row.Deterministic {
		row.BindingsStable = true
		norm := map[string]bool{}
		declCount := map[string]int{}
		dupCount := map[string]int{}
		nAnalyzed := 0
		for _, v := range order {
			r := v.run
			if r.Resp == nil || first.Resp == nil || r.Outcome() != OutcomeOK || row.Outcome != OutcomeOK {
				row.CodeDeterministic = false
				row.BindingsStable = false
				continue
			}
			_, c2 := responseFiles(r.Resp)
			norm[normSetKey(c2)] = true
			tmp := &Row{}
			if len(c2) > 0 {
				fillBindings(tmp, analyzeGo(c2), id)
			}
			nAnalyzed++
			for _, k := range tmp.Decls {
				declCount[k]++
			}
			for _, k := range tmp.Duplicates {
				dupCount[k]++
			}
			if stableBindingsKey(tmp) != stableBindingsKey(row) {
				row.BindingsStable = false
			}
			if r != first && row.NondetDiff == nil {
				_, c1 := responseFiles(first.Resp)
				for n, a := range c1 {
					if b, ok := c2[n]; ok && a != b {
						if ln, x, y := firstDiff(a, b); ln > 0 {
							row.NondetDiff = []string{normNames(strings.TrimSpace(x)), normNames(strings.TrimSpace(y))}
						}
						break
					}
				}
			}
		}
		if len(norm) > 1 {
			row.CodeDeterministic = false
		}
		if nAnalyzed > 0 {
			// report what holds in every observed variant, and separately what holds in some
			row.Decls, row.DeclsSomeRuns = splitAll(declCount, nAnalyzed)
			row.Duplicates, row.DuplicatesSomeRuns = splitAll(dupCount, nAnalyzed)
		}
	}
	if cfg.Dev {
		row.Dev = computeDev(env, tree, fdp, row, cfg)
	}
	return row
}

// splitAll separates the keys counted n times (present in all variants) from the others.
func splitAll(count map[string]int, n int) (all, some []string) {
	all = []string{}
	for k, c := range count {
		if c == n {
			all = append(all, k)
		} else {
			some = append(some, k)
		}
	}
	sort.Strings(all)
	sort.Strings(some)
	return
}

// stableBindingsKey summarises the fields of a row that go into the Lean table (except the
// duplicate count); they are expected not to depend on the run.
func stableBindingsKey(r *Row) string {
	shape := ""
	if r.Server != nil {
		shape = r.Server.Shape + "/" + r.Server.HandlerShape + "/" + r.Server.Literal
	}
	return fmt.Sprintf("%v|%s|%v|%v|%v", stubKeys(r), shape, r.QF != "", r.MethodStrOK, r.PerNodeSet)
}

func serverInfo(a *GoAnalysis, svc, method string) *ServerInfo {
	si := &ServerInfo{}
	for _, r := range a.Regs {
		si.Literals = append(si.Literals, r.Literal)
	}
	if len(a.Regs) >= 1 {
		si.Literal = a.Regs[0].Literal
		si.HandlerShape = a.Regs[0].HandlerShape
	}
	if len(si.Literals) == 1 {
		si.Literals = nil
	}
	si.Shape = a.Iface[svc+"."+method]
	si.IfaceSig = a.IfaceSig[svc+"."+method]
	return si
}

func fillBindings(row *Row, a *GoAnalysis, id int) {
	row.ParseError = a.ParseError
	row.Decls = a.Decls
	row.Duplicates = a.Duplicates
	row.ClientStubs = a.stubsNamed(rowMethodGo)
	row.Server = serverInfo(a, "Svc", rowMethodGo)
	row.QF = a.QF[rowMethodGo+"QF"]
	want := rowPkg(id) + ".Svc." + rowMethodProto
	row.MethodStrOK = true
	for i := range row.ClientStubs {
		s := &row.ClientStubs[i]
		if s.MethodStr != want {
			row.MethodStrOK = false
		}
		if s.PerNodeArgFn {
			row.PerNodeSet = true
		}
		s.File = normNames(path.Base(s.File))
	}
	if row.Server.Literal != want || len(row.Server.Literals) > 1 {
		row.MethodStrOK = false
	}
}

// bindingsKey summarises the extracted bindings (for comparing dev and non-dev output).
func bindingsKey(stubs []ClientStub, si *ServerInfo, qf string, dups []string) string {
	var b strings.Builder
	for _, s := range stubs {
		fmt.Fprintf(&b, "%s|%s|%s|%s|%s|%v|%v|%s|%s|%s;", s.Name, s.Recv, s.Entry, s.MethodStr, s.CallData, s.PerNodeArgFn, s.ServerStream, s.QFCall, s.Params, s.Result)
	}
	if si != nil {
		fmt.Fprintf(&b, "#%s|%v|%s|%s|%s", si.Literal, si.Literals, si.Shape, si.HandlerShape, si.IfaceSig)
	}
	fmt.Fprintf(&b, "#%s#%v", qf, dups)
	return b.String()
}

func computeDev(env *Env, tree *Tree, fdp *descriptorpb.FileDescriptorProto, row *Row, cfg RunCfg) *DevInfo {
	runs, maxRuns, timeout := cfg.Runs, cfg.MaxRuns, cfg.Timeout
	d := &DevInfo{FileNames: []string{}}
	req, err := tree.Request(fdp, "dev=true", "")
	if err != nil {
		d.Outcome = OutcomeCrash
		d.Diag = "gr: request: " + err.Error()
		return d
	}
	var first *PluginRun
	sets := map[string]bool{}
	orders := map[string]bool{}
	for i := 0; i < maxRuns; i++ {
		if i >= runs && (len(sets) > 1 || first.Outcome() != OutcomeOK || len(first.Resp.GetFile()) == 0) {
			break
		}
		r := runPlugin(env.Plugin, req, timeout)
		d.Runs++
		if first == nil {
			first = r
		}
		if r.Outcome() == OutcomeOK {
			names, content := responseFiles(r.Resp)
			sets["ok\x00"+setKey(content)] = true
			orders[strings.Join(names, "\x00")] = true
		} else {
			sets[runKey(r)] = true
			orders[""] = true
		}
	}
	d.Outcome = first.Outcome()
	d.Diag = normNames(first.Diag())
	d.Deterministic = len(sets) == 1
	d.Orders = len(orders)
	d.FileOrderStable = len(orders) == 1
	if d.Outcome == OutcomeOK {
		names, content := responseFiles(first.Resp)
		d.Files = len(names)
		for _, n := range names {
			d.FileNames = append(d.FileNames, normNames(path.Base(n)))
		}
		sort.Strings(d.FileNames)
		if len(names) > 0 && row.Outcome == OutcomeOK && row.Files > 0 {
			a := analyzeGo(content)
			tmp := &Row{}
			fillBindings(tmp, a, row.ID)
			// the static code (type Configuration, …) is not part of the dev files: compare
			// only the duplicates that involve generated names
			if row.Deterministic {
				d.SameBindings = bindingsKey(tmp.ClientStubs, tmp.Server, tmp.QF, nil) == bindingsKey(row.ClientStubs, row.Server, row.QF, nil)
			} else {
				// result type names vary from run to run: compare what is stable
				d.SameBindings = stableBindingsKey(tmp) == stableBindingsKey(row)
			}
		} else {
			d.SameBindings = (len(names) == 0) == (row.Files == 0)
		}
	} else {
		d.SameBindings = d.Outcome == row.Outcome && d.Diag == row.Diag
	}
	return d
}

// computeTable runs all (or the selected) rows in parallel.
func computeTable(env *Env, tree *Tree, ids []int, cfg RunCfg) []*Row {
	cfg.normalize()
	rows := make([]*Row, len(ids))
	parallel(len(ids), env.Jobs, func(i int) {
		rows[i] = computeRow(env, tree, ids[i], cfg)
	})
	return rows
}

func allRowIDs() []int {
	ids := make([]int, NumRows)
	for i := range ids {
		ids[i] = i
	}
	return ids
}

func parseIDList(s string) ([]int, error) {
	var ids []int
	for _, p := range strings.Split(s, ",") {
		p = strings.TrimSpace(p)
		if p == "" {
			continue
		}
		if lo, hi, ok := strings.Cut(p, "-"); ok {
			a, err1 := strconv.Atoi(lo)
			b, err2 := strconv.Atoi(hi)
			if err1 != nil || err2 != nil || a > b {
				return nil, fmt.Errorf("bad row range %q", p)
			}
			for i := a; i <= b; i++ {
				ids = append(ids, i)
			}
			continue
		}
		v, err := strconv.Atoi(p)
		if err != nil {
			return nil, fmt.Errorf("bad row id %q", p)
		}
		ids = append(ids, v)
	}
	for _, id := range ids {
		if id < 0 || id >= NumRows {
			return nil, fmt.Errorf("row id %d out of range 0..%d", id, NumRows-1)
		}
	}
	return ids, nil
}

func summarize(rows []*Row) map[string]any {
	byOutcome := map[string]int{}
	byClass := map[string]int{}
	byStubs := map[string]int{}
	byStubCount := map[string]int{}
	okWithFile := 0
	var dup, nondet, codeNondet, nofile, parseErr, badStr, devNondet, devOrder, devDiffer []int
	for _, r := range rows {
		byOutcome[r.Outcome]++
		if r.DiagClass != "" {
			byClass[r.DiagClass]++
		}
		if r.Outcome == OutcomeOK {
			if r.Files == 0 {
				nofile = append(nofile, r.ID)
			} else {
				byStubs[strings.Join(stubKeys(r), "+")]++
				byStubCount[fmt.Sprint(len(r.ClientStubs))]++
				okWithFile++
			}
		}
		if len(r.Duplicates) > 0 {
			dup = append(dup, r.ID)
		}
		if !r.Deterministic {
			nondet = append(nondet, r.ID)
		}
		if !r.CodeDeterministic {
			codeNondet = append(codeNondet, r.ID)
		}
		if r.ParseError != "" {
			parseErr = append(parseErr, r.ID)
		}
		if !r.MethodStrOK {
			badStr = append(badStr, r.ID)
		}
		if r.Dev != nil {
			if !r.Dev.Deterministic {
				devNondet = append(devNondet, r.ID)
			}
			if !r.Dev.FileOrderStable {
				devOrder = append(devOrder, r.ID)
			}
			if !r.Dev.SameBindings {
				devDiffer = append(devDiffer, r.ID)
			}
		}
	}
	nz := func(x []int) []int {
		if x == nil {
			return []int{}
		}
		return x
	}
	return map[string]any{
		"rows":                        len(rows),
		"by_outcome":                  byOutcome,
		"by_diag_class":               byClass,
		"ok_by_stub_set":              byStubs,
		"ok_by_stub_count":            byStubCount,
		"n_ok_with_file":              okWithFile,
		"ok_without_file":             nz(nofile),
		"rows_with_duplicates":        nz(dup),
		"non_deterministic_rows":      nz(nondet),
		"code_non_deterministic_rows": nz(codeNondet),
		"parse_error_rows":            nz(parseErr),
		"method_str_mismatch_rows":    nz(badStr),
		"dev_non_deterministic":       nz(devNondet),
		"dev_file_order_unstable":     len(devOrder),
		"dev_bindings_differ_rows":    nz(devDiffer),
		"n_rows_with_duplicates":      len(dup),
		"n_non_deterministic_rows":    len(nondet),
		"n_ok_without_file":           len(nofile),
		"n_dev_file_order_unstable":   len(devOrder),
	}
}

func stubKeys(r *Row) []string {
	out := []string{}
	for _, s := range r.ClientStubs {
		out = append(out, s.Recv+"."+s.Entry)
	}
	sort.Strings(out)
	return out
}

func printSummary(rows []*Row, wall float64) {
	s := summarize(rows)
	fmt.Fprintf(os.Stderr, "gr table: %d rows in %.1fs\n", len(rows), wall)
	fmt.Fprintf(os.Stderr, "  by outcome: %v\n", s["by_outcome"])
	fmt.Fprintf(os.Stderr, "  by diagnostic class: %v\n", s["by_diag_class"])
	fmt.Fprintf(os.Stderr, "  ok rows with a file: %d, by number of client stubs named Foo: %v\n", s["n_ok_with_file"], s["ok_by_stub_count"])
	fmt.Fprintf(os.Stderr, "  ok rows without a file: %d\n", s["n_ok_without_file"])
	fmt.Fprintf(os.Stderr, "  rows with duplicate declarations: %d %v\n", s["n_rows_with_duplicates"], compactIDs(s["rows_with_duplicates"].([]int)))
	fmt.Fprintf(os.Stderr, "  non-deterministic rows: %d %v\n", s["n_non_deterministic_rows"], compactIDs(s["non_deterministic_rows"].([]int)))
	fmt.Fprintf(os.Stderr, "  of these, rows whose code (not only comments) differs between runs: %d %v\n", len(s["code_non_deterministic_rows"].([]int)), compactIDs(s["code_non_deterministic_rows"].([]int)))
	fmt.Fprintf(os.Stderr, "  parse errors: %v  method string mismatches: %v\n", s["parse_error_rows"], s["method_str_mismatch_rows"])
	fmt.Fprintf(os.Stderr, "  dev=true: content non-deterministic in %d rows, file order unstable in %d rows, bindings differ from single file in %v\n",
		len(s["dev_non_deterministic"].([]int)), s["n_dev_file_order_unstable"], compactIDs(s["dev_bindings_differ_rows"].([]int)))
}

func compactIDs(ids []int) string {
	if len(ids) > 40 {
		return fmt.Sprintf("%v …", ids[:40])
	}
	return fmt.Sprint(ids)
}

func cmdTable(args []string) int {
	fs := flag.NewFlagSet("table", flag.ContinueOnError)
	repo := fs.String("repo", "/repo", "repository under test")
	out := fs.String("out", "", "JSON output file (- or empty: stdout)")
	lean := fs.String("lean", "", "Lean 4 output file")
	runs := fs.Int("runs", 3, "plugin runs per row")
	maxRuns := fs.Int("maxruns", 16, "accepted rows that still look deterministic after -runs runs are re-run up to this many times")
	ndRuns := fs.Int("ndruns", 64, "rows found to be non-deterministic are re-run up to this many times, so that what is reported about them is stable")
	jobs := fs.Int("j", 0, "parallel workers (0: number of CPUs)")
	dev := fs.Bool("dev", true, "also run every row with Parameter dev=true")
	rowsFlag := fs.String("rows", "", "restrict to these rows (comma list / ranges); the Lean file is only written for the full table")
	timeout := fs.Duration("timeout", 10*time.Second, "time-out of one plugin run")
	if err := fs.Parse(args); err != nil {
		return 2
	}
	start := time.Now()
	res := &TableOutput{Tool: "gr", Cmd: "table", Repo: *repo, BitOrder: BitOrder, Runs: *runs, Rows: []*Row{}, Summary: map[string]any{}}
	fail := func(err error) int {
		res.Error = err.Error()
		res.WallS = time.Since(start).Seconds()
		fmt.Fprintln(os.Stderr, "gr table:", err)
		_ = writeJSON(*out, res)
		return 2
	}
	cfg := RunCfg{Runs: *runs, MaxRuns: *maxRuns, NDRuns: *ndRuns, Dev: *dev, Timeout: *timeout}
	cfg.normalize()
	res.Runs, res.MaxRuns, res.NDRuns = cfg.Runs, cfg.MaxRuns, cfg.NDRuns
	ids := allRowIDs()
	if *rowsFlag != "" {
		var err error
		if ids, err = parseIDList(*rowsFlag); err != nil {
			return fail(toolErrorf("%v", err))
		}
	}
	env, err := newEnv(*repo, *jobs)
	if err != nil {
		return fail(err)
	}
	defer env.Close()
	res.Repo = env.Repo
	res.Jobs = env.Jobs
	if err := env.BuildPlugin(); err != nil {
		return fail(err)
	}
	res.PluginBuildOK = true
	tree, err := loadGorumsOptions(env.Repo)
	if err != nil {
		return fail(err)
	}
	rows := computeTable(env, tree, ids, cfg)
	res.Rows = rows
	res.Summary = summarize(rows)
	res.WallS = time.Since(start).Seconds()
	if *lean != "" {
		if len(rows) != NumRows {
			fmt.Fprintln(os.Stderr, "gr table: -lean ignored: not the full table")
		} else if err := writeLean(*lean, env.Repo, rows); err != nil {
			return fail(toolErrorf("lean output: %v", err))
		}
	}
	if err := writeJSON(*out, res); err != nil {
		fmt.Fprintln(os.Stderr, "gr table:", err)
		return 2
	}
	printSummary(rows, res.WallS)
	return 0
}

// ---------------------------------------------------------------------------
// Lean output

func leanBool(b bool) string {
	if b {
		return "true"
	}
	return "false"
}

func leanStr(s string) string {
	var b strings.Builder
	b.WriteByte('"')
	for _, r := range s {
		switch {
		case r == '"':
			b.WriteString(`\"`)
		case r == '\\':
			b.WriteString(`\\`)
		case r == '\n':
			b.WriteString(`\n`)
		case r == '\t':
			b.WriteString(`\t`)
		case r < 0x20 || r == 0x7f:
			fmt.Fprintf(&b, `\x%02x`, r)
		default:
			b.WriteRune(r)
		}
	}
	b.WriteByte('"')
	return b.String()
}

func leanRow(r *Row) string {
	o := r.Opts
	stubs := stubKeys(r)
	qs := make([]string, len(stubs))
	for i, s := range stubs {
		qs[i] = leanStr(s)
	}
	shape := ""
	if r.Server != nil {
		shape = r.Server.Shape
	}
	var b bytes.Buffer
	fmt.Fprintf(&b, "{rpc:=%s, unicast:=%s, multicast:=%s, quorumcall:=%s, correctable:=%s, async:=%s, perNode:=%s, custom:=%s, clientStream:=%s, serverStream:=%s, ",
		leanBool(o.RPC), leanBool(o.Unicast), leanBool(o.Multicast), leanBool(o.Quorumcall), leanBool(o.Correctable), leanBool(o.Async), leanBool(o.PerNodeArg), leanBool(o.Custom != ""), leanBool(o.ClientStream), leanBool(o.ServerStream))
	fmt.Fprintf(&b, "outcome:=%s, deterministic:=%s, files:=%d, stubs:=[%s], dupDecls:=%d, serverShape:=%s, hasQF:=%s, methodStrOK:=%s, perNodeSet:=%s, diagClass:=%s}",
		leanStr(r.Outcome), leanBool(r.Deterministic), r.Files, strings.Join(qs, ", "), len(r.Duplicates), leanStr(shape), leanBool(r.QF != ""), leanBool(r.MethodStrOK), leanBool(r.PerNodeSet), leanStr(r.DiagClass))
	return b.String()
}

func writeLean(file, repo string, rows []*Row) error {
	var b bytes.Buffer
	b.WriteString("-- GENERATED by `gr table` (verifgen) from the working tree of " + repo + ". DO NOT EDIT.\n")
	b.WriteString("-- One row per combination of the gorums method options on a single method foo_bar(Request) returns (Response).\n")
	b.WriteString("-- Row i of genTable has id i; bits of the id: " + strings.Join(BitOrder, ", ") + ".\n")
	b.WriteString("namespace GorumsV.Generated\n\n")
	b.WriteString("structure GenRow where\n")
	b.WriteString("  rpc : Bool\n  unicast : Bool\n  multicast : Bool\n  quorumcall : Bool\n  correctable : Bool\n  async : Bool\n  perNode : Bool\n  custom : Bool\n  clientStream : Bool\n  serverStream : Bool\n")
	b.WriteString("  outcome : String      -- ok | diag | timeout | crash\n")
	b.WriteString("  deterministic : Bool\n")
	b.WriteString("  files : Nat\n")
	b.WriteString("  stubs : List String   -- sorted \"Recv.entryPoint\" of every client stub named FooBar\n")
	b.WriteString("  dupDecls : Nat        -- number of duplicated top-level declaration keys\n")
	b.WriteString("  serverShape : String  -- unary | oneway | stream | \"\" (no file)\n")
	b.WriteString("  hasQF : Bool\n")
	b.WriteString("  methodStrOK : Bool    -- every client stub and the server registration use \"p<row>.Svc.foo_bar\" (the full proto name; the Go name is FooBar)\n")
	b.WriteString("  perNodeSet : Bool     -- some stub sets PerNodeArgFn\n")
	b.WriteString("  diagClass : String    -- \"\" | async-needs-quorumcall | client-stream-needs-multicast | server-stream-needs-correctable | correctable-client-stream | other\n")
	b.WriteString("  deriving Repr, DecidableEq, BEq\n\n")
	b.WriteString("def genTable : List GenRow := [\n")
	for i, r := range rows {
		b.WriteString("  ")
		b.WriteString(leanRow(r))
		if i+1 < len(rows) {
			b.WriteByte(',')
		}
		b.WriteByte('\n')
	}
	b.WriteString("]\n\nend GorumsV.Generated\n")
	if err := os.MkdirAll(filepath.Dir(file), 0o755); err != nil {
		return err
	}
	return os.WriteFile(file, b.Bytes(), 0o644)
}
