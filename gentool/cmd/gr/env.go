package main

import (
	"bytes"
	"context"
	"encoding/json"
	"errors"
	"fmt"
	"os"
	"os/exec"
	"os/signal"
	"path/filepath"
	"regexp"
	"runtime"
	"strings"
	"sync"
	"syscall"
	"time"

	"google.golang.org/protobuf/proto"
	"google.golang.org/protobuf/types/pluginpb"
)

// Env is the per-invocation tool environment: the repository under test, the
// scratch directory and the binaries built from the repository's working tree.
type Env struct {
	Repo    string
	Scratch string
	Jobs    int
	Plugin  string // <scratch>/protoc-gen-gorums, built from Repo on every invocation

	genGoOnce sync.Once
	genGo     string
	genGoErr  error
}

// toolError marks a failure of the tool itself (exit status 2).
type toolError struct{ msg string }

func (e *toolError) Error() string { return e.msg }

func toolErrorf(format string, a ...any) error { return &toolError{fmt.Sprintf(format, a...)} }

// goEnv returns the environment for child `go` processes. The offline defaults
// of the sandbox are filled in when the caller did not set them.
func goEnv() []string {
	env := os.Environ()
	def := map[string]string{
		"GOFLAGS":     "-mod=mod",
		"GOPROXY":     "off",
		"GOSUMDB":     "off",
		"GOTOOLCHAIN": "local",
	}
	for k, v := range def {
		if _, ok := os.LookupEnv(k); !ok {
			env = append(env, k+"="+v)
		}
	}
	return env
}

func newEnv(repo string, jobs int) (*Env, error) {
	abs, err := filepath.Abs(repo)
	if err != nil {
		return nil, toolErrorf("repo path: %v", err)
	}
	if st, err := os.Stat(filepath.Join(abs, "go.mod")); err != nil || st.IsDir() {
		return nil, toolErrorf("repo %s: no go.mod", abs)
	}
	scratch, err := os.MkdirTemp("", "gverif")
	if err != nil {
		return nil, toolErrorf("scratch dir: %v", err)
	}
	if jobs <= 0 {
		jobs = runtime.NumCPU()
	}
	e := &Env{Repo: abs, Scratch: scratch, Jobs: jobs}
	trackEnv(e)
	return e, nil
}

var (
	liveMu   sync.Mutex
	liveEnvs = map[*Env]bool{}
	sigOnce  sync.Once
)

// trackEnv makes sure the scratch directory is removed when the tool is interrupted.
func trackEnv(e *Env) {
	liveMu.Lock()
	liveEnvs[e] = true
	liveMu.Unlock()
	sigOnce.Do(func() {
		ch := make(chan os.Signal, 1)
		signal.Notify(ch, os.Interrupt, syscall.SIGTERM, syscall.SIGHUP)
		go func() {
			sig := <-ch
			liveMu.Lock()
			envs := make([]*Env, 0, len(liveEnvs))
			for e := range liveEnvs {
				envs = append(envs, e)
			}
			liveMu.Unlock()
			for _, e := range envs {
				e.Close()
			}
			fmt.Fprintln(os.Stderr, "gr: interrupted:", sig)
			os.Exit(2)
		}()
	})
}

func (e *Env) Close() {
	if e != nil && e.Scratch != "" {
		liveMu.Lock()
		delete(liveEnvs, e)
		liveMu.Unlock()
		// the go tool leaves read-only directories only in the module cache, not here,
		// but be defensive so that nothing is left behind.
		_ = filepath.Walk(e.Scratch, func(p string, info os.FileInfo, err error) error {
			if err == nil && info.IsDir() {
				_ = os.Chmod(p, 0o755)
			}
			return nil
		})
		_ = os.RemoveAll(e.Scratch)
	}
}

// runGo runs the go tool in dir and returns its combined output.
func runGo(ctx context.Context, dir string, args ...string) ([]byte, error) {
	cmd := exec.CommandContext(ctx, "go", args...)
	cmd.Dir = dir
	cmd.Env = goEnv()
	cmd.WaitDelay = 5 * time.Second
	return cmd.CombinedOutput()
}

// BuildPlugin builds protoc-gen-gorums from the repository's current working tree.
func (e *Env) BuildPlugin() error {
	ctx, cancel := context.WithTimeout(context.Background(), 10*time.Minute)
	defer cancel()
	out := filepath.Join(e.Scratch, "protoc-gen-gorums")
	b, err := runGo(ctx, e.Repo, "build", "-o", out, "./cmd/protoc-gen-gorums")
	if err != nil {
		return toolErrorf("plugin does not build: %v\n%s", err, trimOutput(b, 4000))
	}
	e.Plugin = out
	return nil
}

// GenGo builds protoc-gen-go (from the module cache, using the repository's module
// as the resolving context) on first use.
func (e *Env) GenGo() (string, error) {
	e.genGoOnce.Do(func() {
		ctx, cancel := context.WithTimeout(context.Background(), 10*time.Minute)
		defer cancel()
		out := filepath.Join(e.Scratch, "protoc-gen-go")
		b, err := runGo(ctx, e.Repo, "build", "-o", out, "google.golang.org/protobuf/cmd/protoc-gen-go")
		if err != nil {
			e.genGoErr = toolErrorf("protoc-gen-go does not build: %v\n%s", err, trimOutput(b, 4000))
			return
		}
		e.genGo = out
	})
	return e.genGo, e.genGoErr
}

func trimOutput(b []byte, n int) string {
	s := strings.TrimSpace(string(b))
	if len(s) > n {
		s = s[:n] + " …"
	}
	return s
}

// ---------------------------------------------------------------------------
// driving a protoc plugin without protoc

// PluginRun is the raw result of one plugin execution.
type PluginRun struct {
	Exit     int // exit status; -1 when killed by a signal or not started
	TimedOut bool
	Signal   string
	StartErr string
	Stdout   []byte
	Stderr   []byte
	Resp     *pluginpb.CodeGeneratorResponse // nil when stdout is not a response
	RespErr  string                          // unmarshal error for stdout
}

const (
	OutcomeOK      = "ok"
	OutcomeDiag    = "diag"
	OutcomeTimeout = "timeout"
	OutcomeCrash   = "crash"
)

// runPlugin executes bin with the marshalled request on stdin.
func runPlugin(bin string, req []byte, timeout time.Duration) *PluginRun {
	ctx, cancel := context.WithTimeout(context.Background(), timeout)
	defer cancel()
	cmd := exec.CommandContext(ctx, bin)
	cmd.Stdin = bytes.NewReader(req)
	var so, se bytes.Buffer
	cmd.Stdout = &so
	cmd.Stderr = &se
	cmd.WaitDelay = 2 * time.Second
	// a crashing plugin must not produce a core file or a very long trace
	cmd.Env = append(os.Environ(), "GOTRACEBACK=single")
	err := cmd.Run()
	r := &PluginRun{Stdout: so.Bytes(), Stderr: se.Bytes()}
	if ctx.Err() == context.DeadlineExceeded {
		r.TimedOut = true
	}
	if err != nil {
		var ee *exec.ExitError
		if errors.As(err, &ee) {
			r.Exit = ee.ExitCode()
			if ws, ok := ee.Sys().(syscall.WaitStatus); ok && ws.Signaled() {
				r.Signal = ws.Signal().String()
			}
		} else {
			r.Exit = -1
			r.StartErr = err.Error()
		}
	}
	if r.Exit == 0 && !r.TimedOut {
		resp := &pluginpb.CodeGeneratorResponse{}
		if uerr := proto.Unmarshal(r.Stdout, resp); uerr != nil {
			r.RespErr = uerr.Error()
		} else {
			r.Resp = resp
		}
	}
	return r
}

var (
	reLogStamp = regexp.MustCompile(`^\d{4}/\d\d/\d\d \d\d:\d\d:\d\d(\.\d+)? `)
	reCrash    = regexp.MustCompile(`(?m)^(panic: |fatal error: |goroutine \d+ \[|runtime: |SIGSEGV|unexpected fault address)`)
)

// Outcome classifies a plugin run.
func (r *PluginRun) Outcome() string {
	switch {
	case r.TimedOut:
		return OutcomeTimeout
	case r.StartErr != "":
		return OutcomeCrash
	case r.Signal != "" || reCrash.Match(r.Stderr):
		return OutcomeCrash
	case r.Exit != 0:
		return OutcomeDiag
	case r.Resp == nil:
		return OutcomeCrash // exit 0 but stdout is not a CodeGeneratorResponse
	case r.Resp.Error != nil:
		return OutcomeDiag
	}
	return OutcomeOK
}

// Diag returns the first diagnostic line of the run ("" for a clean run).
func (r *PluginRun) Diag() string {
	switch {
	case r.TimedOut:
		return "timeout"
	case r.StartErr != "":
		return "start: " + r.StartErr
	}
	first := func(b []byte) string {
		for _, l := range strings.Split(string(b), "\n") {
			l = strings.TrimSpace(l)
			if l != "" {
				return reLogStamp.ReplaceAllString(l, "")
			}
		}
		return ""
	}
	if s := first(r.Stderr); s != "" {
		return s
	}
	if r.Resp != nil && r.Resp.Error != nil {
		return first([]byte(r.Resp.GetError()))
	}
	if r.Signal != "" {
		return "killed by signal: " + r.Signal
	}
	if r.Exit != 0 {
		return fmt.Sprintf("exit status %d", r.Exit)
	}
	if r.Resp == nil {
		return "unparsable response: " + r.RespErr
	}
	return ""
}

// stderrNorm returns stderr without log time stamps (for determinism comparisons).
func (r *PluginRun) stderrNorm() string {
	var b strings.Builder
	for _, l := range strings.Split(string(r.Stderr), "\n") {
		b.WriteString(reLogStamp.ReplaceAllString(l, ""))
		b.WriteByte('\n')
	}
	return b.String()
}

// ---------------------------------------------------------------------------
// JSON output

func writeJSON(path string, v any) error {
	b, err := json.MarshalIndent(v, "", " ")
	if err != nil {
		return err
	}
	b = append(b, '\n')
	if path == "" || path == "-" {
		_, err = os.Stdout.Write(b)
		return err
	}
	if err := os.MkdirAll(filepath.Dir(path), 0o755); err != nil {
		return err
	}
	return os.WriteFile(path, b, 0o644)
}

// parallel runs fn(i) for i in [0,n) on j workers; a panic in fn is converted by rec.
func parallel(n, j int, fn func(i int)) {
	if j < 1 {
		j = 1
	}
	var wg sync.WaitGroup
	ch := make(chan int)
	for w := 0; w < j; w++ {
		wg.Add(1)
		go func() {
			defer wg.Done()
			for i := range ch {
				fn(i)
			}
		}()
	}
	for i := 0; i < n; i++ {
		ch <- i
	}
	close(ch)
	wg.Wait()
}
