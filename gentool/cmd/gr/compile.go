package main

import (
	"context"
	"flag"
	"fmt"
	"math/rand"
	"os"
	"path/filepath"
	"regexp"
	"sort"
	"strings"
	"time"

	"google.golang.org/protobuf/types/descriptorpb"
)

const scratchModule = "example.com/gen"

// CompileRow is the compile result of one lattice row.
type CompileRow struct {
	ID         int      `json:"id"`
	Opts       RowOpts  `json:"opts"`
	OptsText   string   `json:"opts_text"`
	Outcome    string   `json:"outcome"` // plugin outcome of the row
	Files      int      `json:"files"`
	Skipped    string   `json:"skipped,omitempty"` // reason why the row was not compiled
	Duplicates []string `json:"duplicates"`
	Stubs      []string `json:"stubs"`
	// Deterministic is false when the plugin produced different output in different runs; the
	// compile verdict (and certainly the first error) is then that of the first run's output.
	Deterministic bool     `json:"deterministic"`
	Compiled      bool     `json:"compiled"`
	FirstError    string   `json:"first_error"`
	Errors        []string `json:"errors,omitempty"` // first few compiler lines
}

// ServiceResult is the result of one random multi-method service.
type ServiceResult struct {
	ID            int          `json:"id"`
	Package       string       `json:"package"`
	Methods       []MethodSpec `json:"methods"`
	MethodOpts    []string     `json:"method_opts"`
	Hazards       []string     `json:"hazards"` // deliberately risky ingredients of this service
	Outcome       string       `json:"outcome"` // ok | diag | timeout | crash
	Accepted      bool         `json:"accepted"`
	Diag          string       `json:"diag"`
	Deterministic bool         `json:"deterministic"`
	Files         int          `json:"files"`
	Duplicates    []string     `json:"duplicates"`
	Compiled      bool         `json:"compiled"`
	FirstError    string       `json:"first_error"`
	Errors        []string     `json:"errors,omitempty"`
	Proto         string       `json:"proto"` // the synthesised service in .proto syntax
}

// CompileOutput is the JSON document of `gr compile`.
type CompileOutput struct {
	Tool          string           `json:"tool"`
	Cmd           string           `json:"cmd"`
	Repo          string           `json:"repo"`
	PluginBuildOK bool             `json:"plugin_build_ok"`
	GenGoBuildOK  bool             `json:"protoc_gen_go_build_ok"`
	Error         string           `json:"error,omitempty"`
	BitOrder      []string         `json:"bit_order"`
	Selection     string           `json:"selection"`
	Rows          []*CompileRow    `json:"rows"`
	Services      []*ServiceResult `json:"services"`
	Pool          string           `json:"pool,omitempty"`
	PoolRows      []int            `json:"pool_rows,omitempty"`
	Seed          int64            `json:"seed"`
	Summary       map[string]any   `json:"summary"`
	BuildOutput   string           `json:"build_output_unattributed,omitempty"`
	WallS         float64          `json:"wall_s"`
}

// unit is one package of the scratch module.
type unit struct {
	pkg   string
	fdp   *descriptorpb.FileDescriptorProto
	deps  []svcDep          // synthesised message-only files that fdp imports, each a package of its own
	gen   map[string]string // gorums output: response name -> content
	err   string            // generation problem (protoc-gen-go)
	errs  []string          // compiler lines
	built bool
}

// svcDep is a synthesised message-only file imported by a service file; dir is its package directory
// relative to the scratch module (the path of its go_package below example.com/gen).
type svcDep struct {
	fdp *descriptorpb.FileDescriptorProto
	dir string
}

// writeUnit generates the message code with protoc-gen-go and writes the package (and, first, the packages
// of the synthesised files it imports: these have no service and need protoc-gen-go output only).
func writeUnit(env *Env, tree *Tree, modDir string, u *unit) {
	genGo, err := env.GenGo()
	if err != nil {
		u.err = err.Error()
		return
	}
	write := func(dir, name, src string) error {
		// the plugins name their files after the Go import path: example.com/gen/<dir>/<file>
		rel := strings.TrimPrefix(name, scratchModule+"/")
		if rel == name || strings.Contains(rel, "..") {
			rel = filepath.Join(dir, filepath.Base(name))
		}
		p := filepath.Join(modDir, rel)
		if err := os.MkdirAll(filepath.Dir(p), 0o755); err != nil {
			return err
		}
		return os.WriteFile(p, []byte(src), 0o644)
	}
	// genMessages runs protoc-gen-go with fdp as the only file to generate (ProtoFile = its import closure,
	// dependencies first).
	genMessages := func(fdp *descriptorpb.FileDescriptorProto, dir string) bool {
		req, err := tree.Request(fdp, "", "")
		if err != nil {
			u.err = "request: " + err.Error()
			return false
		}
		r := runPlugin(genGo, req, 60*time.Second)
		if r.Outcome() != OutcomeOK {
			u.err = "protoc-gen-go (" + fdp.GetName() + ") " + r.Outcome() + ": " + r.Diag()
			return false
		}
		_, content := responseFiles(r.Resp)
		if len(content) == 0 {
			u.err = "protoc-gen-go (" + fdp.GetName() + "): no file generated"
			return false
		}
		for n, c := range content {
			if err := write(dir, n, c); err != nil {
				u.err = err.Error()
				return false
			}
		}
		return true
	}
	for _, d := range u.deps {
		if !genMessages(d.fdp, d.dir) {
			return
		}
	}
	if !genMessages(u.fdp, u.pkg) {
		return
	}
	for n, c := range u.gen {
		if err := write(u.pkg, n, c); err != nil {
			u.err = err.Error()
			return
		}
	}
}

func initModule(env *Env, dir string) error {
	if err := os.MkdirAll(dir, 0o755); err != nil {
		return err
	}
	goVersion := "1.22.1"
	if b, err := os.ReadFile(filepath.Join(env.Repo, "go.mod")); err == nil {
		if m := regexp.MustCompile(`(?m)^go\s+(\S+)`).FindSubmatch(b); m != nil {
			goVersion = string(m[1])
		}
	}
	mod := fmt.Sprintf("module %s\n\ngo %s\n\nrequire github.com/relab/gorums v0.0.0\n\nreplace github.com/relab/gorums => %s\n", scratchModule, goVersion, env.Repo)
	if err := os.WriteFile(filepath.Join(dir, "go.mod"), []byte(mod), 0o644); err != nil {
		return err
	}
	if b, err := os.ReadFile(filepath.Join(env.Repo, "go.sum")); err == nil {
		if err := os.WriteFile(filepath.Join(dir, "go.sum"), b, 0o644); err != nil {
			return err
		}
	}
	return nil
}

var reErrLine = regexp.MustCompile(`^(?:\./)?([A-Za-z0-9_]+)/[^:\s]+\.go:\d+`)

// depTop is the top-level directory of a dependency package directory ("s3dep/fmt" -> "s3dep").
func depTop(dir string) string {
	if i := strings.IndexByte(dir, '/'); i >= 0 {
		return dir[:i]
	}
	return dir
}

// buildUnits runs `go build ./...` once and attributes the compiler output to the packages.
func buildUnits(env *Env, modDir string, units []*unit) (unattributed string, err error) {
	byPkg := map[string]*unit{}
	any := false
	for _, u := range units {
		byPkg[u.pkg] = u
		// compiler output about a package that exists only for this unit counts against the unit
		for _, d := range u.deps {
			byPkg[d.dir] = u
			byPkg[depTop(d.dir)] = u
		}
		if u.err == "" {
			any = true
		}
	}
	if !any {
		return "", nil
	}
	ctx, cancel := context.WithTimeout(context.Background(), 30*time.Minute)
	defer cancel()
	out, berr := runGo(ctx, modDir, "build", "-p", fmt.Sprint(env.Jobs), "./...")
	if ctx.Err() != nil {
		return "", toolErrorf("go build timed out")
	}
	var cur *unit
	var rest []string
	for _, l := range strings.Split(string(out), "\n") {
		if strings.TrimSpace(l) == "" {
			continue
		}
		if strings.HasPrefix(l, "# ") {
			p := strings.Fields(l)[1]
			cur = byPkg[strings.TrimPrefix(p, scratchModule+"/")]
			if cur == nil {
				rest = append(rest, l)
			}
			continue
		}
		if m := reErrLine.FindStringSubmatch(l); m != nil && byPkg[m[1]] != nil {
			byPkg[m[1]].errs = append(byPkg[m[1]].errs, l)
			continue
		}
		if cur != nil && (strings.HasPrefix(l, "\t") || strings.HasPrefix(l, " ")) {
			cur.errs = append(cur.errs, l) // continuation line
			continue
		}
		if strings.HasPrefix(l, "go: downloading") || strings.HasPrefix(l, "go: finding") {
			continue
		}
		rest = append(rest, l)
	}
	for _, u := range units {
		u.built = u.err == "" && len(u.errs) == 0
	}
	if berr != nil && len(rest) > 0 {
		// a failure that could not be attributed to a package (missing module, …): nothing
		// can be said about the packages.
		for _, u := range units {
			if u.built {
				u.built = false
				u.errs = append(u.errs, "build failed: "+rest[0])
			}
		}
	}
	if berr == nil {
		for _, u := range units {
			if u.err == "" && len(u.errs) > 0 {
				u.built = false
			}
		}
	}
	return strings.Join(rest, "\n"), nil
}

func (u *unit) firstError() string {
	if u.err != "" {
		return u.err
	}
	if len(u.errs) > 0 {
		return normNames(u.errs[0])
	}
	return ""
}

func (u *unit) someErrors() []string {
	var out []string
	for i, e := range u.errs {
		if i == 6 {
			break
		}
		out = append(out, normNames(e))
	}
	return out
}

// selectRows resolves the -rows argument against the table.
func selectRows(sel string, rows []*Row) (ids []int, err error) {
	okIDs := []int{}
	for _, r := range rows {
		if r.Outcome == OutcomeOK && r.Files > 0 {
			okIDs = append(okIDs, r.ID)
		}
	}
	switch {
	case sel == "" || sel == "none":
		return nil, nil
	case sel == "all-ok":
		return okIDs, nil
	case strings.HasPrefix(sel, "sample:"):
		var n int
		var seed int64
		if _, err := fmt.Sscanf(sel, "sample:%d:%d", &n, &seed); err != nil {
			return nil, fmt.Errorf("bad selection %q (want sample:N:SEED)", sel)
		}
		rng := rand.New(rand.NewSource(seed))
		perm := rng.Perm(len(okIDs))
		if n > len(okIDs) {
			n = len(okIDs)
		}
		for _, i := range perm[:n] {
			ids = append(ids, okIDs[i])
		}
		sort.Ints(ids)
		return ids, nil
	}
	return parseIDList(sel)
}

// ---------------------------------------------------------------------------
// random multi-method services

var (
	safeNames   = []string{"Foo", "Bar", "Baz", "get_value", "Read", "Write", "Put", "Send", "Ping", "Echo", "List", "Commit", "Prepare", "Accept", "Lookup"}
	hazardNames = []string{"Nodes", "Size", "Close", "Get", "And", "Except", "ID", "String", "Equal", "NodeIDs"}
	// importedPkgNames are Go package names for a synthesised file whose message a service imports: each (but
	// the control "blobs") is also the name under which the generated gorums code imports a package of its own.
	importedPkgNames = []string{"encoding", "fmt", "gorums", "grpc", "codes", "status", "ordering", "context", "sync", "proto", "protoreflect", "blobs"}
)

// synthService draws one random service. pool holds the candidate rows. deps are the synthesised files the
// service file imports (already registered with the tree).
func synthService(tree *Tree, k int, rng *rand.Rand, pool []int) (sr *ServiceResult, fdp *descriptorpb.FileDescriptorProto, deps []svcDep) {
	pkg := fmt.Sprintf("s%d", k)
	sr = &ServiceResult{ID: k, Package: pkg, Hazards: []string{}, Duplicates: []string{}}
	n := 2 + rng.Intn(7) // 2..8 methods
	names := append([]string{}, safeNames...)
	rng.Shuffle(len(names), func(i, j int) { names[i], names[j] = names[j], names[i] })
	names = names[:n]
	if rng.Intn(2) == 0 {
		h := hazardNames[rng.Intn(len(hazardNames))]
		names[rng.Intn(n)] = h
		sr.Hazards = append(sr.Hazards, "name:"+h)
	}
	var customPool []int
	for _, id := range pool {
		if rowOpts(id).Custom != "" {
			customPool = append(customPool, id)
		}
	}
	rows := make([]int, n)
	for i := range rows {
		rows[i] = pool[rng.Intn(len(pool))]
	}
	if len(customPool) > 0 && rng.Intn(2) == 0 {
		// a custom return type shared by two methods
		i := rng.Intn(n)
		j := (i + 1 + rng.Intn(n-1)) % n
		rows[i] = customPool[rng.Intn(len(customPool))]
		rows[j] = customPool[rng.Intn(len(customPool))]
		sr.Hazards = append(sr.Hazards, fmt.Sprintf("shared_custom:%s,%s", names[i], names[j]))
	}
	req, resp := "."+pkg+".Request", "."+pkg+".Response"
	var methods []MethodSpec
	for i := 0; i < n; i++ {
		methods = append(methods, MethodSpec{Name: names[i], Row: rows[i], Opts: rowOpts(rows[i]), In: req, Out: resp})
	}
	if rng.Intn(2) == 0 {
		// one imported message type
		i := rng.Intn(n)
		if rng.Intn(2) == 0 {
			methods[i].In = ".google.protobuf.Empty"
			sr.Hazards = append(sr.Hazards, "empty_in:"+names[i])
		} else {
			methods[i].Out = ".google.protobuf.Empty"
			h := "empty_out:" + names[i]
			if methods[i].Opts.Custom != "" {
				h += "(custom)"
			}
			sr.Hazards = append(sr.Hazards, h)
		}
	}
	var imports []string
	header := ""
	if rng.Intn(3) == 0 {
		// one message imported from another synthesised file whose Go package name is that of a package the
		// generated code imports itself
		name := importedPkgNames[rng.Intn(len(importedPkgNames))]
		i := rng.Intn(n)
		asInput := rng.Intn(2) == 0
		// do not overwrite the google.protobuf.Empty of the previous hazard
		if asInput && methods[i].In != req {
			asInput = false
		} else if !asInput && methods[i].Out != resp {
			asInput = true
		}
		dep := synthDepFile(name, k)
		tree.addSynth(dep)
		deps = append(deps, svcDep{fdp: dep, dir: depPkgDir(name, k)})
		imports = append(imports, dep.GetName())
		item := "." + dep.GetPackage() + ".Item"
		h := "imported_pkg:" + name
		if asInput {
			methods[i].In = item
			h += ":in:" + names[i]
		} else {
			methods[i].Out = item
			h += ":out:" + names[i]
			if methods[i].Opts.Custom != "" {
				h += "(custom)"
			}
		}
		sr.Hazards = append(sr.Hazards, h)
		header = fmt.Sprintf("import %q; // package %s; option go_package = %q; message Item { string value = 1; }\n",
			dep.GetName(), dep.GetPackage(), dep.GetOptions().GetGoPackage())
	}
	sr.Methods = methods
	for _, m := range methods {
		sr.MethodOpts = append(sr.MethodOpts, m.Name+": "+m.Opts.String())
	}
	sr.Proto = header + protoText(pkg, methods)
	return sr, tree.synthFile(pkg, methods, imports...), deps
}

// protoText renders the service in .proto syntax (for the report only).
func protoText(pkg string, methods []MethodSpec) string {
	var b strings.Builder
	fmt.Fprintf(&b, "service Svc {\n")
	short := func(t string) string {
		t = strings.TrimPrefix(t, ".")
		return strings.TrimPrefix(t, pkg+".")
	}
	for _, m := range methods {
		in, out := short(m.In), short(m.Out)
		if m.Opts.ClientStream {
			in = "stream " + in
		}
		if m.Opts.ServerStream {
			out = "stream " + out
		}
		fmt.Fprintf(&b, "  rpc %s(%s) returns (%s) {", m.Name, in, out)
		for i, p := range m.Opts.flags() {
			if *p {
				fmt.Fprintf(&b, " option (gorums.%s) = true;", gorumsOptionNames[i])
			}
		}
		if m.Opts.Custom != "" {
			fmt.Fprintf(&b, " option (gorums.custom_return_type) = %q;", m.Opts.Custom)
		}
		b.WriteString(" }\n")
	}
	b.WriteString("}")
	return b.String()
}

// ---------------------------------------------------------------------------

func cmdCompile(args []string) int {
	fs := flag.NewFlagSet("compile", flag.ContinueOnError)
	repo := fs.String("repo", "/repo", "repository under test")
	out := fs.String("out", "", "JSON output file (- or empty: stdout)")
	sel := fs.String("rows", "", `rows to compile: comma list / ranges, "all-ok", "sample:N:SEED" (default: all-ok, or none when -services is given)`)
	nsvc := fs.Int("services", 0, "number of random multi-method services")
	seed := fs.Int64("seed", 1, "seed of the random services")
	pool := fs.String("pool", "compiling", `rows the services draw from: "compiling" (accepted rows whose single-method package compiles) or "accepted"`)
	sruns := fs.Int("sruns", 2, "plugin runs per service (determinism)")
	jobs := fs.Int("j", 0, "parallel workers (0: number of CPUs)")
	keep := fs.String("keep", "", "copy the scratch module of the services (go.mod, s<k>/, s<k>dep/) into this directory before cleaning up")
	if err := fs.Parse(args); err != nil {
		return 2
	}
	start := time.Now()
	res := &CompileOutput{Tool: "gr", Cmd: "compile", Repo: *repo, BitOrder: BitOrder, Rows: []*CompileRow{}, Services: []*ServiceResult{}, Seed: *seed, Summary: map[string]any{}}
	fail := func(err error) int {
		res.Error = err.Error()
		res.WallS = time.Since(start).Seconds()
		fmt.Fprintln(os.Stderr, "gr compile:", err)
		_ = writeJSON(*out, res)
		return 2
	}
	if *sel == "" && *nsvc == 0 {
		*sel = "all-ok"
	}
	res.Selection = *sel
	if *pool != "compiling" && *pool != "accepted" {
		return fail(toolErrorf("bad -pool %q", *pool))
	}
	env, err := newEnv(*repo, *jobs)
	if err != nil {
		return fail(err)
	}
	defer env.Close()
	res.Repo = env.Repo
	if err := env.BuildPlugin(); err != nil {
		return fail(err)
	}
	res.PluginBuildOK = true
	if _, err := env.GenGo(); err != nil {
		return fail(err)
	}
	res.GenGoBuildOK = true
	tree, err := loadGorumsOptions(env.Repo)
	if err != nil {
		return fail(err)
	}

	// the plugin's verdict on every row (a few runs each, to know which rows generate varying code)
	table := computeTable(env, tree, allRowIDs(), RunCfg{Runs: 3, MaxRuns: 8, NDRuns: 8})
	ids, err := selectRows(*sel, table)
	if err != nil {
		return fail(toolErrorf("%v", err))
	}
	selected := map[int]bool{}
	for _, id := range ids {
		selected[id] = true
	}
	// rows that have to be compiled: the selected ones, and for the "compiling" pool all accepted rows
	need := map[int]bool{}
	for _, id := range ids {
		need[id] = true
	}
	if *nsvc > 0 && *pool == "compiling" {
		for _, r := range table {
			if r.Outcome == OutcomeOK && r.Files > 0 {
				need[r.ID] = true
			}
		}
	}
	modDir := filepath.Join(env.Scratch, "cmod")
	if err := initModule(env, modDir); err != nil {
		return fail(toolErrorf("scratch module: %v", err))
	}
	var units []*unit
	unitOf := map[int]*unit{}
	for _, r := range table {
		if need[r.ID] && r.Outcome == OutcomeOK && r.Files > 0 {
			u := &unit{pkg: rowPkg(r.ID), fdp: tree.synthRow(r.ID), gen: r.gen}
			units = append(units, u)
			unitOf[r.ID] = u
		}
	}
	parallel(len(units), env.Jobs, func(i int) { writeUnit(env, tree, modDir, units[i]) })
	rest, err := buildUnits(env, modDir, units)
	if err != nil {
		return fail(err)
	}
	res.BuildOutput = rest
	for _, id := range ids {
		r := table[id]
		cr := &CompileRow{ID: id, Opts: r.Opts, OptsText: r.OptsText, Outcome: r.Outcome, Files: r.Files, Duplicates: r.Duplicates, Stubs: stubKeys(r), Deterministic: r.Deterministic}
		switch u := unitOf[id]; {
		case r.Outcome != OutcomeOK:
			cr.Skipped = "not accepted: " + r.Diag
		case r.Files == 0:
			cr.Skipped = "accepted but nothing generated"
		default:
			cr.Compiled = u.built
			cr.FirstError = u.firstError()
			cr.Errors = u.someErrors()
		}
		res.Rows = append(res.Rows, cr)
	}

	// random services
	if *nsvc > 0 {
		res.Pool = *pool
		var poolRows []int
		for _, r := range table {
			if r.Outcome != OutcomeOK || r.Files == 0 {
				continue
			}
			if *pool == "accepted" || (unitOf[r.ID] != nil && unitOf[r.ID].built) {
				poolRows = append(poolRows, r.ID)
			}
		}
		res.PoolRows = poolRows
		if len(poolRows) == 0 {
			return fail(toolErrorf("no row qualifies for the service pool %q", *pool))
		}
		rng := rand.New(rand.NewSource(*seed))
		svcs := make([]*ServiceResult, *nsvc)
		fdps := make([]*descriptorpb.FileDescriptorProto, *nsvc)
		sdeps := make([][]svcDep, *nsvc)
		for k := 0; k < *nsvc; k++ {
			svcs[k], fdps[k], sdeps[k] = synthService(tree, k, rng, poolRows)
		}
		sunits := make([]*unit, *nsvc)
		parallel(*nsvc, env.Jobs, func(k int) {
			sr := svcs[k]
			defer func() {
				if p := recover(); p != nil {
					sr.Outcome = OutcomeCrash
					sr.Diag = fmt.Sprint("gr: internal error: ", p)
				}
			}()
			req, err := tree.Request(fdps[k], "", "")
			if err != nil {
				sr.Outcome, sr.Diag = OutcomeCrash, "gr: request: "+err.Error()
				return
			}
			var first *PluginRun
			keys := map[string]bool{}
			for i := 0; i < *sruns || i < 1; i++ {
				r := runPlugin(env.Plugin, req, 10*time.Second)
				if first == nil {
					first = r
				}
				keys[runKey(r)] = true
			}
			sr.Outcome = first.Outcome()
			sr.Diag = normNames(first.Diag())
			sr.Deterministic = len(keys) == 1
			if sr.Outcome != OutcomeOK {
				return
			}
			names, content := responseFiles(first.Resp)
			sr.Files = len(names)
			if len(names) == 0 {
				return
			}
			sr.Accepted = true
			a := analyzeGo(content)
			sr.Duplicates = a.Duplicates
			if a.ParseError != "" {
				sr.FirstError = "parse: " + a.ParseError
			}
			u := &unit{pkg: sr.Package, fdp: fdps[k], deps: sdeps[k], gen: content}
			writeUnit(env, tree, modDir, u)
			sunits[k] = u
		})
		var build []*unit
		for _, u := range sunits {
			if u != nil {
				build = append(build, u)
			}
		}
		// the row packages were already built (or failed): move them out of the way
		for _, u := range units {
			_ = os.RemoveAll(filepath.Join(modDir, u.pkg))
		}
		rest, err := buildUnits(env, modDir, build)
		if err != nil {
			return fail(err)
		}
		if rest != "" {
			res.BuildOutput = strings.TrimSpace(res.BuildOutput + "\n" + rest)
		}
		if *keep != "" {
			if err := copyTree(modDir, *keep); err != nil {
				fmt.Fprintln(os.Stderr, "gr compile: -keep:", err)
			}
		}
		for k, u := range sunits {
			if u == nil {
				continue
			}
			svcs[k].Compiled = u.built
			if fe := u.firstError(); fe != "" {
				svcs[k].FirstError = fe
			}
			svcs[k].Errors = u.someErrors()
		}
		res.Services = svcs
	}

	// summary
	nComp, nFail, nSkip := 0, 0, 0
	failing := []int{}
	compNondet := []int{}
	errClasses := map[string][]int{}
	for _, r := range res.Rows {
		switch {
		case r.Skipped != "":
			nSkip++
		case r.Compiled:
			nComp++
			if !r.Deterministic {
				compNondet = append(compNondet, r.ID)
			}
		default:
			nFail++
			failing = append(failing, r.ID)
			c := errClass(r.FirstError)
			errClasses[c] = append(errClasses[c], r.ID)
		}
	}
	sAcc, sComp, sNondet := 0, 0, 0
	sFail := []int{}
	for _, s := range res.Services {
		if s.Accepted {
			sAcc++
			if s.Compiled {
				sComp++
			} else {
				sFail = append(sFail, s.ID)
			}
		}
		if !s.Deterministic {
			sNondet++
		}
	}
	res.Summary = map[string]any{
		"rows_selected": len(res.Rows), "rows_compiled": nComp, "rows_not_compiling": nFail, "rows_skipped": nSkip,
		"not_compiling_rows": failing, "not_compiling_by_error": errClasses, "compiled_but_non_deterministic": compNondet,
		"services": len(res.Services), "services_accepted": sAcc, "services_compiled": sComp,
		"services_not_compiling": sFail, "services_non_deterministic": sNondet,
	}
	res.WallS = time.Since(start).Seconds()
	if err := writeJSON(*out, res); err != nil {
		fmt.Fprintln(os.Stderr, "gr compile:", err)
		return 2
	}
	fmt.Fprintf(os.Stderr, "gr compile: %.1fs; rows selected %d: compiled %d, not compiling %d, skipped %d\n", res.WallS, len(res.Rows), nComp, nFail, nSkip)
	classes := make([]string, 0, len(errClasses))
	for c := range errClasses {
		classes = append(classes, c)
	}
	sort.Strings(classes)
	for _, c := range classes {
		fmt.Fprintf(os.Stderr, "  %3d rows: %s  %s\n", len(errClasses[c]), c, compactIDs(errClasses[c]))
	}
	if len(res.Services) > 0 {
		fmt.Fprintf(os.Stderr, "  services %d (pool %s, %d rows): accepted %d, compiled %d, non-deterministic %d, not compiling %v\n",
			len(res.Services), *pool, len(res.PoolRows), sAcc, sComp, sNondet, sFail)
		for _, s := range res.Services {
			if s.Accepted && !s.Compiled {
				fmt.Fprintf(os.Stderr, "    s%d hazards=%v: %s\n", s.ID, s.Hazards, s.FirstError)
			} else if !s.Accepted {
				fmt.Fprintf(os.Stderr, "    s%d hazards=%v: %s %s\n", s.ID, s.Hazards, s.Outcome, s.Diag)
			}
		}
	}
	if res.BuildOutput != "" {
		fmt.Fprintf(os.Stderr, "  unattributed build output: %s\n", firstLine(res.BuildOutput))
	}
	return 0
}

// copyTree copies the regular files below src to dst.
func copyTree(src, dst string) error {
	return filepath.Walk(src, func(p string, info os.FileInfo, err error) error {
		if err != nil {
			return err
		}
		rel, err := filepath.Rel(src, p)
		if err != nil {
			return err
		}
		if info.IsDir() {
			return os.MkdirAll(filepath.Join(dst, rel), 0o755)
		}
		if !info.Mode().IsRegular() {
			return nil
		}
		b, err := os.ReadFile(p)
		if err != nil {
			return err
		}
		return os.WriteFile(filepath.Join(dst, rel), b, 0o644)
	})
}

var (
	rePos   = regexp.MustCompile(`^\S+\.go:\d+(:\d+)?: `)
	reOther = regexp.MustCompile(`other declaration of .*|at \S+\.go:\d+(:\d+)?`)
)

// errClass strips the position from a compiler line.
func errClass(s string) string {
	s = rePos.ReplaceAllString(s, "")
	s = reOther.ReplaceAllString(s, "…")
	return s
}
