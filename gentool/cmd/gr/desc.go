package main

import (
	"fmt"
	"go/ast"
	"go/parser"
	"go/token"
	"os"
	"path/filepath"
	"sort"
	"strconv"
	"strings"

	"google.golang.org/protobuf/proto"
	"google.golang.org/protobuf/reflect/protodesc"
	"google.golang.org/protobuf/reflect/protoreflect"
	"google.golang.org/protobuf/reflect/protoregistry"
	"google.golang.org/protobuf/types/descriptorpb"
	"google.golang.org/protobuf/types/dynamicpb"

	// well-known files that a proto of the repository may import
	_ "google.golang.org/protobuf/types/known/anypb"
	_ "google.golang.org/protobuf/types/known/durationpb"
	_ "google.golang.org/protobuf/types/known/emptypb"
	_ "google.golang.org/protobuf/types/known/fieldmaskpb"
	_ "google.golang.org/protobuf/types/known/structpb"
	_ "google.golang.org/protobuf/types/known/timestamppb"
	_ "google.golang.org/protobuf/types/known/wrapperspb"
	_ "google.golang.org/protobuf/types/pluginpb"
)

// The tool never links the packages of the repository under test: every descriptor is
// read, at run time, from the raw descriptor literal (`file_…_rawDesc`) of the committed
// *.pb.go file in the working tree. This is the same byte string that the package would
// register as File_…_proto, but it does not require the package (or the gorums module)
// to compile and it always reflects the current tree.

// rawDescsOfGoFile returns the raw file descriptors embedded in a protoc-gen-go generated file.
func rawDescsOfGoFile(path string) ([][]byte, error) {
	fset := token.NewFileSet()
	f, err := parser.ParseFile(fset, path, nil, parser.SkipObjectResolution)
	if err != nil {
		return nil, err
	}
	var out [][]byte
	for _, d := range f.Decls {
		gd, ok := d.(*ast.GenDecl)
		if !ok || (gd.Tok != token.VAR && gd.Tok != token.CONST) {
			continue
		}
		for _, s := range gd.Specs {
			vs, ok := s.(*ast.ValueSpec)
			if !ok || len(vs.Names) != 1 || len(vs.Values) != 1 {
				continue
			}
			if !strings.HasSuffix(vs.Names[0].Name, "_rawDesc") {
				continue
			}
			b, err := evalBytes(vs.Values[0])
			if err != nil {
				return nil, fmt.Errorf("%s: %s: %v", path, vs.Names[0].Name, err)
			}
			out = append(out, b)
		}
	}
	return out, nil
}

// evalBytes evaluates `[]byte{0x0a, …}`, a string literal, a concatenation of string
// literals, or `[]byte("…")`.
func evalBytes(e ast.Expr) ([]byte, error) {
	switch x := e.(type) {
	case *ast.CompositeLit:
		out := make([]byte, 0, len(x.Elts))
		for _, el := range x.Elts {
			bl, ok := el.(*ast.BasicLit)
			if !ok {
				return nil, fmt.Errorf("non-literal element")
			}
			switch bl.Kind {
			case token.INT:
				v, err := strconv.ParseUint(bl.Value, 0, 8)
				if err != nil {
					return nil, err
				}
				out = append(out, byte(v))
			case token.CHAR:
				r, _, _, err := strconv.UnquoteChar(bl.Value[1:len(bl.Value)-1], '\'')
				if err != nil || r > 255 {
					return nil, fmt.Errorf("bad char literal %s", bl.Value)
				}
				out = append(out, byte(r))
			default:
				return nil, fmt.Errorf("unexpected literal %s", bl.Value)
			}
		}
		return out, nil
	case *ast.BasicLit:
		if x.Kind != token.STRING {
			return nil, fmt.Errorf("unexpected literal %s", x.Value)
		}
		s, err := strconv.Unquote(x.Value)
		return []byte(s), err
	case *ast.BinaryExpr:
		if x.Op != token.ADD {
			return nil, fmt.Errorf("unexpected operator %s", x.Op)
		}
		l, err := evalBytes(x.X)
		if err != nil {
			return nil, err
		}
		r, err := evalBytes(x.Y)
		if err != nil {
			return nil, err
		}
		return append(l, r...), nil
	case *ast.ParenExpr:
		return evalBytes(x.X)
	case *ast.CallExpr:
		if len(x.Args) == 1 {
			return evalBytes(x.Args[0])
		}
	}
	return nil, fmt.Errorf("unsupported expression %T", e)
}

// TreeFile is a proto file found in the working tree (through its *.pb.go).
type TreeFile struct {
	GoFile string // path of the *.pb.go relative to the repository
	Raw    []byte
	Proto  *descriptorpb.FileDescriptorProto
}

// Tree indexes the descriptors of the working tree and the gorums method options.
type Tree struct {
	Repo   string
	ByName map[string][]*TreeFile // proto file name -> candidates
	ByDir  map[string][]*TreeFile // directory (relative) -> files
	Errors []string               // *.pb.go files whose descriptor could not be read
	// Synth holds synthesised files that other synthesised files import (proto file name -> descriptor).
	// It is filled before any parallel phase starts and only read afterwards.
	Synth map[string]*descriptorpb.FileDescriptorProto

	Gorums   *descriptorpb.FileDescriptorProto
	Ext      map[string]protoreflect.ExtensionType // "rpc", "quorumcall", …
	ExtTypes *protoregistry.Types
}

var gorumsOptionNames = []string{"rpc", "unicast", "multicast", "quorumcall", "correctable", "async", "per_node_arg", "custom_return_type"}

// loadGorumsOptions reads gorums.proto's descriptor from <repo>/gorums.pb.go and builds
// dynamic extension types for the method options.
func loadGorumsOptions(repo string) (*Tree, error) {
	t := &Tree{Repo: repo, ByName: map[string][]*TreeFile{}, ByDir: map[string][]*TreeFile{}, Ext: map[string]protoreflect.ExtensionType{}, ExtTypes: &protoregistry.Types{}}
	raws, err := rawDescsOfGoFile(filepath.Join(repo, "gorums.pb.go"))
	if err != nil {
		return nil, toolErrorf("gorums.pb.go: %v", err)
	}
	if len(raws) != 1 {
		return nil, toolErrorf("gorums.pb.go: %d raw descriptors found, want 1", len(raws))
	}
	fdp := &descriptorpb.FileDescriptorProto{}
	if err := proto.Unmarshal(raws[0], fdp); err != nil {
		return nil, toolErrorf("gorums.pb.go: raw descriptor: %v", err)
	}
	fd, err := protodesc.NewFile(fdp, protoregistry.GlobalFiles)
	if err != nil {
		return nil, toolErrorf("gorums.proto descriptor: %v", err)
	}
	xs := fd.Extensions()
	for i := 0; i < xs.Len(); i++ {
		xd := xs.Get(i)
		if xd.ContainingMessage().FullName() != "google.protobuf.MethodOptions" {
			continue
		}
		xt := dynamicpb.NewExtensionType(xd)
		t.Ext[string(xd.Name())] = xt
		if err := t.ExtTypes.RegisterExtension(xt); err != nil {
			return nil, toolErrorf("gorums.proto extension %s: %v", xd.FullName(), err)
		}
	}
	for _, n := range gorumsOptionNames {
		xt, ok := t.Ext[n]
		if !ok {
			return nil, toolErrorf("gorums.proto has no method option %q", n)
		}
		want := protoreflect.BoolKind
		if n == "custom_return_type" {
			want = protoreflect.StringKind
		}
		if xt.TypeDescriptor().Kind() != want {
			return nil, toolErrorf("gorums.proto option %q has kind %v, want %v", n, xt.TypeDescriptor().Kind(), want)
		}
	}
	t.Gorums = fdp
	t.add("gorums.pb.go", raws[0], fdp)
	return t, nil
}

func (t *Tree) add(goFile string, raw []byte, fdp *descriptorpb.FileDescriptorProto) {
	tf := &TreeFile{GoFile: goFile, Raw: raw, Proto: fdp}
	t.ByName[fdp.GetName()] = append(t.ByName[fdp.GetName()], tf)
	dir := filepath.Dir(goFile)
	t.ByDir[dir] = append(t.ByDir[dir], tf)
}

// unmarshalFile parses a raw descriptor, resolving the gorums options.
func (t *Tree) unmarshalFile(raw []byte) (*descriptorpb.FileDescriptorProto, error) {
	fdp := &descriptorpb.FileDescriptorProto{}
	err := proto.UnmarshalOptions{Resolver: t.ExtTypes}.Unmarshal(raw, fdp)
	return fdp, err
}

// Scan indexes every *.pb.go of the tree (except plugin outputs other than protoc-gen-go's).
func (t *Tree) Scan() {
	_ = filepath.Walk(t.Repo, func(p string, info os.FileInfo, err error) error {
		if err != nil {
			return nil
		}
		if info.IsDir() {
			switch info.Name() {
			case ".git", "node_modules", "third_party":
				return filepath.SkipDir
			}
			return nil
		}
		n := info.Name()
		if !strings.HasSuffix(n, ".pb.go") || strings.HasSuffix(n, "_gorums.pb.go") || strings.HasSuffix(n, "_grpc.pb.go") {
			return nil
		}
		rel, _ := filepath.Rel(t.Repo, p)
		if rel == "gorums.pb.go" {
			return nil // already loaded
		}
		raws, err := rawDescsOfGoFile(p)
		if err != nil {
			t.Errors = append(t.Errors, fmt.Sprintf("%s: %v", rel, err))
			return nil
		}
		if len(raws) == 0 {
			t.Errors = append(t.Errors, fmt.Sprintf("%s: no raw descriptor literal found", rel))
		}
		for _, raw := range raws {
			fdp, err := t.unmarshalFile(raw)
			if err != nil {
				t.Errors = append(t.Errors, fmt.Sprintf("%s: raw descriptor: %v", rel, err))
				continue
			}
			t.add(rel, raw, fdp)
		}
		return nil
	})
	sort.Strings(t.Errors)
}

// addSynth registers a synthesised file so that files importing it resolve (not safe for concurrent use).
func (t *Tree) addSynth(fdp *descriptorpb.FileDescriptorProto) {
	if t.Synth == nil {
		t.Synth = map[string]*descriptorpb.FileDescriptorProto{}
	}
	t.Synth[fdp.GetName()] = fdp
}

// resolve returns the FileDescriptorProto of an imported file: synthesised dependencies first, well-known
// files from the protobuf runtime linked into this tool, everything else from the tree.
func (t *Tree) resolve(name, preferDir string) (*descriptorpb.FileDescriptorProto, error) {
	if f := t.Synth[name]; f != nil {
		return f, nil
	}
	if c := t.ByName[name]; len(c) > 0 {
		best := c[0]
		for _, tf := range c {
			if filepath.Dir(tf.GoFile) == preferDir {
				best = tf
			}
		}
		return best.Proto, nil
	}
	if fd, err := protoregistry.GlobalFiles.FindFileByPath(name); err == nil {
		return protodesc.ToFileDescriptorProto(fd), nil
	}
	return nil, fmt.Errorf("imported file %q not found (neither well-known nor in the tree)", name)
}

// Closure returns fdp's transitive dependencies (dependencies first) followed by fdp.
func (t *Tree) Closure(fdp *descriptorpb.FileDescriptorProto, preferDir string) ([]*descriptorpb.FileDescriptorProto, error) {
	var out []*descriptorpb.FileDescriptorProto
	seen := map[string]bool{}
	var visit func(f *descriptorpb.FileDescriptorProto, depth int) error
	visit = func(f *descriptorpb.FileDescriptorProto, depth int) error {
		if seen[f.GetName()] {
			return nil
		}
		if depth > 64 {
			return fmt.Errorf("import cycle at %s", f.GetName())
		}
		seen[f.GetName()] = true
		for _, d := range f.GetDependency() {
			df, err := t.resolve(d, preferDir)
			if err != nil {
				return fmt.Errorf("%s: %v", f.GetName(), err)
			}
			if err := visit(df, depth+1); err != nil {
				return err
			}
		}
		out = append(out, f)
		return nil
	}
	if err := visit(fdp, 0); err != nil {
		return nil, err
	}
	return out, nil
}

// MethodOpts are the gorums options of one method as found in (or put into) a descriptor.
type MethodOpts struct {
	RPC         bool   `json:"rpc"`
	Unicast     bool   `json:"unicast"`
	Multicast   bool   `json:"multicast"`
	Quorumcall  bool   `json:"quorumcall"`
	Correctable bool   `json:"correctable"`
	Async       bool   `json:"async"`
	PerNodeArg  bool   `json:"per_node_arg"`
	Custom      string `json:"custom"`
}

func (o *MethodOpts) flags() []*bool {
	return []*bool{&o.RPC, &o.Unicast, &o.Multicast, &o.Quorumcall, &o.Correctable, &o.Async, &o.PerNodeArg}
}

// Build returns MethodOptions carrying the options (present = set to true; absent otherwise).
func (t *Tree) BuildMethodOptions(o MethodOpts) *descriptorpb.MethodOptions {
	mo := &descriptorpb.MethodOptions{}
	any := false
	for i, p := range o.flags() {
		if *p {
			proto.SetExtension(mo, t.Ext[gorumsOptionNames[i]], true)
			any = true
		}
	}
	if o.Custom != "" {
		proto.SetExtension(mo, t.Ext["custom_return_type"], o.Custom)
		any = true
	}
	if !any {
		return nil
	}
	return mo
}

// ReadMethodOptions extracts the gorums options of a method. As in the generator, a bool
// option counts when it is present (whatever its value); presentFalse lists options that
// are present with value false.
func (t *Tree) ReadMethodOptions(mo *descriptorpb.MethodOptions) (o MethodOpts, presentFalse []string) {
	if mo == nil {
		return
	}
	for i, p := range o.flags() {
		xt := t.Ext[gorumsOptionNames[i]]
		if proto.HasExtension(mo, xt) {
			*p = true
			if v, ok := proto.GetExtension(mo, xt).(bool); ok && !v {
				presentFalse = append(presentFalse, gorumsOptionNames[i])
			}
		}
	}
	if xt := t.Ext["custom_return_type"]; proto.HasExtension(mo, xt) {
		o.Custom, _ = proto.GetExtension(mo, xt).(string)
	}
	return
}
