package main

import (
	"bytes"
	"fmt"
	"go/ast"
	"go/format"
	"go/parser"
	"go/printer"
	"go/scanner"
	"go/token"
	"sort"
	"strconv"
	"strings"
)

// ClientStub describes one generated client method on *Configuration or *Node.
type ClientStub struct {
	Name         string   `json:"name"`
	Recv         string   `json:"recv"`              // Configuration | Node
	Entry        string   `json:"entry"`             // selector called on <recv>.RawConfiguration / <recv>.RawNode ("" if none)
	Entries      []string `json:"entries,omitempty"` // all such selectors when there is more than one call
	MethodStr    string   `json:"method_str"`        // the Method: "…" literal of the call data
	CallData     string   `json:"call_data"`         // type of the call data literal, e.g. gorums.QuorumCallData
	PerNodeArgFn bool     `json:"per_node_arg_fn"`
	ServerStream bool     `json:"server_stream"` // ServerStream: true
	QFCall       string   `json:"qf_call"`       // c.qspec.<X> called by the quorum function ("" if none)
	Params       string   `json:"params"`
	Result       string   `json:"result"`
	File         string   `json:"file,omitempty"`
}

// ServerReg describes one srv.RegisterHandler call.
type ServerReg struct {
	Literal      string `json:"literal"`       // the string literal passed to RegisterHandler
	Impl         string `json:"impl"`          // impl.<X> called by the handler
	HandlerShape string `json:"handler_shape"` // unary | oneway | stream | ""
}

// GoAnalysis is what is extracted from one generated package (one or several files).
type GoAnalysis struct {
	ParseError string            `json:"parse_error,omitempty"`
	Decls      []string          `json:"decls"`
	Duplicates []string          `json:"duplicates"`
	Stubs      []ClientStub      `json:"-"`
	Regs       []ServerReg       `json:"-"`
	Iface      map[string]string `json:"-"` // server interface name -> method -> shape (flattened "Svc.Foo")
	IfaceSig   map[string]string `json:"-"` // "Svc.Foo" -> signature text
	QF         map[string]string `json:"-"` // "FooQF" -> signature text
	QFOrder    []string          `json:"-"`
	Types      map[string]bool   `json:"-"`
}

func nodeText(fset *token.FileSet, n any) string {
	if n == nil {
		return ""
	}
	var b bytes.Buffer
	cfg := printer.Config{Mode: printer.RawFormat}
	if err := cfg.Fprint(&b, fset, n); err != nil {
		return "?"
	}
	return strings.Join(strings.Fields(b.String()), " ")
}

func fieldListText(fset *token.FileSet, fl *ast.FieldList, parens bool) string {
	if fl == nil || len(fl.List) == 0 {
		if parens {
			return "()"
		}
		return ""
	}
	var parts []string
	for _, f := range fl.List {
		t := nodeText(fset, f.Type)
		if len(f.Names) == 0 {
			parts = append(parts, t)
			continue
		}
		var ns []string
		for _, n := range f.Names {
			ns = append(ns, n.Name)
		}
		parts = append(parts, strings.Join(ns, ", ")+" "+t)
	}
	s := strings.Join(parts, ", ")
	if parens || len(fl.List) > 1 || len(fl.List[0].Names) > 0 {
		return "(" + s + ")"
	}
	return s
}

func recvBase(e ast.Expr) string {
	for {
		switch x := e.(type) {
		case *ast.StarExpr:
			e = x.X
		case *ast.ParenExpr:
			e = x.X
		case *ast.IndexExpr:
			e = x.X
		case *ast.IndexListExpr:
			e = x.X
		case *ast.Ident:
			return x.Name
		default:
			return "?"
		}
	}
}

func funcShape(ft *ast.FuncType) string {
	nres := 0
	if ft.Results != nil {
		nres = ft.Results.NumFields()
	}
	nparams := 0
	if ft.Params != nil {
		nparams = ft.Params.NumFields()
	}
	switch {
	case nres == 0:
		return "oneway"
	case nres == 1 && nparams >= 3:
		return "stream"
	case nres == 2:
		return "unary"
	}
	return "other"
}

// analyzeGo parses the given generated sources (one package) and extracts the bindings.
func analyzeGo(files map[string]string) *GoAnalysis {
	a := &GoAnalysis{Iface: map[string]string{}, IfaceSig: map[string]string{}, QF: map[string]string{}, Types: map[string]bool{}}
	fset := token.NewFileSet()
	names := make([]string, 0, len(files))
	for n := range files {
		names = append(names, n)
	}
	sort.Strings(names)
	count := map[string]int{}
	var parsed []*ast.File
	var parsedNames []string
	for _, n := range names {
		f, err := parser.ParseFile(fset, n, files[n], parser.SkipObjectResolution)
		if err != nil {
			if a.ParseError == "" {
				a.ParseError = firstLine(err.Error())
			}
			if f == nil {
				continue
			}
		}
		parsed = append(parsed, f)
		parsedNames = append(parsedNames, n)
	}
	for fi, f := range parsed {
		for _, d := range f.Decls {
			switch x := d.(type) {
			case *ast.FuncDecl:
				if x.Recv != nil && len(x.Recv.List) > 0 {
					count["func ("+recvBase(x.Recv.List[0].Type)+") "+x.Name.Name]++
				} else {
					count["func "+x.Name.Name]++
				}
				a.funcDecl(fset, x, parsedNames[fi])
			case *ast.GenDecl:
				for _, s := range x.Specs {
					switch sp := s.(type) {
					case *ast.TypeSpec:
						count["type "+sp.Name.Name]++
						a.Types[sp.Name.Name] = true
						if it, ok := sp.Type.(*ast.InterfaceType); ok {
							a.interfaceDecl(fset, sp.Name.Name, it)
						}
					case *ast.ValueSpec:
						for _, n := range sp.Names {
							count[strings.ToLower(x.Tok.String())+" "+n.Name]++
						}
					}
				}
			}
		}
	}
	for k, c := range count {
		a.Decls = append(a.Decls, k)
		if c > 1 && !legalRepeat(k) {
			a.Duplicates = append(a.Duplicates, k)
		}
	}
	sort.Strings(a.Decls)
	sort.Strings(a.Duplicates)
	if a.Duplicates == nil {
		a.Duplicates = []string{}
	}
	if a.Decls == nil {
		a.Decls = []string{}
	}
	return a
}

// legalRepeat reports declaration keys that Go allows to be repeated.
func legalRepeat(key string) bool {
	return key == "func init" || strings.HasSuffix(key, " _")
}

func firstLine(s string) string {
	if i := strings.IndexByte(s, '\n'); i >= 0 {
		return s[:i]
	}
	return s
}

func (a *GoAnalysis) interfaceDecl(fset *token.FileSet, name string, it *ast.InterfaceType) {
	if it.Methods == nil {
		return
	}
	for _, m := range it.Methods.List {
		ft, ok := m.Type.(*ast.FuncType)
		if !ok || len(m.Names) == 0 {
			continue
		}
		for _, mn := range m.Names {
			sig := mn.Name + fieldListText(fset, ft.Params, true)
			if r := fieldListText(fset, ft.Results, false); r != "" {
				sig += " " + r
			}
			if name == "QuorumSpec" {
				if _, dup := a.QF[mn.Name]; dup {
					a.QF[mn.Name] += " | " + sig
				} else {
					a.QF[mn.Name] = sig
					a.QFOrder = append(a.QFOrder, mn.Name)
				}
				continue
			}
			key := name + "." + mn.Name
			if _, dup := a.Iface[key]; dup {
				a.Iface[key] += "|" + funcShape(ft)
				a.IfaceSig[key] += " | " + sig
			} else {
				a.Iface[key] = funcShape(ft)
				a.IfaceSig[key] = sig
			}
		}
	}
}

func isSel(e ast.Expr, x, sel string) bool {
	s, ok := e.(*ast.SelectorExpr)
	if !ok || s.Sel.Name != sel {
		return false
	}
	id, ok := s.X.(*ast.Ident)
	return ok && id.Name == x
}

func strLit(e ast.Expr) (string, bool) {
	bl, ok := e.(*ast.BasicLit)
	if !ok || bl.Kind != token.STRING {
		return "", false
	}
	s, err := strconv.Unquote(bl.Value)
	if err != nil {
		return bl.Value, true
	}
	return s, true
}

func (a *GoAnalysis) funcDecl(fset *token.FileSet, fd *ast.FuncDecl, file string) {
	if fd.Recv != nil && len(fd.Recv.List) > 0 {
		base := recvBase(fd.Recv.List[0].Type)
		if base == "Configuration" || base == "Node" {
			a.clientStub(fset, fd, base, file)
		}
		return
	}
	if strings.HasPrefix(fd.Name.Name, "Register") && strings.HasSuffix(fd.Name.Name, "Server") && fd.Body != nil {
		a.registerFunc(fd)
	}
}

func (a *GoAnalysis) clientStub(fset *token.FileSet, fd *ast.FuncDecl, base, file string) {
	st := ClientStub{Name: fd.Name.Name, Recv: base, File: file}
	st.Params = fieldListText(fset, fd.Type.Params, true)
	st.Result = fieldListText(fset, fd.Type.Results, false)
	recvName := ""
	if len(fd.Recv.List[0].Names) > 0 {
		recvName = fd.Recv.List[0].Names[0].Name
	}
	if fd.Body != nil {
		ast.Inspect(fd.Body, func(n ast.Node) bool {
			switch x := n.(type) {
			case *ast.CallExpr:
				if s, ok := x.Fun.(*ast.SelectorExpr); ok {
					if in, ok := s.X.(*ast.SelectorExpr); ok && (in.Sel.Name == "RawConfiguration" || in.Sel.Name == "RawNode") {
						if id, ok := in.X.(*ast.Ident); ok && id.Name == recvName {
							st.Entries = append(st.Entries, s.Sel.Name)
						}
					}
					if in, ok := s.X.(*ast.SelectorExpr); ok && in.Sel.Name == "qspec" {
						st.QFCall = s.Sel.Name
					}
				}
			case *ast.CompositeLit:
				hasMethod := false
				for _, el := range x.Elts {
					kv, ok := el.(*ast.KeyValueExpr)
					if !ok {
						continue
					}
					k, ok := kv.Key.(*ast.Ident)
					if !ok {
						continue
					}
					switch k.Name {
					case "Method":
						if s, ok := strLit(kv.Value); ok {
							st.MethodStr = s
							hasMethod = true
						}
					case "ServerStream":
						if id, ok := kv.Value.(*ast.Ident); ok && id.Name == "true" {
							st.ServerStream = true
						}
					case "PerNodeArgFn":
						st.PerNodeArgFn = true
					}
				}
				if hasMethod && x.Type != nil {
					st.CallData = nodeText(fset, x.Type)
				}
			case *ast.AssignStmt:
				for _, l := range x.Lhs {
					if s, ok := l.(*ast.SelectorExpr); ok && s.Sel.Name == "PerNodeArgFn" {
						st.PerNodeArgFn = true
					}
				}
			}
			return true
		})
	}
	if len(st.Entries) > 0 {
		st.Entry = st.Entries[0]
	}
	if len(st.Entries) < 2 {
		st.Entries = nil
	}
	a.Stubs = append(a.Stubs, st)
}

func (a *GoAnalysis) registerFunc(fd *ast.FuncDecl) {
	ast.Inspect(fd.Body, func(n ast.Node) bool {
		call, ok := n.(*ast.CallExpr)
		if !ok {
			return true
		}
		s, ok := call.Fun.(*ast.SelectorExpr)
		if !ok || s.Sel.Name != "RegisterHandler" || len(call.Args) < 2 {
			return true
		}
		reg := ServerReg{}
		if lit, ok := strLit(call.Args[0]); ok {
			reg.Literal = lit
		} else {
			reg.Literal = "<non-literal>"
		}
		if fl, ok := call.Args[1].(*ast.FuncLit); ok {
			reg.Impl, reg.HandlerShape = handlerShape(fl)
		}
		a.Regs = append(a.Regs, reg)
		return false
	})
}

// handlerShape looks for the impl.<X>(…) call of a registered handler and derives the shape
// from how it is used: statement = oneway; with a func literal argument = stream; else unary.
func handlerShape(fl *ast.FuncLit) (impl, shape string) {
	var find func(n ast.Node) *ast.CallExpr
	find = func(n ast.Node) *ast.CallExpr {
		var out *ast.CallExpr
		ast.Inspect(n, func(m ast.Node) bool {
			if out != nil {
				return false
			}
			if c, ok := m.(*ast.CallExpr); ok {
				if s, ok := c.Fun.(*ast.SelectorExpr); ok {
					if id, ok := s.X.(*ast.Ident); ok && id.Name == "impl" {
						out = c
						return false
					}
				}
			}
			return true
		})
		return out
	}
	for _, st := range fl.Body.List {
		c := find(st)
		if c == nil {
			continue
		}
		impl = c.Fun.(*ast.SelectorExpr).Sel.Name
		for _, arg := range c.Args {
			if _, ok := arg.(*ast.FuncLit); ok {
				return impl, "stream"
			}
		}
		switch x := st.(type) {
		case *ast.ExprStmt:
			return impl, "oneway"
		case *ast.AssignStmt:
			if len(x.Lhs) == 2 {
				return impl, "unary"
			}
			return impl, "other"
		}
		return impl, "other"
	}
	return "", ""
}

// stubsNamed returns the client stubs with the given method name, sorted.
func (a *GoAnalysis) stubsNamed(name string) []ClientStub {
	out := []ClientStub{}
	for _, s := range a.Stubs {
		if s.Name == name {
			out = append(out, s)
		}
	}
	sort.SliceStable(out, func(i, j int) bool {
		if out[i].Recv != out[j].Recv {
			return out[i].Recv < out[j].Recv
		}
		return out[i].Entry < out[j].Entry
	})
	return out
}

// ---------------------------------------------------------------------------
// normalisation for regenerate-and-compare

// normalizeGo parses src, drops every comment and prints the AST with go/format.
func normalizeGo(name string, src []byte) (string, error) {
	fset := token.NewFileSet()
	f, err := parser.ParseFile(fset, name, src, parser.SkipObjectResolution)
	if err != nil {
		return "", err
	}
	// parsed without parser.ParseComments: no comment is attached to the tree
	f.Comments = nil
	f.Doc = nil
	var b bytes.Buffer
	if err := format.Node(&b, fset, f); err != nil {
		return "", err
	}
	// Positions of dropped comments leave blank lines behind; a second pass over the
	// printed text makes the result independent of where the comments were.
	out, err := format.Source(squeezeBlank(b.Bytes()))
	if err != nil {
		return "", fmt.Errorf("re-format: %v", err)
	}
	return string(out), nil
}

// squeezeBlank removes all blank lines outside raw string literals (gofmt re-inserts
// none, so both sides agree).
func squeezeBlank(b []byte) []byte {
	// byte ranges of multi-line string tokens
	type span struct{ lo, hi int }
	var keep []span
	fset := token.NewFileSet()
	tf := fset.AddFile("", fset.Base(), len(b))
	var sc scanner.Scanner
	sc.Init(tf, b, nil, 0)
	for {
		pos, tok, lit := sc.Scan()
		if tok == token.EOF {
			break
		}
		if tok == token.STRING && strings.Contains(lit, "\n") {
			lo := tf.Offset(pos)
			keep = append(keep, span{lo, lo + len(lit)})
		}
	}
	inRaw := func(off int) bool {
		for _, s := range keep {
			if off >= s.lo && off < s.hi {
				return true
			}
		}
		return false
	}
	var out bytes.Buffer
	off := 0
	for _, l := range bytes.SplitAfter(b, []byte("\n")) {
		if len(bytes.TrimSpace(l)) == 0 && !inRaw(off) {
			off += len(l)
			continue
		}
		out.Write(l)
		off += len(l)
	}
	return out.Bytes()
}

// firstDiff returns the first differing line pair of two texts.
func firstDiff(a, b string) (line int, la, lb string) {
	as := strings.Split(a, "\n")
	bs := strings.Split(b, "\n")
	for i := 0; i < len(as) || i < len(bs); i++ {
		var x, y string
		if i < len(as) {
			x = as[i]
		} else {
			x = "<EOF>"
		}
		if i < len(bs) {
			y = bs[i]
		} else {
			y = "<EOF>"
		}
		if x != y {
			return i + 1, x, y
		}
	}
	return 0, "", ""
}
