package main

import (
	"fmt"
	"regexp"
	"strings"

	"google.golang.org/protobuf/proto"
	"google.golang.org/protobuf/types/descriptorpb"
	"google.golang.org/protobuf/types/pluginpb"
)

// NumRows is the size of the single-method lattice.
const NumRows = 1024

// BitOrder documents the meaning of the bits of a row id (bit 0 = least significant).
var BitOrder = []string{
	"bit0 rpc", "bit1 unicast", "bit2 multicast", "bit3 quorumcall", "bit4 correctable",
	"bit5 async", "bit6 per_node_arg", "bit7 custom (custom_return_type = \"MyResponse\")",
	"bit8 client_stream", "bit9 server_stream",
}

const customTypeName = "MyResponse"

// RowOpts are the option values of one row of the lattice.
type RowOpts struct {
	MethodOpts
	ClientStream bool `json:"client_stream"`
	ServerStream bool `json:"server_stream"`
}

func rowOpts(id int) RowOpts {
	var o RowOpts
	for i, p := range o.flags() {
		*p = id&(1<<i) != 0
	}
	if id&(1<<7) != 0 {
		o.Custom = customTypeName
	}
	o.ClientStream = id&(1<<8) != 0
	o.ServerStream = id&(1<<9) != 0
	return o
}

func rowID(o RowOpts) int {
	id := 0
	for i, p := range o.flags() {
		if *p {
			id |= 1 << i
		}
	}
	if o.Custom != "" {
		id |= 1 << 7
	}
	if o.ClientStream {
		id |= 1 << 8
	}
	if o.ServerStream {
		id |= 1 << 9
	}
	return id
}

// String renders the options as in a .proto file, e.g. "quorumcall,async,custom stream-out".
func (o RowOpts) String() string {
	var s []string
	for i, p := range o.flags() {
		if *p {
			s = append(s, gorumsOptionNames[i])
		}
	}
	if o.Custom != "" {
		s = append(s, "custom_return_type="+o.Custom)
	}
	if o.ClientStream {
		s = append(s, "client_stream")
	}
	if o.ServerStream {
		s = append(s, "server_stream")
	}
	if len(s) == 0 {
		return "(none)"
	}
	return strings.Join(s, ",")
}

func strField(name string, num int32) *descriptorpb.FieldDescriptorProto {
	return &descriptorpb.FieldDescriptorProto{
		Name:     proto.String(name),
		Number:   proto.Int32(num),
		Label:    descriptorpb.FieldDescriptorProto_LABEL_OPTIONAL.Enum(),
		Type:     descriptorpb.FieldDescriptorProto_TYPE_STRING.Enum(),
		JsonName: proto.String(name),
	}
}

func int64Field(name string, num int32) *descriptorpb.FieldDescriptorProto {
	return &descriptorpb.FieldDescriptorProto{
		Name:     proto.String(name),
		Number:   proto.Int32(num),
		Label:    descriptorpb.FieldDescriptorProto_LABEL_OPTIONAL.Enum(),
		Type:     descriptorpb.FieldDescriptorProto_TYPE_INT64.Enum(),
		JsonName: proto.String(name),
	}
}

func stdMessages() []*descriptorpb.DescriptorProto {
	return []*descriptorpb.DescriptorProto{
		{Name: proto.String("Request"), Field: []*descriptorpb.FieldDescriptorProto{strField("Value", 1)}},
		{Name: proto.String("Response"), Field: []*descriptorpb.FieldDescriptorProto{int64Field("Result", 1)}},
		{Name: proto.String(customTypeName), Field: []*descriptorpb.FieldDescriptorProto{strField("Value", 1)}},
	}
}

// MethodSpec describes one method of a synthesised service.
type MethodSpec struct {
	Name string  `json:"name"`
	Row  int     `json:"row"` // lattice row the options are taken from
	Opts RowOpts `json:"-"`
	In   string  `json:"in"`  // fully qualified, e.g. ".p7.Request" or ".google.protobuf.Empty"
	Out  string  `json:"out"` // fully qualified
}

// synthFile builds `<pkg>.proto`: package pkg, go_package example.com/gen/<pkg>, importing
// gorums.proto (and empty.proto when used, and the files named in imports), messages
// Request/Response/MyResponse, service Svc.
func (t *Tree) synthFile(pkg string, methods []MethodSpec, imports ...string) *descriptorpb.FileDescriptorProto {
	fdp := &descriptorpb.FileDescriptorProto{
		Name:        proto.String(pkg + ".proto"),
		Package:     proto.String(pkg),
		Dependency:  []string{"gorums.proto"},
		MessageType: stdMessages(),
		Options:     &descriptorpb.FileOptions{GoPackage: proto.String("example.com/gen/" + pkg)},
		Syntax:      proto.String("proto3"),
	}
	svc := &descriptorpb.ServiceDescriptorProto{Name: proto.String("Svc")}
	usesEmpty := false
	for _, m := range methods {
		md := &descriptorpb.MethodDescriptorProto{
			Name:       proto.String(m.Name),
			InputType:  proto.String(m.In),
			OutputType: proto.String(m.Out),
			Options:    t.BuildMethodOptions(m.Opts.MethodOpts),
		}
		// protoc leaves the streaming fields absent when false
		if m.Opts.ClientStream {
			md.ClientStreaming = proto.Bool(true)
		}
		if m.Opts.ServerStream {
			md.ServerStreaming = proto.Bool(true)
		}
		if strings.HasPrefix(m.In, ".google.protobuf.Empty") || strings.HasPrefix(m.Out, ".google.protobuf.Empty") {
			usesEmpty = true
		}
		svc.Method = append(svc.Method, md)
	}
	if usesEmpty {
		fdp.Dependency = append(fdp.Dependency, "google/protobuf/empty.proto")
	}
	fdp.Dependency = append(fdp.Dependency, imports...)
	fdp.Service = []*descriptorpb.ServiceDescriptorProto{svc}
	return fdp
}

// synthDepFile builds the message-only file `<name>_<k>.proto` that service s<k> imports: proto package
// `<name>x<k>`, go_package `example.com/gen/s<k>dep/<name>` (so the Go package NAME is exactly <name>),
// one message `Item { string value = 1; }`.
func synthDepFile(name string, k int) *descriptorpb.FileDescriptorProto {
	return &descriptorpb.FileDescriptorProto{
		Name:        proto.String(fmt.Sprintf("%s_%d.proto", name, k)),
		Package:     proto.String(fmt.Sprintf("%sx%d", name, k)),
		MessageType: []*descriptorpb.DescriptorProto{{Name: proto.String("Item"), Field: []*descriptorpb.FieldDescriptorProto{strField("value", 1)}}},
		Options:     &descriptorpb.FileOptions{GoPackage: proto.String(depGoPkg(name, k))},
		Syntax:      proto.String("proto3"),
	}
}

// depPkgDir is the directory (relative to the scratch module) of the dependency package of service s<k>.
func depPkgDir(name string, k int) string { return fmt.Sprintf("s%ddep/%s", k, name) }

func depGoPkg(name string, k int) string { return "example.com/gen/" + depPkgDir(name, k) }

func rowPkg(id int) string { return fmt.Sprintf("p%d", id) }

// The method of a lattice row has a proto name that is not already a Go identifier in camel case, so that the
// string under which the stubs send and the server registers (the full proto name) differs from anything
// derived from the Go name.
const (
	rowMethodProto = "foo_bar"
	rowMethodGo    = "FooBar"
)

// synthRow builds the single-method file of a lattice row.
func (t *Tree) synthRow(id int) *descriptorpb.FileDescriptorProto {
	pkg := rowPkg(id)
	return t.synthFile(pkg, []MethodSpec{{Name: rowMethodProto, Row: id, Opts: rowOpts(id), In: "." + pkg + ".Request", Out: "." + pkg + ".Response"}})
}

// Request marshals a CodeGeneratorRequest for generating fdp (dependencies first).
func (t *Tree) Request(fdp *descriptorpb.FileDescriptorProto, parameter, preferDir string) ([]byte, error) {
	files, err := t.Closure(fdp, preferDir)
	if err != nil {
		return nil, err
	}
	req := &pluginpb.CodeGeneratorRequest{
		FileToGenerate: []string{fdp.GetName()},
		ProtoFile:      files,
	}
	if parameter != "" {
		req.Parameter = proto.String(parameter)
	}
	return proto.MarshalOptions{Deterministic: true}.Marshal(req)
}

var rePkgName = regexp.MustCompile(`\b[ps]\d+(\b|_|dep\b)`)

// normNames replaces the row specific package names (p<row>, s<k>, s<k>dep) by "pN" ("pNdep").
func normNames(s string) string { return rePkgName.ReplaceAllString(s, "pN$1") }

// classifyDiag maps a diagnostic to a short class.
func classifyDiag(outcome, diag string) string {
	if outcome == OutcomeOK {
		return ""
	}
	switch {
	case strings.Contains(diag, "option 'gorums.quorumcall' is required for async methods"):
		return "async-needs-quorumcall"
	case strings.Contains(diag, "option 'gorums.multicast' is required for client-server stream methods"):
		return "client-stream-needs-multicast"
	case strings.Contains(diag, "option 'gorums.correctable' is required for server-client stream methods"):
		return "server-stream-needs-correctable"
	case strings.Contains(diag, "option 'gorums.correctable' is only valid for server-client stream methods"):
		return "correctable-client-stream"
	case strings.Contains(diag, "cannot be combined"):
		return "call-types-combined"
	case strings.Contains(diag, "option 'gorums.per_node_arg' cannot be used without a call type option"):
		return "per-node-needs-call-type"
	}
	return "other"
}
