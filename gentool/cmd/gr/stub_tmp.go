package main

func cmdCompile(args []string) int { return 2 }
func cmdStubs(args []string) int   { return 2 }
func cmdRegen(args []string) int   { return 2 }
