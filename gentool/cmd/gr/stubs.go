package main

import (
	"bytes"
	"context"
	"flag"
	"fmt"
	"os"
	"os/exec"
	"path"
	"path/filepath"
	"regexp"
	"sort"
	"strings"
	"time"

	"google.golang.org/protobuf/types/descriptorpb"
)

// FileCmp is the comparison of one committed generated file with its regeneration.
type FileCmp struct {
	Path       string    `json:"path"`                 // committed file, relative to the repository
	Listed     bool      `json:"listed"`               // one of tests/*, benchmark, cmd/protoc-gen-gorums/{dev,gengorums} (false e.g. for examples/)
	Descriptor string    `json:"descriptor,omitempty"` // proto file name the file was regenerated from
	DescSource string    `json:"descriptor_source,omitempty"`
	Parameter  string    `json:"parameter"`
	Equal      bool      `json:"equal"`      // equal after normalisation (comments dropped, gofmt)
	ByteEqual  bool      `json:"byte_equal"` // equal byte for byte (expected only for template_static.go)
	FirstDiff  *LineDiff `json:"first_diff,omitempty"`
	Error      string    `json:"error,omitempty"`
}

// LineDiff is the first differing line pair of the normalised texts.
type LineDiff struct {
	Line        int    `json:"line"`
	Committed   string `json:"committed"`
	Regenerated string `json:"regenerated"`
}

// MethodBinding is what was extracted for one service method of a regenerated package,
// together with what the descriptor says it should be.
type MethodBinding struct {
	Package    string       `json:"package"` // directory of the package, relative to the repository
	Descriptor string       `json:"descriptor"`
	Method     string       `json:"method"` // pkg.Service.Method
	GoName     string       `json:"go_name"`
	Opts       RowOpts      `json:"opts"`
	In         string       `json:"in"`
	Out        string       `json:"out"`
	WantStubs  []string     `json:"want_stubs"` // "Recv.entryPoint"
	Stubs      []ClientStub `json:"stubs"`
	WantShape  string       `json:"want_shape"`
	Server     *ServerReg   `json:"server_reg"`
	IfaceShape string       `json:"iface_shape"`
	WantQF     string       `json:"want_qf"`
	QF         string       `json:"qf"`
}

// Mismatch is one disagreement between generated bindings and the descriptor.
type Mismatch struct {
	Package string `json:"package"`
	Method  string `json:"method"`
	Field   string `json:"field"`
	Want    string `json:"want"`
	Got     string `json:"got"`
}

// StubsOutput is the JSON document of `gr stubs`.
type StubsOutput struct {
	Tool             string              `json:"tool"`
	Cmd              string              `json:"cmd"`
	Repo             string              `json:"repo"`
	PluginBuildOK    bool                `json:"plugin_build_ok"`
	Error            string              `json:"error,omitempty"`
	Files            []*FileCmp          `json:"files"`
	NoDescriptor     []string            `json:"no_descriptor"`     // committed *_gorums.pb.go without a usable descriptor
	DescriptorErrors []string            `json:"descriptor_errors"` // *.pb.go whose raw descriptor could not be read
	Bindings         []*MethodBinding    `json:"bindings"`
	BindingsMismatch []*Mismatch         `json:"bindings_mismatch"`
	Duplicates       map[string][]string `json:"duplicate_decls"` // package -> duplicated declaration keys of the regenerated code
	Summary          map[string]any      `json:"summary"`
	WallS            float64             `json:"wall_s"`
}

// genTarget is one plugin invocation of the regenerate-and-compare.
type genTarget struct {
	Dir       string // package directory relative to the repository
	TF        *TreeFile
	Parameter string
	Committed []string // committed files (relative paths) this invocation is expected to reproduce

	run   *PluginRun
	files map[string]string // regenerated: base name -> content
	err   string
}

// findTargets pairs every committed *_gorums.pb.go with the descriptor of its package.
func findTargets(tree *Tree) (targets []*genTarget, noDesc []string) {
	byDir := map[string][]string{}
	_ = filepath.Walk(tree.Repo, func(p string, info os.FileInfo, err error) error {
		if err != nil {
			return nil
		}
		if info.IsDir() {
			switch info.Name() {
			case ".git", "node_modules", "third_party":
				return filepath.SkipDir
			}
			return nil
		}
		if strings.HasSuffix(info.Name(), "_gorums.pb.go") {
			rel, _ := filepath.Rel(tree.Repo, p)
			byDir[filepath.Dir(rel)] = append(byDir[filepath.Dir(rel)], rel)
		}
		return nil
	})
	dirs := make([]string, 0, len(byDir))
	for d := range byDir {
		dirs = append(dirs, d)
	}
	sort.Strings(dirs)
	for _, dir := range dirs {
		committed := byDir[dir]
		sort.Strings(committed)
		claimed := map[string]bool{}
		tfs := tree.ByDir[dir]
		// longest prefix first so that x_y.pb.go wins over x.pb.go for x_y_gorums.pb.go
		sort.SliceStable(tfs, func(i, j int) bool { return len(tfs[i].GoFile) > len(tfs[j].GoFile) })
		for _, tf := range tfs {
			prefix := strings.TrimSuffix(filepath.Base(tf.GoFile), ".pb.go")
			var plain, dev []string
			for _, c := range committed {
				if claimed[c] {
					continue
				}
				b := filepath.Base(c)
				switch {
				case b == prefix+"_gorums.pb.go":
					plain = append(plain, c)
				case strings.HasPrefix(b, prefix+"_"):
					dev = append(dev, c)
				}
			}
			if len(plain) > 0 {
				targets = append(targets, &genTarget{Dir: dir, TF: tf, Committed: plain})
				for _, c := range plain {
					claimed[c] = true
				}
			}
			if len(dev) > 0 {
				targets = append(targets, &genTarget{Dir: dir, TF: tf, Parameter: "dev=true", Committed: dev})
				for _, c := range dev {
					claimed[c] = true
				}
			}
		}
		for _, c := range committed {
			if !claimed[c] {
				noDesc = append(noDesc, c)
			}
		}
	}
	return targets, noDesc
}

func (tg *genTarget) generate(env *Env, tree *Tree) {
	req, err := tree.Request(tg.TF.Proto, tg.Parameter, tg.Dir)
	if err != nil {
		tg.err = "request: " + err.Error()
		return
	}
	tg.run = runPlugin(env.Plugin, req, 60*time.Second)
	if o := tg.run.Outcome(); o != OutcomeOK {
		tg.err = fmt.Sprintf("plugin %s: %s", o, tg.run.Diag())
		return
	}
	tg.files = map[string]string{}
	names, content := responseFiles(tg.run.Resp)
	for _, n := range names {
		tg.files[path.Base(n)] += content[n]
	}
}

func compareFile(repo, rel string, regenerated *string, errText string) *FileCmp {
	fc := &FileCmp{Path: rel}
	committed, err := os.ReadFile(filepath.Join(repo, rel))
	if err != nil {
		fc.Error = "read committed: " + err.Error()
		return fc
	}
	if errText != "" {
		fc.Error = errText
		return fc
	}
	if regenerated == nil {
		fc.Error = "not regenerated: the plugin did not produce this file"
		return fc
	}
	fc.ByteEqual = string(committed) == *regenerated
	nc, err := normalizeGo(rel, committed)
	if err != nil {
		fc.Error = "committed file does not parse: " + firstLine(err.Error())
		return fc
	}
	nr, err := normalizeGo(rel, []byte(*regenerated))
	if err != nil {
		fc.Error = "regenerated file does not parse: " + firstLine(err.Error())
		return fc
	}
	if nc == nr {
		fc.Equal = true
		return fc
	}
	ln, a, b := firstDiff(nc, nr)
	fc.FirstDiff = &LineDiff{Line: ln, Committed: strings.TrimSpace(a), Regenerated: strings.TrimSpace(b)}
	return fc
}

// regenBundle reproduces gengorums/template_static.go with `protoc-gen-gorums --bundle=`
// writing to a scratch copy.
func regenBundle(env *Env) *FileCmp {
	const rel = "cmd/protoc-gen-gorums/gengorums/template_static.go"
	fc := &FileCmp{Path: rel, Parameter: "--bundle", Descriptor: "cmd/protoc-gen-gorums/dev/*.go"}
	committed, err := os.ReadFile(filepath.Join(env.Repo, rel))
	if err != nil {
		fc.Error = "read committed: " + err.Error()
		return fc
	}
	dir := filepath.Join(env.Scratch, "bundle")
	if err := os.MkdirAll(dir, 0o755); err != nil {
		fc.Error = err.Error()
		return fc
	}
	dst := filepath.Join(dir, "template_static.go")
	if err := os.WriteFile(dst, committed, 0o644); err != nil {
		fc.Error = err.Error()
		return fc
	}
	ctx, cancel := context.WithTimeout(context.Background(), 5*time.Minute)
	defer cancel()
	cmd := exec.CommandContext(ctx, env.Plugin, "--bundle="+dst)
	cmd.Dir = env.Repo
	cmd.Env = goEnv()
	cmd.WaitDelay = 5 * time.Second
	var so, se bytes.Buffer
	cmd.Stdout, cmd.Stderr = &so, &se
	if err := cmd.Run(); err != nil {
		msg := firstLine(strings.TrimSpace(se.String()))
		if msg == "" {
			msg = firstLine(strings.TrimSpace(so.String()))
		}
		fc.Error = fmt.Sprintf("bundle run failed: %v: %s", err, reLogStamp.ReplaceAllString(msg, ""))
		return fc
	}
	out, err := os.ReadFile(dst)
	if err != nil {
		fc.Error = "bundle output: " + err.Error()
		return fc
	}
	s := string(out)
	r := compareFile(env.Repo, rel, &s, "")
	r.Parameter, r.Descriptor = fc.Parameter, fc.Descriptor
	return r
}

// ---------------------------------------------------------------------------
// expected bindings from the descriptor

// goCamelCase is protobuf-go's strs.GoCamelCase.
func goCamelCase(s string) string {
	var b []byte
	for i := 0; i < len(s); i++ {
		c := s[i]
		switch {
		case c == '.' && i+1 < len(s) && isASCIILower(s[i+1]):
		case c == '.':
			b = append(b, '_')
		case c == '_' && (i == 0 || s[i-1] == '.'):
			b = append(b, 'X')
		case c == '_' && i+1 < len(s) && isASCIILower(s[i+1]):
		case isASCIIDigit(c):
			b = append(b, c)
		default:
			if isASCIILower(c) {
				c -= 'a' - 'A'
			}
			b = append(b, c)
			for ; i+1 < len(s) && isASCIILower(s[i+1]); i++ {
				b = append(b, s[i+1])
			}
		}
	}
	return string(b)
}

func isASCIILower(c byte) bool { return 'a' <= c && c <= 'z' }
func isASCIIDigit(c byte) bool { return '0' <= c && c <= '9' }

// msgGoName returns the unqualified Go name of a message type ".pkg.Outer.Inner".
func msgGoName(full, filePkg string, local bool) string {
	n := strings.TrimPrefix(full, ".")
	if local && filePkg != "" {
		n = strings.TrimPrefix(n, filePkg+".")
	} else if i := strings.LastIndex(n, "."); i >= 0 {
		// imported: the package part cannot be separated from outer messages without the
		// imported descriptor; top-level messages are all that the repository uses.
		n = n[i+1:]
	}
	return goCamelCase(n)
}

var reQualifier = regexp.MustCompile(`\b[A-Za-z_][A-Za-z0-9_]*\.`)

// unqualify removes package qualifiers from a type text.
func unqualify(s string) string { return reQualifier.ReplaceAllString(s, "") }

func isLocalType(fdp *descriptorpb.FileDescriptorProto, full string) bool {
	pkg := fdp.GetPackage()
	n := strings.TrimPrefix(full, ".")
	if pkg != "" {
		if !strings.HasPrefix(n, pkg+".") {
			return false
		}
		n = strings.TrimPrefix(n, pkg+".")
	}
	top := n
	if i := strings.Index(n, "."); i >= 0 {
		top = n[:i]
	}
	for _, m := range fdp.GetMessageType() {
		if m.GetName() == top {
			return true
		}
	}
	return false
}

type wantStub struct {
	key    string // Recv.entry
	result string // unqualified result text
	qf     bool
}

// expectedStubs is an independent statement of which client stubs a method must get.
func expectedStubs(o RowOpts, out, custom string) []wantStub {
	var w []wantStub
	any := o.Quorumcall || o.Async || o.Correctable || o.Multicast || o.Unicast
	if !any {
		w = append(w, wantStub{"Node.RPCCall", "(resp *" + custom + ", err error)", false})
	}
	if o.Quorumcall && !o.Async {
		w = append(w, wantStub{"Configuration.QuorumCall", "(resp *" + custom + ", err error)", true})
	}
	if o.Quorumcall && o.Async {
		w = append(w, wantStub{"Configuration.AsyncCall", "*Async" + custom, true})
	}
	if o.Correctable {
		if o.ServerStream {
			w = append(w, wantStub{"Configuration.CorrectableCall", "*CorrectableStream" + custom, true})
		} else {
			w = append(w, wantStub{"Configuration.CorrectableCall", "*Correctable" + custom, true})
		}
	}
	if o.Multicast {
		w = append(w, wantStub{"Configuration.Multicast", "", false})
	}
	if o.Unicast {
		w = append(w, wantStub{"Node.Unicast", "", false})
	}
	return w
}

func expectedShape(o RowOpts) string {
	switch {
	case o.Multicast || o.Unicast:
		return "oneway"
	case o.Correctable && o.ServerStream:
		return "stream"
	}
	return "unary"
}

func expectedQF(o RowOpts, goName, in, out, custom string) string {
	if o.Multicast || o.Unicast || !(o.Quorumcall || o.Async || o.Correctable) {
		return ""
	}
	lvl := ""
	if o.Correctable {
		lvl = ", int"
	}
	return fmt.Sprintf("%sQF(in *%s, replies map[uint32]*%s) (*%s%s, bool)", goName, in, out, custom, lvl)
}

// checkBindings compares the bindings extracted from a regenerated package with the descriptor.
func checkBindings(tree *Tree, pkgDir string, fdp *descriptorpb.FileDescriptorProto, a *GoAnalysis) (bs []*MethodBinding, mm []*Mismatch) {
	add := func(method, field, want, got string) {
		mm = append(mm, &Mismatch{Package: pkgDir, Method: method, Field: field, Want: want, Got: got})
	}
	if a.ParseError != "" {
		add("", "parse", "", a.ParseError)
	}
	regByLit := map[string][]ServerReg{}
	for _, r := range a.Regs {
		regByLit[r.Literal] = append(regByLit[r.Literal], r)
	}
	known := map[string]bool{}
	knownQF := map[string]bool{}
	for _, svc := range fdp.GetService() {
		svcGo := goCamelCase(svc.GetName())
		for _, m := range svc.GetMethod() {
			full := svc.GetName() + "." + m.GetName()
			if p := fdp.GetPackage(); p != "" {
				full = p + "." + full
			}
			known[full] = true
			mo, presentFalse := tree.ReadMethodOptions(m.GetOptions())
			o := RowOpts{MethodOpts: mo, ClientStream: m.GetClientStreaming(), ServerStream: m.GetServerStreaming()}
			goName := goCamelCase(m.GetName())
			in := msgGoName(m.GetInputType(), fdp.GetPackage(), isLocalType(fdp, m.GetInputType()))
			out := msgGoName(m.GetOutputType(), fdp.GetPackage(), isLocalType(fdp, m.GetOutputType()))
			custom := out
			if mo.Custom != "" {
				custom = mo.Custom
			}
			b := &MethodBinding{Package: pkgDir, Descriptor: fdp.GetName(), Method: full, GoName: goName, Opts: o, In: in, Out: out}
			bs = append(bs, b)
			if len(presentFalse) > 0 {
				// the generator only tests presence; `option (gorums.x) = false` still selects x
				add(full, "option_present_but_false", "", strings.Join(presentFalse, ","))
			}

			// client stubs
			want := expectedStubs(o, out, custom)
			for _, w := range want {
				b.WantStubs = append(b.WantStubs, w.key)
			}
			sort.Strings(b.WantStubs)
			b.Stubs = a.stubsNamed(goName)
			var got []string
			for _, s := range b.Stubs {
				got = append(got, s.Recv+"."+s.Entry)
			}
			sort.Strings(got)
			if strings.Join(got, ",") != strings.Join(b.WantStubs, ",") {
				add(full, "client_stubs", strings.Join(b.WantStubs, ","), strings.Join(got, ","))
			}
			for _, s := range b.Stubs {
				key := s.Recv + "." + s.Entry
				if s.MethodStr != full {
					add(full, key+".method_str", full, s.MethodStr)
				}
				var w *wantStub
				for i := range want {
					if want[i].key == key {
						w = &want[i]
					}
				}
				if w == nil {
					continue
				}
				if s.Entry != "Unicast" { // the unicast template has no per-node variant
					if s.PerNodeArgFn != mo.PerNodeArg {
						add(full, key+".per_node_arg_fn", fmt.Sprint(mo.PerNodeArg), fmt.Sprint(s.PerNodeArgFn))
					}
					if hasF := strings.Contains(s.Params, "f func("); hasF != mo.PerNodeArg {
						add(full, key+".per_node_param", fmt.Sprint(mo.PerNodeArg), s.Params)
					}
				}
				if !strings.Contains(unqualify(s.Params), "in *"+in) {
					add(full, key+".in_type", "in *"+in, s.Params)
				}
				if r := unqualify(s.Result); r != w.result {
					add(full, key+".result", w.result, r)
				}
				wantSS := s.Entry == "CorrectableCall" && o.ServerStream
				if s.ServerStream != wantSS {
					add(full, key+".server_stream", fmt.Sprint(wantSS), fmt.Sprint(s.ServerStream))
				}
				wantQFCall := ""
				if w.qf {
					wantQFCall = goName + "QF"
				}
				if s.QFCall != wantQFCall {
					add(full, key+".qf_call", wantQFCall, s.QFCall)
				}
				if strings.HasPrefix(w.result, "*") {
					if tn := strings.TrimPrefix(w.result, "*"); !a.Types[tn] {
						add(full, key+".result_type_declared", "type "+tn, "(missing)")
					}
				}
			}

			// server side
			b.WantShape = expectedShape(o)
			regs := regByLit[full]
			switch len(regs) {
			case 0:
				add(full, "server_reg", full, "(no RegisterHandler call with this literal)")
			case 1:
				r := regs[0]
				b.Server = &r
				if r.Impl != goName {
					add(full, "server_reg.impl", goName, r.Impl)
				}
				if r.HandlerShape != b.WantShape {
					add(full, "server_reg.handler_shape", b.WantShape, r.HandlerShape)
				}
			default:
				r := regs[0]
				b.Server = &r
				add(full, "server_reg", "1 registration", fmt.Sprintf("%d registrations", len(regs)))
			}
			b.IfaceShape = a.Iface[svcGo+"."+goName]
			if b.IfaceShape != b.WantShape {
				add(full, "server_iface_shape", b.WantShape, b.IfaceShape)
			}
			wantSig := fmt.Sprintf("%s(ctx ServerCtx, request *%s)", goName, in)
			switch b.WantShape {
			case "unary":
				wantSig += fmt.Sprintf(" (response *%s, err error)", out)
			case "stream":
				wantSig = fmt.Sprintf("%s(ctx ServerCtx, request *%s, send func(response *%s) error) error", goName, in, out)
			}
			if got := unqualify(a.IfaceSig[svcGo+"."+goName]); got != wantSig {
				add(full, "server_iface_sig", wantSig, got)
			}

			// quorum function
			b.WantQF = expectedQF(o, goName, in, out, custom)
			b.QF = a.QF[goName+"QF"]
			knownQF[goName+"QF"] = true
			if unqualify(b.QF) != b.WantQF {
				add(full, "qf", b.WantQF, unqualify(b.QF))
			}
		}
	}
	for _, r := range a.Regs {
		if !known[r.Literal] {
			add(r.Literal, "server_reg", "(no such method in the descriptor)", r.Literal)
		}
	}
	for _, q := range a.QFOrder {
		if !knownQF[q] {
			add(q, "qf", "(no such method in the descriptor)", a.QF[q])
		}
	}
	return bs, mm
}

// ---------------------------------------------------------------------------

func runStubs(env *Env, res *StubsOutput) error {
	tree, err := loadGorumsOptions(env.Repo)
	if err != nil {
		return err
	}
	tree.Scan()
	res.DescriptorErrors = append([]string{}, tree.Errors...)
	targets, noDesc := findTargets(tree)
	res.NoDescriptor = append([]string{}, noDesc...)

	var bundle *FileCmp
	done := make(chan struct{})
	go func() {
		defer close(done)
		defer func() {
			if p := recover(); p != nil {
				bundle = &FileCmp{Path: "cmd/protoc-gen-gorums/gengorums/template_static.go", Error: fmt.Sprint("gr: internal error: ", p)}
			}
		}()
		bundle = regenBundle(env)
	}()

	type pkgResult struct {
		files    []*FileCmp
		bindings []*MethodBinding
		mm       []*Mismatch
		dups     []string
	}
	results := make([]pkgResult, len(targets))
	parallel(len(targets), env.Jobs, func(i int) {
		tg := targets[i]
		pr := &results[i]
		defer func() {
			if p := recover(); p != nil {
				pr.files = append(pr.files, &FileCmp{Path: tg.Dir, Error: fmt.Sprint("gr: internal error: ", p)})
			}
		}()
		tg.generate(env, tree)
		seen := map[string]bool{}
		for _, c := range tg.Committed {
			var regen *string
			if s, ok := tg.files[filepath.Base(c)]; ok {
				regen = &s
				seen[filepath.Base(c)] = true
			}
			fc := compareFile(env.Repo, c, regen, tg.err)
			fc.Descriptor = tg.TF.Proto.GetName()
			fc.DescSource = tg.TF.GoFile
			fc.Parameter = tg.Parameter
			pr.files = append(pr.files, fc)
		}
		extra := []string{}
		for n := range tg.files {
			if !seen[n] {
				extra = append(extra, n)
			}
		}
		sort.Strings(extra)
		for _, n := range extra {
			pr.files = append(pr.files, &FileCmp{Path: filepath.Join(tg.Dir, n), Descriptor: tg.TF.Proto.GetName(), DescSource: tg.TF.GoFile,
				Parameter: tg.Parameter, Error: "regenerated but not committed"})
		}
		if tg.files != nil {
			a := analyzeGo(tg.files)
			pr.bindings, pr.mm = checkBindings(tree, tg.Dir, tg.TF.Proto, a)
			pr.dups = a.Duplicates
		}
	})
	<-done
	res.Duplicates = map[string][]string{}
	for i, pr := range results {
		res.Files = append(res.Files, pr.files...)
		res.Bindings = append(res.Bindings, pr.bindings...)
		res.BindingsMismatch = append(res.BindingsMismatch, pr.mm...)
		if len(pr.dups) > 0 {
			res.Duplicates[targets[i].Dir] = pr.dups
		}
	}
	res.Files = append(res.Files, bundle)
	for _, f := range res.Files {
		f.Listed = listedPath(f.Path)
	}
	sort.SliceStable(res.Files, func(i, j int) bool { return res.Files[i].Path < res.Files[j].Path })
	neq := []string{}
	for _, f := range res.Files {
		if !f.Equal {
			neq = append(neq, f.Path)
		}
	}
	res.Summary = map[string]any{
		"files":             len(res.Files),
		"equal":             len(res.Files) - len(neq),
		"different":         neq,
		"no_descriptor":     len(res.NoDescriptor),
		"methods":           len(res.Bindings),
		"bindings_mismatch": len(res.BindingsMismatch),
	}
	return nil
}

// listedPath reports whether a committed file belongs to the sets named by the specification.
func listedPath(p string) bool {
	p = filepath.ToSlash(p)
	return strings.HasPrefix(p, "tests/") || strings.HasPrefix(p, "benchmark/") ||
		strings.HasPrefix(p, "cmd/protoc-gen-gorums/dev/") || strings.HasPrefix(p, "cmd/protoc-gen-gorums/gengorums/")
}

func cmdStubs(args []string) int {
	fs := flag.NewFlagSet("stubs", flag.ContinueOnError)
	repo := fs.String("repo", "/repo", "repository under test")
	out := fs.String("out", "", "JSON output file (- or empty: stdout)")
	jobs := fs.Int("j", 0, "parallel workers (0: number of CPUs)")
	if err := fs.Parse(args); err != nil {
		return 2
	}
	start := time.Now()
	res := &StubsOutput{Tool: "gr", Cmd: "stubs", Repo: *repo, Files: []*FileCmp{}, NoDescriptor: []string{}, DescriptorErrors: []string{},
		Bindings: []*MethodBinding{}, BindingsMismatch: []*Mismatch{}, Duplicates: map[string][]string{}, Summary: map[string]any{}}
	fail := func(err error) int {
		res.Error = err.Error()
		res.WallS = time.Since(start).Seconds()
		fmt.Fprintln(os.Stderr, "gr stubs:", err)
		_ = writeJSON(*out, res)
		return 2
	}
	env, err := newEnv(*repo, *jobs)
	if err != nil {
		return fail(err)
	}
	defer env.Close()
	res.Repo = env.Repo
	if err := env.BuildPlugin(); err != nil {
		return fail(err)
	}
	res.PluginBuildOK = true
	if err := runStubs(env, res); err != nil {
		return fail(err)
	}
	res.WallS = time.Since(start).Seconds()
	if err := writeJSON(*out, res); err != nil {
		fmt.Fprintln(os.Stderr, "gr stubs:", err)
		return 2
	}
	fmt.Fprintf(os.Stderr, "gr stubs: %d files in %.1fs: %d equal, different: %v\n", len(res.Files), res.WallS, res.Summary["equal"], res.Summary["different"])
	fmt.Fprintf(os.Stderr, "  committed *_gorums.pb.go without descriptor: %v\n", res.NoDescriptor)
	fmt.Fprintf(os.Stderr, "  methods checked: %d, bindings mismatches: %d, packages with duplicate declarations: %d\n", len(res.Bindings), len(res.BindingsMismatch), len(res.Duplicates))
	for i, m := range res.BindingsMismatch {
		if i == 10 {
			fmt.Fprintln(os.Stderr, "  …")
			break
		}
		fmt.Fprintf(os.Stderr, "  mismatch %s %s %s: want %q got %q\n", m.Package, m.Method, m.Field, m.Want, m.Got)
	}
	return 0
}

// cmdRegen writes the regenerated dev files (Parameter dev=true) of a package into a directory.
func cmdRegen(args []string) int {
	fs := flag.NewFlagSet("regen", flag.ContinueOnError)
	repo := fs.String("repo", "/repo", "repository under test")
	dir := fs.String("dir", "", "output directory")
	pkg := fs.String("pkg", "cmd/protoc-gen-gorums/dev", "package directory (relative to the repository) whose descriptor is regenerated")
	param := fs.String("param", "dev=true", "plugin parameter")
	out := fs.String("out", "", "optional JSON report")
	if err := fs.Parse(args); err != nil {
		return 2
	}
	start := time.Now()
	res := map[string]any{"tool": "gr", "cmd": "regen", "repo": *repo, "plugin_build_ok": false, "files": []string{}}
	fail := func(err error) int {
		res["error"] = err.Error()
		res["wall_s"] = time.Since(start).Seconds()
		fmt.Fprintln(os.Stderr, "gr regen:", err)
		if *out != "" {
			_ = writeJSON(*out, res)
		}
		return 2
	}
	if *dir == "" {
		return fail(toolErrorf("-dir is required"))
	}
	env, err := newEnv(*repo, 0)
	if err != nil {
		return fail(err)
	}
	defer env.Close()
	res["repo"] = env.Repo
	if err := env.BuildPlugin(); err != nil {
		return fail(err)
	}
	res["plugin_build_ok"] = true
	tree, err := loadGorumsOptions(env.Repo)
	if err != nil {
		return fail(err)
	}
	tree.Scan()
	tfs := tree.ByDir[filepath.Clean(*pkg)]
	if len(tfs) == 0 {
		return fail(toolErrorf("no *.pb.go with a raw descriptor in %s (%v)", *pkg, tree.Errors))
	}
	if err := os.MkdirAll(*dir, 0o755); err != nil {
		return fail(toolErrorf("%v", err))
	}
	var written []string
	for _, tf := range tfs {
		tg := &genTarget{Dir: filepath.Clean(*pkg), TF: tf, Parameter: *param}
		tg.generate(env, tree)
		if tg.err != "" {
			return fail(toolErrorf("%s: %s", tf.Proto.GetName(), tg.err))
		}
		for n, c := range tg.files {
			if err := os.WriteFile(filepath.Join(*dir, n), []byte(c), 0o644); err != nil {
				return fail(toolErrorf("%v", err))
			}
			written = append(written, n)
		}
	}
	sort.Strings(written)
	res["files"] = written
	res["wall_s"] = time.Since(start).Seconds()
	if *out != "" {
		if err := writeJSON(*out, res); err != nil {
			fmt.Fprintln(os.Stderr, "gr regen:", err)
			return 2
		}
	}
	fmt.Fprintf(os.Stderr, "gr regen: wrote %d files to %s: %v\n", len(written), *dir, written)
	return 0
}
