// Command gr drives protoc-gen-gorums (built from the working tree of the repository under
// test) without protoc. See README.md.
package main

import (
	"fmt"
	"os"
	"os/signal"
	"syscall"
)

const usage = `usage: gr <command> [flags]

commands:
  table    -out <json> [-lean <file.lean>] [-runs 3] [-maxruns N] [-j 16] [-dev=true] [-rows list]
  pairs    -out <json> [-lean <file.lean>] [-first 8] [-control 8] [-j 16] [-timeout 10s]
  compile  -out <json> [-rows <list|all-ok|sample:N:SEED>] [-services N -seed S] [-j 16]
  stubs    -out <json> [-j 16]
  regen    -dir <outdir>

common flags: -repo <dir> (default /repo)
exit status: 0 the tool worked (whatever it found), 2 tool failure
`

func main() {
	// a closed stderr/stdout pipe (… | head) must not kill the tool before it has cleaned up
	signal.Ignore(syscall.SIGPIPE)
	if len(os.Args) < 2 {
		fmt.Fprint(os.Stderr, usage)
		os.Exit(2)
	}
	var code int
	switch os.Args[1] {
	case "table":
		code = cmdTable(os.Args[2:])
	case "pairs":
		code = cmdPairs(os.Args[2:])
	case "compile":
		code = cmdCompile(os.Args[2:])
	case "stubs":
		code = cmdStubs(os.Args[2:])
	case "regen":
		code = cmdRegen(os.Args[2:])
	case "-h", "--help", "help":
		fmt.Print(usage)
	default:
		fmt.Fprintf(os.Stderr, "gr: unknown command %q\n%s", os.Args[1], usage)
		code = 2
	}
	os.Exit(code)
}
