module verifgen

go 1.22.1

require (
	github.com/relab/gorums v0.0.0
	google.golang.org/protobuf v1.33.0
)

replace github.com/relab/gorums => /repo
