module verifgen

go 1.22.1

require google.golang.org/protobuf v1.33.0
