package main

import (
	"go/ast"
	"go/token"
	"strings"
)

func extractAll() {
	safely("replyLoop", replyLoopFacts)
	safely("errors", errorsFacts)
	safely("sort", sortFacts)
	safely("correctable", correctableFacts)
	safely("codec", codecFacts)
	safely("channel", channelFacts)
	safely("config", configFacts)
	safely("server", serverFacts)
	safely("oneway", onewayFacts)
	safely("mgr", mgrFacts)
	safely("gen", genFacts)
	safely("net", netFacts)
	safely("nodeconn", nodeConnFacts)
	safely("backoff", backoffFacts)
	safely("backoffArith", backoffArith)
	safely("access", accessFacts)
}

// ------------------------------------------------------------------ reply loops (C01, C02, C06, C07)

// loopFacts extracts, for one `for { select … }` reply loop:
//
//	<p>_exhaust   the condition guarding the Incomplete outcome
//	<p>_preCheck  whether that test is evaluated before the first select
//	<p>_ctxCause  whether the branch reports incompleteCause(ctx) (the context's error once the context has ended)
//	<p>_errGuard  the condition under which an arrival is treated as an error
//	<p>_chanCap   the capacity expression of the reply channel (in the issuing function)
func loopFacts(prefix, file, loopFn, issueFn string) {
	p := loadDir("")
	f := p.findFunc(file, loopFn)
	if f == nil {
		defE(prefix+"_exhaust", missing("function "+loopFn+" not found"))
		defBool(prefix+"_preCheck", false)
		defBool(prefix+"_ctxCause", false)
		defE(prefix+"_errGuard", missing("function "+loopFn+" not found"))
		defE(prefix+"_chanCap", missing("function "+loopFn+" not found"))
		return
	}
	ifsPlain := p.ifsWithBodyMentioning(f, "cause: Incomplete")
	ifsCtx := p.ifsWithBodyMentioning(f, "cause: incompleteCause(ctx)")
	ifs := append(append([]*ast.IfStmt{}, ifsPlain...), ifsCtx...)
	defBool(prefix+"_ctxCause", len(ifsPlain) == 0 && len(ifsCtx) > 0)
	loop := firstFor(f)
	switch {
	case len(ifs) == 0 || loop == nil:
		defE(prefix+"_exhaust", missing("no Incomplete return / no select loop"))
		defBool(prefix+"_preCheck", false)
	default:
		// all exhaustion tests must be the same expression
		c0 := p.expr(ifs[0].Cond)
		same := true
		for _, i := range ifs[1:] {
			if p.expr(i.Cond) != c0 {
				same = false
			}
		}
		if !same {
			defE(prefix+"_exhaust", missing("several different exhaustion tests"))
		} else {
			defE(prefix+"_exhaust", c0)
		}
		// position: before the loop, or in the loop body before the select
		pre := false
		selIdx := -1
		for i, s := range loop.Body.List {
			if _, ok := s.(*ast.SelectStmt); ok && selIdx < 0 {
				selIdx = i
			}
		}
		for _, i := range ifs {
			if i.Pos() < loop.Pos() {
				pre = true
			}
			for k, s := range loop.Body.List {
				if s == ast.Stmt(i) && k < selIdx {
					pre = true
				}
			}
		}
		defBool(prefix+"_preCheck", pre)
	}
	// error guard: `if r.err != nil { errs = append(…) …}`
	eg := p.ifsWithBodyMentioning(f, "errs = append(errs")
	if len(eg) == 1 {
		defE(prefix+"_errGuard", p.expr(eg[0].Cond))
	} else {
		defE(prefix+"_errGuard", missing("error branch not found"))
	}
	// channel capacity in the issuing function
	g := p.findFunc(file, issueFn)
	capE := missing("make(chan response, …) not found in " + issueFn)
	if g != nil {
		ast.Inspect(g, func(n ast.Node) bool {
			if c, ok := n.(*ast.CallExpr); ok {
				if id, ok := c.Fun.(*ast.Ident); ok && id.Name == "make" && len(c.Args) == 2 && p.mentions(c.Args[0], "chan response") {
					capE = p.expr(c.Args[1])
				}
			}
			return true
		})
	}
	defE(prefix+"_chanCap", capE)
}

// perNodeFacts: the per-node targeting loop `for _, n := range c { … enqueue … }`.
//
//	<p>_skipCond     condition under which a node is skipped
//	<p>_skipDecr     is expectedReplies decremented for a skipped node
//	<p>_enqInLoop    enqueue is a plain statement of the range body (not under go / closure)
func perNodeFacts(prefix, file, fn, counter string) {
	p := loadDir("")
	f := p.findFunc(file, fn)
	if f == nil {
		defE(prefix+"_skipCond", missing("function not found"))
		defBool(prefix+"_skipDecr", false)
		defBool(prefix+"_enqPlain", false)
		return
	}
	var rng *ast.RangeStmt
	ast.Inspect(f, func(n ast.Node) bool {
		if r, ok := n.(*ast.RangeStmt); ok && rng == nil && p.mentions(r.Body, "enqueue(") {
			rng = r
		}
		return true
	})
	if rng == nil {
		defE(prefix+"_skipCond", missing("range loop not found"))
		defBool(prefix+"_skipDecr", false)
		defBool(prefix+"_enqPlain", false)
		return
	}
	skips := p.ifsWithBodyMentioning(rng, "continue")
	if len(skips) == 1 {
		defE(prefix+"_skipCond", p.expr(skips[0].Cond))
		defBool(prefix+"_skipDecr", counter != "" && p.mentions(skips[0].Body, counter+"--"))
	} else {
		defE(prefix+"_skipCond", missing("skip test not found"))
		defBool(prefix+"_skipDecr", false)
	}
	plain := false
	for _, s := range rng.Body.List {
		if es, ok := s.(*ast.ExprStmt); ok && p.mentions(es, "enqueue(") {
			plain = true
		}
	}
	defBool(prefix+"_enqPlain", plain)
}

func replyLoopFacts() {
	p := loadDir("")
	loopFacts("qc", "quorumcall.go", "RawConfiguration.QuorumCall", "RawConfiguration.QuorumCall")
	loopFacts("async", "async.go", "RawConfiguration.handleAsyncCall", "RawConfiguration.AsyncCall")
	perNodeFacts("qc", "quorumcall.go", "RawConfiguration.QuorumCall", "expectedReplies")
	perNodeFacts("async", "async.go", "RawConfiguration.AsyncCall", "expectedReplies")
	perNodeFacts("corr", "correctable.go", "RawConfiguration.CorrectableCall", "expectedReplies")
	perNodeFacts("mcast", "multicast.go", "RawConfiguration.Multicast", "")
	skel("skel_QuorumCall", p.normalise(p.findFunc("quorumcall.go", "RawConfiguration.QuorumCall")))
	skel("skel_AsyncCall", p.normalise(p.findFunc("async.go", "RawConfiguration.AsyncCall")))
	skel("skel_handleAsyncCall", p.normalise(p.findFunc("async.go", "RawConfiguration.handleAsyncCall")))
	skel("skel_AsyncGet", p.normalise(p.findFunc("async.go", "Async.Get")))
	skel("skel_AsyncDone", p.normalise(p.findFunc("async.go", "Async.Done")))
	skel("skel_RPCCall", p.normalise(p.findFunc("rpc.go", "RawNode.RPCCall")))
}

func errorsFacts() {
	p := loadDir("")
	f := p.findFunc("errors.go", "QuorumCallError.Is")
	if f == nil {
		defE("qce_is", missing("QuorumCallError.Is not found"))
	} else {
		defE("qce_is", p.iteOfBody(f.Body))
	}
	skel("skel_QCEError", p.normalise(p.findFunc("errors.go", "QuorumCallError.Error")))
	skel("skel_nodeErrorError", p.normalise(p.findFunc("errors.go", "nodeError.Error")))
	skel("skel_incompleteCause", p.normalise(p.findFunc("errors.go", "incompleteCause")))
}

// ------------------------------------------------------------------ sorters (C19)

func sortFacts() {
	p := loadDir("")
	for _, k := range []string{"ID", "Port", "LastNodeError"} {
		fl := p.findVarFunc("node.go", k)
		if fl == nil {
			defE("key_"+k, missing("var "+k+" not found"))
			continue
		}
		defE("key_"+k, p.iteOfBody(fl.Body))
	}
	// Port's local definitions: p1, _ := strconv.Atoi(n1.Port())
	if fl := p.findVarFunc("node.go", "Port"); fl != nil {
		defs := []string{}
		for _, s := range fl.Body.List {
			if as, ok := s.(*ast.AssignStmt); ok {
				defs = append(defs, strings.ReplaceAll(p.src(as), " ", ""))
			}
		}
		defStrList("key_Port_defs", defs)
	} else {
		defStrList("key_Port_defs", nil)
	}
	skel("skel_MultiSorterLess", p.normalise(p.findFunc("node.go", "MultiSorter.Less")))
	skel("skel_MultiSorterSort", p.normalise(p.findFunc("node.go", "MultiSorter.Sort")))
	skel("skel_MultiSorterSwap", p.normalise(p.findFunc("node.go", "MultiSorter.Swap")))
	skel("skel_MultiSorterLen", p.normalise(p.findFunc("node.go", "MultiSorter.Len")))
	skel("skel_OrderedBy", p.normalise(p.findFunc("node.go", "OrderedBy")))
	// Less: loop bound, the two switch guards and the final return
	f := p.findFunc("node.go", "MultiSorter.Less")
	bound, c1, c2, fin := missing("Less not found"), missing("Less not found"), missing("Less not found"), missing("Less not found")
	r1, r2 := missing("Less not found"), missing("Less not found")
	if f != nil {
		bound, c1, c2, fin = missing("for loop not found"), missing("switch not found"), missing("switch not found"), missing("final return not found")
		r1, r2 = c1, c2
		ast.Inspect(f, func(n ast.Node) bool {
			switch x := n.(type) {
			case *ast.ForStmt:
				if x.Cond != nil {
					bound = p.expr(x.Cond)
				}
			case *ast.SwitchStmt:
				if x.Tag == nil && len(x.Body.List) == 2 {
					cc1 := x.Body.List[0].(*ast.CaseClause)
					cc2 := x.Body.List[1].(*ast.CaseClause)
					if len(cc1.List) == 1 && len(cc2.List) == 1 {
						c1, c2 = p.expr(cc1.List[0]), p.expr(cc2.List[0])
						r1, r2 = p.iteOfStmts(cc1.Body), p.iteOfStmts(cc2.Body)
					}
				}
			}
			return true
		})
		if n := len(f.Body.List); n > 0 {
			if rs, ok := f.Body.List[n-1].(*ast.ReturnStmt); ok && len(rs.Results) == 1 {
				fin = p.expr(rs.Results[0])
			}
		}
	}
	defE("less_bound", bound)
	defE("less_case1", c1)
	defE("less_case1_ret", r1)
	defE("less_case2", c2)
	defE("less_case2_ret", r2)
	defE("less_final", fin)
}

// ------------------------------------------------------------------ correctable (C11)

func correctableFacts() {
	p := loadDir("")
	// initial level: composite literal &Correctable{…} in CorrectableCall
	f := p.findFunc("correctable.go", "RawConfiguration.CorrectableCall")
	initLevel := missing("&Correctable{…} not found")
	if f != nil {
		ast.Inspect(f, func(n ast.Node) bool {
			if cl, ok := n.(*ast.CompositeLit); ok && typeName(cl.Type) == "Correctable" {
				initLevel = "(.int 0)" // Go zero value when the field is absent
				for _, e := range cl.Elts {
					if kv, ok := e.(*ast.KeyValueExpr); ok && p.src(kv.Key) == "level" {
						initLevel = p.expr(kv.Value)
					}
				}
			}
			return true
		})
	}
	defE("corr_initLevel", initLevel)
	// constant LevelNotSet
	lvl := missing("LevelNotSet not found")
	if cf := p.files["correctable.go"]; cf != nil {
		for _, d := range cf.Decls {
			if gd, ok := d.(*ast.GenDecl); ok && gd.Tok == token.CONST {
				for _, s := range gd.Specs {
					vs := s.(*ast.ValueSpec)
					for i, n := range vs.Names {
						if n.Name == "LevelNotSet" && i < len(vs.Values) {
							lvl = p.expr(vs.Values[i])
						}
					}
				}
			}
		}
	}
	defE("corr_LevelNotSet", lvl)
	loopFacts("corr", "correctable.go", "RawConfiguration.handleCorrectableCall", "RawConfiguration.CorrectableCall")
	// Watch's comparison and set's watcher comparison
	w := p.findFunc("correctable.go", "Correctable.Watch")
	wc := missing("Watch comparison not found")
	if w != nil {
		ifs := p.ifsWithBodyMentioning(w, "close(")
		if len(ifs) == 1 {
			wc = p.expr(ifs[0].Cond)
		}
	}
	defE("corr_watchCmp", wc)
	s := p.findFunc("correctable.go", "Correctable.set")
	sc := missing("set's watcher comparison not found")
	if s != nil {
		ifs := p.ifsWithBodyMentioning(s, "] = nil")
		if len(ifs) == 1 {
			sc = p.expr(ifs[0].Cond)
		}
	}
	defE("corr_setCmp", sc)
	// atomicity: Watch's test and its registration, and the whole of set, run in one exclusive critical section of c.mu
	// (the model's Watch / set are single steps): c.mu.Lock() with a deferred c.mu.Unlock(), no other lock operation,
	// taken before the first use of the object's state
	oneSection := func(f *ast.FuncDecl) bool {
		if f == nil || f.Body == nil {
			return false
		}
		iLock := -1
		for k, st := range f.Body.List {
			if p.src(st) == "c.mu.Lock()" {
				iLock = k
				break
			}
		}
		if iLock < 0 || iLock+1 >= len(f.Body.List) || p.src(f.Body.List[iLock+1]) != "defer c.mu.Unlock()" {
			return false
		}
		whole := p.src(f.Body)
		if strings.Count(whole, "c.mu.") != 2 || strings.Contains(whole, "RLock") {
			return false
		}
		for _, st := range f.Body.List[:iLock] {
			for _, fld := range []string{"c.level", "c.done", "c.watchers", "c.reply", "c.err"} {
				if p.mentions(st, fld) {
					return false
				}
			}
		}
		return true
	}
	defBool("corr_watchAtomic", oneSection(w))
	defBool("corr_setAtomic", oneSection(s))
	// the publication structure of the loop: described by the normalised text of the reply case
	h := p.findFunc("correctable.go", "RawConfiguration.handleCorrectableCall")
	pub := "<absent>"
	if h != nil {
		ast.Inspect(h, func(n ast.Node) bool {
			if cc, ok := n.(*ast.CommClause); ok && cc.Comm != nil && p.mentions(cc.Comm, "replyChan") {
				var parts []string
				for _, st := range cc.Body {
					parts = append(parts, p.src(st))
				}
				pub = strings.Join(parts, " ; ")
			}
			return true
		})
	}
	defStr("corr_replyCase", pub)
	skel("skel_CorrectableGet", p.normalise(p.findFunc("correctable.go", "Correctable.Get")))
	skel("skel_CorrectableDone", p.normalise(p.findFunc("correctable.go", "Correctable.Done")))
	skel("skel_CorrectableWatch", p.normalise(p.findFunc("correctable.go", "Correctable.Watch")))
	skel("skel_CorrectableSet", p.normalise(p.findFunc("correctable.go", "Correctable.set")))
	skel("skel_CorrectableCall", p.normalise(p.findFunc("correctable.go", "RawConfiguration.CorrectableCall")))
	skel("skel_handleCorrectableCall", p.normalise(p.findFunc("correctable.go", "RawConfiguration.handleCorrectableCall")))
}

// ------------------------------------------------------------------ codec (C13)

func codecFacts() {
	p := loadDir("")
	f := p.findFunc("encoding.go", "Codec.gorumsUnmarshal")
	// is the descriptor assertion of the comma-ok form?
	var checked *bool
	if f != nil {
		ast.Inspect(f, func(n ast.Node) bool {
			switch x := n.(type) {
			case *ast.AssignStmt:
				for _, r := range x.Rhs {
					if ta, ok := r.(*ast.TypeAssertExpr); ok && p.mentions(ta.Type, "MethodDescriptor") {
						b := len(x.Lhs) == 2
						checked = &b
					}
				}
			}
			return true
		})
	}
	defOptBool("codec_assertChecked", checked)
	// direction switch: case requestType -> Input / responseType -> Output
	reqArm, respArm := "<absent>", "<absent>"
	if f != nil {
		ast.Inspect(f, func(n ast.Node) bool {
			if sw, ok := n.(*ast.SwitchStmt); ok && p.mentions(sw.Tag, "msgType") {
				for _, c := range sw.Body.List {
					cc := c.(*ast.CaseClause)
					if len(cc.List) == 1 && len(cc.Body) == 1 {
						switch p.src(cc.List[0]) {
						case "requestType":
							reqArm = p.src(cc.Body[0])
						case "responseType":
							respArm = p.src(cc.Body[0])
						}
					}
				}
			}
			return true
		})
	}
	defStr("codec_reqArm", reqArm)
	defStr("codec_respArm", respArm)
	skel("skel_gorumsMarshal", p.normalise(p.findFunc("encoding.go", "Codec.gorumsMarshal")))
	skel("skel_gorumsUnmarshal", p.normalise(p.findFunc("encoding.go", "Codec.gorumsUnmarshal")))
	skel("skel_CodecMarshal", p.normalise(p.findFunc("encoding.go", "Codec.Marshal")))
	skel("skel_CodecUnmarshal", p.normalise(p.findFunc("encoding.go", "Codec.Unmarshal")))
	skel("skel_NewCodec", p.normalise(p.findFunc("encoding.go", "NewCodec")))
	// the decoder keeps the fields it cannot interpret (they are part of the message: round trip)
	keeps := false
	if f := p.findFunc("encoding.go", "NewCodec"); f != nil {
		keeps = p.mentions(f.Body, "proto.UnmarshalOptions{") && !p.mentions(f.Body, "DiscardUnknown")
	}
	defBool("codec_keepsUnknown", keeps)
	skel("skel_newMessage", p.normalise(p.findFunc("encoding.go", "newMessage")))
	skel("skel_WrapMessage", p.normalise(p.findFunc("server.go", "WrapMessage")))
}

// ------------------------------------------------------------------ channel (C03, C05, C07–C10, C12, C18)

func channelFacts() {
	p := loadDir("")
	for _, fn := range []string{"newChannel", "channel.newNodeStream", "channel.cancelPendingMsgs", "channel.routeResponse",
		"channel.enqueue", "channel.deleteRouter", "channel.sendMsg", "channel.sender", "channel.receiver",
		"channel.connect", "channel.reconnect", "channel.isConnected", "channel.setLastErr", "channel.lastErr",
		"request.waitForSend", "atomicFlag.set", "atomicFlag.get", "atomicFlag.clear"} {
		name := fn
		if i := strings.Index(fn, "."); i >= 0 {
			name = fn[i+1:]
		}
		skel("skel_ch_"+name, p.normalise(p.findFunc("channel.go", fn)))
	}
	if f := p.findFunc("channel.go", "channel.isConnected"); f != nil {
		defE("ch_isConnected", p.iteOfBody(f.Body))
	} else {
		defE("ch_isConnected", missing("isConnected not found"))
	}
	if f := p.findFunc("channel.go", "request.waitForSend"); f != nil {
		defE("ch_waitForSend", p.iteOfBody(f.Body))
	} else {
		defE("ch_waitForSend", missing("waitForSend not found"))
	}
	// give-up test in reconnect
	giveup := missing("give-up test not found")
	if f := p.findFunc("channel.go", "channel.reconnect"); f != nil {
		ifs := p.ifsWithBodyMentioning(f, "streamBroken.set()")
		if len(ifs) == 1 {
			giveup = p.expr(ifs[0].Cond)
		}
	}
	defE("ch_giveUp", giveup)
	// sendQ capacity
	capE := missing("sendQ make not found")
	if f := p.findFunc("channel.go", "newChannel"); f != nil {
		ast.Inspect(f, func(n ast.Node) bool {
			if c, ok := n.(*ast.CallExpr); ok {
				if id, ok := c.Fun.(*ast.Ident); ok && id.Name == "make" && len(c.Args) == 2 && p.mentions(c.Args[0], "chan request") {
					capE = p.expr(c.Args[1])
				}
			}
			return true
		})
	}
	defE("ch_sendQCap", capE)
	// replacement of a stream: reconnect answers the requests written to the stream it replaces (under the write lock,
	// after the "already up" test and before the new stream is created); sendMsg marks a request as written before it
	// hands it to the stream; cancelPendingMsgs(true) skips the requests that are not marked
	// (ConnMgr: replaceStream in sRcDo / rRcDo; Chan: replaceCancel / cancelWritten)
	replaceCancels, markBeforeSend, skipsUnwritten := false, false, false
	if f := p.findFunc("channel.go", "channel.reconnect"); f != nil {
		if loop := firstFor(f); loop != nil {
			iLock, iUpTest, iCancel, iCreate, iUnlock := -1, -1, -1, -1, -1
			for k, st := range loop.Body.List {
				src := p.src(st)
				switch {
				case strings.HasPrefix(src, "c.streamMut.Lock()") && iLock < 0:
					iLock = k
				case strings.HasPrefix(src, "if !c.streamBroken.get()") && iUpTest < 0:
					iUpTest = k
				case src == "c.cancelPendingMsgs(true)" && iCancel < 0:
					iCancel = k
				case strings.Contains(src, "c.gorumsClient.NodeStream(") && iCreate < 0:
					iCreate = k
				case strings.HasPrefix(src, "c.streamMut.Unlock()") && iUnlock < 0:
					iUnlock = k
				}
			}
			replaceCancels = iLock >= 0 && iLock < iUpTest && iUpTest < iCancel && iCancel < iCreate && (iUnlock < 0 || iCreate < iUnlock)
		}
	}
	if f := p.findFunc("channel.go", "channel.sendMsg"); f != nil {
		iMark, iSend := -1, -1
		for k, st := range f.Body.List {
			src := p.src(st)
			if strings.HasPrefix(src, "c.markWritten(req.msg.Metadata.MessageID)") && iMark < 0 {
				iMark = k
			}
			if strings.Contains(src, "c.gorumsStream.SendMsg(") && iSend < 0 {
				iSend = k
			}
		}
		markBeforeSend = iMark >= 0 && iMark < iSend
		if g := p.findFunc("channel.go", "channel.markWritten"); g == nil || !p.mentions(g.Body, "router.written = true") || !p.mentions(g.Body, "c.responseMut.Lock()") {
			markBeforeSend = false
		}
	}
	if f := p.findFunc("channel.go", "channel.cancelPendingMsgs"); f != nil {
		for _, i := range p.ifsWithBodyMentioning(f, "continue") {
			c := p.src(i.Cond)
			if c == "writtenOnly && !router.written" && len(i.Body.List) == 1 {
				skipsUnwritten = true
			}
		}
	}
	// enqueue: the hand-off to the sender is one select with the channel's parent context, the caller's context and the send queue
	enqCtx := false
	if f := p.findFunc("channel.go", "channel.enqueue"); f != nil {
		ast.Inspect(f, func(n ast.Node) bool {
			if sel, ok := n.(*ast.SelectStmt); ok {
				hasParent, hasCtx, hasQ := false, false, false
				for _, cl := range sel.Body.List {
					cc := cl.(*ast.CommClause)
					if cc.Comm == nil {
						continue
					}
					c := p.src(cc.Comm)
					switch {
					case strings.Contains(c, "c.parentCtx.Done()"):
						hasParent = true
					case strings.Contains(c, "req.ctx.Done()"):
						hasCtx = p.mentions(cc, "return")
					case strings.Contains(c, "c.sendQ <- req"):
						hasQ = true
					}
				}
				if hasParent && hasCtx && hasQ {
					enqCtx = true
				}
			}
			return true
		})
	}
	defBool("ch_enqueueWaitsCtx", enqCtx)
	// reconnect assigns c.gorumsStream only when the new stream has been created (the receiver never finds a nil stream)
	keeps := false
	if f := p.findFunc("channel.go", "channel.reconnect"); f != nil {
		assigns := 0
		inOK := 0
		ast.Inspect(f, func(n ast.Node) bool {
			if as, ok := n.(*ast.AssignStmt); ok {
				for _, l := range as.Lhs {
					if p.src(l) == "c.gorumsStream" {
						assigns++
					}
				}
			}
			return true
		})
		for _, i := range p.ifsWithBodyMentioning(f, "c.gorumsStream = ") {
			if strings.Contains(p.src(i.Cond), "err == nil") {
				inOK++
			}
		}
		keeps = assigns == 1 && inOK == 1
	}
	defBool("ch_reconnectKeepsStream", keeps)
	defBool("ch_replaceCancels", replaceCancels)
	defBool("ch_markBeforeSend", markBeforeSend)
	defBool("ch_cancelSkipsUnwritten", skipsUnwritten)
	// routers: the deletion guard in routeResponse / cancelPendingMsgs
	for _, fn := range []string{"routeResponse", "cancelPendingMsgs"} {
		g := missing("delete guard not found")
		if f := p.findFunc("channel.go", "channel."+fn); f != nil {
			ifs := p.ifsWithBodyMentioning(f, "delete(c.responseRouters")
			if len(ifs) == 1 {
				g = p.expr(ifs[0].Cond)
			} else if len(ifs) == 0 && p.mentions(f.Body, "delete(c.responseRouters") {
				// the deletion is not under any condition
				g = "(.bool true)"
			}
		}
		defE("ch_"+fn+"_delGuard", g)
	}
}

// ------------------------------------------------------------------ configurations (C14)

func configFacts() {
	p := loadDir("")
	for _, fn := range []string{"nodeIDMap.newConfig", "nodeList.newConfig", "nodeIDs.newConfig", "addNodes.newConfig", "addConfig.newConfig",
		"RawConfiguration.And", "RawConfiguration.WithoutNodes", "RawConfiguration.Except", "RawConfiguration.WithNewNodes",
		"WithNodeMap", "WithNodeList", "WithNodeIDs"} {
		skel("skel_cfg_"+strings.ReplaceAll(fn, ".", "_"), p.normalise(p.findFunc("config_opts.go", fn)))
	}
	for _, fn := range []string{"NewRawConfiguration", "RawConfiguration.NodeIDs", "RawConfiguration.Nodes", "RawConfiguration.Size", "RawConfiguration.Equal", "RawConfiguration.getMsgID"} {
		skel("skel_cfg_"+strings.ReplaceAll(fn, ".", "_"), p.normalise(p.findFunc("config.go", fn)))
	}
	for _, fn := range []string{"RawManager.AddNode", "RawManager.Node", "RawManager.Nodes", "RawManager.NodeIDs", "RawManager.Size", "RawManager.getMsgID", "RawManager.Close", "RawManager.closeNodeConns"} {
		skel("skel_mgr_"+strings.ReplaceAll(fn, ".", "_"), p.normalise(p.findFunc("mgr.go", fn)))
	}
	for _, fn := range []string{"NewRawNode", "NewRawNodeWithID", "RawNode.connect", "RawNode.dial", "RawNode.newContext", "RawNode.close", "RawNode.ID", "RawNode.Address", "RawNode.Port", "RawNode.LastErr"} {
		skel("skel_node_"+strings.ReplaceAll(fn, ".", "_"), p.normalise(p.findFunc("node.go", fn)))
	}
	d := loadDir("cmd/protoc-gen-gorums/dev")
	skel("skel_dev_NewConfiguration", d.normalise(d.findFunc("mgr.go", "Manager.NewConfiguration")))
	skel("skel_dev_Nodes", d.normalise(d.findFunc("mgr.go", "Manager.Nodes")))
	skel("skel_dev_ConfigurationFromRaw", d.normalise(d.findFunc("config.go", "ConfigurationFromRaw")))
	skel("skel_dev_ConfigNodes", d.normalise(d.findFunc("config.go", "Configuration.Nodes")))
	skel("skel_dev_And", d.normalise(d.findFunc("config.go", "Configuration.And")))
	skel("skel_dev_Except", d.normalise(d.findFunc("config.go", "Configuration.Except")))
}

// ------------------------------------------------------------------ server (C03, C04, C10)

func serverFacts() {
	p := loadDir("")
	skel("skel_srv_NodeStream", p.normalise(p.findFunc("server.go", "orderingServer.NodeStream")))
	skel("skel_srv_Release", p.normalise(p.findFunc("server.go", "ServerCtx.Release")))
	skel("skel_srv_SendMessage", p.normalise(p.findFunc("server.go", "SendMessage")))
	skel("skel_srv_RegisterHandler", p.normalise(p.findFunc("server.go", "Server.RegisterHandler")))
	skel("skel_srv_NewServer", p.normalise(p.findFunc("server.go", "NewServer")))
	g := loadDir("cmd/protoc-gen-gorums/gengorums")
	for _, v := range []string{"registerInterface", "serverInterface"} {
		skel("skel_tmpl_"+v, tmplVar(g, "template_server.go", v))
	}
}

// tmplVar returns the (whitespace-normalised) string value of a template variable.
func tmplVar(p *pkgFiles, file, name string) string {
	f := p.files[file]
	if f == nil {
		return "<absent>"
	}
	for _, d := range f.Decls {
		gd, ok := d.(*ast.GenDecl)
		if !ok || gd.Tok != token.VAR {
			continue
		}
		for _, s := range gd.Specs {
			vs := s.(*ast.ValueSpec)
			for i, n := range vs.Names {
				if n.Name == name && i < len(vs.Values) {
					return p.src(vs.Values[i])
				}
			}
		}
	}
	return "<absent>"
}

// ------------------------------------------------------------------ one-way calls (C06, C08, C12)

func onewayFacts() {
	p := loadDir("")
	skel("skel_Multicast", p.normalise(p.findFunc("multicast.go", "RawConfiguration.Multicast")))
	skel("skel_Unicast", p.normalise(p.findFunc("unicast.go", "RawNode.Unicast")))
	skel("skel_getCallOptions", p.normalise(p.findFunc("callopts.go", "getCallOptions")))
	skel("skel_WithNoSendWaiting", p.normalise(p.findFunc("callopts.go", "WithNoSendWaiting")))
	// the wait loop of Multicast: `for ; sentMsgs > 0; sentMsgs-- { <-replyChan }`
	cond := missing("wait loop not found")
	if f := p.findFunc("multicast.go", "RawConfiguration.Multicast"); f != nil {
		ast.Inspect(f, func(n ast.Node) bool {
			if fs, ok := n.(*ast.ForStmt); ok && fs.Cond != nil && p.mentions(fs.Body, "replyChan") {
				cond = p.expr(fs.Cond)
			}
			return true
		})
	}
	defE("mcast_waitCond", cond)
	// the waits for send confirmations have a context case that ends the wait (ReplyLoop.waitLoop `waitsCtx`)
	waits := func(file, fn string) bool {
		f := p.findFunc(file, fn)
		if f == nil {
			return false
		}
		ok := false
		ast.Inspect(f, func(n ast.Node) bool {
			sel, isSel := n.(*ast.SelectStmt)
			if !isSel || !p.mentions(sel, "<-replyChan") {
				return true
			}
			for _, cl := range sel.Body.List {
				cc := cl.(*ast.CommClause)
				if cc.Comm != nil && p.mentions(cc.Comm, "ctx.Done()") {
					// leaves the wait: `return` (inside the loop of Multicast) or falls out of a select that is the last statement (Unicast)
					if p.mentions(cc, "return") || (len(cc.Body) == 0 && f.Body.List[len(f.Body.List)-1] == ast.Stmt(sel)) {
						ok = true
					}
				}
			}
			return true
		})
		return ok
	}
	defBool("mcast_waitsCtx", waits("multicast.go", "RawConfiguration.Multicast"))
	defBool("ucast_waitsCtx", waits("unicast.go", "RawNode.Unicast"))
}

// templateFacts: one digest per template file (all its declarations, comments dropped).
func templateFacts() {
	g := loadDir("cmd/protoc-gen-gorums/gengorums")
	for _, f := range []string{"template_quorumcall.go", "template_async.go", "template_correctable.go", "template_datatypes.go",
		"template_multicast.go", "template_unicast.go", "template_rpc.go", "template_qspec.go", "template_server.go"} {
		name := "skel_tmplfile_" + strings.TrimSuffix(strings.TrimPrefix(f, "template_"), ".go")
		af := g.files[f]
		if af == nil {
			skel(name, "<absent>")
			continue
		}
		var parts []string
		for _, d := range af.Decls {
			parts = append(parts, g.src(d))
		}
		skel(name, strings.Join(parts, "\n"))
	}
}

func mgrFacts() { templateFacts() }

func genFacts() {}

// ------------------------------------------------------------------ composite system (Net: C01, C05, C06)

// netFacts: what the composite model `Net` takes as given about ids and payloads.
//
//	net_idOnce_<fn>     the call function draws exactly one id, from getMsgID, outside every loop and closure
//	net_counterMgr      RawManager.getMsgID is one atomic increment of the manager's counter
//	net_counterCfg      RawConfiguration.getMsgID delegates to the manager
//	net_recvRouteKey    the receiver routes under the id found in the message it has just read
//	net_recvSameMsg     … and that message is the one handed to RecvMsg
//	net_nidAll          every response the channel builds names the channel's own node
//	net_wrapKeepsId     WrapMessage returns the metadata it was given and does not touch its MessageID
//	net_tmplWrapArgs    first arguments of every WrapMessage call in the server template
//	net_tmplMdDef       what `md` is in the stream handler of the template
func netFacts() {
	p := loadDir("")
	type cf struct{ file, fn, recv string }
	for _, c := range []cf{{"quorumcall.go", "RawConfiguration.QuorumCall", "c"}, {"async.go", "RawConfiguration.AsyncCall", "c"},
		{"correctable.go", "RawConfiguration.CorrectableCall", "c"}, {"multicast.go", "RawConfiguration.Multicast", "c"},
		{"rpc.go", "RawNode.RPCCall", "n.mgr"}, {"unicast.go", "RawNode.Unicast", "n.mgr"}} {
		name := c.fn[strings.Index(c.fn, ".")+1:]
		f := p.findFunc(c.file, c.fn)
		ok := false
		if f != nil {
			count, nested, recvOK := 0, false, true
			var walk func(n ast.Node, inner bool)
			walk = func(n ast.Node, inner bool) {
				ast.Inspect(n, func(m ast.Node) bool {
					if m == nil || m == n {
						return true
					}
					switch t := m.(type) {
					case *ast.ForStmt, *ast.RangeStmt, *ast.FuncLit, *ast.GoStmt:
						walk(t, true)
						return false
					case *ast.CallExpr:
						if sel, isSel := t.Fun.(*ast.SelectorExpr); isSel && sel.Sel.Name == "getMsgID" {
							count++
							if inner {
								nested = true
							}
							if p.src(sel.X) != c.recv {
								recvOK = false
							}
						}
					}
					return true
				})
			}
			walk(f.Body, false)
			// … and that id is the one in the metadata of every message the function hands to a node channel
			whole := p.src(f.Body)
			ok = count == 1 && !nested && recvOK &&
				strings.Contains(whole, "md := &ordering.Metadata{MessageID: "+c.recv+".getMsgID()") && strings.Contains(whole, "Metadata: md") &&
				strings.Count(whole, "&ordering.Metadata{") == 1
		}
		defBool("net_idOnce_"+name, ok)
	}
	body := func(file, fn string) string {
		f := p.findFunc(file, fn)
		if f == nil || f.Body == nil {
			return "<absent>"
		}
		var parts []string
		for _, st := range f.Body.List {
			parts = append(parts, p.src(st))
		}
		return strings.Join(parts, "; ")
	}
	defStr("net_counterMgr", body("mgr.go", "RawManager.getMsgID"))
	defStr("net_counterCfg", body("config.go", "RawConfiguration.getMsgID"))
	// the receiver
	routeKey, sameMsg := "<absent>", false
	if f := p.findFunc("channel.go", "channel.receiver"); f != nil {
		recvArg := ""
		ast.Inspect(f, func(n ast.Node) bool {
			c, ok := n.(*ast.CallExpr)
			if !ok {
				return true
			}
			if sel, isSel := c.Fun.(*ast.SelectorExpr); isSel {
				if sel.Sel.Name == "RecvMsg" && len(c.Args) == 1 {
					recvArg = p.src(c.Args[0])
				}
				if sel.Sel.Name == "routeResponse" && len(c.Args) == 2 && p.mentions(c.Args[1], "msg:") {
					routeKey = p.src(c.Args[0])
					sameMsg = recvArg != "" && strings.HasPrefix(routeKey, recvArg+".") && p.mentions(c.Args[1], "msg: "+recvArg+".Message")
				}
			}
			return true
		})
	}
	defStr("net_recvRouteKey", routeKey)
	defBool("net_recvSameMsg", sameMsg)
	// every response literal of channel.go that names a node names the channel's own
	nidAll, nLits := true, 0
	if f := p.files["channel.go"]; f != nil {
		ast.Inspect(f, func(n ast.Node) bool {
			cl, ok := n.(*ast.CompositeLit)
			if !ok || p.src(cl.Type) != "response" {
				return true
			}
			hasNid := false
			for _, e := range cl.Elts {
				if kv, ok := e.(*ast.KeyValueExpr); ok && p.src(kv.Key) == "nid" {
					hasNid = true
					nLits++
					if p.src(kv.Value) != "c.node.ID()" {
						nidAll = false
					}
				}
			}
			// a response that carries a message or an error must name its node (the empty one is the send confirmation)
			if !hasNid && len(cl.Elts) > 0 {
				nidAll = false
			}
			return true
		})
	}
	defBool("net_nidAll", nidAll && nLits > 0)
	// WrapMessage
	wrapOK := false
	if f := p.findFunc("server.go", "WrapMessage"); f != nil && f.Type.Params != nil && len(f.Type.Params.List) > 0 && len(f.Type.Params.List[0].Names) > 0 {
		md := f.Type.Params.List[0].Names[0].Name
		returnsMd, touches := false, false
		ast.Inspect(f.Body, func(n ast.Node) bool {
			switch t := n.(type) {
			case *ast.ReturnStmt:
				if len(t.Results) == 1 && p.mentions(t.Results[0], "Metadata: "+md) {
					returnsMd = true
				}
			case *ast.AssignStmt:
				for _, l := range t.Lhs {
					s := p.src(l)
					if s == md || s == md+".MessageID" || s == "*"+md {
						touches = true
					}
				}
			}
			return true
		})
		wrapOK = returnsMd && !touches
	}
	defBool("net_wrapKeepsId", wrapOK)
	// the server template
	g := loadDir("cmd/protoc-gen-gorums/gengorums")
	tm := tmplVar(g, "template_server.go", "registerInterface")
	var args []string
	const call = "{{$wrapMessage}}("
	for rest := tm; ; {
		i := strings.Index(rest, call)
		if i < 0 {
			break
		}
		rest = rest[i+len(call):]
		// first argument: up to the first top-level comma
		depth, j := 0, 0
		for j = 0; j < len(rest); j++ {
			ch := rest[j]
			if ch == '(' {
				depth++
			} else if ch == ')' {
				if depth == 0 {
					break
				}
				depth--
			} else if ch == ',' && depth == 0 {
				break
			}
		}
		args = append(args, strings.TrimSpace(rest[:j]))
	}
	defStrList("net_tmplWrapArgs", args)
	mdDef := "<absent>"
	if i := strings.Index(tm, "md := "); i >= 0 {
		r := tm[i+len("md := "):]
		// to the end of the statement: the template text is whitespace-normalised, the statement ends before " return"
		if j := strings.Index(r, " return"); j >= 0 {
			mdDef = strings.TrimSpace(r[:j])
		}
	}
	defStr("net_tmplMdDef", mdDef)
}

// ------------------------------------------------------------------ node connection (NodeConn: C12)

// nodeConnFacts: the four facts the model `NodeConn` takes as parameters.
//
//	node_dialLocked        dial starts with connMu.Lock(); defer connMu.Unlock() and never unlocks otherwise
//	node_dialChecksClosed  dial returns before DialContext when n.closed is set
//	node_dialClosesOld     dial closes a non-nil n.conn before DialContext
//	node_closeCloses       close takes connMu (deferred unlock), sets n.closed and closes n.conn, in that order, and
//	                       leaves early only after n.closed is set
func nodeConnFacts() {
	p := loadDir("")
	locked := func(f *ast.FuncDecl) (int, bool) { // index of the Lock statement; ok iff the next statement is the deferred Unlock and there is no other Unlock
		if f == nil {
			return -1, false
		}
		idx := -1
		for k, st := range f.Body.List {
			if p.src(st) == "n.connMu.Lock()" {
				idx = k
				break
			}
		}
		if idx < 0 || idx+1 >= len(f.Body.List) || p.src(f.Body.List[idx+1]) != "defer n.connMu.Unlock()" {
			return idx, false
		}
		return idx, strings.Count(p.src(f.Body), "connMu.Unlock()") == 1
	}
	dialLocked, checksClosed, closesOld := false, false, false
	if f := p.findFunc("node.go", "RawNode.dial"); f != nil {
		iLock, ok := locked(f)
		iDial, iChk, iOld := -1, -1, -1
		for k, st := range f.Body.List {
			src := p.src(st)
			if strings.Contains(src, "grpc.DialContext(") && iDial < 0 {
				iDial = k
			}
			if is, isIf := st.(*ast.IfStmt); isIf {
				if p.src(is.Cond) == "n.closed" && terminates(is.Body) && iChk < 0 {
					iChk = k
				}
				if p.src(is.Cond) == "n.conn != nil" && p.mentions(is.Body, "n.conn.Close()") && iOld < 0 {
					iOld = k
				}
			}
		}
		dialLocked = ok && iLock == 0 && iDial > iLock
		checksClosed = iChk > iLock && iLock >= 0 && iChk < iDial
		closesOld = iOld > iLock && iLock >= 0 && iOld < iDial
	}
	defBool("node_dialLocked", dialLocked)
	defBool("node_dialChecksClosed", checksClosed)
	defBool("node_dialClosesOld", closesOld)
	closeOK := false
	if f := p.findFunc("node.go", "RawNode.close"); f != nil {
		iLock, ok := locked(f)
		iSet, iClose, early := -1, -1, false
		for k, st := range f.Body.List {
			src := p.src(st)
			if src == "n.closed = true" && iSet < 0 {
				iSet = k
			}
			if strings.Contains(src, "n.conn.Close()") && iClose < 0 {
				iClose = k
			}
			// a return before closed is set, or a return between the flag and the Close other than for a nil connection
			if is, isIf := st.(*ast.IfStmt); isIf && terminates(is.Body) {
				if iSet < 0 || (iClose < 0 && p.src(is.Cond) != "n.conn == nil") {
					early = true
				}
			}
			if _, isRet := st.(*ast.ReturnStmt); isRet && iClose < 0 {
				early = true
			}
		}
		closeOK = ok && iLock >= 0 && iSet > iLock && iClose > iSet && !early
	}
	defBool("node_closeCloses", closeOK)
	// Manager.Close reaches every node: closeOnce.Do(… closeNodeConns …) and closeNodeConns calls close on every node of m.Nodes()
	mgrOK := false
	if f, g := p.findFunc("mgr.go", "RawManager.Close"), p.findFunc("mgr.go", "RawManager.closeNodeConns"); f != nil && g != nil {
		inOnce := strings.Contains(p.src(f.Body), "m.closeOnce.Do(") && p.mentions(f.Body, "m.closeNodeConns()")
		each := false
		ast.Inspect(g, func(n ast.Node) bool {
			if rs, ok := n.(*ast.RangeStmt); ok && p.src(rs.X) == "m.Nodes()" && p.mentions(rs.Body, ".close()") {
				// no statement of the loop body leaves the loop
				if !p.mentions(rs.Body, "break") && !p.mentions(rs.Body, "return") {
					each = true
				}
			}
			return true
		})
		mgrOK = inOnce && each
	}
	defBool("mgr_closeReachesEveryNode", mgrOK)
}

// ------------------------------------------------------------------ back-off forwarding (C10)

// backoffFacts: the manager's back-off configuration governs both layers that re-establish a connection — the
// channel's own reconnect loop (c.backoffCfg, set in newChannel from the manager's option) and gRPC's re-dialling of
// the ClientConn (grpc.WithConnectParams) — so a node that listens again is used again within the configured delays.
func backoffFacts() {
	p := loadDir("")
	fwd := false
	if f := p.findFunc("mgr.go", "NewRawManager"); f != nil {
		ast.Inspect(f, func(n ast.Node) bool {
			if as, ok := n.(*ast.AssignStmt); ok && len(as.Lhs) == 1 && p.src(as.Lhs[0]) == "m.opts.grpcDialOpts" {
				src := p.src(as.Rhs[0])
				if strings.Contains(src, "grpc.WithConnectParams(") && strings.Contains(src, "Backoff: m.opts.backoff") {
					fwd = true
				}
			}
			return true
		})
	}
	defBool("mgr_forwardsBackoff", fwd)
	// the dial options the manager adds on its own: every grpc.* option constructor called in NewRawManager, in order
	// (a service config with a retry policy, for one, would make gRPC replay one-way messages on a fresh stream)
	var dialOpts []string
	if f := p.findFunc("mgr.go", "NewRawManager"); f != nil {
		ast.Inspect(f, func(n ast.Node) bool {
			if c, ok := n.(*ast.CallExpr); ok {
				if sel, ok := c.Fun.(*ast.SelectorExpr); ok && p.src(sel.X) == "grpc" && strings.HasPrefix(sel.Sel.Name, "With") {
					dialOpts = append(dialOpts, "grpc."+sel.Sel.Name)
				}
			}
			return true
		})
	}
	defStrList("mgr_dialOpts", dialOpts)
	chanUses := false
	if f := p.findFunc("channel.go", "newChannel"); f != nil {
		chanUses = p.mentions(f, "backoffCfg: n.mgr.opts.backoff")
	}
	defBool("ch_usesMgrBackoff", chanUses)
}

// backoffArith: the statements of the back-off arithmetic in reconnect (model Backoff.lean), as source text
func backoffArith() {
	p := loadDir("")
	var stmts []string
	if f := p.findFunc("channel.go", "channel.reconnect"); f != nil {
		if loop := firstFor(f); loop != nil {
			on := false
			for _, st := range loop.Body.List {
				src := p.src(st)
				if strings.HasPrefix(src, "delay := ") {
					on = true
				}
				if on {
					stmts = append(stmts, src)
				}
			}
		}
	}
	defStrList("ch_backoffArith", stmts)
}
