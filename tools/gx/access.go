package main

// Access table for C15: for every selector on a tracked field of channel, RawManager,
// RawNode and Correctable in package gorums — (struct.field, function, read/write, the
// locks syntactically held at that point).  The lock set is computed intra-procedurally by
// a walk over the statements: X.Lock()/RLock() add, X.Unlock()/RUnlock() remove,
// `defer X.Unlock()` keeps the lock to the end of the function; a branch that ends in
// return / continue / break / panic does not leak its changes to the code after it; loop
// and branch bodies otherwise flow through.  Function literals start with the lock set of
// the point where they are written when they are called there or deferred, and with the
// empty set when they are started with `go` (they may outlive the region).

import (
	"fmt"
	"go/ast"
	"go/token"
	"sort"
	"strings"
)

// tracked struct -> field -> true
var tracked = map[string]map[string]bool{
	"channel": {"responseRouters": true, "lastError": true, "latency": true, "gorumsStream": true, "streamCtx": true, "cancelStream": true, "gorumsClient": true,
		// set once in newChannel, before the goroutines exist (rand: a *rand.Rand is not safe for concurrent use, so it must not be used at all afterwards)
		"rand": true, "backoffCfg": true, "parentCtx": true, "node": true, "sendQ": true},
	"RawManager":  {"nodes": true, "lookup": true},
	"RawNode":     {"conn": true, "closed": true},
	"Correctable": {"reply": true, "level": true, "err": true, "done": true, "watchers": true},
}

// receiverVars: conventional variable names of the tracked structs in the package
// (gx has no type checker: the names are checked against each function's receiver and
// parameters; selectors through other expressions, e.g. n.channel.x or c.node.mgr.x, are
// resolved by the suffix rules below).
func structOfExpr(e ast.Expr, env map[string]string) string {
	switch x := e.(type) {
	case *ast.Ident:
		return env[x.Name]
	case *ast.SelectorExpr:
		switch x.Sel.Name {
		case "channel":
			return "channel"
		case "mgr":
			return "RawManager"
		case "node":
			return "RawNode"
		case "RawManager":
			return "RawManager"
		}
	case *ast.ParenExpr:
		return structOfExpr(x.X, env)
	case *ast.StarExpr:
		return structOfExpr(x.X, env)
	}
	return ""
}

type accessRow struct {
	field string // Struct.field
	fn    string
	write bool
	locks string // sorted, comma separated: responseMut, streamMut:R, streamMut:W, mu:RawManager …
}

type lockSet map[string]bool

func (l lockSet) copy() lockSet {
	c := lockSet{}
	for k := range l {
		c[k] = true
	}
	return c
}

func (l lockSet) String() string {
	var s []string
	for k := range l {
		s = append(s, k)
	}
	sort.Strings(s)
	return strings.Join(s, ",")
}

type accessWalker struct {
	p        *pkgFiles
	fn       string
	env      map[string]string
	rows     *[]accessRow
	blocks   *[]blockRow
	inSelect bool
}

// blockRow: an operation that can block (or a call into the package, which may), with the locks held at that point.
type blockRow struct{ fn, op, locks string }

func (w *accessWalker) blocking(held lockSet, op string) {
	if w.blocks != nil {
		*w.blocks = append(*w.blocks, blockRow{w.fn, op, held.String()})
	}
}

// blockingCalls: methods whose call may block for an unbounded time
var blockingCalls = map[string]bool{"RecvMsg": true, "SendMsg": true, "NodeStream": true, "DialContext": true, "Sleep": true, "Wait": true}

// callsIn records the blocking calls and the calls to methods of the package's own structs inside an expression
func (w *accessWalker) callsIn(held lockSet, e ast.Node) {
	if w.blocks == nil || e == nil {
		return
	}
	ast.Inspect(e, func(n ast.Node) bool {
		switch c := n.(type) {
		case *ast.FuncLit:
			return false
		case *ast.UnaryExpr:
			if c.Op == token.ARROW {
				w.blocking(held, "recv("+w.p.src(c.X)+")")
			}
		case *ast.CallExpr:
			if sel, ok := c.Fun.(*ast.SelectorExpr); ok {
				if blockingCalls[sel.Sel.Name] {
					w.blocking(held, "call("+sel.Sel.Name+")")
				} else if owner := structOfExpr(sel.X, w.env); owner == "channel" || owner == "RawNode" || owner == "RawManager" || owner == "Correctable" {
					w.blocking(held, "method("+owner+"."+sel.Sel.Name+")")
				}
			}
		}
		return true
	})
}

// lockName renders the mutex expression: field name, qualified by the owning struct for `mu`.
func (w *accessWalker) lockName(e ast.Expr, mode string) string {
	if id, isIdent := e.(*ast.Ident); isIdent {
		return id.Name // a local mutex (the handler mutex of NodeStream)
	}
	sel, ok := e.(*ast.SelectorExpr)
	if !ok {
		return ""
	}
	name := sel.Sel.Name
	owner := structOfExpr(sel.X, w.env)
	if name == "mu" || name == "connMu" {
		name = name + ":" + owner
	}
	if name == "streamMut" {
		name += ":" + mode
	}
	return name
}

func terminates(b *ast.BlockStmt) bool {
	if b == nil || len(b.List) == 0 {
		return false
	}
	switch s := b.List[len(b.List)-1].(type) {
	case *ast.ReturnStmt:
		return true
	case *ast.BranchStmt:
		return s.Tok == token.CONTINUE || s.Tok == token.BREAK || s.Tok == token.GOTO
	case *ast.ExprStmt:
		if c, ok := s.X.(*ast.CallExpr); ok {
			if id, ok := c.Fun.(*ast.Ident); ok && id.Name == "panic" {
				return true
			}
		}
	}
	return false
}

func (w *accessWalker) block(b *ast.BlockStmt, held lockSet) lockSet {
	if b == nil {
		return held
	}
	for _, s := range b.List {
		held = w.stmt(s, held)
	}
	return held
}

func (w *accessWalker) stmt(s ast.Stmt, held lockSet) lockSet {
	switch x := s.(type) {
	case *ast.ExprStmt:
		if c, ok := x.X.(*ast.CallExpr); ok {
			if sel, ok := c.Fun.(*ast.SelectorExpr); ok {
				switch sel.Sel.Name {
				case "Lock":
					w.exprs(held, false, c.Args...)
					w.blocking(held, "lock("+w.lockName(sel.X, "W")+")")
					h := held.copy()
					h[w.lockName(sel.X, "W")] = true
					return h
				case "RLock":
					w.blocking(held, "lock("+w.lockName(sel.X, "R")+")")
					h := held.copy()
					h[w.lockName(sel.X, "R")] = true
					return h
				case "Unlock":
					h := held.copy()
					delete(h, w.lockName(sel.X, "W"))
					return h
				case "RUnlock":
					h := held.copy()
					delete(h, w.lockName(sel.X, "R"))
					return h
				}
			}
		}
		w.callsIn(held, x.X)
		w.exprs(held, false, x.X)
	case *ast.DeferStmt:
		if sel, ok := x.Call.Fun.(*ast.SelectorExpr); ok && (sel.Sel.Name == "Unlock" || sel.Sel.Name == "RUnlock") {
			return held // the lock stays held to the end of the function
		}
		if fl, ok := x.Call.Fun.(*ast.FuncLit); ok {
			w.block(fl.Body, held.copy())
			return held
		}
		w.exprs(held, false, x.Call)
	case *ast.GoStmt:
		if fl, ok := x.Call.Fun.(*ast.FuncLit); ok {
			sub := &accessWalker{p: w.p, fn: w.fn + ".go", env: w.env, rows: w.rows, blocks: w.blocks}
			sub.block(fl.Body, lockSet{})
			w.exprs(held, false, x.Call.Args...)
			return held
		}
		w.exprs(held, false, x.Call)
	case *ast.AssignStmt:
		for _, r := range x.Rhs {
			w.callsIn(held, r)
		}
		w.exprs(held, false, x.Rhs...)
		w.exprs(held, true, x.Lhs...)
	case *ast.IncDecStmt:
		w.exprs(held, true, x.X)
	case *ast.ReturnStmt:
		for _, r := range x.Results {
			w.callsIn(held, r)
		}
		w.exprs(held, false, x.Results...)
	case *ast.IfStmt:
		if x.Init != nil {
			held = w.stmt(x.Init, held)
		}
		w.callsIn(held, x.Cond)
		w.exprs(held, false, x.Cond)
		after := w.block(x.Body, held.copy())
		var afterElse lockSet = held
		elseTerm := false
		if x.Else != nil {
			switch e := x.Else.(type) {
			case *ast.BlockStmt:
				afterElse = w.block(e, held.copy())
				elseTerm = terminates(e)
			case *ast.IfStmt:
				afterElse = w.stmt(e, held.copy())
			}
		}
		switch {
		case terminates(x.Body) && !elseTerm:
			return afterElse
		case elseTerm && !terminates(x.Body):
			return after
		case terminates(x.Body) && elseTerm:
			return held
		}
		// both fall through: keep what both hold
		out := lockSet{}
		for k := range after {
			if afterElse[k] {
				out[k] = true
			}
		}
		return out
	case *ast.ForStmt:
		if x.Init != nil {
			held = w.stmt(x.Init, held)
		}
		if x.Cond != nil {
			w.exprs(held, false, x.Cond)
		}
		w.block(x.Body, held.copy())
		if x.Post != nil {
			w.stmt(x.Post, held)
		}
	case *ast.RangeStmt:
		w.exprs(held, false, x.X)
		w.block(x.Body, held.copy())
	case *ast.BlockStmt:
		return w.block(x, held)
	case *ast.SwitchStmt:
		if x.Init != nil {
			held = w.stmt(x.Init, held)
		}
		if x.Tag != nil {
			w.exprs(held, false, x.Tag)
		}
		for _, c := range x.Body.List {
			cc := c.(*ast.CaseClause)
			w.exprs(held, false, cc.List...)
			h := held.copy()
			for _, st := range cc.Body {
				h = w.stmt(st, h)
			}
		}
	case *ast.TypeSwitchStmt:
		for _, c := range x.Body.List {
			cc := c.(*ast.CaseClause)
			h := held.copy()
			for _, st := range cc.Body {
				h = w.stmt(st, h)
			}
		}
	case *ast.SelectStmt:
		{
			hasDefault := false
			var comms []string
			for _, c := range x.Body.List {
				cc := c.(*ast.CommClause)
				if cc.Comm == nil {
					hasDefault = true
				} else {
					comms = append(comms, w.p.src(cc.Comm))
				}
			}
			if !hasDefault {
				w.blocking(held, "select("+strings.Join(comms, " | ")+")")
			}
		}
		for _, c := range x.Body.List {
			cc := c.(*ast.CommClause)
			h := held.copy()
			if cc.Comm != nil {
				w.inSelect = true
				h = w.stmt(cc.Comm, h)
				w.inSelect = false
			}
			for _, st := range cc.Body {
				h = w.stmt(st, h)
			}
		}
	case *ast.SendStmt:
		if !w.inSelect {
			w.blocking(held, "send("+w.p.src(x.Chan)+")")
		}
		w.exprs(held, false, x.Chan, x.Value)
	case *ast.DeclStmt:
		if gd, ok := x.Decl.(*ast.GenDecl); ok {
			for _, sp := range gd.Specs {
				if vs, ok := sp.(*ast.ValueSpec); ok {
					w.exprs(held, false, vs.Values...)
				}
			}
		}
	case *ast.LabeledStmt:
		return w.stmt(x.Stmt, held)
	}
	return held
}

func (w *accessWalker) exprs(held lockSet, write bool, es ...ast.Expr) {
	for _, e := range es {
		w.expr(held, write, e)
	}
}

func (w *accessWalker) expr(held lockSet, write bool, e ast.Expr) {
	if e == nil {
		return
	}
	switch x := e.(type) {
	case *ast.SelectorExpr:
		owner := structOfExpr(x.X, w.env)
		if tracked[owner][x.Sel.Name] {
			*w.rows = append(*w.rows, accessRow{owner + "." + x.Sel.Name, w.fn, write, held.String()})
		}
		w.expr(held, false, x.X)
	case *ast.IndexExpr:
		w.expr(held, write, x.X) // m[k] = v writes the map
		w.expr(held, false, x.Index)
	case *ast.CallExpr:
		if id, ok := x.Fun.(*ast.Ident); ok && (id.Name == "delete" || id.Name == "append") && len(x.Args) > 0 {
			w.expr(held, id.Name == "delete", x.Args[0])
			w.exprs(held, false, x.Args[1:]...)
			return
		}
		if fl, ok := x.Fun.(*ast.FuncLit); ok {
			w.block(fl.Body, held.copy())
		} else {
			w.expr(held, false, x.Fun)
		}
		w.exprs(held, false, x.Args...)
	case *ast.FuncLit:
		// a closure passed around (e.g. to once.Do): assume it runs where it is written
		w.block(x.Body, held.copy())
	case *ast.UnaryExpr:
		w.expr(held, write || x.Op == token.AND, x.X)
	case *ast.BinaryExpr:
		w.expr(held, false, x.X)
		w.expr(held, false, x.Y)
	case *ast.ParenExpr:
		w.expr(held, write, x.X)
	case *ast.StarExpr:
		w.expr(held, write, x.X)
	case *ast.SliceExpr:
		w.expr(held, write, x.X)
	case *ast.TypeAssertExpr:
		w.expr(held, false, x.X)
	case *ast.KeyValueExpr:
		w.expr(held, false, x.Value)
	case *ast.CompositeLit:
		w.exprs(held, false, x.Elts...)
	}
}

func accessFacts() {
	p := loadDir("")
	var rows []accessRow
	var blocks []blockRow
	var files []string
	for f := range p.files {
		files = append(files, f)
	}
	sort.Strings(files)
	for _, fname := range files {
		if strings.HasSuffix(fname, ".pb.go") {
			continue
		}
		for _, d := range p.files[fname].Decls {
			fd, ok := d.(*ast.FuncDecl)
			if !ok || fd.Body == nil {
				continue
			}
			env := map[string]string{}
			name := fd.Name.Name
			if fd.Recv != nil && len(fd.Recv.List) > 0 {
				t := typeName(fd.Recv.List[0].Type)
				name = t + "." + name
				for _, n := range fd.Recv.List[0].Names {
					env[n.Name] = t
				}
			}
			for _, prm := range fd.Type.Params.List {
				t := typeName(prm.Type)
				for _, n := range prm.Names {
					env[n.Name] = t
				}
			}
			// locals introduced as `c := &channel{…}` / `m := &RawManager{…}` / `corr := &Correctable{…}`
			ast.Inspect(fd.Body, func(n ast.Node) bool {
				if as, ok := n.(*ast.AssignStmt); ok && as.Tok == token.DEFINE && len(as.Lhs) == 1 && len(as.Rhs) == 1 {
					if id, ok := as.Lhs[0].(*ast.Ident); ok {
						if u, ok := as.Rhs[0].(*ast.UnaryExpr); ok {
							if cl, ok := u.X.(*ast.CompositeLit); ok {
								env[id.Name] = typeName(cl.Type)
							}
						}
					}
				}
				return true
			})
			w := &accessWalker{p: p, fn: name, env: env, rows: &rows, blocks: &blocks}
			w.block(fd.Body, lockSet{})
		}
	}
	// de-duplicate, sort
	seen := map[string]bool{}
	var out []string
	for _, r := range rows {
		var ls []string
		for _, l := range strings.Split(r.locks, ",") {
			if l != "" {
				ls = append(ls, leanStr(l))
			}
		}
		dot := strings.Index(r.field, ".")
		k := fmt.Sprintf("⟨%s, %s, %s, %v, [%s]⟩", leanStr(r.field[:dot]), leanStr(r.field[dot+1:]), leanStr(r.fn), r.write, strings.Join(ls, ", "))
		if !seen[k] {
			seen[k] = true
			out = append(out, k)
		}
	}
	sort.Strings(out)
	o.exprs = append(o.exprs, "structure AccessRow where\n  owner : String\n  field : String\n  fn : String\n  write : Bool\n  locks : List String\n  deriving Repr, DecidableEq\n\n"+
		"def accessTable : List AccessRow := [\n  "+strings.Join(out, ",\n  ")+"]")
	// operations that can block, and calls into the package, made while a lock is held (C09, C12: what the LTS ConnMgr
	// has to account for; lock order)
	seenB := map[string]bool{}
	var outB []string
	for _, b := range blocks {
		kind, arg := b.op, ""
		if i := strings.Index(b.op, "("); i >= 0 && strings.HasSuffix(b.op, ")") {
			kind, arg = b.op[:i], b.op[i+1:len(b.op)-1]
		}
		bare := func(l string) string { // the mutex without the mode of an RWMutex
			if strings.HasPrefix(l, "streamMut:") {
				return "streamMut"
			}
			return l
		}
		var ls, ms []string
		for _, l := range strings.Split(b.locks, ",") {
			if l != "" {
				ls = append(ls, leanStr(bare(l)))
				ms = append(ms, leanStr(l))
			}
		}
		if kind == "lock" {
			arg = bare(arg)
		}
		k := fmt.Sprintf("⟨%s, %s, %s, [%s], [%s]⟩", leanStr(b.fn), leanStr(kind), leanStr(arg), strings.Join(ls, ", "), strings.Join(ms, ", "))
		if !seenB[k] {
			seenB[k] = true
			outB = append(outB, k)
		}
	}
	sort.Strings(outB)
	o.exprs = append(o.exprs, "structure BlockRow where\n  fn : String\n  kind : String\n  arg : String\n  locks : List String\n  modes : List String\n  deriving Repr, DecidableEq\n\n"+
		"def blockTable : List BlockRow := [\n  "+strings.Join(outB, ",\n  ")+"]")
	// atomic flags: every access to atomicFlag.flag goes through sync/atomic
	atomicOK := true
	if f := p.files["channel.go"]; f != nil {
		ast.Inspect(f, func(n ast.Node) bool {
			if sel, ok := n.(*ast.SelectorExpr); ok && sel.Sel.Name == "flag" {
				atomicOK = atomicOK && strings.Contains(p.src(sel.X), "f")
			}
			return true
		})
		for _, fn := range []string{"atomicFlag.set", "atomicFlag.get", "atomicFlag.clear"} {
			fd := p.findFunc("channel.go", fn)
			if fd == nil || !p.mentions(fd.Body, "atomic.") {
				atomicOK = false
			}
		}
	}
	defBool("atomicFlagOK", atomicOK)
}
