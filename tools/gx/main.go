// gx — the extractor of tier T1/T2 (DESIGN.md 2.2).
//
// It parses the Go sources of /repo's current working tree (go/parser only, no
// type checking, no dependency outside the standard library) and rewrites
//
//	<lean>/GorumsV/Generated/Exprs.lean   decision expressions as GoE terms, booleans, ints, strings
//	<lean>/GorumsV/Generated/Skel.lean    sha256 digests of normalised function bodies
//	<out>/skel/<name>.txt                 the normalised text behind every digest (for diffs)
//
// A decision point that cannot be located is emitted as `E.missing "<why>"`
// (or `none` for option-typed facts) so that the tie lemma fails rather than
// silently proving something about a guess.
package main

import (
	"bytes"
	"crypto/sha256"
	"encoding/hex"
	"flag"
	"fmt"
	"go/ast"
	"go/parser"
	"go/printer"
	"go/token"
	"os"
	"path/filepath"
	"reflect"
	"sort"
	"strings"
)

var (
	repo    = flag.String("repo", "/repo", "repository root")
	leanDir = flag.String("lean", "/verif/lean", "lake project root")
	outDir  = flag.String("out", "/verif/out", "scratch output (skeleton texts)")
)

type pkgFiles struct {
	fset  *token.FileSet
	files map[string]*ast.File // by base name
}

var cache = map[string]*pkgFiles{}

func loadDir(rel string) *pkgFiles {
	if p, ok := cache[rel]; ok {
		return p
	}
	p := &pkgFiles{fset: token.NewFileSet(), files: map[string]*ast.File{}}
	dir := filepath.Join(*repo, rel)
	ents, _ := os.ReadDir(dir)
	for _, e := range ents {
		if e.IsDir() || !strings.HasSuffix(e.Name(), ".go") || strings.HasSuffix(e.Name(), "_test.go") {
			continue
		}
		f, err := parser.ParseFile(p.fset, filepath.Join(dir, e.Name()), nil, 0)
		if err != nil {
			fmt.Fprintf(os.Stderr, "gx: parse %s: %v\n", e.Name(), err)
			continue
		}
		p.files[e.Name()] = f
	}
	cache[rel] = p
	return p
}

// findFunc locates a function or method by name ("Recv.Name" or "Name") in a file.
func (p *pkgFiles) findFunc(file, name string) *ast.FuncDecl {
	f := p.files[file]
	if f == nil {
		return nil
	}
	recv := ""
	if i := strings.Index(name, "."); i >= 0 {
		recv, name = name[:i], name[i+1:]
	}
	for _, d := range f.Decls {
		fd, ok := d.(*ast.FuncDecl)
		if !ok || fd.Name.Name != name {
			continue
		}
		r := ""
		if fd.Recv != nil && len(fd.Recv.List) > 0 {
			r = typeName(fd.Recv.List[0].Type)
		}
		if r == recv {
			return fd
		}
	}
	return nil
}

// findVarFunc locates `var Name = func(...) {...}` and returns the literal.
func (p *pkgFiles) findVarFunc(file, name string) *ast.FuncLit {
	f := p.files[file]
	if f == nil {
		return nil
	}
	for _, d := range f.Decls {
		gd, ok := d.(*ast.GenDecl)
		if !ok || gd.Tok != token.VAR {
			continue
		}
		for _, s := range gd.Specs {
			vs := s.(*ast.ValueSpec)
			for i, n := range vs.Names {
				if n.Name == name && i < len(vs.Values) {
					if fl, ok := vs.Values[i].(*ast.FuncLit); ok {
						return fl
					}
				}
			}
		}
	}
	return nil
}

func typeName(e ast.Expr) string {
	switch t := e.(type) {
	case *ast.StarExpr:
		return typeName(t.X)
	case *ast.Ident:
		return t.Name
	}
	return ""
}

func (p *pkgFiles) src(n ast.Node) string {
	var b bytes.Buffer
	printer.Fprint(&b, p.fset, n)
	return strings.Join(strings.Fields(b.String()), " ")
}

// ---------------------------------------------------------------- GoE translation

func leanStr(s string) string {
	s = strings.ReplaceAll(s, `\`, `\\`)
	s = strings.ReplaceAll(s, `"`, `\"`)
	s = strings.ReplaceAll(s, "\n", `\n`)
	s = strings.ReplaceAll(s, "\t", `\t`)
	return `"` + s + `"`
}

func missing(why string) string { return "(.missing " + leanStr(why) + ")" }

func (p *pkgFiles) expr(e ast.Expr) string {
	switch x := e.(type) {
	case *ast.ParenExpr:
		return p.expr(x.X)
	case *ast.BasicLit:
		if x.Kind == token.INT {
			return "(.int " + x.Value + ")"
		}
	case *ast.Ident:
		switch x.Name {
		case "true":
			return "(.bool true)"
		case "false":
			return "(.bool false)"
		case "nil":
			return ".nil"
		}
	case *ast.UnaryExpr:
		if x.Op == token.NOT {
			return "(.not " + p.expr(x.X) + ")"
		}
		if x.Op == token.SUB {
			if bl, ok := x.X.(*ast.BasicLit); ok && bl.Kind == token.INT {
				return "(.int (-" + bl.Value + "))"
			}
		}
	case *ast.BinaryExpr:
		ops := map[token.Token]string{
			token.LAND: "and", token.LOR: "or", token.EQL: "eq", token.NEQ: "ne",
			token.LSS: "lt", token.LEQ: "le", token.GTR: "gt", token.GEQ: "ge",
			token.ADD: "add", token.SUB: "sub",
		}
		if op, ok := ops[x.Op]; ok {
			return "(." + op + " " + p.expr(x.X) + " " + p.expr(x.Y) + ")"
		}
	}
	return "(.atom " + leanStr(strings.ReplaceAll(p.src(e), " ", "")) + ")"
}

// iteOfBody normalises a body of the shape
//
//	if c1 { return a1 }  [if c2 { return a2 } …]  return b
//
// (each if possibly with an `x, ok := y.(T); ok` initialiser) into nested ite.
func (p *pkgFiles) iteOfBody(b *ast.BlockStmt) string {
	if b == nil {
		return missing("no body")
	}
	return p.iteOfStmts(b.List)
}

func (p *pkgFiles) iteOfStmts(l []ast.Stmt) string {
	if len(l) == 0 {
		return missing("falls off the end")
	}
	switch s := l[0].(type) {
	case *ast.ReturnStmt:
		if len(s.Results) == 1 {
			return p.expr(s.Results[0])
		}
		return missing("return arity")
	case *ast.IfStmt:
		cond := ""
		if s.Init != nil {
			as, ok := s.Init.(*ast.AssignStmt)
			if ok && len(as.Lhs) == 2 && len(as.Rhs) == 1 {
				if ta, ok := as.Rhs[0].(*ast.TypeAssertExpr); ok {
					if id, ok := s.Cond.(*ast.Ident); ok && id.Name == p.src(as.Lhs[1]) {
						cond = "(.atom " + leanStr("istype("+p.src(ta.X)+","+p.src(ta.Type)+")") + ")"
					}
				}
			}
			if cond == "" {
				return missing("if-init not understood: " + p.src(s.Init))
			}
		} else {
			cond = p.expr(s.Cond)
		}
		thenE := p.iteOfStmts(s.Body.List)
		var elseE string
		if s.Else != nil {
			if eb, ok := s.Else.(*ast.BlockStmt); ok {
				elseE = p.iteOfStmts(eb.List)
			} else if ei, ok := s.Else.(*ast.IfStmt); ok {
				elseE = p.iteOfStmts([]ast.Stmt{ei})
			}
		} else {
			elseE = p.iteOfStmts(l[1:])
		}
		return "(.ite " + cond + " " + thenE + " " + elseE + ")"
	case *ast.AssignStmt, *ast.DeclStmt:
		// local definitions `p1, _ := f(x)`: keep as substitution-free atoms; skip the statement
		return p.iteOfStmts(l[1:])
	}
	return missing("statement not understood: " + p.src(l[0]))
}

// ---------------------------------------------------------------- AST queries

// mentions reports whether the printed node contains the substring.
func (p *pkgFiles) mentions(n ast.Node, sub string) bool {
	return n != nil && strings.Contains(p.src(n), sub)
}

// ifsReturning returns the if-statements in fn (any depth, in source order)
// whose body mentions `sub`, and whose condition is not the enclosing one.
func (p *pkgFiles) ifsWithBodyMentioning(root ast.Node, sub string) []*ast.IfStmt {
	var out []*ast.IfStmt
	ast.Inspect(root, func(n ast.Node) bool {
		if is, ok := n.(*ast.IfStmt); ok && p.mentions(is.Body, sub) {
			// innermost only: skip if a nested if also mentions it
			inner := false
			for _, s := range is.Body.List {
				ast.Inspect(s, func(m ast.Node) bool {
					if js, ok := m.(*ast.IfStmt); ok && p.mentions(js.Body, sub) {
						inner = true
					}
					return true
				})
			}
			if !inner {
				out = append(out, is)
			}
		}
		return true
	})
	return out
}

func firstFor(fn ast.Node) *ast.ForStmt {
	var out *ast.ForStmt
	ast.Inspect(fn, func(n ast.Node) bool {
		if out != nil {
			return false
		}
		if f, ok := n.(*ast.ForStmt); ok && f.Cond == nil && f.Init == nil {
			// the endless `for { select … }` loop
			hasSelect := false
			for _, s := range f.Body.List {
				if _, ok := s.(*ast.SelectStmt); ok {
					hasSelect = true
				}
			}
			if hasSelect {
				out = f
				return false
			}
		}
		return true
	})
	return out
}

// ---------------------------------------------------------------- normalised skeletons

// normalise prints a node with comments dropped, locals alpha-renamed by first
// occurrence, and logging statements removed.
func (p *pkgFiles) normalise(n ast.Node) string {
	if n == nil || reflect.ValueOf(n).IsNil() {
		return "<absent>"
	}
	var b bytes.Buffer
	printer.Fprint(&b, p.fset, n)
	// re-parse the printed text as a declaration or expression so that we can rename freely
	src := "package x\n"
	switch n.(type) {
	case *ast.FuncDecl:
		src += b.String()
	case *ast.FuncLit:
		src += "var _ = " + b.String()
	default:
		src += "var _ = " + b.String()
	}
	fs := token.NewFileSet()
	f, err := parser.ParseFile(fs, "x.go", src, 0)
	if err != nil {
		return strings.Join(strings.Fields(b.String()), " ")
	}
	names := map[*ast.Object]string{}
	ast.Inspect(f, func(m ast.Node) bool {
		if id, ok := m.(*ast.Ident); ok && id.Obj != nil && (id.Obj.Kind == ast.Var || id.Obj.Kind == ast.Con) && id.Name != "_" {
			if _, isField := id.Obj.Decl.(*ast.Field); isField || id.Obj.Decl != nil {
				if _, seen := names[id.Obj]; !seen {
					names[id.Obj] = fmt.Sprintf("v%d", len(names))
				}
				id.Name = names[id.Obj]
			}
		}
		return true
	})
	// drop logging statements
	ast.Inspect(f, func(m ast.Node) bool {
		if bl, ok := m.(*ast.BlockStmt); ok {
			var keep []ast.Stmt
			for _, s := range bl.List {
				if isLogStmt(s) {
					continue
				}
				keep = append(keep, s)
			}
			bl.List = keep
		}
		return true
	})
	var o bytes.Buffer
	printer.Fprint(&o, fs, f)
	return strings.Join(strings.Fields(strings.TrimPrefix(o.String(), "package x")), " ")
}

func isLogStmt(s ast.Stmt) bool {
	switch x := s.(type) {
	case *ast.ExprStmt:
		if c, ok := x.X.(*ast.CallExpr); ok {
			var b bytes.Buffer
			printer.Fprint(&b, token.NewFileSet(), c.Fun)
			t := b.String()
			return strings.HasSuffix(t, "logger.Printf") || strings.HasSuffix(t, "logger.Println") || strings.HasPrefix(t, "log.Print")
		}
	case *ast.IfStmt:
		// `if m.logger != nil { m.logger.Printf(…) }`
		if x.Else == nil && x.Init == nil && len(x.Body.List) > 0 {
			for _, t := range x.Body.List {
				if !isLogStmt(t) {
					return false
				}
			}
			return true
		}
	}
	return false
}

// ---------------------------------------------------------------- output

type out struct {
	exprs   []string // lean definitions, in order
	skels   []string
	skelTxt map[string]string
}

var o = &out{skelTxt: map[string]string{}}

func defE(name, term string) { o.exprs = append(o.exprs, fmt.Sprintf("def %s : E := %s", name, term)) }
func defBool(name string, b bool) {
	o.exprs = append(o.exprs, fmt.Sprintf("def %s : Bool := %v", name, b))
}
func defOptBool(name string, b *bool) {
	v := "none"
	if b != nil {
		v = fmt.Sprintf("some %v", *b)
	}
	o.exprs = append(o.exprs, fmt.Sprintf("def %s : Option Bool := %s", name, v))
}
func defStr(name, s string) {
	o.exprs = append(o.exprs, fmt.Sprintf("def %s : String := %s", name, leanStr(s)))
}
func defInt(name string, n int) {
	o.exprs = append(o.exprs, fmt.Sprintf("def %s : Int := %d", name, n))
}
func defStrList(name string, l []string) {
	q := make([]string, len(l))
	for i, s := range l {
		q[i] = leanStr(s)
	}
	o.exprs = append(o.exprs, fmt.Sprintf("def %s : List String := [%s]", name, strings.Join(q, ", ")))
}

func skel(name string, text string) {
	h := sha256.Sum256([]byte(text))
	o.skels = append(o.skels, fmt.Sprintf("def %s : String := %s", name, leanStr(hex.EncodeToString(h[:8]))))
	o.skelTxt[name] = text
}

func writeAll() {
	gen := filepath.Join(*leanDir, "GorumsV", "Generated")
	os.MkdirAll(gen, 0o755)
	var b strings.Builder
	b.WriteString("-- GENERATED by /verif/tools/gx from /repo's working tree on every run. Do not edit.\n")
	b.WriteString("import GorumsV.Model.GoE\nnamespace GorumsV.Generated\nopen GorumsV.GoE\n\n")
	for _, d := range o.exprs {
		b.WriteString(d + "\n\n")
	}
	b.WriteString("end GorumsV.Generated\n")
	must(os.WriteFile(filepath.Join(gen, "Exprs.lean"), []byte(b.String()), 0o644))

	b.Reset()
	b.WriteString("-- GENERATED by /verif/tools/gx from /repo's working tree on every run. Do not edit.\n")
	b.WriteString("namespace GorumsV.Generated\n\n")
	for _, d := range o.skels {
		b.WriteString(d + "\n")
	}
	b.WriteString("\nend GorumsV.Generated\n")
	must(os.WriteFile(filepath.Join(gen, "Skel.lean"), []byte(b.String()), 0o644))

	sk := filepath.Join(*outDir, "skel")
	os.RemoveAll(sk)
	os.MkdirAll(sk, 0o755)
	names := make([]string, 0, len(o.skelTxt))
	for n := range o.skelTxt {
		names = append(names, n)
	}
	sort.Strings(names)
	for _, n := range names {
		must(os.WriteFile(filepath.Join(sk, n+".txt"), []byte(o.skelTxt[n]+"\n"), 0o644))
	}
}

func must(err error) {
	if err != nil {
		fmt.Fprintln(os.Stderr, "gx:", err)
		os.Exit(2)
	}
}

func main() {
	flag.Parse()
	extractAll()
	writeAll()
}

// safely runs one group of extractors: a construct gx does not understand must never stop
// the run — whatever was not emitted is then missing from Generated/*.lean and the
// obligations that need it fail.
func safely(name string, f func()) {
	defer func() {
		if r := recover(); r != nil {
			fmt.Fprintf(os.Stderr, "gx: extractor %s panicked: %v\n", name, r)
		}
	}()
	f()
}
