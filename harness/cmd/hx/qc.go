package main

// Engine qc — exact correspondence of the quorum-call reply loops (sync and
// async, all zorums variants) with the Lean model `ReplyLoop.run`, by gating
// the arrival order of replies and errors one at a time.  Serves C01, C02, C06
// (per-node payloads) and the loop-level half of C07.

import (
	"fmt"
	"math/rand"
	"sort"
	"strconv"
	"strings"
	"sync"
	"time"

	"verifhx/puppet"

	"github.com/relab/gorums/cmd/protoc-gen-gorums/dev"
	"google.golang.org/grpc/codes"
)

func init() { engines["qc"] = qcMain }

var qcSync = []string{"QuorumCall", "QuorumCallPerNodeArg", "QuorumCallCustomReturnType", "QuorumCallCombo", "QuorumCallEmpty", "QuorumCallEmpty2"}
var qcAsync = []string{"QuorumCallAsync", "QuorumCallAsyncPerNodeArg", "QuorumCallAsyncCustomReturnType", "QuorumCallAsyncCombo", "QuorumCallAsync2", "QuorumCallAsyncEmpty", "QuorumCallAsyncEmpty2"}

type arrival struct {
	kind byte // 'r', 'e', 'c'
	nid  uint32
	val  int64 // reply value or status code
}

type qcCase struct {
	id     int
	method string
	cfg    []uint32
	skip   map[uint32]bool
	empty  map[uint32]bool // per-node function returns a valid but empty message for these nodes
	burst  bool            // all answers are released at once (arrival order decided by the scheduler)
	qfKind string
	k      int64
	arr    []arrival
}

func (c *qcCase) expected() int { return len(c.cfg) - len(c.skip) }

func (c *qcCase) line() string {
	var as []string
	for _, a := range c.arr {
		switch a.kind {
		case 'r':
			as = append(as, fmt.Sprintf("r%d:%d", a.nid, a.val))
		case 'e', 'x':
			as = append(as, fmt.Sprintf("%c%d:%d", a.kind, a.nid, a.val))
		default:
			as = append(as, "c")
		}
	}
	ids := func(l []uint32) string {
		s := make([]string, len(l))
		for i, x := range l {
			s[i] = strconv.Itoa(int(x))
		}
		return strings.Join(s, ".")
	}
	var sk []uint32
	for _, n := range c.cfg {
		if c.skip[n] {
			sk = append(sk, n)
		}
	}
	arr := strings.Join(as, ",")
	if arr == "" {
		arr = "-"
	}
	skip := ids(sk)
	if skip == "" {
		skip = "-"
	}
	var em []uint32
	for _, n := range c.cfg {
		if c.empty[n] {
			em = append(em, n)
		}
	}
	empty := ids(em)
	if empty == "" {
		empty = "-"
	}
	b := 0
	if c.burst {
		b = 1
	}
	return fmt.Sprintf("qc id=%d m=%s x=%d qf=%s:%d arr=%s cfg=%s skip=%s empty=%s burst=%d", c.id, c.method, c.expected(), c.qfKind, c.k, arr, ids(c.cfg), skip, empty, b)
}

func parseQC(line string) (*qcCase, error) {
	c := &qcCase{skip: map[uint32]bool{}, empty: map[uint32]bool{}}
	for _, f := range strings.Fields(line)[1:] {
		kv := strings.SplitN(f, "=", 2)
		if len(kv) != 2 {
			return nil, fmt.Errorf("bad field %q", f)
		}
		switch kv[0] {
		case "id":
			c.id, _ = strconv.Atoi(kv[1])
		case "m":
			c.method = kv[1]
		case "qf":
			p := strings.SplitN(kv[1], ":", 2)
			c.qfKind = p[0]
			c.k, _ = strconv.ParseInt(p[1], 10, 64)
		case "burst":
			c.burst = kv[1] == "1"
		case "cfg", "skip", "empty":
			if kv[1] == "-" {
				continue
			}
			for _, x := range strings.Split(kv[1], ".") {
				v, _ := strconv.Atoi(x)
				switch kv[0] {
				case "cfg":
					c.cfg = append(c.cfg, uint32(v))
				case "skip":
					c.skip[uint32(v)] = true
				default:
					c.empty[uint32(v)] = true
				}
			}
		case "arr":
			if kv[1] == "-" {
				continue
			}
			for _, x := range strings.Split(kv[1], ",") {
				if x == "c" {
					c.arr = append(c.arr, arrival{kind: 'c'})
					continue
				}
				p := strings.SplitN(x[1:], ":", 2)
				n, _ := strconv.Atoi(p[0])
				v, _ := strconv.ParseInt(p[1], 10, 64)
				c.arr = append(c.arr, arrival{kind: x[0], nid: uint32(n), val: v})
			}
		}
	}
	return c, nil
}

// qfEval is the table-driven quorum function shared (by construction) with the
// Lean driver: thr:k / maj:k / sum:k over the reply values.
func qfEval(kind string, k int64, vals []int64) (int64, bool) {
	switch kind {
	case "thr":
		var mx int64
		for _, v := range vals {
			if v > mx {
				mx = v
			}
		}
		return mx, int64(len(vals)) >= k
	case "maj":
		cnt := map[int64]int64{}
		for _, v := range vals {
			cnt[v]++
		}
		best, found := int64(-1), false
		for v, c := range cnt {
			if c >= k && (!found || v < best) {
				best, found = v, true
			}
		}
		return best, found
	case "sum":
		var s int64
		for _, v := range vals {
			s += v
		}
		return s, s >= k
	}
	return 0, false
}

func genQC(r *rand.Rand, id, maxN int, thorough bool) *qcCase {
	c := &qcCase{id: id, skip: map[uint32]bool{}, empty: map[uint32]bool{}}
	all := append(append([]string{}, qcSync...), qcAsync...)
	c.method = all[r.Intn(len(all))]
	info := puppet.Info[c.method]
	n := 1 + r.Intn(maxN)
	perm := r.Perm(maxN)
	for _, i := range perm[:n] {
		c.cfg = append(c.cfg, uint32(i+1))
	}
	sort.Slice(c.cfg, func(i, j int) bool { return c.cfg[i] < c.cfg[j] })
	if info.PerNode {
		switch r.Intn(6) {
		case 0: // skip all
			for _, x := range c.cfg {
				c.skip[x] = true
			}
		case 1, 2:
			for _, x := range c.cfg {
				if r.Intn(3) == 0 {
					c.skip[x] = true
				}
			}
		}
	}
	if info.PerNode && r.Intn(3) == 0 {
		for _, x := range c.cfg {
			if !c.skip[x] && r.Intn(3) == 0 {
				c.empty[x] = true
			}
		}
	}
	x := c.expected()
	c.qfKind = []string{"thr", "thr", "maj", "sum"}[r.Intn(4)]
	switch c.qfKind {
	case "thr":
		c.k = int64(r.Intn(x + 2))
		if r.Intn(4) == 0 {
			c.k = int64(x/2 + 1)
		}
	case "maj":
		c.k = int64(1 + r.Intn(x+1))
	case "sum":
		c.k = int64(r.Intn(3*x + 2))
	}
	// per node: reply / error / silent
	var live []uint32
	for _, nid := range c.cfg {
		if !c.skip[nid] {
			live = append(live, nid)
		}
	}
	r.Shuffle(len(live), func(i, j int) { live[i], live[j] = live[j], live[i] })
	pErr := []float64{0, 0.15, 0.4, 0.8}[r.Intn(4)]
	pSilent := []float64{0, 0, 0.15, 0.4}[r.Intn(4)]
	for _, nid := range live {
		f := r.Float64()
		switch {
		case f < pSilent:
		case f < pSilent+pErr:
			c.arr = append(c.arr, arrival{kind: 'e', nid: nid, val: int64(1 + r.Intn(16))})
		default:
			v := int64(r.Intn(4))
			if info.EmptyOut {
				v = 0
			}
			c.arr = append(c.arr, arrival{kind: 'r', nid: nid, val: v})
		}
	}
	// context end: nowhere, at the start, or right after a reply arrival (so that its
	// position relative to consumed arrivals is observable, see DESIGN 5/C02)
	if r.Intn(10) == 0 && !info.EmptyIn {
		for i := range c.arr {
			if c.arr[i].kind == 'e' {
				c.arr[i] = arrival{kind: 'x', nid: c.arr[i].nid}
				return c // no cancel, no burst in crash cases
			}
		}
	}
	if r.Intn(5) == 0 {
		// burst: no context end; threshold quorum function (its verdict does not depend on the order)
		c.burst = true
		c.qfKind = "thr"
		c.k = int64(r.Intn(x + 2))
		return c
	}
	if r.Intn(3) == 0 && !info.EmptyIn && len(c.empty) == 0 {
		pos := []int{0}
		for i, a := range c.arr {
			if a.kind == 'r' {
				pos = append(pos, i+1)
			}
		}
		p := pos[r.Intn(len(pos))]
		c.arr = append(c.arr[:p], append([]arrival{{kind: 'c'}}, c.arr[p:]...)...)
	}
	return c
}

func qcMain(args []string) {
	maxN := 5
	cf := commonFlags("qc", args, nil)
	start := time.Now()
	sum := newSum("qc", cf.seed, "cases = (variant, configuration, skipped nodes, per-node reply/error/silence, arrival order, cancel position, quorum function); "+
		"distinct non-trivial = distinct (sync/async, per-node?, custom?, expected nodes, outcome class, #errors, #silent>0, cancel?, qf kind) tuples with at least one error, silence, skip or cancel")
	var cases []*qcCase
	if cf.replay != "" {
		for _, l := range readLines(cf.replay) {
			if !strings.HasPrefix(l, "qc ") {
				continue
			}
			c, err := parseQC(l)
			if err != nil {
				fatal(err)
			}
			cases = append(cases, c)
		}
	} else {
		r := rng(cf.seed, "qc")
		// fixed corner cases first
		id := 0
		for _, l := range qcCorpus {
			c, _ := parseQC(l)
			c.id = id
			id++
			cases = append(cases, c)
		}
		for len(cases) < cf.count {
			cases = append(cases, genQC(r, id, maxN, cf.tier == "thorough"))
			id++
		}
	}
	lines := make([]string, len(cases))
	for i, c := range cases {
		lines[i] = c.line()
	}
	exp, err := askDriver(cf.driver, "qc", lines)
	if err != nil {
		fatal(err)
	}
	// run
	shards := cf.shards
	if shards > len(cases) {
		shards = len(cases)
	}
	if shards < 1 {
		shards = 1
	}
	var wg sync.WaitGroup
	ch := make(chan *qcCase)
	for s := 0; s < shards; s++ {
		wg.Add(1)
		go func() {
			defer wg.Done()
			sh, err := newShard(maxN)
			if err != nil {
				fatal(err)
			}
			defer sh.close()
			for c := range ch {
				if sum.tooMany() {
					sum.count("skipped-after-many-mismatches")
					continue
				}
				if sh.dead {
					nsh, err := sh.renew()
					if err != nil {
						fatal(err)
					}
					sh = nsh
				}
				e, ok := exp[strconv.Itoa(c.id)]
				if !ok {
					sum.mismatch(Mismatch{Property: "C02", Case: c.line(), Expected: "driver output", Observed: "none", Detail: "the Lean driver rejected the case"})
					continue
				}
				runQC(sh, c, e, sum)
			}
		}()
	}
	for _, c := range cases {
		ch <- c
	}
	close(ch)
	wg.Wait()
	sum.Cases = len(cases)
	sum.finish(start, cf.out)
}

func hasCancel(c *qcCase) bool {
	for _, a := range c.arr {
		if a.kind == 'c' {
			return true
		}
	}
	return false
}

func fatal(err error) {
	fmt.Println("hx: fatal:", err)
	panic(err)
}

// corner cases that always run first (a corpus of minimal past failures)
var qcCorpus = []string{
	"qc id=0 m=QuorumCallPerNodeArg x=0 qf=thr:1 arr=- cfg=1.2.3 skip=1.2.3",
	"qc id=0 m=QuorumCallAsyncPerNodeArg x=0 qf=thr:1 arr=- cfg=1.2 skip=1.2",
	"qc id=0 m=QuorumCallCombo x=0 qf=thr:0 arr=- cfg=2 skip=2",
	"qc id=0 m=QuorumCall x=1 qf=thr:1 arr=r1:3 cfg=1 skip=-",
	"qc id=0 m=QuorumCall x=3 qf=thr:4 arr=r1:3,r2:1,r3:0 cfg=1.2.3 skip=-",
	"qc id=0 m=QuorumCall x=3 qf=thr:2 arr=e1:14,e2:2,e3:5 cfg=1.2.3 skip=-",
	"qc id=0 m=QuorumCallAsync x=3 qf=thr:2 arr=e1:14,r2:2,c,r3:1 cfg=1.2.3 skip=-",
	"qc id=0 m=QuorumCallCustomReturnType x=2 qf=maj:2 arr=r1:1,r2:1 cfg=1.2 skip=-",
	"qc id=0 m=QuorumCall x=2 qf=thr:2 arr=c,r1:1,r2:1 cfg=1.2 skip=-",
	"qc id=0 m=QuorumCall x=3 qf=thr:2 arr=r1:1,r2:2,e3:5 cfg=1.2.3 skip=- empty=- burst=1",
	"qc id=0 m=QuorumCallAsync x=4 qf=thr:3 arr=r1:1,r2:2,r4:0,e3:5 cfg=1.2.3.4 skip=- empty=- burst=1",
	"qc id=0 m=QuorumCallPerNodeArg x=3 qf=thr:3 arr=r1:1,r2:2,r3:3 cfg=1.2.3 skip=- empty=2",
	"qc id=0 m=QuorumCallAsyncCombo x=2 qf=thr:2 arr=r1:1,r3:3 cfg=1.2.3 skip=2 empty=1.3",
	"qc id=0 m=QuorumCall x=3 qf=thr:2 arr=x3:0,r1:1,r2:2 cfg=1.2.3 skip=- empty=- burst=0",
	"qc id=0 m=QuorumCallAsync x=3 qf=thr:3 arr=r1:1,x2:0,r3:2 cfg=1.2.3 skip=- empty=- burst=0",
}

func runQC(sh *shard, c *qcCase, expLine string, sum *sumT) {
	info := puppet.Info[c.method]
	isAsync := info.Kind == "async"
	token := fmt.Sprintf("q%d", c.id)
	caseLine := c.line()
	fail := func(prop, expd, obs, detail string) {
		timeout := strings.Contains(obs, "within") || strings.Contains(obs, "never entered") || obs == "wait" || strings.Contains(obs, "routers on node") || strings.Contains(obs, "router still")
		sh.caseFail(Mismatch{Property: prop, Case: caseLine, Expected: expd, Observed: obs, Detail: detail}, timeout)
	}
	defer sh.caseEnd(sum)
	expOut, expLog := "", ""
	for _, f := range strings.Fields(expLine) {
		if strings.HasPrefix(f, "out=") {
			expOut = f[4:]
		}
		if strings.HasPrefix(f, "log=") {
			expLog = f[4:]
		}
	}
	cfg, err := sh.config(c.cfg)
	if err != nil {
		fail("C02", "configuration", err.Error(), "")
		return
	}
	// scripts
	scripts := map[uint32]*puppet.Script{}
	arrived := map[uint32]bool{}
	for _, a := range c.arr {
		if a.kind == 'c' {
			continue
		}
		arrived[a.nid] = true
		s := puppet.NewScript()
		s.Gate = make(chan struct{})
		if a.kind == 'r' {
			s.Action = puppet.Reply
			s.Value = a.val + 1000*int64(a.nid) + 100000*int64(c.id+1)
			if info.EmptyOut {
				s.Value = 0
			}
		} else if a.kind == 'x' {
			s.Action = puppet.Silent
		} else {
			s.Action = puppet.Fail
			s.Code = codes.Code(a.val)
			s.Msg = fmt.Sprintf("boom-%d-%d", c.id, a.nid)
		}
		scripts[a.nid] = s
	}
	for _, nid := range c.cfg {
		if c.skip[nid] || arrived[nid] {
			continue
		}
		s := puppet.NewScript()
		s.Gate = make(chan struct{})
		s.Action = puppet.Silent
		scripts[nid] = s
	}
	for nid, s := range scripts {
		if info.EmptyIn || c.empty[nid] {
			sh.cl.D.ExpectNext(int(nid-1), c.method, s)
		} else {
			sh.cl.D.Expect(int(nid-1), token, s)
		}
	}
	// quorum function with provenance check
	var qmu sync.Mutex
	var provenance []string
	strip := func(nid uint32, v int64) int64 {
		if info.EmptyOut {
			return 0
		}
		if v/100000 != int64(c.id+1) || (v/1000)%100 != int64(nid) {
			qmu.Lock()
			provenance = append(provenance, fmt.Sprintf("node %d holds %d", nid, v))
			qmu.Unlock()
		}
		return v % 1000
	}
	sh.qs.F = func(method, req string, replies map[uint32]int64) (int64, int, bool, bool) {
		vals := make([]int64, 0, len(replies))
		for _, nid := range puppet.SortedKeys(replies) {
			vals = append(vals, strip(nid, replies[nid]))
		}
		v, q := qfEval(c.qfKind, c.k, vals)
		return v, 0, q, true
	}
	req := &dev.Request{Value: token + "|0|orig"}
	sh.qs.Reset(req)
	if info.EmptyIn {
		sh.qs.Reset(nil)
	}
	perNode := func(r *dev.Request, nid uint32) *dev.Request {
		if c.skip[nid] {
			return nil
		}
		if c.empty[nid] {
			return &dev.Request{} // a valid message that encodes to zero bytes
		}
		return &dev.Request{Value: fmt.Sprintf("%s|0|pn%d", token, nid)}
	}
	ctx, cancel := newCancelCtx(c.id%2 == 1)
	defer cancel()
	if len(c.arr) > 0 && c.arr[0].kind == 'c' {
		// a context end that is the first event precedes the call (the schedule the Lean driver assumes, see
		// Driver/QC.lean runCase); every later one is issued after the arrival before it has been consumed
		cancel()
	}
	if c.burst {
		sh.qs.Delay = func() { time.Sleep(2 * time.Millisecond) }
		defer func() { sh.qs.Delay = nil }()
	}
	resCh := make(chan callResult, 1)
	var fu future
	if isAsync {
		// under a watchdog: the call hands its requests to every node before it returns the future and
		// waits there for as long as a node's sender is wedged (known findings of C09)
		type startT struct {
			fu  future
			pan string
		}
		started := make(chan startT, 1)
		go func() {
			defer func() {
				if p := recover(); p != nil {
					started <- startT{pan: fmt.Sprint("panic: ", p)}
				}
			}()
			started <- startT{fu: asyncCall(cfg, c.method, ctx, req, perNode)}
		}()
		select {
		case st := <-started:
			if st.pan != "" {
				sh.caseFail(Mismatch{Property: "C02", Case: caseLine, Expected: "call returns a future", Observed: st.pan}, false)
				return
			}
			fu = st.fu
		case <-time.After(10 * time.Second):
			sh.caseFail(Mismatch{Property: "C02", Case: caseLine, Expected: "call returns a future", Observed: "the call did not return within 10s"}, true)
			return
		}
		if strings.HasPrefix(expOut, "inc::0") && c.expected() == 0 {
			// may complete immediately
		} else if fu.done() && len(c.arr) > 0 && c.arr[0].kind != 'c' && c.expected() > 0 {
			fail("C02", "Done()=false before any arrival", "Done()=true", "")
		}
		go func() { resCh <- futureResult(fu) }()
	} else {
		go func() { resCh <- syncCall(cfg, c.method, ctx, req, perNode) }()
	}
	var res callResult
	returned := func() bool {
		if res.returned {
			return true
		}
		select {
		case res = <-resCh:
			return true
		default:
			return false
		}
	}
	if c.burst {
		// wait until every answering handler has its request, then release all answers at once
		for _, a := range c.arr {
			if a.kind != 'c' {
				select {
				case <-scripts[a.nid].Entered:
				case <-time.After(5 * time.Second):
					fail("C06", "handler entered at node "+strconv.Itoa(int(a.nid)), "not entered within 5s", "")
				}
			}
		}
		for _, a := range c.arr {
			if a.kind != 'c' {
				close(scripts[a.nid].Gate)
			}
		}
	}
	var crashed []uint32
	defer func() {
		// bring crashed servers back and make sure the nodes are used again (C10)
		for _, nid := range crashed {
			if err := sh.cl.Restart(int(nid - 1)); err != nil {
				fatal(err)
			}
		}
		for _, nid := range crashed {
			node := sh.node(nid)
			ok := waitFor(6*time.Second, func() bool { return probe(node, 400*time.Millisecond) })
			if !ok {
				sh.caseFail(Mismatch{Property: "C10", Case: caseLine, Expected: fmt.Sprintf("node %d is used again after its server restarted", nid), Observed: "probe RPCs fail for 6s", Detail: strings.Join(signatures(goroutineDump()), "; ")}, true)
			}
		}
	}()
	// feed arrivals in order
	for _, a := range c.arr {
		if returned() || c.burst {
			break
		}
		if a.kind == 'c' {
			if !strings.HasPrefix(expOut, "ctx:") {
				// the arrivals before this one decide the call (the model says so): the context must end after
				// the loop has been through its exhaustion test, i.e. after the call has returned — "consumed"
				// (the quorum function's log entry) is signalled a moment before that test
				waitFor(2*time.Second, returned)
			}
			cancel()
			break
		}
		s := scripts[a.nid]
		before := sh.qs.LogLen()
		// the request must have reached the handler before we let it answer
		select {
		case <-s.Entered:
		case <-time.After(5 * time.Second):
			fail("C06", "handler entered at node "+strconv.Itoa(int(a.nid)), "not entered within 5s", "")
		}
		if a.kind == 'x' {
			// the server behind this node dies while the request is pending
			sh.cl.Stop(int(a.nid - 1))
			crashed = append(crashed, a.nid)
		} else {
			close(s.Gate)
		}
		node := sh.node(a.nid)
		if !waitFor(5*time.Second, func() bool { return routers(node) == 0 || returned() }) {
			fail("C05", "reply routed", "router still present after 5s", fmt.Sprintf("node %d", a.nid))
		}
		if a.kind == 'r' {
			waitFor(5*time.Second, func() bool { return sh.qs.LogLen() > before || returned() })
		}
	}
	// await the outcome
	if !returned() {
		if expOut == "wait" {
			time.Sleep(30 * time.Millisecond)
		} else {
			waitFor(4*time.Second, returned)
		}
	}
	obs := "wait"
	stillWaiting := !returned()
	if stillWaiting {
		cancel()
		if !waitFor(5*time.Second, returned) {
			fail("C08", "return after cancel", "no return within 5s of cancel", "")
		}
	}
	var notes []string
	if !stillWaiting {
		switch {
		case res.panicked != "":
			obs = "panic:" + res.panicked
		case res.err == nil:
			obs = "ok:" + strconv.FormatInt(res.val, 10)
			if res.nilResp {
				obs += ":nilresp"
			}
		default:
			obs, notes = canonErr(res.err)
			if hasCancel(c) && strings.HasPrefix(obs, "inc:") && strings.HasPrefix(expOut, "ctx:") {
				// the context had ended and the call reports Incomplete: every outstanding request was
				// answered locally before the loop noticed the context (C08; repaired by incompleteCause)
				sum.known("C08:ctx-end-reported-as-incomplete")
			}
			if hasCancel(c) {
				fed := map[string]bool{}
				for _, a := range c.arr {
					if a.kind == 'c' {
						break
					}
					if a.kind == 'e' || a.kind == 'x' {
						fed[strconv.Itoa(int(a.nid))] = true
					}
				}
				obs = ctxCanon(obs, fed)
			}
			if !res.nilResp {
				notes = append(notes, "non-nil response together with an error")
			}
		}
	}
	if c.burst {
		// the arrival order was the scheduler's: compare what does not depend on it
		canon := func(o string) string {
			p := strings.Split(o, ":")
			switch p[0] {
			case "ok":
				return "ok"
			case "inc":
				ids := strings.Split(p[1], ".")
				sort.Strings(ids)
				return "inc:" + strings.Join(ids, ".") + ":" + p[2]
			}
			return o
		}
		obs, expOut = canon(obs), canon(expOut)
	}
	if obs != expOut {
		d := ""
		if res.err != nil {
			d = strings.ReplaceAll(res.err.Error(), "\n", "/")
		}
		fail("C02", expOut, obs, d)
		if strings.Contains(caseLine, ",e") || strings.Contains(caseLine, "=e") || strings.Contains(caseLine, "x") {
			fail("C07", expOut, obs, d)
		}
	}
	for _, n := range notes {
		fail("C02", "consistent error value", n, "")
	}
	// QF log
	var logParts []string
	qlog := sh.qs.Log()
	for _, q := range qlog {
		var kv []string
		for _, nid := range puppet.SortedKeys(q.Replies) {
			v := q.Replies[nid]
			if !info.EmptyOut {
				v = v % 1000
			}
			kv = append(kv, fmt.Sprintf("%d=%d", nid, v))
		}
		logParts = append(logParts, strings.Join(kv, "+"))
		if !q.SameReq {
			fail("C01", "QF called with the caller's original request", "different request object", q.Req)
		}
		if q.Overlap {
			fail("C01", "one QF invocation at a time", "overlapping invocations", "")
		}
		if q.Method != c.method {
			fail("C17", "QF of "+c.method, "QF of "+q.Method, "")
		}
	}
	obsLog := strings.Join(logParts, ";")
	if obsLog == "" {
		obsLog = "-"
	}
	if c.burst {
		// one invocation per consumed reply, each on a set that grew by exactly one entry
		prev := 0
		for i, q := range qlog {
			if len(q.Replies) != prev+1 {
				fail("C01", "every invocation sees exactly one new reply", fmt.Sprintf("invocation %d has %d entries after %d", i, len(q.Replies), prev), "log="+obsLog)
			}
			prev = len(q.Replies)
		}
		if p := strings.Split(obs, ":"); p[0] == "inc" {
			if n, _ := strconv.Atoi(p[2]); n != len(qlog) {
				fail("C01", fmt.Sprintf("one quorum-function invocation per successful reply (%d)", n), fmt.Sprintf("%d invocations", len(qlog)), "log="+obsLog)
			}
		}
	} else if obsLog != expLog {
		fail("C01", "log="+expLog, "log="+obsLog, "")
	}
	for _, p := range provenance {
		fail("C01", "genuine replies only", p, "")
	}
	// error texts (C07): each error names the node with the handler's code and message
	if res.err != nil {
		texts := nodeErrTexts(res.err)
		for _, a := range c.arr {
			if a.kind == 'x' {
				if t, ok := texts[strconv.Itoa(int(a.nid))]; ok && !strings.Contains(t, "Unavailable") {
					fail("C07", fmt.Sprintf("node %d: an Unavailable-type error (its connection broke)", a.nid), t, "")
				}
			}
			if a.kind != 'e' {
				continue
			}
			if t, ok := texts[strconv.Itoa(int(a.nid))]; ok && !strings.Contains(t, "context canceled") {
				want := fmt.Sprintf("boom-%d-%d", c.id, a.nid)
				if !strings.Contains(t, want) || !strings.Contains(t, codes.Code(a.val).String()) {
					fail("C07", fmt.Sprintf("node %d: code %s msg %s", a.nid, codes.Code(a.val), want), t, "")
				}
			}
		}
	}
	// async: Done and Get stability
	if isAsync && res.returned && res.panicked == "" {
		if !fu.done() {
			fail("C02", "Done()=true after completion", "false", "")
		}
		for i := 0; i < 2; i++ {
			again := make(chan callResult, 1)
			go func() { again <- futureResult(fu) }()
			select {
			case r2 := <-again:
				if r2.val != res.val || (r2.err == nil) != (res.err == nil) || (r2.err != nil && r2.err.Error() != res.err.Error()) {
					fail("C02", "Get stable", "Get changed between invocations", "")
				}
			case <-time.After(2 * time.Second):
				fail("C02", "Get returns the same outcome on every invocation", "Get blocks after the future has completed", "")
				i = 2
			}
			if !fu.done() {
				fail("C02", "Done()=true after completion", "false after a Get", "")
			}
		}
	}
	// drain: let every handler finish; check payloads (C06)
	hasCancelArr := false
	for _, a := range c.arr {
		if a.kind == 'c' {
			hasCancelArr = true
		}
	}
	for nid, s := range scripts {
		node := sh.node(nid)
		entered := func() bool {
			select {
			case <-s.Entered:
				return true
			default:
				return false
			}
		}
		// a request is either delivered to its handler, or (only when the context
		// ended first) answered locally, which removes its router
		ok := waitFor(5*time.Second, func() bool { return entered() || (hasCancelArr && routers(node) == 0) })
		if !ok || (!entered() && !hasCancelArr) {
			fail("C06", fmt.Sprintf("request delivered to node %d", nid), "handler never entered", "")
		}
		if entered() {
			want := token + "|0|orig"
			if info.PerNode {
				want = fmt.Sprintf("%s|0|pn%d", token, nid)
			}
			if info.EmptyIn || c.empty[nid] {
				want = ""
			}
			if s.GotValue != want {
				fail("C06", "payload "+want, "payload "+s.GotValue, fmt.Sprintf("node %d", nid))
			}
		}
		select {
		case <-s.Gate:
		default:
			if s.Action == puppet.Silent {
				// silent handlers end with the case: they become late replies
				s.Action = puppet.Reply
			}
			close(s.Gate)
		}
	}
	for _, s := range scripts {
		select {
		case <-s.Entered:
			select {
			case <-s.Exited:
			case <-time.After(5 * time.Second):
			}
		default:
		}
	}
	// skipped nodes must have received nothing for this call
	for _, e := range sh.cl.D.Events() {
		if e.Phase == "DUPLICATE" {
			fail("C03", "one handler start per call and node", "duplicate start", e.Value)
		}
		if e.Phase == "enter" && puppet.Token(e.Value) == token && c.skip[uint32(e.Server+1)] {
			fail("C06", "skipped node receives nothing", "request arrived", fmt.Sprintf("node %d", e.Server+1))
		}
	}
	sh.cl.D.ResetLog()
	sh.cl.D.Forget(token, sh.n)
	for _, s := range scripts {
		s.Dead.Store(true)
	}
	// all routers of the configuration must be gone once everything answered (C18)
	for _, nid := range c.cfg {
		node := sh.node(nid)
		if !waitFor(3*time.Second, func() bool { return routers(node) == 0 }) {
			fail("C18", "no router left", fmt.Sprintf("%d routers on node %d", routers(node), nid), "")
		}
	}
	// statistics
	nErr, nSil, hasCancel := 0, 0, false
	for _, a := range c.arr {
		switch a.kind {
		case 'e':
			nErr++
		case 'x':
			nErr++
			sum.count("connection-break-while-pending")
		case 'c':
			hasCancel = true
		}
	}
	nSil = c.expected() - nErr
	for _, a := range c.arr {
		if a.kind == 'r' {
			nSil--
		}
	}
	class := strings.SplitN(expOut, ":", 2)[0]
	sum.count("outcome:" + class)
	sum.count("variant:" + c.method)
	sum.count(fmt.Sprintf("expected:%d", c.expected()))
	sum.count("qf:" + c.qfKind)
	if hasCancel {
		sum.count("cancel")
	}
	if nErr > 0 {
		sum.count("with-errors")
	}
	if len(c.skip) > 0 {
		sum.count("with-skips")
	}
	if len(c.empty) > 0 {
		sum.count("with-empty-per-node-messages")
	}
	if c.burst {
		sum.count("burst")
	}
	if nErr > 0 || nSil > 0 || len(c.skip) > 0 || hasCancel {
		sum.nontrivial(fmt.Sprintf("%v/%v/%v/%d/%s/%d/%v/%v/%s/%v/%v", isAsync, info.PerNode, info.Custom, c.expected(), class, nErr, nSil > 0, hasCancel, c.qfKind, c.burst, len(c.empty) > 0))
	}
	sum.sample(caseLine + " => " + expLine)
}
