package main

// Engine codec — exact correspondence of Codec.Marshal / Codec.Unmarshal with
// the Lean model (encodeFrame, consumeBytes, unmarshal) on valid frames of every
// registered zorums method in both directions and on malformed frames.  Every
// call into the library runs under recover.  Serves C13.

import (
	"encoding/hex"
	"fmt"
	"math/rand"
	"strings"
	"time"

	"github.com/relab/gorums"
	"github.com/relab/gorums/cmd/protoc-gen-gorums/dev"
	"github.com/relab/gorums/ordering"
	"google.golang.org/genproto/googleapis/rpc/status"
	"google.golang.org/grpc/codes"
	gstatus "google.golang.org/grpc/status"
	"google.golang.org/protobuf/encoding/protowire"
	"google.golang.org/protobuf/proto"
	"google.golang.org/protobuf/reflect/protoreflect"
	"google.golang.org/protobuf/reflect/protoregistry"
	"google.golang.org/protobuf/types/known/anypb"
	"google.golang.org/protobuf/types/known/emptypb"
)

func init() { engines["codec"] = codecMain }

func hx(b []byte) string {
	if len(b) == 0 {
		return "-"
	}
	return hex.EncodeToString(b)
}

type decCase struct {
	id    int
	isReq bool
	b     []byte
	class string // how it was made
}

func randMsg(r *rand.Rand, name protoreflect.FullName) proto.Message {
	switch name {
	case "dev.Request":
		return &dev.Request{Value: randText(r)}
	case "dev.Response":
		return &dev.Response{Result: r.Int63() - r.Int63()}
	case "dev.MyResponse":
		return &dev.MyResponse{Value: randText(r)}
	default:
		return &emptypb.Empty{}
	}
}

func randText(r *rand.Rand) string {
	alphabets := []string{"abc", "héllo wörld ", "日本語", "\x00\x01\x7f", ""}
	a := []rune(alphabets[r.Intn(len(alphabets))])
	if len(a) == 0 {
		return ""
	}
	n := []int{0, 1, 5, 40, 300, 20000}[r.Intn(6)]
	var sb strings.Builder
	for i := 0; i < n; i++ {
		sb.WriteRune(a[r.Intn(len(a))])
	}
	return sb.String()
}

func codecMain(args []string) {
	cf := commonFlags("codec", args, nil)
	start := time.Now()
	sum := newSum("codec", cf.seed, "valid stream: every registered zorums method x direction x generated message x metadata (id, status code, text incl. non-ASCII, details); "+
		"malformed stream: truncation at every byte, length prefixes off by one / huge / 10-byte varints, method field naming unknown / message / service / enum / file entities, random bytes; "+
		"distinct non-trivial = distinct (direction, generator class, outcome class, descriptor kind, framing result sign) tuples other than a plain valid round trip")
	// in chunks, so that the memory held (frames, driver lines) stays bounded however many cases are asked for
	const chunk = 40000
	total := 0
	r := rng(cf.seed, "codec")
	for left := cf.count; left > 0 && !sum.tooMany(); left -= chunk {
		c := cf
		c.count = left
		if c.count > chunk {
			c.count = chunk
		}
		total += codecChunk(c, rand.New(rand.NewSource(r.Int63())), sum)
		if cf.replay != "" {
			break
		}
	}
	sum.Cases = total
	sum.finish(start, cf.out)
}

func codecChunk(cf common, r *rand.Rand, sum *sumT) int {
	codec := gorums.NewCodec()
	svc := dev.File_zorums_proto.Services().Get(0)
	var methods []protoreflect.MethodDescriptor
	for i := 0; i < svc.Methods().Len(); i++ {
		methods = append(methods, svc.Methods().Get(i))
	}
	hostile := []string{"", "dev.Request", "dev.ZorumsService", "ordering.Metadata", "ordering.Gorums", "ordering.Gorums.NodeStream",
		"google.protobuf.Empty", "dev.Nope", "dev.ZorumsService.Nope", "gorums.rpc", "google.protobuf.FieldDescriptorProto.Type", "dev",
		"zorums.proto", ".dev.Request", "dev.ZorumsService.QuorumCall.", "google.rpc.Status", "google.protobuf.Any"}
	var encLines, decLines []string
	encWant := map[string]string{}
	var decs []decCase
	id := 0
	addDec := func(isReq bool, b []byte, class string) {
		decs = append(decs, decCase{id: id, isReq: isReq, b: append([]byte(nil), b...), class: class})
		id++
	}
	safeMarshal := func(m *gorums.Message) (b []byte, err error, p string) {
		defer func() {
			if x := recover(); x != nil {
				p = fmt.Sprint(x)
			}
		}()
		b, err = codec.Marshal(m)
		return
	}
	nValid := cf.count / 4
	if cf.replay != "" {
		nValid = 0
	}
	for k := 0; k < nValid; k++ {
		m := methods[k%len(methods)]
		isReq := r.Intn(2) == 0
		name := m.Output().FullName()
		if isReq {
			name = m.Input().FullName()
		}
		md := &ordering.Metadata{MessageID: r.Uint64() >> uint(r.Intn(64)), Method: string(m.FullName())}
		switch r.Intn(4) {
		case 0:
			md.Status = &status.Status{Code: int32(r.Intn(17)), Message: randText(r)}
		case 1:
			d, _ := anypb.New(&dev.Request{Value: "detail"})
			md.Status = &status.Status{Code: int32(r.Intn(17)), Message: "with details", Details: []*anypb.Any{d}}
		}
		payload := randMsg(r, name)
		// fields the receiver's version of the message type does not declare travel along (a peer built from a newer
		// .proto): they are part of the message and must survive the round trip
		unk := ""
		if r.Intn(3) == 0 {
			var raw []byte
			raw = protowire.AppendTag(raw, protowire.Number(1000+r.Intn(1000)), protowire.VarintType)
			raw = protowire.AppendVarint(raw, r.Uint64()>>uint(r.Intn(64)))
			if r.Intn(2) == 0 {
				raw = protowire.AppendTag(raw, protowire.Number(3000+r.Intn(100)), protowire.BytesType)
				raw = protowire.AppendBytes(raw, []byte(randText(r)))
			}
			payload.ProtoReflect().SetUnknown(raw)
			unk = "+unknown-fields"
			if r.Intn(3) == 0 {
				md.ProtoReflect().SetUnknown(protowire.AppendVarint(protowire.AppendTag(nil, 777, protowire.VarintType), 42))
				unk += "+md"
			}
		}
		msg := gorums.VerifNewMessage(isReq)
		msg.Metadata, msg.Message = md, payload
		b, err, pan := safeMarshal(msg)
		caseS := fmt.Sprintf("valid%s method=%s req=%v id=%d", unk, m.FullName(), isReq, md.MessageID)
		if err != nil || pan != "" {
			sum.mismatch(Mismatch{Property: "C13", Case: caseS, Expected: "Marshal succeeds", Observed: fmt.Sprint(err, pan)})
			continue
		}
		// framing model: encodeFrame(md bytes, msg bytes) must be the real frame
		mdB, _ := proto.MarshalOptions{AllowPartial: true}.Marshal(md)
		plB, _ := proto.MarshalOptions{AllowPartial: true}.Marshal(payload)
		encLines = append(encLines, fmt.Sprintf("enc id=%d md=%s msg=%s", id, hx(mdB), hx(plB)))
		encWant[fmt.Sprint(id)] = "frame=" + hx(b)
		id++
		// round trip through the real decoder
		out := gorums.VerifNewMessage(isReq)
		func() {
			defer func() {
				if x := recover(); x != nil {
					sum.mismatch(Mismatch{Property: "C13", Case: caseS, Expected: "Unmarshal returns", Observed: fmt.Sprint("panic: ", x)})
				}
			}()
			if err := codec.Unmarshal(b, out); err != nil {
				sum.mismatch(Mismatch{Property: "C13", Case: caseS, Expected: "round trip", Observed: "error " + err.Error()})
				return
			}
			got := gorums.VerifMessagePayload(out)
			if got == nil || got.ProtoReflect().Descriptor().FullName() != name {
				sum.mismatch(Mismatch{Property: "C13", Case: caseS, Expected: "message of type " + string(name), Observed: fmt.Sprintf("%T", got)})
				return
			}
			if !proto.Equal(got, payload) || !proto.Equal(out.Metadata, md) {
				sum.mismatch(Mismatch{Property: "C13", Case: caseS, Expected: "equal message and metadata", Observed: "differs after round trip"})
			}
		}()
		sum.count("valid" + unk)
		addDec(isReq, b, "valid")
		// derived malformed frames
		switch r.Intn(6) {
		case 0: // truncate at every byte (bounded)
			step := 1 + len(b)/24
			for cut := 0; cut < len(b); cut += step {
				addDec(isReq, b[:cut], "truncated")
			}
		case 1: // first length prefix off by one / huge
			mdLen := len(mdB)
			for _, nl := range []uint64{uint64(mdLen) + 1, uint64(mdLen) - 1, 1 << 40, 1<<64 - 1, 0} {
				nb := protowire.AppendVarint(nil, nl)
				nb = append(nb, b[len(protowire.AppendVarint(nil, uint64(mdLen))):]...)
				addDec(isReq, nb, "mdlen-changed")
			}
		case 2: // second length prefix changed
			off := len(protowire.AppendVarint(nil, uint64(len(mdB)))) + len(mdB)
			for _, nl := range []uint64{uint64(len(plB)) + 1, 1 << 33, 0} {
				nb := append([]byte(nil), b[:off]...)
				nb = protowire.AppendVarint(nb, nl)
				nb = append(nb, plB...)
				addDec(isReq, nb, "msglen-changed")
			}
		case 3: // hostile method names
			for _, h := range hostile {
				md2 := proto.Clone(md).(*ordering.Metadata)
				md2.Method = h
				m2 := gorums.VerifNewMessage(isReq)
				m2.Metadata, m2.Message = md2, payload
				if nb, err, pan := safeMarshal(m2); err == nil && pan == "" {
					addDec(isReq, nb, "hostile-method")
				}
			}
		case 4: // over-long varints
			for _, pre := range [][]byte{{0x80, 0x80, 0x80, 0x80, 0x80, 0x80, 0x80, 0x80, 0x80, 0x01}, {0xff, 0xff, 0xff, 0xff, 0xff, 0xff, 0xff, 0xff, 0xff, 0x02},
				{0x80}, {0x80, 0x80, 0x80, 0x80, 0x80, 0x80, 0x80, 0x80, 0x80, 0x80, 0x01}, {0x8a, 0x00}} {
				addDec(isReq, append(append([]byte(nil), pre...), b...), "varint-prefix")
			}
		case 5: // bit flips
			for k := 0; k < 6 && len(b) > 0; k++ {
				nb := append([]byte(nil), b...)
				nb[r.Intn(len(nb))] ^= byte(1 << uint(r.Intn(8)))
				addDec(isReq, nb, "bitflip")
			}
		}
	}
	for len(decs) < cf.count && cf.replay == "" {
		n := r.Intn(40)
		b := make([]byte, n)
		r.Read(b)
		addDec(r.Intn(2) == 0, b, "random")
	}
	if cf.replay != "" {
		for _, l := range readLines(cf.replay) {
			var isReq bool
			var b []byte
			for _, f := range strings.Fields(l) {
				if f == "dir=req" {
					isReq = true
				}
				if strings.HasPrefix(f, "b=") && f != "b=-" {
					b, _ = hex.DecodeString(f[2:])
				}
			}
			addDec(isReq, b, "replay")
		}
	}
	// decode cases: real outcome + oracle facts
	type obsT struct{ mdbuf, mdlen, msgbuf, out string }
	obs := map[string]obsT{}
	lineOf := map[string]string{}
	for _, d := range decs {
		out := gorums.VerifNewMessage(d.isReq)
		real := ""
		func() {
			defer func() {
				if x := recover(); x != nil {
					real = "panic"
				}
			}()
			if err := codec.Unmarshal(d.b, out); err != nil {
				real = "err"
				return
			}
			real = "ok:" + string(gorums.VerifMessagePayload(out).ProtoReflect().Descriptor().FullName())
		}()
		// oracle facts from the third-party functions
		mdBuf, mdLen := protowire.ConsumeBytes(d.b)
		md := &ordering.Metadata{}
		mdok := proto.UnmarshalOptions{AllowPartial: true}.Unmarshal(mdBuf, md) == nil
		kind, inT, outT := "none", "-", "-"
		hasin, hasout, msgok := 0, 0, 0
		var msgBuf []byte
		if mdok {
			desc, err := protoregistry.GlobalFiles.FindDescriptorByName(protoreflect.FullName(md.Method))
			if err == nil {
				if mdesc, ok := desc.(protoreflect.MethodDescriptor); ok {
					kind = "method"
					inT, outT = string(mdesc.Input().FullName()), string(mdesc.Output().FullName())
					if _, err := protoregistry.GlobalTypes.FindMessageByName(mdesc.Input().FullName()); err == nil {
						hasin = 1
					}
					if _, err := protoregistry.GlobalTypes.FindMessageByName(mdesc.Output().FullName()); err == nil {
						hasout = 1
					}
					name := mdesc.Output().FullName()
					if d.isReq {
						name = mdesc.Input().FullName()
					}
					if mt, err := protoregistry.GlobalTypes.FindMessageByName(name); err == nil && mdLen >= 0 {
						msgBuf, _ = protowire.ConsumeBytes(d.b[mdLen:])
						if (proto.UnmarshalOptions{AllowPartial: true}).Unmarshal(msgBuf, mt.New().Interface()) == nil {
							msgok = 1
						}
					}
				} else {
					kind = "other"
				}
			}
		}
		dir := "resp"
		if d.isReq {
			dir = "req"
		}
		mo := 0
		if mdok {
			mo = 1
		}
		ids := fmt.Sprint(d.id)
		line := fmt.Sprintf("dec id=%d dir=%s b=%s mdok=%d kind=%s in=%s out=%s hasin=%d hasout=%d msgok=%d", d.id, dir, hx(d.b), mo, kind, inT, outT, hasin, hasout, msgok)
		decLines = append(decLines, line)
		lineOf[ids] = line
		obs[ids] = obsT{hx(mdBuf), fmt.Sprint(mdLen), hx(msgBuf), real}
		sum.count("class:" + d.class)
		sum.count("outcome:" + strings.SplitN(real, ":", 2)[0])
		if d.class != "valid" {
			sum.nontrivial(fmt.Sprintf("%s/%s/%s/%s/%v", dir, d.class, strings.SplitN(real, ":", 2)[0], kind, mdLen < 0))
		}
	}
	exp, err := askDriver(cf.driver, "codec", append(encLines, decLines...))
	if err != nil {
		fatal(err)
	}
	for ids, want := range encWant {
		if exp[ids] != want {
			sum.mismatch(Mismatch{Property: "C13", Case: "enc id=" + ids, Expected: "model " + trunc(exp[ids]), Observed: "real " + trunc(want), Detail: "framing model differs from Codec.Marshal"})
		}
	}
	for ids, o := range obs {
		e := exp[ids]
		var emd, elen, emsg, eout string
		for _, f := range strings.Fields(e) {
			switch {
			case strings.HasPrefix(f, "mdbuf="):
				emd = f[6:]
			case strings.HasPrefix(f, "mdlen="):
				elen = f[6:]
			case strings.HasPrefix(f, "msgbuf="):
				emsg = f[7:]
			case strings.HasPrefix(f, "out="):
				eout = f[4:]
			}
		}
		if emd != o.mdbuf || elen != o.mdlen || (emsg != o.msgbuf && !strings.HasPrefix(eout, "err:") && !strings.HasPrefix(eout, "panic")) {
			sum.mismatch(Mismatch{Property: "C13", Case: lineOf[ids], Expected: fmt.Sprintf("model slices mdbuf=%s mdlen=%s msgbuf=%s", trunc(emd), elen, trunc(emsg)),
				Observed: fmt.Sprintf("protowire mdbuf=%s mdlen=%s msgbuf=%s", trunc(o.mdbuf), o.mdlen, trunc(o.msgbuf)), Detail: "Lean model of ConsumeBytes differs from protowire"})
		}
		eclass := eout
		if strings.HasPrefix(eout, "err:") {
			eclass = "err"
		}
		if strings.HasPrefix(eout, "panic") {
			eclass = "panic"
		}
		if eclass != o.out {
			sum.mismatch(Mismatch{Property: "C13", Case: lineOf[ids], Expected: eout, Observed: o.out})
		}
		if cf.replay != "" {
			fmt.Println(lineOf[ids], "=>", e, "| real:", o.out)
		}
		sum.sample(trunc(lineOf[ids]) + " => " + trunc(e))
	}
	// status: a handler's error reaches the caller with the same code and message
	for k := 0; k < 200 && cf.replay == ""; k++ {
		code := codes.Code(r.Intn(17))
		text := randText(r)
		if rs := []rune(text); len(rs) > 300 {
			text = string(rs[:300])
		}
		var herr error
		if code != codes.OK {
			herr = gstatus.Error(code, text)
		}
		if r.Intn(8) == 0 {
			herr = fmt.Errorf("plain %s", text)
			code = codes.Unknown
			text = herr.Error()
		}
		md := &ordering.Metadata{MessageID: 1, Method: "dev.ZorumsService.QuorumCall"}
		wrapped := gorums.WrapMessage(md, &dev.Response{}, herr)
		b, err, pan := safeMarshal(wrapped)
		if err != nil || pan != "" {
			sum.mismatch(Mismatch{Property: "C13", Case: "status", Expected: "Marshal", Observed: fmt.Sprint(err, pan)})
			continue
		}
		out := gorums.VerifNewMessage(false)
		if err := codec.Unmarshal(b, out); err != nil {
			sum.mismatch(Mismatch{Property: "C13", Case: "status", Expected: "Unmarshal", Observed: err.Error()})
			continue
		}
		got := gstatus.FromProto(out.Metadata.GetStatus()).Err()
		if herr == nil {
			if got != nil {
				sum.mismatch(Mismatch{Property: "C13", Case: "status nil", Expected: "nil", Observed: got.Error()})
			}
			continue
		}
		st, _ := gstatus.FromError(got)
		if got == nil || st.Code() != code || st.Message() != text {
			sum.mismatch(Mismatch{Property: "C13", Case: fmt.Sprintf("status code=%v text=%q", code, trunc(text)), Expected: "same code and message", Observed: fmt.Sprint(got)})
		}
		sum.count("status-roundtrip")
	}
	return len(decs) + len(encLines)
}

func trunc(s string) string {
	if len(s) > 220 {
		return s[:200] + fmt.Sprintf("…(%d chars)", len(s))
	}
	return s
}
