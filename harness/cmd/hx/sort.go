package main

// Engine sort — exact correspondence of MultiSorter.Less / Sort with the Lean
// model (multiLess, isort ∘ lexLt) on generated node slices.  Serves C19.

import (
	"errors"
	"fmt"
	"strconv"
	"strings"
	"time"

	"github.com/relab/gorums"
	"google.golang.org/grpc"
	"google.golang.org/grpc/credentials/insecure"
)

func init() { engines["sort"] = sortMain }

type lessFn = func(n1, n2 *gorums.RawNode) bool

func sortMain(args []string) {
	cf := commonFlags("sort", args, nil)
	start := time.Now()
	sum := newSum("sort", cf.seed, "cases = (node slice of length 0..40 drawn with repetition of ids/ports/error flags from a pool built through the public constructors (IPv4 and IPv6 literals), key sequence of length 1..3); "+
		"distinct non-trivial = distinct (key sequence, length bucket, has ties under first key, has errors) tuples with at least one tie under the first key")
	// pool: 3 managers x 8 nodes; the same ids occur in each manager, ports repeat across hosts
	var pool []*gorums.RawNode
	var mgrs []*gorums.RawManager
	wantPort := map[string]int{} // canonical address (as given to the constructor) -> its port
	for m := 0; m < 3; m++ {
		mgr := gorums.NewRawManager(gorums.WithDialTimeout(50*time.Millisecond),
			gorums.WithGrpcDialOptions(grpc.WithTransportCredentials(insecure.NewCredentials())))
		mgrs = append(mgrs, mgr)
		idm := map[string]uint32{}
		for i := 0; i < 8; i++ {
			port := 20000 + (i%4)*7 + m // ports repeat inside a manager (different hosts) and across managers
			addr := fmt.Sprintf("127.0.%d.%d:%d", m+1, i+1, port)
			if m == 2 {
				// the third manager's nodes have IPv6 literals (loopback, global, zoned link-local)
				addr = []string{"[::1]:%d", "[2001:db8::%d]:%d", "[fe80::%d%%eth0]:%d"}[i%3]
				if i%3 == 0 {
					addr = fmt.Sprintf(addr, port+100*i) // one host: distinct ports
				} else {
					addr = fmt.Sprintf(addr, i+1, port)
				}
			}
			wantPort[addr] = port
			if m == 2 && i%3 == 0 {
				wantPort[addr] = port + 100*i
			}
			idm[addr] = uint32(1+(i*3+m)%6) + uint32(100*(i/6))
		}
		// ids must be unique per manager
		seen := map[uint32]bool{}
		for a, id := range idm {
			for seen[id] {
				id += 50
			}
			seen[id] = true
			idm[a] = id
		}
		cfg, err := gorums.NewRawConfiguration(mgr, gorums.WithNodeMap(idm))
		if err != nil {
			fatal(err)
		}
		pool = append(pool, cfg.Nodes()...)
	}
	defer func() {
		for _, m := range mgrs {
			m.Close()
		}
	}()
	keyByName := map[string]lessFn{"ID": gorums.ID, "Port": gorums.Port, "LastNodeError": gorums.LastNodeError}
	names := []string{"ID", "Port", "LastNodeError"}
	r := rng(cf.seed, "sort")
	type scase struct {
		id    int
		keys  []string
		nodes []*gorums.RawNode
		errs  map[*gorums.RawNode]bool
	}
	var lines []string
	if cf.replay != "" {
		lines = readLines(cf.replay)
	}
	someErr := errors.New("some error")
	// the port of a node is the port of the address it was created with (not what Port() says: Port() is under test)
	port := func(n *gorums.RawNode) int { return wantPort[n.Address()] }
	for _, n := range pool {
		p, perr := strconv.Atoi(n.Port())
		if w, ok := wantPort[n.Address()]; !ok || perr != nil || p != w {
			sum.mismatch(Mismatch{Property: "C19", Case: "sort node=" + n.Address(), Expected: fmt.Sprintf("Address() is the address given to the constructor and Port() its port (%d)", w),
				Observed: fmt.Sprintf("Address()=%q Port()=%q", n.Address(), n.Port())})
		}
	}
	render := func(id int, keys []string, nodes []*gorums.RawNode, errs map[*gorums.RawNode]bool) string {
		var ns []string
		for _, n := range nodes {
			e := 0
			if errs[n] {
				e = 1
			}
			ns = append(ns, fmt.Sprintf("%d/%d/%d", n.ID(), port(n), e))
		}
		nodesS := strings.Join(ns, ";")
		if nodesS == "" {
			nodesS = "-"
		}
		return fmt.Sprintf("sort id=%d keys=%s nodes=%s", id, strings.Join(keys, ","), nodesS)
	}
	// Each case is executed first (the real Sort decides the order that is sent to the model).
	type done struct {
		line string
		less string
		proj string
		c    scase
	}
	var results []done
	for id := 0; id < cf.count; id++ {
		c := scase{id: id, errs: map[*gorums.RawNode]bool{}}
		nk := 1 + r.Intn(3)
		for i := 0; i < nk; i++ {
			c.keys = append(c.keys, names[r.Intn(3)])
		}
		if id < 6 { // fixed corner cases first
			c.keys = [][]string{{"LastNodeError"}, {"LastNodeError", "ID"}, {"ID", "LastNodeError"}, {"Port", "LastNodeError", "ID"}, {"LastNodeError", "Port"}, {"Port"}}[id]
		}
		ln := r.Intn(41)
		if r.Intn(4) == 0 {
			ln = r.Intn(4)
		}
		perr := []float64{0, 0.3, 0.5, 1}[r.Intn(4)]
		for i := 0; i < ln; i++ {
			c.nodes = append(c.nodes, pool[r.Intn(len(pool))])
		}
		for _, n := range pool {
			if r.Float64() < perr {
				c.errs[n] = true
			}
		}
		for _, n := range pool {
			if c.errs[n] {
				// distinct error values per node (the normal case: errors recorded by different channels), sometimes a shared one
				if r.Intn(4) == 0 {
					gorums.VerifSetLastErr(n, someErr)
				} else {
					gorums.VerifSetLastErr(n, fmt.Errorf("last error of node %d", n.ID()))
				}
			} else {
				gorums.VerifSetLastErr(n, nil)
			}
		}
		var fns []lessFn
		for _, k := range c.keys {
			fns = append(fns, keyByName[k])
		}
		var ms *gorums.MultiSorter
		switch len(fns) { // the variadic parameter has an unexported element type
		case 1:
			ms = gorums.OrderedBy(fns[0])
		case 2:
			ms = gorums.OrderedBy(fns[0], fns[1])
		default:
			ms = gorums.OrderedBy(fns[0], fns[1], fns[2])
		}
		sorted := append([]*gorums.RawNode(nil), c.nodes...)
		func() {
			defer func() {
				if p := recover(); p != nil {
					sum.mismatch(Mismatch{Property: "C19", Case: render(id, c.keys, c.nodes, c.errs), Expected: "Sort returns", Observed: fmt.Sprint("panic: ", p)})
				}
			}()
			ms.Sort(sorted)
		}()
		// permutation check (on pointers)
		cnt := map[*gorums.RawNode]int{}
		for _, n := range c.nodes {
			cnt[n]++
		}
		for _, n := range sorted {
			cnt[n]--
		}
		for _, v := range cnt {
			if v != 0 {
				sum.mismatch(Mismatch{Property: "C19", Case: render(id, c.keys, c.nodes, c.errs), Expected: "a permutation of the input", Observed: "elements lost or duplicated"})
				break
			}
		}
		var less strings.Builder
		for i := range sorted {
			for j := range sorted {
				if ms.Less(i, j) {
					less.WriteByte('1')
				} else {
					less.WriteByte('0')
				}
			}
		}
		var pj []string
		for _, n := range sorted {
			var t []string
			for _, k := range c.keys {
				switch k {
				case "ID":
					t = append(t, strconv.Itoa(int(n.ID())))
				case "Port":
					t = append(t, strconv.Itoa(port(n)))
				default:
					if c.errs[n] {
						t = append(t, "1")
					} else {
						t = append(t, "0")
					}
				}
			}
			pj = append(pj, strings.Join(t, "/"))
		}
		l, p := less.String(), strings.Join(pj, ";")
		if l == "" {
			l = "-"
		}
		if p == "" {
			p = "-"
		}
		results = append(results, done{line: render(id, c.keys, sorted, c.errs), less: l, proj: p, c: c})
		// statistics
		ties := false
		for i := range sorted {
			for j := range sorted {
				if i != j && !fns[0](sorted[i], sorted[j]) && !fns[0](sorted[j], sorted[i]) {
					ties = true
				}
			}
		}
		sum.count("keys:" + strings.Join(c.keys, ","))
		sum.count(fmt.Sprintf("len:%d0s", ln/10))
		if ties {
			sum.nontrivial(fmt.Sprintf("%s/%d/%v", strings.Join(c.keys, ","), ln/10, perr > 0 && perr < 1))
		}
	}
	if cf.replay != "" {
		results = nil
		for _, l := range lines {
			results = append(results, done{line: l})
		}
	}
	var ls []string
	for _, d := range results {
		ls = append(ls, d.line)
	}
	exp, err := askDriver(cf.driver, "sort", ls)
	if err != nil {
		fatal(err)
	}
	for _, d := range results {
		id := ""
		for _, f := range strings.Fields(d.line) {
			if strings.HasPrefix(f, "id=") {
				id = f[3:]
			}
		}
		e := exp[id]
		if cf.replay != "" {
			fmt.Println(d.line, "=>", e)
			continue
		}
		obs := "less=" + d.less + " proj=" + d.proj
		if e != obs {
			sum.mismatch(Mismatch{Property: "C19", Case: d.line, Expected: e, Observed: obs,
				Detail: "line lists the nodes in the order the real Sort produced; less = MultiSorter.Less(i,j) row-major; proj = key tuples in output order (model: its own sort of the same nodes)"})
		}
		sum.sample(d.line + " => " + e)
	}
	sum.Cases = len(results)
	sum.finish(start, cf.out)
}
