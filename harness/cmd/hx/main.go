// hx — the behavioural harness (tier T3 of DESIGN.md): drives the real gorums
// implementation in /repo's working tree, asks the Lean driver what the model
// predicts for the same cases, compares, and writes a JSON summary.
package main

import (
	"bufio"
	"encoding/json"
	"flag"
	"fmt"
	"io"
	"math/rand"
	"os"
	"os/exec"
	"sort"
	"strings"
	"sync"
	"time"
)

// Summary is what every engine reports.
type Summary struct {
	Engine      string         `json:"engine"`
	Seed        int64          `json:"seed"`
	Cases       int            `json:"cases"`
	Distinct    int            `json:"distinct_nontrivial"`
	Rule        string         `json:"rule"`
	Dist        map[string]int `json:"distribution"`
	Samples     []string       `json:"samples"`
	Mismatches  []Mismatch     `json:"mismatches"`
	Known       []string       `json:"known_findings_hit"`
	Notes       []string       `json:"notes"`
	WallSeconds float64        `json:"wall_s"`
}

// Mismatch is one disagreement between model and implementation, or one
// violated oracle.
type Mismatch struct {
	Property string `json:"property"`
	Case     string `json:"case"`
	Expected string `json:"expected"`
	Observed string `json:"observed"`
	Detail   string `json:"detail,omitempty"`
}

type sumT struct {
	mu sync.Mutex
	Summary
	distinct map[string]bool
}

func newSum(engine string, seed int64, rule string) *sumT {
	return &sumT{Summary: Summary{Engine: engine, Seed: seed, Rule: rule, Dist: map[string]int{}}, distinct: map[string]bool{}}
}

func (s *sumT) count(k string) {
	s.mu.Lock()
	s.Dist[k]++
	s.mu.Unlock()
}

func (s *sumT) nontrivial(k string) {
	s.mu.Lock()
	s.distinct[k] = true
	s.mu.Unlock()
}

func (s *sumT) sample(c string) {
	s.mu.Lock()
	if len(s.Samples) < 8 {
		s.Samples = append(s.Samples, c)
	}
	s.mu.Unlock()
}

func (s *sumT) mismatch(m Mismatch) {
	s.mu.Lock()
	if len(s.Mismatches) < 50 {
		s.Mismatches = append(s.Mismatches, m)
	}
	s.mu.Unlock()
}

// tooMany reports whether enough disagreements have been collected to stop the run early.
func (s *sumT) tooMany() bool {
	s.mu.Lock()
	defer s.mu.Unlock()
	return len(s.Mismatches) >= 24
}

func (s *sumT) note(f string, a ...any) {
	s.mu.Lock()
	if len(s.Notes) < 40 {
		s.Notes = append(s.Notes, fmt.Sprintf(f, a...))
	}
	s.mu.Unlock()
}

func (s *sumT) known(k string) {
	s.mu.Lock()
	for _, x := range s.Known {
		if x == k {
			s.mu.Unlock()
			return
		}
	}
	s.Known = append(s.Known, k)
	s.mu.Unlock()
}

func (s *sumT) finish(start time.Time, out string) {
	s.mu.Lock()
	defer s.mu.Unlock()
	s.Distinct = len(s.distinct)
	s.WallSeconds = time.Since(start).Seconds()
	sort.Strings(s.Known)
	b, _ := json.MarshalIndent(s.Summary, "", " ")
	if out == "" || out == "-" {
		os.Stdout.Write(b)
		fmt.Println()
		return
	}
	if err := os.WriteFile(out, b, 0o644); err != nil {
		fmt.Fprintln(os.Stderr, "hx:", err)
		os.Exit(2)
	}
}

// askDriver pipes the case lines to the Lean driver and returns id -> expectation line.
func askDriver(driver string, engine string, lines []string) (map[string]string, error) {
	parts := strings.Fields(driver)
	cmd := exec.Command(parts[0], append(parts[1:], engine)...)
	in, err := cmd.StdinPipe()
	if err != nil {
		return nil, err
	}
	outp, err := cmd.StdoutPipe()
	if err != nil {
		return nil, err
	}
	cmd.Stderr = os.Stderr
	if err := cmd.Start(); err != nil {
		return nil, err
	}
	go func() {
		w := bufio.NewWriter(in)
		for _, l := range lines {
			w.WriteString(l)
			w.WriteByte('\n')
		}
		w.Flush()
		in.Close()
	}()
	res := map[string]string{}
	r := bufio.NewReaderSize(outp, 1<<20)
	for {
		l, err := r.ReadString('\n')
		l = strings.TrimSpace(l)
		if l != "" {
			// "id=<n> …"
			f := strings.SplitN(l, " ", 2)
			if strings.HasPrefix(f[0], "id=") && len(f) == 2 {
				res[strings.TrimPrefix(f[0], "id=")] = f[1]
			} else {
				res["?"+l] = l
			}
		}
		if err == io.EOF {
			break
		}
		if err != nil {
			return nil, err
		}
	}
	if err := cmd.Wait(); err != nil {
		return nil, fmt.Errorf("driver: %w", err)
	}
	return res, nil
}

var engines = map[string]func(args []string){}

func main() {
	if len(os.Args) < 2 {
		names := []string{}
		for n := range engines {
			names = append(names, n)
		}
		sort.Strings(names)
		fmt.Fprintln(os.Stderr, "usage: hx <engine> [flags]; engines:", strings.Join(names, " "))
		os.Exit(2)
	}
	e, ok := engines[os.Args[1]]
	if !ok {
		fmt.Fprintln(os.Stderr, "hx: unknown engine", os.Args[1])
		os.Exit(2)
	}
	e(os.Args[2:])
}

// common flags
type common struct {
	seed   int64
	count  int
	shards int
	driver string
	out    string
	replay string
	tier   string
}

// throttlePorts waits while too many loopback sockets sit in TIME_WAIT: engines that create a cluster and several
// connections per case, hundreds of cases per second, would otherwise run out of ephemeral ports in long runs
// (connections then fail for reasons that have nothing to do with the library).
func throttlePorts() {
	for i := 0; i < 120; i++ {
		b, err := os.ReadFile("/proc/net/tcp")
		if err != nil {
			return
		}
		n := 0
		for _, l := range strings.Split(string(b), "\n") {
			f := strings.Fields(l)
			if len(f) > 3 && f[3] == "06" {
				n++
			}
		}
		if n < 12000 {
			return
		}
		time.Sleep(time.Second)
	}
}

func commonFlags(name string, args []string, extra func(fs *flag.FlagSet)) common {
	var c common
	fs := flag.NewFlagSet(name, flag.ExitOnError)
	fs.Int64Var(&c.seed, "seed", 1, "PRNG seed")
	fs.IntVar(&c.count, "count", 200, "number of cases")
	fs.IntVar(&c.shards, "shards", 8, "parallel shards")
	fs.StringVar(&c.driver, "driver", "/verif/lean/.lake/build/bin/driver", "Lean driver command")
	fs.StringVar(&c.out, "out", "-", "summary JSON path")
	fs.StringVar(&c.replay, "replay", "", "file with case lines to run instead of generating")
	fs.StringVar(&c.tier, "tier", "quick", "quick|thorough")
	if extra != nil {
		extra(fs)
	}
	fs.Parse(args)
	return c
}

func rng(seed int64, salt string) *rand.Rand {
	h := int64(1469598103934665603)
	for _, b := range []byte(salt) {
		h = (h ^ int64(b)) * 1099511628211
	}
	return rand.New(rand.NewSource(seed*7919 + h))
}

func readLines(path string) []string {
	b, err := os.ReadFile(path)
	if err != nil {
		fmt.Fprintln(os.Stderr, "hx:", err)
		os.Exit(2)
	}
	var out []string
	for _, l := range strings.Split(string(b), "\n") {
		l = strings.TrimSpace(l)
		if l != "" && !strings.HasPrefix(l, "#") {
			out = append(out, l)
		}
	}
	return out
}
