package main

// Wedge diagnoser (DESIGN.md 3.4): when an operation that should take milliseconds has
// not happened within seconds, the goroutine dump is reduced to signatures of blocked
// library goroutines.  Two signatures are the known findings of C09; engines that trip
// over them report the finding (for C09's check to print) instead of blaming their own
// property, and replace the wedged shard.

import (
	"runtime"
	"strings"
)

type wedge struct {
	id   string // "" = no known wedge
	dump string
}

func goroutineDump() string {
	buf := make([]byte, 1<<20)
	for {
		n := runtime.Stack(buf, true)
		if n < len(buf) {
			return string(buf[:n])
		}
		buf = make([]byte, 2*len(buf))
	}
}

// libraryBlocks returns the goroutine blocks of the dump that contain a gorums library frame.
func libraryBlocks(dump string) []string {
	var out []string
	for _, b := range strings.Split(dump, "\n\n") {
		if strings.Contains(b, "github.com/relab/gorums.") {
			out = append(out, b)
		}
	}
	return out
}

// signatures reduces the dump to (innermost library function @ blocking primitive) strings.
func signatures(dump string) []string {
	seen := map[string]bool{}
	var out []string
	for _, b := range libraryBlocks(dump) {
		lines := strings.Split(b, "\n")
		state := ""
		if i := strings.Index(lines[0], "["); i >= 0 {
			state = strings.TrimSuffix(lines[0][i+1:], "]:")
			if j := strings.Index(state, ","); j >= 0 {
				state = state[:j]
			}
		}
		fn := ""
		for _, l := range lines[1:] {
			if strings.HasPrefix(l, "github.com/relab/gorums.") && !strings.Contains(l, "cmd/protoc-gen-gorums/dev.") {
				fn = strings.TrimPrefix(l, "github.com/relab/gorums.")
				if k := strings.Index(fn, "("); k > 0 && !strings.HasPrefix(fn, "(") {
					fn = fn[:k]
				} else if strings.HasPrefix(fn, "(") {
					if k := strings.LastIndex(fn, "("); k > 0 {
						fn = fn[:k]
					}
				}
				break
			}
		}
		s := fn + " @ " + state
		if !seen[s] {
			seen[s] = true
			out = append(out, s)
		}
	}
	return out
}

// diagnose classifies the current goroutine dump.
func diagnose() wedge {
	dump := goroutineDump()
	senderAtLock, receiverInRecv, routerSend := false, false, false
	for _, b := range libraryBlocks(dump) {
		if strings.Contains(b, "gorums.(*channel).reconnect") && strings.Contains(b, "sync.(*RWMutex).Lock") && strings.Contains(b, "gorums.(*channel).connect") {
			senderAtLock = true
		}
		if strings.Contains(b, "gorums.(*channel).receiver") && strings.Contains(b, "RecvMsg") {
			receiverInRecv = true
		}
		if (strings.Contains(b, "gorums.(*channel).routeResponse") || strings.Contains(b, "gorums.(*channel).cancelPendingMsgs")) && strings.Contains(b, "[chan send") {
			routerSend = true
		}
	}
	switch {
	case routerSend:
		return wedge{"stream-backpressure", dump}
	case senderAtLock && receiverInRecv:
		return wedge{"stale-broken", dump}
	}
	return wedge{"", dump}
}
