package main

// Engine reconn — "nodes that come back are used again; each connection carries
// metadata" (C10).  Scenario = a manager with a given back-off configuration, general and
// per-node metadata, some nodes down at creation; a sequence of stop / start events on
// subsets of nodes interleaved with calls.  Oracles: a node whose server listens again is
// contacted again by subsequent calls without recreating the manager or configuration;
// once the restarted server has handled a call's request and sent its reply the call
// returns promptly — with a long back-off base delay a wait for a reconnection timer is
// unmistakable; every accepted stream shows the general and the per-node metadata and
// exactly one connect callback.

import (
	"context"
	"fmt"
	"math/rand"
	"os"
	"strings"
	"sync"
	"time"

	"verifhx/puppet"

	"github.com/relab/gorums"
	"github.com/relab/gorums/cmd/protoc-gen-gorums/dev"
	"google.golang.org/grpc"
	"google.golang.org/grpc/backoff"
	"google.golang.org/grpc/credentials/insecure"
	"google.golang.org/grpc/metadata"
)

func init() { engines["reconn"] = reconnMain }

func reconnMain(args []string) {
	cf := commonFlags("reconn", args, nil)
	start := time.Now()
	sum := newSum("reconn", cf.seed, "scenarios = (back-off in {base 1.5 s, base 30 ms}) x (0..1 node down at creation) x 1..3 rounds of (stop a node, calls, restart it, calls of {rpc, quorum call, multicast}); "+
		"one evaluation = one call after a restart or one accepted stream; distinct non-trivial = distinct (back-off, down at creation, call kind, outcome class) tuples")
	r := rng(cf.seed, "reconn")
	seeds := make(chan int64, cf.count)
	for i := 0; i < cf.count; i++ {
		seeds <- r.Int63()
	}
	close(seeds)
	shards := cf.shards
	if shards > 8 {
		shards = 8
	}
	if shards > cf.count {
		shards = cf.count
	}
	var wg sync.WaitGroup
	var mu sync.Mutex
	evals := 0
	if cf.replay == "" {
		// first: the goroutine diagnoser looks at the whole process
		evals += outageScenario(sum)
	}
	for s := 0; s < shards; s++ {
		wg.Add(1)
		go func() {
			defer wg.Done()
			for seed := range seeds {
				if sum.tooMany() {
					continue
				}
				n := reconnScenario(rand.New(rand.NewSource(seed)), sum)
				mu.Lock()
				evals += n
				mu.Unlock()
			}
		}()
	}
	wg.Wait()
	sum.Cases = evals
	sum.finish(start, cf.out)
}

func reconnScenario(r *rand.Rand, sum *sumT) int {
	n := 3
	longBackoff := r.Intn(2) == 0
	bo := backoff.Config{BaseDelay: 30 * time.Millisecond, Multiplier: 1, Jitter: 0, MaxDelay: 30 * time.Millisecond}
	if longBackoff {
		bo = backoff.Config{BaseDelay: 1500 * time.Millisecond, Multiplier: 1, Jitter: 0, MaxDelay: 1500 * time.Millisecond}
	}
	cl, err := puppet.NewCluster(n)
	if err != nil {
		fatal(err)
	}
	defer cl.Close()
	downAtCreation := -1
	if r.Intn(2) == 0 {
		downAtCreation = r.Intn(n)
		cl.Stop(downAtCreation)
	}
	qs := &puppet.QSpec{}
	need := 2
	qs.F = func(method, req string, replies map[uint32]int64) (int64, int, bool, bool) {
		return 0, len(replies), len(replies) >= need, true
	}
	mgr := dev.NewManager(gorums.WithDialTimeout(time.Second), gorums.WithBackoff(bo),
		gorums.WithGrpcDialOptions(grpc.WithTransportCredentials(insecure.NewCredentials())),
		gorums.WithMetadata(metadata.Pairs("general", "g1")),
		gorums.WithPerNodeMetadata(func(id uint32) metadata.MD { return metadata.Pairs("pernode", fmt.Sprint("n", id)) }))
	defer func() { go mgr.Close() }()
	m := map[string]uint32{}
	for i, a := range cl.Addrs {
		m[a] = uint32(i + 1)
	}
	cfg, err := mgr.NewConfiguration(qs, gorums.WithNodeMap(m))
	if err != nil {
		fatal(err)
	}
	nodeOf := func(i int) *dev.Node {
		for _, nd := range cfg.Nodes() {
			if nd.ID() == uint32(i+1) {
				return nd
			}
		}
		return nil
	}
	// handlers record when they have produced their reply
	var hmu sync.Mutex
	handledAt := map[string]time.Time{}
	cl.D.KeepLog = false
	cl.D.Default = func(server int, method, val string) *puppet.Script {
		s := puppet.NewScript()
		s.Action = puppet.Reply
		s.Release = "early"
		hmu.Lock()
		handledAt[fmt.Sprint(server, "/", puppet.Token(val))] = time.Now()
		hmu.Unlock()
		return s
	}
	caseS := fmt.Sprintf("reconn backoff=%v down-at-creation=%d", bo.BaseDelay, downAtCreation)
	evals := 0
	known := func(id string) { sum.known("C10:" + id) }
	// contact(i): calls until node i has answered one; measures the delay between "handler replied" and "call returned"
	serial := 0
	contact := func(i int, kind string, phase string) {
		evals++
		node := nodeOf(i)
		deadline := time.Now().Add(8 * time.Second)
		attempts := 0
		for time.Now().Before(deadline) {
			attempts++
			serial++
			tok := fmt.Sprintf("r%d", serial)
			ctx, cancel := context.WithTimeout(context.Background(), 5*time.Second)
			t0 := time.Now()
			var err error
			done := make(chan struct{})
			go func() {
				defer close(done)
				defer func() { recover() }()
				switch kind {
				case "rpc":
					_, err = node.GRPCCall(ctx, &dev.Request{Value: tok + "|x"})
				case "qc":
					need = n
					_, err = cfg.QuorumCall(ctx, &dev.Request{Value: tok + "|x"})
				case "mcast":
					cfg.Multicast(ctx, &dev.Request{Value: tok + "|x"})
				}
			}()
			// while waiting: if the restarted server has replied and the call is still waiting 1.5 s later, keep the
			// goroutine signatures of that moment for the report
			lateDetail, lateWedge := "", ""
			tick := time.NewTicker(100 * time.Millisecond)
			stuckAt := time.Now().Add(6 * time.Second)
		wait:
			for {
				select {
				case <-done:
					break wait
				case <-tick.C:
					if lateDetail == "" {
						hmu.Lock()
						h, ok := handledAt[fmt.Sprint(i, "/", tok)]
						hmu.Unlock()
						if ok && time.Since(h) > 1500*time.Millisecond {
							w := diagnose()
							lateWedge = w.id
							lateDetail = "kind=" + kind + "; " + strings.Join(signatures(w.dump), "; ")
							if os.Getenv("HX_DEBUG") != "" {
								for _, b := range libraryBlocks(goroutineDump()) {
									fmt.Fprintln(os.Stderr, b)
								}
							}
						}
					}
					if time.Now().After(stuckAt) {
						break wait
					}
				}
			}
			tick.Stop()
			select {
			case <-done:
			default:
				cancel()
				if w := diagnose(); w.id != "" {
					sum.known("C09:" + w.id)
				} else {
					sum.mismatch(Mismatch{Property: "C10", Case: caseS + " " + phase, Expected: "call returns", Observed: "stuck for 6 s although its context has a 5 s deadline", Detail: strings.Join(signatures(w.dump), "; ")})
				}
				sum.nontrivial(fmt.Sprintf("%v/%d/%s/stuck", longBackoff, downAtCreation, kind))
				return
			}
			cancel()
			ret := time.Now()
			hmu.Lock()
			h, handled := handledAt[fmt.Sprint(i, "/", tok)]
			hmu.Unlock()
			if kind == "mcast" {
				if !handled {
					// one-way: wait a little for the delivery
					waitFor(300*time.Millisecond, func() bool {
						hmu.Lock()
						defer hmu.Unlock()
						_, ok := handledAt[fmt.Sprint(i, "/", tok)]
						return ok
					})
					hmu.Lock()
					_, handled = handledAt[fmt.Sprint(i, "/", tok)]
					hmu.Unlock()
				}
				if handled {
					sum.nontrivial(fmt.Sprintf("%v/%d/%s/delivered-after-%d", longBackoff, downAtCreation, kind, min(attempts, 3)))
					return
				}
				time.Sleep(20 * time.Millisecond)
				continue
			}
			if handled {
				lag := ret.Sub(h)
				class := "prompt"
				if err != nil && kind == "rpc" {
					// the restarted server handled the request and sent its reply, nothing failed afterwards,
					// and yet the call reports an error: the reply was thrown away
					class = "handled-but-error"
					sum.mismatch(Mismatch{Property: "C10", Case: caseS + " " + phase, Expected: "the call receives the reply the restarted server has sent", Observed: "error: " + strings.ReplaceAll(err.Error(), "\n", "/"), Detail: lateDetail})
				} else if err != nil {
					class = "handled-but-error-elsewhere" // a quorum call: another node may have failed
				}
				if lag > time.Second && lateWedge != "" {
					// another node of the configuration sits in a known wedge: the call was held up handing its
					// request to that node, not waiting for this node's reply
					class = "held-up-by-known-wedge"
					sum.known("C09:" + lateWedge)
				} else if lag > time.Second {
					class = "waited-for-timer"
					if longBackoff {
						// the reply was written by the restarted server and was read only when a back-off timer fired
						known("reply-waits-for-backoff-timer")
					} else {
						sum.mismatch(Mismatch{Property: "C10", Case: caseS + " " + phase, Expected: "the call returns promptly once the restarted server has replied", Observed: fmt.Sprintf("returned %v after the handler replied (call took %v)", lag, ret.Sub(t0)), Detail: lateDetail})
					}
				}
				sum.nontrivial(fmt.Sprintf("%v/%d/%s/%s", longBackoff, downAtCreation, kind, class))
				sum.count("after-restart:" + class)
				return
			}
			time.Sleep(20 * time.Millisecond)
		}
		if w := diagnose(); w.id != "" {
			sum.known("C09:" + w.id)
			return
		}
		sum.mismatch(Mismatch{Property: "C10", Case: caseS + " " + phase, Expected: fmt.Sprintf("node %d is contacted again by subsequent calls", i+1), Observed: fmt.Sprintf("%d calls in 8 s never reached its server", attempts), Detail: strings.Join(signatures(goroutineDump()), "; ")})
	}
	kinds := []string{"rpc", "qc", "mcast"}
	if downAtCreation >= 0 {
		// the calls issued while it is down fail fast for that node
		ctx, cancel := context.WithTimeout(context.Background(), time.Second)
		nodeOf(downAtCreation).GRPCCall(ctx, &dev.Request{Value: "down|x"})
		cancel()
		if err := cl.Restart(downAtCreation); err != nil {
			fatal(err)
		}
		contact(downAtCreation, kinds[r.Intn(3)], "node down at creation, then started")
	}
	rounds := 1 + r.Intn(3)
	for k := 0; k < rounds; k++ {
		v := r.Intn(n)
		cl.Stop(v)
		outage := time.Duration(5+r.Intn(60)) * time.Millisecond
		// calls during the outage
		ctx, cancel := context.WithTimeout(context.Background(), 500*time.Millisecond)
		need = 2
		func() {
			defer func() { recover() }()
			cfg.QuorumCall(ctx, &dev.Request{Value: "out|x"})
			nodeOf(v).GRPCCall(ctx, &dev.Request{Value: "out|x"})
		}()
		cancel()
		time.Sleep(outage)
		if err := cl.Restart(v); err != nil {
			fatal(err)
		}
		contact(v, kinds[r.Intn(3)], fmt.Sprintf("round %d: node %d stopped for %v, restarted", k, v+1, outage))
		// and the other nodes still work
		for i := 0; i < n; i++ {
			if i != v && !probe(nodeOf(i), 2*time.Second) {
				if w := diagnose(); w.id != "" {
					sum.known("C09:" + w.id)
				} else {
					sum.mismatch(Mismatch{Property: "C10", Case: caseS, Expected: fmt.Sprintf("node %d (never stopped) keeps working", i+1), Observed: "probe failed"})
				}
			}
		}
	}
	// metadata and callbacks per accepted stream
	for conn, st := range cl.D.Streams() {
		evals++
		wantPN := fmt.Sprint("n", st.Server+1)
		g, pn := st.MD["general"], st.MD["pernode"]
		if st.Callbacks != 1 {
			sum.mismatch(Mismatch{Property: "C10", Case: caseS, Expected: "exactly one connect callback per accepted stream", Observed: fmt.Sprintf("%d callbacks on stream %d of server %d", st.Callbacks, conn, st.Server+1)})
		} else if len(g) != 1 || g[0] != "g1" || len(pn) != 1 || pn[0] != wantPN {
			sum.mismatch(Mismatch{Property: "C10", Case: caseS, Expected: fmt.Sprintf("stream of server %d carries general=[g1] pernode=[%s]", st.Server+1, wantPN), Observed: fmt.Sprintf("general=%v pernode=%v", g, pn)})
		}
		sum.count("streams-checked")
	}
	sum.sample(caseS + fmt.Sprintf(" rounds=%d evals=%d", rounds, evals))
	return evals
}
