package main

// Engine xtalk — cross-talk and residue under concurrency (C05, C18).  Many goroutines
// issue calls of every kind on overlapping configurations of ONE manager against servers
// whose replies are delayed, often past the caller's deadline, so that replies arrive
// long after their call has returned.  Every reply carries a stamp (call serial, server);
// oracles: every entry of every reply set shown to a quorum function, and every value
// returned by a call, carries the stamp of *that* call and of the node it is filed under;
// at most one reply per node and call; after quiescence no router and no call goroutine
// is left.  The run is summarised per call kind; there is no Lean prediction here beyond
// the invariants of `Chan` (the oracles are their observable form).

import (
	"context"
	"fmt"
	"math/rand"
	"runtime"
	"strconv"
	"strings"
	"sync"
	"sync/atomic"
	"time"

	"verifhx/puppet"

	"github.com/relab/gorums"
	"github.com/relab/gorums/cmd/protoc-gen-gorums/dev"
)

func init() { engines["xtalk"] = xtalkMain }

func xtalkMain(args []string) {
	cf := commonFlags("xtalk", args, nil)
	start := time.Now()
	sum := newSum("xtalk", cf.seed, "rounds of concurrent mixed calls (RPC, quorum call, async, correctable, stream, multicast, unicast) from 8..32 goroutines over overlapping configurations of one manager, "+
		"server delays 0..10 ms against deadlines 2..8 ms (late replies), occasional cancellations; one evaluation = one call; "+
		"distinct non-trivial = distinct (call kind, outcome class, late reply pending at return) tuples")
	r := rng(cf.seed, "xtalk")
	rounds := 1 + cf.count/400
	var total int64
	for round := 0; round < rounds && !sum.tooMany(); round++ {
		xtalkRound(round, rand.New(rand.NewSource(r.Int63())), cf.count/rounds, sum, &total)
	}
	if !sum.tooMany() {
		stragglerRound(rand.New(rand.NewSource(r.Int63())), sum, &total)
	}
	sum.Cases = int(total)
	sum.finish(start, cf.out)
}

func libraryGoroutines() (n int, sigs []string) {
	d := goroutineDump()
	return len(libraryBlocks(d)), signatures(d)
}

func xtalkRound(round int, r *rand.Rand, calls int, sum *sumT, total *int64) {
	n := 4 + r.Intn(3)
	sh, err := newShard(n)
	if err != nil {
		fatal(err)
	}
	defer sh.close()
	var hmu sync.Mutex
	hr := rand.New(rand.NewSource(r.Int63()))
	sh.cl.D.KeepLog = false
	var handled int64
	sh.cl.D.Default = func(server int, method, val string) *puppet.Script {
		atomic.AddInt64(&handled, 1)
		s := puppet.NewScript()
		s.Action = puppet.Reply
		ser, _ := strconv.ParseInt(strings.TrimPrefix(puppet.Token(val), "x"), 10, 64)
		s.Value = ser*16 + int64(server)
		s.Release = "early"
		hmu.Lock()
		d := time.Duration(hr.Intn(10000)) * time.Microsecond
		if hr.Intn(3) == 0 {
			d = 0
		}
		st := hr.Intn(3)
		hmu.Unlock()
		if d > 0 {
			g := make(chan struct{})
			s.Gate = g
			time.AfterFunc(d, func() { close(g) })
		}
		_ = st
		if puppet.Info[method].Kind == "stream" {
			// exactly one message per node: more would let an early-completing call overflow its reply
			// channel, which is the trigger of the known finding C09/stream-backpressure (exercised by
			// engine wedge, kept out of this general workload so that its oracles stay sharp)
			s.Stream = append(s.Stream, puppet.StreamStep{Value: s.Value})
		}
		return s
	}
	// baseline of library goroutines (sender + receiver per node, server streams)
	time.Sleep(20 * time.Millisecond)
	base, _ := libraryGoroutines()
	conn0 := make([]int, n)
	for i := range conn0 {
		conn0[i] = sh.cl.D.ConnectCount(i)
	}
	// overlapping configurations
	var cfgs []*dev.Configuration
	for i := 0; i < 6; i++ {
		var ids []uint32
		for k := 0; k < n; k++ {
			if r.Intn(3) != 0 {
				ids = append(ids, uint32(k+1))
			}
		}
		if len(ids) < 2 {
			ids = []uint32{uint32(1 + i%n), uint32(1 + (i+1)%n)}
		}
		c, err := sh.config(ids)
		if err != nil {
			fatal(err)
		}
		cfgs = append(cfgs, c)
	}
	// the quorum function checks the stamps of everything it is shown
	var serial int64
	check := func(kind string, ser int64, nid uint32, v int64, where string) {
		if v/16 != ser || v%16 != int64(nid-1) {
			sum.mismatch(Mismatch{Property: "C05", Case: fmt.Sprintf("xtalk round=%d kind=%s call=%d", round, kind, ser),
				Expected: fmt.Sprintf("reply of call %d from node %d", ser, nid), Observed: fmt.Sprintf("reply stamped call=%d server=%d filed under node %d (%s)", v/16, v%16+1, nid, where)})
		}
	}
	sh.qs.F = func(method, req string, replies map[uint32]int64) (int64, int, bool, bool) {
		ser, _ := strconv.ParseInt(strings.TrimPrefix(puppet.Token(req), "x"), 10, 64)
		need := 1
		if i := strings.LastIndex(req, "|q"); i >= 0 {
			need, _ = strconv.Atoi(req[i+2:])
		}
		var first int64
		for nid, v := range replies {
			check(method, ser, nid, v, "quorum function")
			first = v
		}
		return first, len(replies), len(replies) >= need, true
	}
	// server-stream calls are left out of this workload: a streaming router that is hit by a stream failure while
	// its call is ending is the trigger of the known finding C09/stream-backpressure (engine wedge exercises it;
	// engine corr checks the stamps of stream replies)
	kinds := []string{"rpc", "rpc", "qc", "qc", "async", "corr", "mcast", "ucast"}
	g := 8 + r.Intn(25)
	var wg sync.WaitGroup
	perG := calls / g
	if perG < 1 {
		perG = 1
	}
	seeds := make([]int64, g)
	for i := range seeds {
		seeds[i] = r.Int63()
	}
	for gi := 0; gi < g; gi++ {
		wg.Add(1)
		go func(gi int) {
			defer wg.Done()
			gr := rand.New(rand.NewSource(seeds[gi]))
			defer func() {
				// a reply of the wrong type delivered to a call makes the generated stub's type assertion panic
				if p := recover(); p != nil {
					sum.mismatch(Mismatch{Property: "C05", Case: fmt.Sprintf("xtalk round=%d goroutine=%d", round, gi), Expected: "calls return", Observed: fmt.Sprint("panic: ", p)})
				}
			}()
			for k := 0; k < perG; k++ {
				atomic.AddInt64(total, 1)
				ser := atomic.AddInt64(&serial, 1)
				kind := kinds[gr.Intn(len(kinds))]
				cfg := cfgs[gr.Intn(len(cfgs))]
				ids := cfg.NodeIDs()
				quorum := 1 + gr.Intn(len(ids))
				// deadlines are long enough that they seldom expire while the request is being written (which makes the
				// library cancel the node's stream: the trigger of the known finding C09/stale-broken), and short
				// enough that many replies arrive after their call has returned
				timeout := time.Duration(2000+gr.Intn(6000)) * time.Microsecond
				if gr.Intn(4) == 0 {
					timeout = time.Second
				}
				ctx, cancel := context.WithTimeout(context.Background(), timeout)
				if gr.Intn(30) == 0 {
					time.AfterFunc(time.Duration(500+gr.Intn(3000))*time.Microsecond, cancel)
				}
				req := &dev.Request{Value: fmt.Sprintf("x%d|%s|q%d", ser, kind, quorum)}
				outcome := "ok"
				switch kind {
				case "rpc":
					node := sh.node(ids[gr.Intn(len(ids))])
					resp, err := node.GRPCCall(ctx, req)
					if err != nil {
						outcome = "err"
					} else {
						check(kind, ser, node.ID(), resp.GetResult(), "RPC result")
					}
				case "qc":
					resp, err := cfg.QuorumCall(ctx, req)
					if err != nil {
						outcome = "err"
					} else if resp.GetResult()/16 != ser {
						check(kind, ser, uint32(resp.GetResult()%16+1), resp.GetResult(), "quorum call result")
					}
				case "async":
					f := cfg.QuorumCallAsync(ctx, req)
					resp, err := f.Get()
					if err != nil {
						outcome = "err"
					} else if resp.GetResult()/16 != ser {
						check(kind, ser, uint32(resp.GetResult()%16+1), resp.GetResult(), "future result")
					}
				case "corr":
					c := cfg.Correctable(ctx, req)
					<-c.Done()
					if resp, _, err := c.Get(); err != nil {
						outcome = "err"
					} else if resp != nil && resp.GetResult()/16 != ser {
						check(kind, ser, uint32(resp.GetResult()%16+1), resp.GetResult(), "correctable result")
					}
				case "stream":
					c := cfg.CorrectableStream(ctx, req)
					<-c.Done()
					if resp, _, err := c.Get(); err != nil {
						outcome = "err"
					} else if resp != nil && resp.GetResult()/16 != ser {
						check(kind, ser, uint32(resp.GetResult()%16+1), resp.GetResult(), "stream result")
					}
				case "mcast":
					if gr.Intn(2) == 0 {
						cfg.Multicast(ctx, req)
					} else {
						cfg.Multicast(ctx, req, gorums.WithNoSendWaiting())
					}
				case "ucast":
					node := sh.node(ids[gr.Intn(len(ids))])
					if gr.Intn(2) == 0 {
						node.Unicast(ctx, req)
					} else {
						node.Unicast(ctx, req, gorums.WithNoSendWaiting())
					}
				}
				late := ctx.Err() != nil
				cancel()
				sum.count("kind:" + kind + ":" + outcome)
				sum.nontrivial(fmt.Sprintf("%s/%s/%v", kind, outcome, late))
			}
		}(gi)
	}
	fin := make(chan struct{})
	go func() { wg.Wait(); close(fin) }()
	deadline := time.After(20 * time.Second)
	tick := time.NewTicker(time.Second)
	defer tick.Stop()
	seen := 0
wait:
	for {
		select {
		case <-fin:
			break wait
		case <-tick.C:
			// all deadlines are at most 1 s: after a few seconds a known wedge signature that persists is the verdict
			if w := diagnose(); w.id != "" {
				seen++
				if seen >= 3 {
					sum.known("C09:" + w.id)
					sum.count("round-discarded-after-known-wedge:" + w.id)
					return
				}
			} else {
				seen = 0
			}
		case <-deadline:
			w := diagnose()
			if w.id != "" {
				sum.known("C09:" + w.id)
				sum.count("round-discarded-after-known-wedge:" + w.id)
				return
			}
			sum.mismatch(Mismatch{Property: "C08", Case: fmt.Sprintf("xtalk round=%d", round), Expected: "every call returns once its deadline has passed", Observed: "calls still running after 20s", Detail: strings.Join(signatures(w.dump), "; ")})
			return
		}
	}
	// quiescence: every targeted node has answered (handlers are done, late replies have arrived)
	residueOK := waitFor(6*time.Second, func() bool {
		for _, nd := range sh.all.Nodes() {
			if routers(nd) != 0 {
				return false
			}
		}
		return true
	})
	if !residueOK {
		if w := diagnose(); w.id != "" {
			sum.known("C09:" + w.id)
			sum.count("round-discarded-after-known-wedge:" + w.id)
			return
		}
		var l []string
		unexplained := false
		for i, nd := range sh.all.Nodes() {
			l = append(l, fmt.Sprintf("node %d: %d", nd.ID(), routers(nd)))
			if routers(nd) > 0 && sh.cl.D.ConnectCount(i) == conn0[i] {
				unexplained = true
			}
		}
		if !unexplained {
			// routers are left only on nodes whose stream was cancelled and re-created during the round:
			// a request written to the old stream after its failure had been handled is never answered
			// (known finding C18/router-leak-after-stream-cancel)
			// (defect C18/router-leak-after-stream-cancel, repaired by fix 5e6386a)
			sum.count("residue-after-stream-cancel")
			var d []string
			for _, nd := range sh.all.Nodes() {
				if routers(nd) > 0 {
					est, broken := gorums.VerifFlags(nd.RawNode)
					d = append(d, fmt.Sprintf("node %d established=%v broken=%v routers=%v", nd.ID(), est, broken, gorums.VerifRouters(nd.RawNode)))
				}
			}
			sum.mismatch(Mismatch{Property: "C18", Case: fmt.Sprintf("xtalk round=%d calls=%d", round, atomic.LoadInt64(&serial)), Expected: "no router left once every targeted node has answered",
				Observed: "routers left on nodes whose stream was re-created during the round: " + strings.Join(l, ", "), Detail: strings.Join(d, " | ") + " || " + strings.Join(signatures(goroutineDump()), "; ")})
			return
		}
		sum.mismatch(Mismatch{Property: "C18", Case: fmt.Sprintf("xtalk round=%d calls=%d", round, atomic.LoadInt64(&serial)), Expected: "no router left once every targeted node has answered", Observed: strings.Join(l, ", "), Detail: strings.Join(signatures(goroutineDump()), "; ")})
	}
	var now int
	var sigs []string
	gOK := waitFor(4*time.Second, func() bool { runtime.Gosched(); now, sigs = libraryGoroutines(); return now <= base })
	if !gOK {
		sum.mismatch(Mismatch{Property: "C18", Case: fmt.Sprintf("xtalk round=%d calls=%d", round, atomic.LoadInt64(&serial)), Expected: fmt.Sprintf("library goroutines back to the baseline (%d)", base),
			Observed: fmt.Sprintf("%d", now), Detail: strings.Join(sigs, "; ")})
	}
	sum.sample(fmt.Sprintf("round=%d nodes=%d goroutines=%d calls=%d handled=%d base-goroutines=%d", round, n, g, atomic.LoadInt64(&serial), atomic.LoadInt64(&handled), base))
}
