package main

// Engine srv — the server's per-connection handler mutex (C04).  Several client
// connections (managers) talk to one puppet server; on every connection a burst of
// asynchronous calls is issued whose handlers release early / late / twice / from a
// helper goroutine / only by returning, and are let go in a generated order.  The
// per-connection event sequence (enter / release / exit, logged by the handlers) must
// be accepted by the Lean model `SrvConn`; a connection whose handler never releases
// must not delay another connection; every reply must reach its own call.

import (
	"context"
	"fmt"
	"math/rand"
	"sort"
	"strconv"
	"strings"
	"sync"
	"time"

	"verifhx/puppet"

	"github.com/relab/gorums"
	"github.com/relab/gorums/cmd/protoc-gen-gorums/dev"
	"google.golang.org/grpc"
	"google.golang.org/grpc/credentials/insecure"
)

func init() { engines["srv"] = srvMain }

type srvClient struct {
	mgr *dev.Manager
	cfg *dev.Configuration
	qs  *puppet.QSpec
}

func newSrvClient(addr string) (*srvClient, error) {
	c := &srvClient{qs: &puppet.QSpec{}}
	c.qs.F = func(method, req string, replies map[uint32]int64) (int64, int, bool, bool) {
		for _, v := range replies {
			return v, 0, true, true
		}
		return 0, 0, false, true
	}
	c.mgr = dev.NewManager(gorums.WithDialTimeout(2*time.Second), gorums.WithBackoff(fastBackoff()),
		gorums.WithGrpcDialOptions(grpc.WithTransportCredentials(insecure.NewCredentials())))
	var err error
	c.cfg, err = c.mgr.NewConfiguration(c.qs, gorums.WithNodeMap(map[string]uint32{addr: 1}))
	if err != nil {
		return nil, err
	}
	nd := c.cfg.Nodes()[0]
	if !waitFor(15*time.Second, func() bool { return probe(nd, 500*time.Millisecond) }) {
		return nil, fmt.Errorf("server did not become reachable within 15s")
	}
	return c, nil
}

func srvMain(args []string) {
	cf := commonFlags("srv", args, nil)
	start := time.Now()
	sum := newSum("srv", cf.seed, "cases = scripts of 2..7 requests per connection on 1..3 client connections of one server, each handler with a release mode in {on return, early, twice, from a helper goroutine, late}, "+
		"gates opened in a generated order, optionally one connection whose handler never releases; one evaluation = one connection's event trace checked by the Lean acceptor; "+
		"distinct non-trivial = distinct (connections, multiset of release modes, blocked connection present, max unreleased) tuples with at least one early/helper/twice release")
	r := rng(cf.seed, "srv")
	type trace struct {
		id    string
		line  string
		descr string
	}
	var traces []trace
	var mu sync.Mutex
	nextID := 0
	nCases := cf.count
	if cf.replay != "" {
		nCases = 0
		for _, l := range readLines(cf.replay) {
			traces = append(traces, trace{id: strconv.Itoa(nextID), line: l, descr: l})
			nextID++
		}
	}
	shards := cf.shards
	if shards > nCases {
		shards = nCases
	}
	var wg sync.WaitGroup
	seeds := make([]int64, nCases)
	for i := range seeds {
		seeds[i] = r.Int63()
	}
	ch := make(chan int)
	for s := 0; s < shards; s++ {
		wg.Add(1)
		go func() {
			defer wg.Done()
			for caseNo := range ch {
				if sum.tooMany() {
					continue
				}
				cr := rand.New(rand.NewSource(seeds[caseNo]))
				if caseNo%100 == 0 {
					throttlePorts()
				}
				cl, err := puppet.NewCluster(1)
				if err != nil {
					fatal(err)
				}
				nconn := 1 + cr.Intn(3)
				blocked := -1
				if nconn > 1 && cr.Intn(3) == 0 {
					blocked = 0
				}
				var clients []*srvClient
				for i := 0; i < nconn; i++ {
					c, err := newSrvClient(cl.Addrs[0])
					if err != nil {
						fatal(err)
					}
					clients = append(clients, c)
				}
				cl.D.ResetLog()
				modes := []string{"", "early", "twice", "helper", "late", "storm"}
				type reqT struct {
					conn   int
					k      int
					script *puppet.Script
					fut    *dev.AsyncResponse
					mode   string
				}
				var reqs []*reqT
				descr := fmt.Sprintf("case=%d conns=%d blocked=%d", caseNo, nconn, blocked)
				ctx, cancel := context.WithCancel(context.Background())
				for ci, c := range clients {
					n := 2 + cr.Intn(6)
					for k := 1; k <= n; k++ {
						s := puppet.NewScript()
						s.Gate = make(chan struct{})
						s.Action = puppet.Reply
						s.Value = int64(1000*caseNo%1000000 + 100*ci + k)
						s.Release = modes[cr.Intn(len(modes))]
						if ci == blocked {
							s.Release = "" // never releases before it returns, and it returns only at the drain
						}
						tok := fmt.Sprintf("s%d-%d-%d", caseNo, ci, k)
						cl.D.Expect(0, tok, s)
						rq := &reqT{conn: ci, k: k, script: s, mode: s.Release}
						rq.fut = c.cfg.QuorumCallAsync(ctx, &dev.Request{Value: tok + "|" + strconv.Itoa(k)})
						reqs = append(reqs, rq)
						descr += fmt.Sprintf(" c%d.%d:%s", ci, k, s.Release)
					}
				}
				// open the gates in a generated order; the blocked connection's gates stay closed for now
				order := cr.Perm(len(reqs))
				entered := func(s *puppet.Script) bool {
					select {
					case <-s.Entered:
						return true
					default:
						return false
					}
				}
				maxUnreleasedSeen := 0
				checkInvariant := func() {
					// entered − (release or exit logged) per connection
					un := map[int]int{}
					rel := map[string]bool{}
					for _, e := range cl.D.Events() {
						key := fmt.Sprint(e.Conn, "/", e.Value)
						switch e.Phase {
						case "enter":
							un[e.Conn]++
						case "release", "exit":
							if !rel[key] {
								rel[key] = true
								un[e.Conn]--
							}
						}
					}
					for conn, n := range un {
						if n > maxUnreleasedSeen {
							maxUnreleasedSeen = n
						}
						if n > 1 {
							sum.mismatch(Mismatch{Property: "C04", Case: descr, Expected: "at most one handler entered and not released per connection", Observed: fmt.Sprintf("%d on connection %d", n, conn)})
						}
					}
				}
				t0 := time.Now()
				// let the requests reach the server and the handlers that can enter do so
				last, stable := -1, 0
				for stable < 4 {
					n := len(cl.D.Events())
					if n == last {
						stable++
					} else {
						last, stable = n, 0
					}
					time.Sleep(300 * time.Microsecond)
				}
				checkInvariant()
				for _, i := range order {
					rq := reqs[i]
					if rq.conn == blocked {
						continue
					}
					if cr.Intn(3) == 0 {
						time.Sleep(time.Duration(cr.Intn(300)) * time.Microsecond)
					}
					close(rq.script.Gate)
					checkInvariant()
				}
				// every request of the unblocked connections must complete although connection `blocked` holds its mutex
				for _, rq := range reqs {
					if rq.conn == blocked {
						continue
					}
					done := make(chan callResult, 1)
					go func() {
						m, err := rq.fut.Get()
						v, isNil := valueOf(m)
						done <- callResult{returned: true, val: v, nilResp: isNil, err: err}
					}()
					select {
					case res := <-done:
						if res.err != nil || res.val != rq.script.Value {
							sum.mismatch(Mismatch{Property: "C04", Case: descr, Expected: fmt.Sprintf("reply %d reaches its own call", rq.script.Value), Observed: fmt.Sprint(res.val, res.err)})
						}
					case <-time.After(5 * time.Second):
						sum.mismatch(Mismatch{Property: "C04", Case: descr, Expected: "requests of other connections are not delayed by a connection whose handler does not release", Observed: fmt.Sprintf("request c%d.%d not answered within 5s", rq.conn, rq.k), Detail: strings.Join(signatures(goroutineDump()), "; ")})
					}
				}
				if blocked >= 0 {
					// on the blocked connection exactly the first handler has entered
					n := 0
					for _, rq := range reqs {
						if rq.conn == blocked && entered(rq.script) {
							n++
						}
					}
					if n != 1 {
						sum.mismatch(Mismatch{Property: "C04", Case: descr, Expected: "exactly one handler entered on the connection whose handler does not release", Observed: strconv.Itoa(n)})
					}
					for _, rq := range reqs {
						if rq.conn == blocked {
							close(rq.script.Gate)
						}
					}
					for _, rq := range reqs {
						if rq.conn == blocked {
							done := make(chan error, 1)
							go func() { _, err := rq.fut.Get(); done <- err }()
							select {
							case <-done:
							case <-time.After(5 * time.Second):
								sum.mismatch(Mismatch{Property: "C04", Case: descr, Expected: "blocked connection drains after its handlers return", Observed: "not within 5s"})
							}
						}
					}
				}
				_ = t0
				checkInvariant()
				for _, rq := range reqs {
					select {
					case <-rq.script.Exited:
					case <-time.After(3 * time.Second):
					}
				}
				// traces per connection for the Lean acceptor
				evs := cl.D.Events()
				perConn := map[int][]string{}
				reqNo := map[string]int{}
				for _, e := range evs {
					k := reqNo[e.Value]
					if k == 0 {
						k = len(reqNo) + 1
						reqNo[e.Value] = k
					}
					c := map[string]string{"enter": "e", "release": "r", "exit": "x"}[e.Phase]
					if e.Phase == "DUPLICATE" {
						sum.mismatch(Mismatch{Property: "C03", Case: descr, Expected: "one handler start per request", Observed: "duplicate start " + e.Value})
						continue
					}
					perConn[e.Conn] = append(perConn[e.Conn], c+strconv.Itoa(k))
				}
				mu.Lock()
				conns := make([]int, 0, len(perConn))
				for c := range perConn {
					conns = append(conns, c)
				}
				sort.Ints(conns)
				for _, c := range conns {
					traces = append(traces, trace{id: strconv.Itoa(nextID), line: fmt.Sprintf("srv id=%d ev=%s", nextID, strings.Join(perConn[c], ",")), descr: descr})
					nextID++
				}
				mu.Unlock()
				ms := map[string]int{}
				nt := false
				for _, rq := range reqs {
					ms[rq.mode]++
					if rq.mode == "early" || rq.mode == "helper" || rq.mode == "twice" || rq.mode == "storm" {
						nt = true
					}
				}
				var mk []string
				for m, n := range ms {
					mk = append(mk, fmt.Sprintf("%s=%d", m, n))
					sum.count("release-mode:" + m)
				}
				sort.Strings(mk)
				if nt {
					sum.nontrivial(fmt.Sprintf("%d/%s/%v/%d", nconn, strings.Join(mk, ","), blocked >= 0, maxUnreleasedSeen))
				}
				if blocked >= 0 {
					sum.count("with-blocked-connection")
				}
				cancel()
				for _, c := range clients {
					c.mgr.Close()
				}
				cl.Close()
			}
		}()
	}
	for i := 0; i < nCases; i++ {
		ch <- i
	}
	close(ch)
	wg.Wait()
	var lines []string
	for _, t := range traces {
		lines = append(lines, t.line)
	}
	exp, err := askDriver(cf.driver, "srv", lines)
	if err != nil {
		fatal(err)
	}
	for _, t := range traces {
		e := exp[t.id]
		if cf.replay != "" {
			fmt.Println(t.line, "=>", e)
		}
		if !strings.HasPrefix(e, "accept") {
			sum.mismatch(Mismatch{Property: "C04", Case: t.line, Expected: "trace accepted by the model SrvConn", Observed: e, Detail: t.descr})
		}
		sum.sample(t.line + " => " + e)
	}
	sum.Cases = len(traces)
	sum.finish(start, cf.out)
}
