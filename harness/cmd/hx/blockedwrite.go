package main

import (
	"context"
	"fmt"
	"os"
	"strings"
	"time"

	"verifhx/puppet"

	"github.com/relab/gorums/cmd/protoc-gen-gorums/dev"
)

// blockedWriteScenario (C09): a call's context ends while the sender is inside SendMsg for that very request — the write
// is blocked by flow control behind a handler that holds the connection — so the library cancels the node's stream.
// Requests are issued strictly one at a time with a pause after each, so that nothing is in flight while the library
// repairs the stream (the known wedge stale-broken needs traffic during the repair and has no legitimate cause here).
// Afterwards the handler is let go and the node must answer again.
func blockedWriteScenario(sum *sumT) int {
	sh, err := newShard(2)
	if err != nil {
		fatal(err)
	}
	defer sh.close()
	hold := make(chan struct{})
	entered := make(chan struct{}, 1)
	sh.cl.D.KeepLog = false
	sh.cl.D.Default = func(server int, method, val string) *puppet.Script {
		s := puppet.NewScript()
		s.Action = puppet.Reply
		s.Release = "early"
		if strings.HasPrefix(val, "bw|slow") {
			s.Release = "late" // keeps the connection's mutex: the server stops reading this stream
			s.Gate = hold
			select {
			case entered <- struct{}{}:
			default:
			}
		}
		return s
	}
	victim, control := sh.node(1), sh.node(2)
	rpc := func(n *dev.Node, timeout time.Duration, val string) error {
		ctx, cancel := context.WithTimeout(context.Background(), timeout)
		defer cancel()
		done := make(chan error, 1)
		go func() {
			defer func() {
				if p := recover(); p != nil {
					done <- fmt.Errorf("panic: %v", p)
				}
			}()
			_, err := n.GRPCCall(ctx, &dev.Request{Value: val})
			done <- err
		}()
		select {
		case err := <-done:
			return err
		case <-time.After(timeout + 4*time.Second):
			return errStuck
		}
	}
	slowDone := make(chan error, 1)
	go func() { slowDone <- rpc(victim, 60*time.Second, "bw|slow") }()
	select {
	case <-entered:
	case <-time.After(5 * time.Second):
		sum.count("blockedwrite:slow-not-entered")
		close(hold)
		return 0
	}
	big := "bw|big|" + strings.Repeat("x", 1<<20)
	abandoned := false
	for i := 0; i < 12 && !abandoned; i++ {
		e := rpc(victim, 200*time.Millisecond, big)
		if os.Getenv("VERIF_DEBUG") != "" {
			fmt.Fprintf(os.Stderr, "blockedwrite-debug: big %d -> %v\n", i, e)
		}
		time.Sleep(500 * time.Millisecond)
		select {
		case <-slowDone: // the stream was cancelled: the slow call has been answered with an error
			abandoned = true
		default:
		}
	}
	close(hold)
	time.Sleep(1200 * time.Millisecond)
	if !abandoned {
		sum.count("blockedwrite:stream-never-cancelled")
		return 1
	}
	sum.count("blockedwrite:staged")
	sum.nontrivial("blockedwrite/staged")
	for _, n := range []*dev.Node{control, victim} {
		ok := false
		var last error
		for attempt := 0; attempt < 3 && !ok; attempt++ {
			last = rpc(n, 3*time.Second, "bw|probe")
			if os.Getenv("VERIF_DEBUG") != "" {
				fmt.Fprintf(os.Stderr, "blockedwrite-debug: probe node %d attempt %d -> %v\n", n.ID(), attempt, last)
			}
			ok = last == nil
			if !ok {
				time.Sleep(500 * time.Millisecond)
			}
		}
		if !ok {
			w := diagnose()
			if w.id != "" {
				sum.known("C09:" + w.id)
				return 1
			}
			sum.mismatch(Mismatch{Property: "C09", Case: "blockedwrite (contexts end while 1 MiB requests are being written behind a handler that holds the connection; one request at a time, 500 ms apart; then the handler returns)",
				Expected: fmt.Sprintf("node %d answers a probe RPC with a fresh context", n.ID()), Observed: fmt.Sprintf("%v (goroutine signatures: %s)", last, strings.Join(signatures(w.dump), "; "))})
			return 1
		}
	}
	return 1
}
