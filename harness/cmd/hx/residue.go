package main

// Engine residue — every way a call can end, one batch at a time, sequentially (C18):
// quorum before all replies, exhaustion, cancellation after the send, deadline, a context
// that has ended before the request is written, a request the codec refuses (SendMsg
// fails), handler errors, correctable completion, one-way calls.  After each batch, once
// every targeted node has answered, no router may be left on any node and the number of
// library goroutines must be back to the baseline.  The batches avoid the triggers of the
// known findings of C09 (no overlapping traffic around a stream failure: a pause follows
// every batch that breaks a stream).

import (
	"context"
	"fmt"
	"strings"
	"sync"
	"time"

	"verifhx/puppet"

	"github.com/relab/gorums"
	"github.com/relab/gorums/cmd/protoc-gen-gorums/dev"
)

func init() { engines["residue"] = residueMain }

func residueMain(args []string) {
	cf := commonFlags("residue", args, nil)
	start := time.Now()
	sum := newSum("residue", cf.seed, "batches of 10..30 sequential calls per way of ending (12 ways) x repetitions; one evaluation = one call; distinct non-trivial = distinct (batch kind) with a residue check after it")
	reps := cf.count
	if reps < 1 {
		reps = 1
	}
	total := 0
	for rep := 0; rep < reps && !sum.tooMany(); rep++ {
		total += residueRun(rep, cf.seed, sum)
	}
	sum.Cases = total
	sum.finish(start, cf.out)
}

// residueRun runs the batches under a watchdog: the calls use context.Background(), so a wedged node
// (known findings of C09, likely after the batch that breaks the streams) would block the engine for good.
func residueRun(rep int, seed int64, sum *sumT) int {
	res := make(chan int, 1)
	go func() { res <- residueBatches(rep, seed, sum) }()
	select {
	case n := <-res:
		return n
	case <-time.After(120 * time.Second):
		if w := diagnose(); w.id != "" {
			sum.known("C09:" + w.id)
			sum.count("run-abandoned-after-known-wedge:" + w.id)
		} else {
			sum.mismatch(Mismatch{Property: "C09", Case: "residue", Expected: "batches complete", Observed: "stuck for 120s", Detail: strings.Join(signatures(goroutineDump()), "; ")})
		}
		return 0
	}
}

func residueBatches(rep int, seed int64, sum *sumT) int {
	n := 3
	sh, err := newShard(n)
	if err != nil {
		fatal(err)
	}
	defer sh.close()
	r := rng(seed, fmt.Sprint("residue", rep))
	sh.cl.D.KeepLog = false
	var cfgMu sync.Mutex
	modeV, needV := "reply", 2
	setMode := func(m string, n int) { cfgMu.Lock(); modeV, needV = m, n; cfgMu.Unlock() }
	sh.cl.D.Default = func(server int, method, val string) *puppet.Script {
		s := puppet.NewScript()
		s.Action = puppet.Reply
		s.Release = "early"
		cfgMu.Lock()
		mode := modeV
		cfgMu.Unlock()
		switch {
		case mode == "fail" && server == 0:
			s.Action, s.Code, s.Msg = puppet.Fail, 13, "boom"
		case mode == "slow" && server == 2:
			g := make(chan struct{})
			s.Gate = g
			time.AfterFunc(5*time.Millisecond, func() { close(g) })
		}
		if puppet.Info[method].Kind == "stream" {
			s.Stream = []puppet.StreamStep{{Value: 1}}
		}
		return s
	}
	sh.qs.F = func(method, req string, replies map[uint32]int64) (int64, int, bool, bool) {
		cfgMu.Lock()
		need := needV
		cfgMu.Unlock()
		return 0, len(replies), len(replies) >= need, true
	}
	time.Sleep(30 * time.Millisecond)
	base, _ := libraryGoroutines()
	calls := 0
	check := func(batch string, brokeStream bool) {
		ok := waitFor(6*time.Second, func() bool {
			for _, nd := range sh.all.Nodes() {
				if routers(nd) != 0 {
					return false
				}
			}
			return true
		})
		if !ok {
			if w := diagnose(); w.id != "" {
				sum.known("C09:" + w.id)
				return
			}
			var l []string
			for _, nd := range sh.all.Nodes() {
				l = append(l, fmt.Sprintf("node %d: %d", nd.ID(), routers(nd)))
			}
			sum.mismatch(Mismatch{Property: "C18", Case: "residue batch=" + batch, Expected: "no router left after the batch", Observed: strings.Join(l, ", "), Detail: strings.Join(signatures(goroutineDump()), "; ")})
		}
		var now int
		var sigs []string
		if !waitFor(5*time.Second, func() bool { now, sigs = libraryGoroutines(); return now <= base }) {
			if w := diagnose(); w.id != "" {
				sum.known("C09:" + w.id)
				return
			}
			sum.mismatch(Mismatch{Property: "C18", Case: "residue batch=" + batch, Expected: fmt.Sprintf("library goroutines back to the baseline (%d)", base), Observed: fmt.Sprint(now), Detail: strings.Join(sigs, "; ")})
		}
		if brokeStream {
			time.Sleep(150 * time.Millisecond) // let the reconnection settle before the next batch
			base2, _ := libraryGoroutines()
			if base2 > base {
				base = base2 // a re-created stream has its own server-side goroutines until the old ones are reaped
			}
		}
		sum.nontrivial(batch)
		sum.count("batch:" + batch)
	}
	bg := context.Background()
	k := 10 + r.Intn(21)
	req := func(i int) *dev.Request { return &dev.Request{Value: fmt.Sprintf("r%d-%d|x", rep, i)} }
	// 1 quorum before all replies (stragglers answer later)
	setMode("slow", 2)
	for i := 0; i < k; i++ {
		sh.all.QuorumCall(bg, req(i))
		calls++
	}
	check("quorum-before-all-replies", false)
	// 2 exhaustion (quorum unreachable)
	setMode("reply", 9)
	for i := 0; i < k; i++ {
		sh.all.QuorumCall(bg, req(i))
		f := sh.all.QuorumCallAsync(bg, req(i))
		f.Get()
		calls += 2
	}
	check("exhaustion", false)
	// 3 handler errors
	setMode("fail", 2)
	for i := 0; i < k; i++ {
		sh.all.QuorumCall(bg, req(i))
		sh.node(1).GRPCCall(bg, req(i))
		calls += 2
	}
	check("handler-errors", false)
	// 4 deadline while waiting for replies
	setMode("slow", 3)
	for i := 0; i < k; i++ {
		ctx, cancel := context.WithTimeout(bg, 2*time.Millisecond)
		sh.all.QuorumCall(ctx, req(i))
		f := sh.all.QuorumCallAsync(ctx, req(i))
		f.Get()
		c := sh.all.Correctable(ctx, req(i))
		<-c.Done()
		cancel()
		calls += 3
	}
	check("deadline-while-waiting", false)
	// 5 context already ended before the request is written
	setMode("reply", 2)
	for i := 0; i < k; i++ {
		ctx, cancel := context.WithCancel(bg)
		cancel()
		sh.all.QuorumCall(ctx, req(i))
		sh.node(2).GRPCCall(ctx, req(i))
		f := sh.all.QuorumCallAsync(ctx, req(i))
		f.Get()
		c := sh.all.Correctable(ctx, req(i))
		<-c.Done()
		sh.all.Multicast(ctx, req(i))
		sh.node(3).Unicast(ctx, req(i))
		calls += 6
	}
	check("context-ended-before-send", false)
	// 6 correctable completion and stream completion (one message per node)
	setMode("reply", 2)
	for i := 0; i < k; i++ {
		c := sh.all.Correctable(bg, req(i))
		<-c.Done()
		s := sh.all.CorrectableStream(bg, req(i))
		<-s.Done()
		calls += 2
	}
	check("correctable-completion", false)
	// 7 one-way calls
	for i := 0; i < k; i++ {
		sh.all.Multicast(bg, req(i))
		sh.all.Multicast(bg, req(i), gorums.WithNoSendWaiting())
		sh.node(1).Unicast(bg, req(i))
		sh.node(1).Unicast(bg, req(i), gorums.WithNoSendWaiting())
		calls += 4
	}
	check("one-way", false)
	// 8 a request the codec refuses: SendMsg fails on every node (this breaks the streams; pause after each)
	for i := 0; i < 5; i++ {
		sh.all.QuorumCall(bg, &dev.Request{Value: "\xff\xfe\xfd"})
		calls++
		time.Sleep(120 * time.Millisecond)
	}
	check("send-fails", true)
	// 9 after the streams were re-created: ordinary calls again
	setMode("reply", 3)
	for i := 0; i < k; i++ {
		if _, err := sh.all.QuorumCall(bg, req(i)); err != nil && i > 2 {
			sum.mismatch(Mismatch{Property: "C10", Case: "residue batch=after-send-failures", Expected: "nodes are used again after their stream was re-created", Observed: strings.ReplaceAll(err.Error(), "\n", "/")})
			break
		}
		calls++
	}
	check("after-send-failures", false)
	return calls
}
