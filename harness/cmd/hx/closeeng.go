package main

// Engine close — "Close stops everything and strands no caller" (C12).  Scenario = a
// manager with a send buffer in {0, 1, 8} and nodes that are connected / never reachable
// / with blocked handlers, calls of every type in flight (queued, being written, awaiting
// replies), and Manager.Close from another goroutine at a random instant (also twice and
// concurrently).  Oracles: every call that was in progress returns within 3 s; 20 calls
// issued after Close return within 300 ms each without panicking; the client-side library
// goroutines (sender / receiver / watchers / call goroutines) are gone within 3 s.

import (
	"context"
	"fmt"
	"math/rand"
	"os"
	"strings"
	"time"

	"verifhx/puppet"

	"github.com/relab/gorums"
	"github.com/relab/gorums/cmd/protoc-gen-gorums/dev"
	"google.golang.org/grpc"
	"google.golang.org/grpc/credentials/insecure"
)

func init() { engines["close"] = closeMain }

func closeMain(args []string) {
	cf := commonFlags("close", args, nil)
	start := time.Now()
	sum := newSum("close", cf.seed, "scenarios = (send buffer in {0,1,8}) x (node states: connected / one unreachable / one with blocked handlers) x (4..24 in-flight calls of all types) x (instant of Close 0..5 ms, once / twice / concurrently); "+
		"distinct non-trivial = distinct (send buffer, node state, close mode, in-flight outcome classes, post-close outcome classes) tuples")
	r := rng(cf.seed, "close")
	// sequential: the goroutine oracle looks at the whole process
	n := 0
	for i := 0; i < cf.count && !sum.tooMany(); i++ {
		closeScenario(rand.New(rand.NewSource(r.Int63())), sum)
		n++
	}
	if cf.replay == "" && !sum.tooMany() {
		closeDuringBackoff(sum)
		n++
	}
	sum.Cases = n
	sum.finish(start, cf.out)
}

// clientLibraryGoroutines counts goroutines inside the client side of the library.
func clientLibraryGoroutines() (int, []string) {
	d := goroutineDump()
	n := 0
	var sigs []string
	for _, b := range libraryBlocks(d) {
		if strings.Contains(b, "orderingServer") || strings.Contains(b, "gorums.(*Server)") {
			continue
		}
		n++
	}
	for _, s := range signatures(d) {
		if !strings.Contains(s, "orderingServer") && !strings.Contains(s, "(*Server)") {
			sigs = append(sigs, s)
		}
	}
	return n, sigs
}

// grpcClientGoroutines counts the goroutines of gRPC client connections (transport readers, address
// connections, balancer / resolver wrappers): what a *grpc.ClientConn that nobody closed leaves behind.
func grpcClientGoroutines() (int, []string) {
	n := 0
	seen := map[string]bool{}
	var sigs []string
	for _, b := range strings.Split(goroutineDump(), "\n\n") {
		for _, mark := range []string{"transport.(*http2Client)", "grpc.(*addrConn)", "grpc.(*ccBalancerWrapper)", "grpc.(*ccResolverWrapper)", "transport.newHTTP2Client", "grpcsync.(*CallbackSerializer).run"} {
			if strings.Contains(b, mark) {
				n++
				if !seen[mark] {
					seen[mark] = true
					sigs = append(sigs, mark)
				}
				break
			}
		}
	}
	return n, sigs
}

func closeScenario(r *rand.Rand, sum *sumT) {
	buf := []uint{0, 1, 8}[r.Intn(3)]
	state := []string{"connected", "one-unreachable", "one-blocked"}[r.Intn(3)]
	mode := []string{"once", "twice", "concurrent"}[r.Intn(3)]
	nCalls := 4 + r.Intn(21)
	cl, err := puppet.NewCluster(3)
	if err != nil {
		fatal(err)
	}
	defer cl.Close()
	if state == "one-unreachable" {
		cl.Stop(2)
	}
	release := make(chan struct{})
	cl.D.KeepLog = false
	cl.D.Default = func(server int, method, val string) *puppet.Script {
		s := puppet.NewScript()
		s.Action = puppet.Reply
		if state == "one-blocked" && server == 2 {
			s.Gate = release
		} else {
			s.Release = "early"
			g := make(chan struct{})
			s.Gate = g
			time.AfterFunc(time.Duration(len(val)%5)*time.Millisecond, func() { close(g) })
		}
		if puppet.Info[method].Kind == "stream" {
			s.Stream = []puppet.StreamStep{{Value: 1}}
		}
		return s
	}
	qs := &puppet.QSpec{}
	qs.F = func(method, req string, replies map[uint32]int64) (int64, int, bool, bool) {
		return 0, len(replies), len(replies) >= 3, true
	}
	base, _ := clientLibraryGoroutines()
	baseConn, _ := grpcClientGoroutines()
	mgr := dev.NewManager(gorums.WithDialTimeout(500*time.Millisecond), gorums.WithBackoff(fastBackoff()), gorums.WithSendBufferSize(buf),
		gorums.WithGrpcDialOptions(grpc.WithTransportCredentials(insecure.NewCredentials())))
	m := map[string]uint32{}
	for i, a := range cl.Addrs {
		m[a] = uint32(i + 1)
	}
	cfg, err := mgr.NewConfiguration(qs, gorums.WithNodeMap(m))
	if err != nil {
		fatal(err)
	}
	if state != "one-unreachable" {
		for _, nd := range cfg.Nodes() {
			nd := nd
			waitFor(5*time.Second, func() bool { return probe(nd, 300*time.Millisecond) })
		}
	}
	caseS := fmt.Sprintf("close sendbuf=%d nodes=%s mode=%s calls=%d", buf, state, mode, nCalls)
	// no server-stream calls here: a stream failure (Close) that hits a streaming router whose call is ending is the
	// trigger of the known finding C09/stream-backpressure, which engine wedge exercises
	kinds := []string{"rpc", "qc", "async", "corr", "mcast", "ucast", "mcast-nsw"}
	call := func(kind string, ctx context.Context, tag string) (err error, pan string) {
		defer func() {
			if p := recover(); p != nil {
				pan = fmt.Sprint(p)
			}
		}()
		req := &dev.Request{Value: tag + "|" + strings.Repeat("z", len(tag)%7)}
		node := cfg.Nodes()[len(tag)%3]
		switch kind {
		case "rpc":
			_, err = node.GRPCCall(ctx, req)
		case "qc":
			_, err = cfg.QuorumCall(ctx, req)
		case "async":
			_, err = cfg.QuorumCallAsync(ctx, req).Get()
		case "corr":
			c := cfg.Correctable(ctx, req)
			<-c.Done()
			_, _, err = c.Get()
		case "stream":
			c := cfg.CorrectableStream(ctx, req)
			<-c.Done()
			_, _, err = c.Get()
		case "mcast":
			cfg.Multicast(ctx, req)
		case "mcast-nsw":
			cfg.Multicast(ctx, req, gorums.WithNoSendWaiting())
		case "ucast":
			node.Unicast(ctx, req)
		}
		return
	}
	// in-flight calls: no deadline of their own — Close alone must make them return
	type resT struct {
		kind string
		err  error
		pan  string
	}
	results := make(chan resT, nCalls)
	for i := 0; i < nCalls; i++ {
		kind := kinds[r.Intn(len(kinds))]
		go func(i int) {
			err, pan := call(kind, context.Background(), fmt.Sprintf("f%d", i))
			results <- resT{kind, err, pan}
		}(i)
	}
	time.Sleep(time.Duration(r.Intn(5000)) * time.Microsecond)
	closed := make(chan string, 3)
	doClose := func() {
		defer func() {
			if p := recover(); p != nil {
				closed <- fmt.Sprint("panic: ", p)
				return
			}
			closed <- ""
		}()
		mgr.Close()
	}
	nClose := 1
	switch mode {
	case "once":
		go doClose()
	case "twice":
		nClose = 2
		go func() { doClose(); doClose() }()
	default:
		nClose = 3
		for i := 0; i < 3; i++ {
			go doClose()
		}
	}
	for i := 0; i < nClose; i++ {
		select {
		case p := <-closed:
			if p != "" {
				sum.mismatch(Mismatch{Property: "C12", Case: caseS, Expected: "Close returns", Observed: p})
			}
		case <-time.After(5 * time.Second):
			sum.mismatch(Mismatch{Property: "C12", Case: caseS, Expected: "Close returns", Observed: "Close blocked for 5 s", Detail: strings.Join(signatures(goroutineDump()), "; ")})
		}
	}
	tClosed := time.Now()
	// every call that was in progress returns
	classes := map[string]bool{}
	stranded := 0
	for i := 0; i < nCalls; i++ {
		select {
		case res := <-results:
			switch {
			case res.pan != "":
				sum.mismatch(Mismatch{Property: "C12", Case: caseS, Expected: "in-flight call returns", Observed: "panic: " + res.pan})
			case res.err != nil:
				classes["err"] = true
			default:
				classes["ok"] = true
			}
		case <-time.After(time.Until(tClosed.Add(3 * time.Second))):
			stranded = nCalls - i
			i = nCalls
		}
	}
	if stranded > 0 {
		if os.Getenv("HX_DEBUG") != "" {
			fmt.Fprintln(os.Stderr, "STRANDED", caseS)
			for _, b := range libraryBlocks(goroutineDump()) {
				if !strings.Contains(b, "orderingServer") {
					fmt.Fprintln(os.Stderr, b)
				}
			}
		}
		_, sigs := clientLibraryGoroutines()
		if w := diagnose(); w.id != "" {
			sum.known("C09:" + w.id)
			classes["known-wedge"] = true
		} else {
			sum.mismatch(Mismatch{Property: "C12", Case: caseS, Expected: "every call that was in progress returns within 3 s of Close", Observed: fmt.Sprintf("%d calls still running", stranded), Detail: strings.Join(sigs, "; ")})
		}
	}
	// calls issued afterwards fail fast
	post := map[string]bool{}
	postStranded := 0
	for i := 0; i < 20; i++ {
		kind := kinds[i%len(kinds)]
		done := make(chan resT, 1)
		go func() {
			err, pan := call(kind, context.Background(), fmt.Sprintf("p%d", i))
			done <- resT{kind, err, pan}
		}()
		select {
		case res := <-done:
			if res.pan != "" {
				sum.mismatch(Mismatch{Property: "C12", Case: caseS, Expected: "a call after Close fails fast", Observed: res.kind + " panics: " + res.pan})
			}
			if res.err != nil {
				post["err"] = true
			} else {
				post["ok"] = true
			}
		case <-time.After(300 * time.Millisecond):
			postStranded++
			post["blocked:"+kind] = true
			if buf == 0 {
				if w := diagnose(); w.id != "" {
					sum.known("C09:" + w.id)
				} else {
					sum.mismatch(Mismatch{Property: "C12", Case: caseS, Expected: "a call after Close fails fast", Observed: kind + " blocks for more than 300 ms", Detail: strings.Join(signatures(w.dump), "; ")})
				}
			}
			i = 20 // one blocked call is the verdict; the others would only cost time
		}
	}
	close(release)
	// client-side goroutines are gone (stranded calls of the known finding keep theirs)
	if stranded == 0 && postStranded == 0 {
		var now int
		var sigs []string
		if !waitFor(3*time.Second, func() bool { now, sigs = clientLibraryGoroutines(); return now <= base }) {
			sum.mismatch(Mismatch{Property: "C12", Case: caseS, Expected: fmt.Sprintf("client-side library goroutines back to %d within 3 s of Close", base), Observed: fmt.Sprint(now), Detail: strings.Join(sigs, "; ")})
		}
	}
	// the connections the manager created are closed (their gRPC goroutines are gone)
	if stranded == 0 && postStranded == 0 {
		var now int
		var sigs []string
		if !waitFor(3*time.Second, func() bool { now, sigs = grpcClientGoroutines(); return now <= baseConn }) {
			sum.mismatch(Mismatch{Property: "C12", Case: caseS, Expected: fmt.Sprintf("goroutines of gRPC client connections back to %d within 3 s of Close (every connection the manager created is closed)", baseConn), Observed: fmt.Sprint(now), Detail: strings.Join(sigs, "; ")})
		}
	}
	sum.count("sendbuf:" + fmt.Sprint(buf))
	sum.count("nodes:" + state)
	sum.nontrivial(fmt.Sprintf("%d/%s/%s/%v/%v", buf, state, mode, keysS(classes), keysS(post)))
	sum.sample(caseS + fmt.Sprintf(" => in-flight %v, post-close %v", keysS(classes), keysS(post)))
}
