package main

// Engine crashrace — a node's connection breaks at a random instant while quorum calls
// are being issued to it concurrently (C07): requests are then registered, queued, being
// written or awaiting replies when the failure strikes.  Oracles per call: every failing
// node contributes exactly one error (no node twice in the error list, never an error and
// a reply), errors + replies never exceed the number of targeted nodes and add up to it
// when the outcome is Incomplete, and a quorum of healthy nodes still succeeds.

import (
	"context"
	"errors"
	"fmt"
	"math/rand"
	"strings"
	"sync"
	"time"

	"verifhx/puppet"

	"github.com/relab/gorums"
	"github.com/relab/gorums/cmd/protoc-gen-gorums/dev"
)

func init() { engines["crashrace"] = crashraceMain }

func crashraceMain(args []string) {
	cf := commonFlags("crashrace", args, nil)
	start := time.Now()
	sum := newSum("crashrace", cf.seed, "rounds: 2..6 goroutines issue quorum calls (sync and async, quorum = all or all-but-one) to 3..4 nodes while one server is stopped at a random instant, then restarted; one evaluation = one call; "+
		"distinct non-trivial = distinct (outcome class, #errors, #replies) of calls that overlapped the failure")
	r := rng(cf.seed, "crashrace")
	var mu sync.Mutex
	calls := 0
	if cf.replay == "" {
		// first: the goroutine diagnoser looks at the whole process (rounds that trip over the known wedge leave
		// blocked goroutines behind)
		flapScenario(sum)
		calls++
	}
	shards := cf.shards
	if shards > cf.count {
		shards = cf.count
	}
	if shards > 4 {
		shards = 4
	}
	seeds := make(chan int64, cf.count)
	for i := 0; i < cf.count; i++ {
		seeds <- r.Int63()
	}
	close(seeds)
	var wg sync.WaitGroup
	for s := 0; s < shards; s++ {
		wg.Add(1)
		go func() {
			defer wg.Done()
			var sh *shard
			for seed := range seeds {
				if sum.tooMany() {
					continue
				}
				if sh == nil || sh.dead {
					if sh != nil {
						go sh.close()
					}
					var err error
					sh, err = newShard(4)
					if err != nil {
						fatal(err)
					}
				}
				n := crashRound(sh, rand.New(rand.NewSource(seed)), sum)
				mu.Lock()
				calls += n
				mu.Unlock()
			}
			if sh != nil {
				sh.close()
			}
		}()
	}
	wg.Wait()
	sum.Cases = calls
	sum.finish(start, cf.out)
}

func crashRound(sh *shard, r *rand.Rand, sum *sumT) int {
	n := 3 + r.Intn(2)
	ids := []uint32{1, 2, 3, 4}[:n]
	cfg, err := sh.config(ids)
	if err != nil {
		fatal(err)
	}
	victim := r.Intn(n)
	sh.cl.D.KeepLog = false
	sh.cl.D.Default = func(server int, method, val string) *puppet.Script {
		s := puppet.NewScript()
		s.Action = puppet.Reply
		s.Release = "early"
		s.Value = int64(server)
		g := make(chan struct{})
		s.Gate = g
		time.AfterFunc(time.Duration(200+len(val)%7*100)*time.Microsecond, func() { close(g) })
		return s
	}
	need := n
	if r.Intn(2) == 0 {
		need = n - 1
	}
	sh.qs.F = func(method, req string, replies map[uint32]int64) (int64, int, bool, bool) {
		return 0, len(replies), len(replies) >= need, true
	}
	g := 2 + r.Intn(5)
	stopAt := time.Duration(500+r.Intn(4000)) * time.Microsecond
	dur := stopAt + 6*time.Millisecond
	var wg sync.WaitGroup
	var mu sync.Mutex
	calls := 0
	caseS := fmt.Sprintf("crashrace nodes=%d victim=%d quorum=%d goroutines=%d stop-after=%v", n, victim+1, need, g, stopAt)
	t0 := time.Now()
	for i := 0; i < g; i++ {
		wg.Add(1)
		go func(i int) {
			defer wg.Done()
			for k := 0; time.Since(t0) < dur; k++ {
				ctx, cancel := context.WithTimeout(context.Background(), 2*time.Second)
				var err error
				if (i+k)%2 == 0 {
					_, err = cfg.QuorumCall(ctx, &dev.Request{Value: fmt.Sprintf("c%d-%d|x", i, k)})
				} else {
					_, err = cfg.QuorumCallAsync(ctx, &dev.Request{Value: fmt.Sprintf("c%d-%d|x", i, k)}).Get()
				}
				cancel()
				mu.Lock()
				calls++
				mu.Unlock()
				if err == nil {
					sum.nontrivial("ok")
					continue
				}
				canon, notes := canonErr(err)
				for _, nt := range notes {
					sum.mismatch(Mismatch{Property: "C07", Case: caseS, Expected: "consistent error value", Observed: nt})
				}
				p := strings.Split(canon, ":")
				if len(p) != 3 {
					sum.mismatch(Mismatch{Property: "C07", Case: caseS, Expected: "a quorum call error", Observed: canon})
					continue
				}
				seen := map[string]bool{}
				nErr := 0
				for _, id := range strings.Split(p[1], ".") {
					if id == "" {
						continue
					}
					nErr++
					if seen[id] {
						sum.mismatch(Mismatch{Property: "C07", Case: caseS, Expected: "each failing node is reported exactly once", Observed: "node " + id + " twice", Detail: strings.ReplaceAll(err.Error(), "\n", "/")})
					}
					seen[id] = true
				}
				var nRep int
				fmt.Sscan(p[2], &nRep)
				if nErr+nRep > n || (p[0] == "inc" && nErr+nRep != n) {
					sum.mismatch(Mismatch{Property: "C07", Case: caseS, Expected: fmt.Sprintf("errors + replies = %d targeted nodes at Incomplete (never more)", n), Observed: fmt.Sprintf("%d errors + %d replies (%s)", nErr, nRep, p[0]), Detail: strings.ReplaceAll(err.Error(), "\n", "/")})
				}
				if p[0] == "inc" && need <= n-1 && nErr <= 1 && errors.Is(err, gorums.Incomplete) {
					sum.mismatch(Mismatch{Property: "C07", Case: caseS, Expected: "a minority failure is tolerated: the remaining replies satisfy the quorum function", Observed: canon, Detail: strings.ReplaceAll(err.Error(), "\n", "/")})
				}
				if p[0] == "ctx" {
					// a stream fails in every round of this workload, so the known wedges of C09 can strike: a sender stuck
					// in the stale-broken wedge holds up the calls that hand it requests until their deadlines
					if w := diagnose(); w.id != "" {
						sum.known("C09:" + w.id)
						sum.count("call-held-up-by-known-wedge:" + w.id)
					} else {
						sum.mismatch(Mismatch{Property: "C07", Case: caseS, Expected: "a call waiting for a node whose connection breaks is completed with an error for that node", Observed: "left waiting until its 2s deadline: " + canon, Detail: strings.Join(signatures(w.dump), "; ")})
					}
				}
				sum.nontrivial(fmt.Sprintf("%s/%d/%d", p[0], nErr, nRep))
			}
		}(i)
	}
	time.Sleep(stopAt)
	sh.cl.Stop(victim)
	done := make(chan struct{})
	go func() { wg.Wait(); close(done) }()
	select {
	case <-done:
	case <-time.After(15 * time.Second):
		if w := diagnose(); w.id != "" {
			sum.known("C09:" + w.id)
		} else {
			sum.mismatch(Mismatch{Property: "C07", Case: caseS, Expected: "calls complete", Observed: "stuck for 15s", Detail: strings.Join(signatures(goroutineDump()), "; ")})
		}
		sh.dead = true
		return calls
	}
	if err := sh.cl.Restart(victim); err != nil {
		fatal(err)
	}
	node := sh.node(uint32(victim + 1))
	if !waitFor(6*time.Second, func() bool { return probe(node, 400*time.Millisecond) }) {
		if w := diagnose(); w.id != "" {
			sum.known("C09:" + w.id)
		} else {
			sum.mismatch(Mismatch{Property: "C10", Case: caseS, Expected: "the restarted node is used again", Observed: "probe RPCs fail for 6s", Detail: strings.Join(signatures(goroutineDump()), "; ")})
		}
		sh.dead = true
	}
	sum.count("rounds")
	sum.sample(caseS + fmt.Sprintf(" calls=%d", calls))
	return calls
}
