package main

// Engine cfgrace — concurrent use of the configuration / manager API (C15): creation of
// further configurations (node lists, node IDs, And, Except, WithNewNodes), Nodes, NodeIDs,
// Size, Node lookups and calls, from many goroutines on one manager, ending with Close.
// It has no oracle of its own beyond "no panic": it exists to be run under the race detector.

import (
	"context"
	"fmt"
	"math/rand"
	"sync"
	"time"

	"verifhx/puppet"

	"github.com/relab/gorums"
	"github.com/relab/gorums/cmd/protoc-gen-gorums/dev"
)

func init() { engines["cfgrace"] = cfgraceMain }

func cfgraceMain(args []string) {
	cf := commonFlags("cfgrace", args, nil)
	start := time.Now()
	sum := newSum("cfgrace", cf.seed, "rounds of 8..16 goroutines x 40 operations on one connected manager: NewConfiguration with overlapping node lists / node IDs / And / Except / WithNewNodes, Nodes, NodeIDs, Size, Node, "+
		"quorum calls and RPCs, LastErr / sorting by LastNodeError, then Close concurrently with the last operations; one evaluation = one operation; distinct non-trivial = distinct operation kinds executed")
	r := rng(cf.seed, "cfgrace")
	total := 0
	for round := 0; round < cf.count; round++ {
		total += cfgraceRound(rand.New(rand.NewSource(r.Int63())), sum)
	}
	sum.Cases = total
	sum.finish(start, cf.out)
}

func cfgraceRound(r *rand.Rand, sum *sumT) int {
	sh, err := newShard(5)
	if err != nil {
		fatal(err)
	}
	defer func() { go sh.close() }()
	sh.cl.D.KeepLog = false
	sh.cl.D.Default = func(server int, method, val string) *puppet.Script {
		s := puppet.NewScript()
		s.Action = puppet.Reply
		s.Release = "early"
		return s
	}
	sh.qs.F = func(method, req string, replies map[uint32]int64) (int64, int, bool, bool) {
		return 0, len(replies), len(replies) >= 2, true
	}
	g := 8 + r.Intn(9)
	var wg sync.WaitGroup
	var mu sync.Mutex
	n := 0
	var cfgs []*dev.Configuration
	cfgs = append(cfgs, sh.all)
	seeds := make([]int64, g)
	for i := range seeds {
		seeds[i] = r.Int63()
	}
	for gi := 0; gi < g; gi++ {
		wg.Add(1)
		go func(gi int) {
			defer wg.Done()
			defer func() {
				if p := recover(); p != nil {
					sum.mismatch(Mismatch{Property: "C15", Case: "cfgrace", Expected: "no panic", Observed: fmt.Sprint(p)})
				}
			}()
			gr := rand.New(rand.NewSource(seeds[gi]))
			for k := 0; k < 40; k++ {
				mu.Lock()
				c := cfgs[gr.Intn(len(cfgs))]
				d := cfgs[gr.Intn(len(cfgs))]
				mu.Unlock()
				op := gr.Intn(11)
				var nc *dev.Configuration
				var err error
				switch op {
				case 0:
					var addrs []string
					for i := 0; i < 1+gr.Intn(3); i++ {
						addrs = append(addrs, sh.cl.Addrs[gr.Intn(len(sh.cl.Addrs))])
					}
					nc, err = sh.mgr.NewConfiguration(sh.qs, gorums.WithNodeList(addrs))
				case 1:
					ids := sh.mgr.NodeIDs()
					nc, err = sh.mgr.NewConfiguration(sh.qs, gorums.WithNodeIDs(ids[:1+gr.Intn(len(ids))]))
				case 2:
					nc, err = sh.mgr.NewConfiguration(sh.qs, c.And(d))
				case 3:
					nc, err = sh.mgr.NewConfiguration(sh.qs, c.Except(d))
				case 4:
					nc, err = sh.mgr.NewConfiguration(sh.qs, c.WithNewNodes(gorums.WithNodeList([]string{sh.cl.Addrs[gr.Intn(len(sh.cl.Addrs))]})))
				case 5:
					for _, nd := range sh.mgr.Nodes() {
						_ = nd.ID()
						_ = nd.Address()
						_ = nd.LastErr()
					}
				case 6:
					_ = sh.mgr.Size()
					_, _ = sh.mgr.Node(uint32(1 + gr.Intn(5)))
					_ = c.NodeIDs()
				case 7:
					ctx, cancel := context.WithTimeout(context.Background(), 200*time.Millisecond)
					c.QuorumCall(ctx, &dev.Request{Value: fmt.Sprintf("g%d-%d|x", gi, k)})
					cancel()
				case 8:
					ctx, cancel := context.WithTimeout(context.Background(), 200*time.Millisecond)
					nodes := c.Nodes()
					nodes[gr.Intn(len(nodes))].GRPCCall(ctx, &dev.Request{Value: fmt.Sprintf("g%d-%d|x", gi, k)})
					cancel()
				case 9:
					raw := append([]*gorums.RawNode(nil), c.RawConfiguration...)
					gorums.OrderedBy(gorums.LastNodeError, gorums.ID).Sort(raw)
				case 10:
					ctx, cancel := context.WithTimeout(context.Background(), 200*time.Millisecond)
					c.Multicast(ctx, &dev.Request{Value: fmt.Sprintf("g%d-%d|x", gi, k)})
					cancel()
				}
				_ = err
				if nc != nil {
					mu.Lock()
					cfgs = append(cfgs, nc)
					mu.Unlock()
				}
				mu.Lock()
				n++
				mu.Unlock()
				sum.nontrivial(fmt.Sprintf("op%d", op))
			}
		}(gi)
	}
	// Close concurrently with the tail of the operations
	time.Sleep(time.Duration(2+r.Intn(6)) * time.Millisecond)
	if r.Intn(2) == 0 {
		sh.mgr.Close()
	}
	done := make(chan struct{})
	go func() { wg.Wait(); close(done) }()
	select {
	case <-done:
	case <-time.After(20 * time.Second):
		if w := diagnose(); w.id != "" {
			sum.known("C09:" + w.id)
		} else {
			sum.mismatch(Mismatch{Property: "C15", Case: "cfgrace", Expected: "operations complete", Observed: "stuck for 20 s"})
		}
	}
	sum.sample(fmt.Sprintf("round goroutines=%d configurations=%d", g, len(cfgs)))
	return n
}
