package main

import (
	"context"
	"errors"
	"fmt"
	"regexp"
	"strconv"
	"strings"
	"time"

	"verifhx/puppet"

	"github.com/relab/gorums"
	"github.com/relab/gorums/cmd/protoc-gen-gorums/dev"
	"google.golang.org/grpc"
	"google.golang.org/grpc/backoff"
	"google.golang.org/grpc/credentials/insecure"
	"google.golang.org/protobuf/proto"
	"google.golang.org/protobuf/types/known/emptypb"
)

// shard = one puppet cluster + one manager whose node IDs are index+1.
type shard struct {
	dead    bool       // a known wedge was diagnosed: the shard must be replaced
	pending []Mismatch // mismatches of the case in progress
	slow    bool       // the case in progress hit a seconds-long wait
	cl      *puppet.Cluster
	mgr     *dev.Manager
	qs      *puppet.QSpec
	all     *dev.Configuration
	n       int
	opts    []gorums.ManagerOption
}

func fastBackoff() backoff.Config {
	return backoff.Config{BaseDelay: 20 * time.Millisecond, Multiplier: 1.2, Jitter: 0.1, MaxDelay: 100 * time.Millisecond}
}

// newShard creates a cluster and a manager and waits until every node answers a probe.  The probing itself
// (short deadlines during a cold start) can run into the known wedges of C09; a shard that does not become
// ready is discarded and the creation is retried twice before the engine gives up.
func newShard(n int, mopts ...gorums.ManagerOption) (*shard, error) {
	return newShardSrv(n, nil, mopts...)
}

// newShardSrv: a shard whose puppet servers are created with the given server options
func newShardSrv(n int, sopts []gorums.ServerOption, mopts ...gorums.ManagerOption) (*shard, error) {
	var err error
	for attempt := 0; attempt < 3; attempt++ {
		var s *shard
		s, err = newShardOnce(n, sopts, mopts...)
		if err == nil {
			return s, nil
		}
		if s != nil {
			go s.close()
		}
	}
	return nil, err
}

func newShardOnce(n int, sopts []gorums.ServerOption, mopts ...gorums.ManagerOption) (*shard, error) {
	cl, err := puppet.NewCluster(n, sopts...)
	if err != nil {
		return nil, err
	}
	s := &shard{cl: cl, n: n, qs: &puppet.QSpec{}}
	s.opts = append([]gorums.ManagerOption{
		gorums.WithDialTimeout(2 * time.Second),
		gorums.WithBackoff(fastBackoff()),
		gorums.WithGrpcDialOptions(grpc.WithTransportCredentials(insecure.NewCredentials())),
	}, mopts...)
	s.mgr = dev.NewManager(s.opts...)
	m := map[string]uint32{}
	for i, a := range cl.Addrs {
		m[a] = uint32(i + 1)
	}
	s.all, err = s.mgr.NewConfiguration(s.qs, gorums.WithNodeMap(m))
	if err != nil {
		return s, err
	}
	// readiness: on a loaded machine the first stream to a node may not be up yet when the manager
	// returns; requests issued then fail fast with Unavailable ("stream is down").  The engines assume
	// healthy connections unless they break them, so wait until every node answers a probe.
	for _, nd := range s.all.Nodes() {
		nd := nd
		if !waitFor(10*time.Second, func() bool { return probe(nd, 500*time.Millisecond) }) {
			w := diagnose()
			return s, fmt.Errorf("node %d did not become reachable within 10s (diagnosis %q; %s)", nd.ID(), w.id, strings.Join(signatures(w.dump), "; "))
		}
	}
	cl.D.ResetLog()
	return s, nil
}

func (s *shard) close() {
	s.mgr.Close()
	s.cl.Close()
}

// config returns a configuration over the given node IDs.
func (s *shard) config(ids []uint32) (*dev.Configuration, error) {
	return s.mgr.NewConfiguration(s.qs, gorums.WithNodeIDs(ids))
}

func (s *shard) node(id uint32) *dev.Node {
	for _, n := range s.all.Nodes() {
		if n.ID() == id {
			return n
		}
	}
	return nil
}

// callResult is the canonical outcome of a call.
type callResult struct {
	returned bool
	val      int64
	nilResp  bool
	err      error
	respPtr  any
	panicked string
}

func valueOf(m proto.Message) (int64, bool) {
	switch x := m.(type) {
	case *dev.Response:
		if x == nil {
			return 0, true
		}
		return x.GetResult(), false
	case *dev.MyResponse:
		if x == nil {
			return 0, true
		}
		v, _ := strconv.ParseInt(strings.TrimPrefix(x.GetValue(), "my:"), 10, 64)
		return v, false
	case *emptypb.Empty:
		return 0, x == nil
	}
	return 0, true
}

type perNodeFn func(*dev.Request, uint32) *dev.Request

// syncCall invokes a synchronous quorum call variant by name.
func syncCall(cfg *dev.Configuration, method string, ctx context.Context, req *dev.Request, f perNodeFn) (r callResult) {
	defer func() {
		if p := recover(); p != nil {
			r.returned, r.panicked = true, fmt.Sprint(p)
		}
	}()
	var m proto.Message
	var err error
	switch method {
	case "QuorumCall":
		m, err = cfg.QuorumCall(ctx, req)
	case "QuorumCallPerNodeArg":
		m, err = cfg.QuorumCallPerNodeArg(ctx, req, f)
	case "QuorumCallCustomReturnType":
		m, err = cfg.QuorumCallCustomReturnType(ctx, req)
	case "QuorumCallCombo":
		m, err = cfg.QuorumCallCombo(ctx, req, f)
	case "QuorumCallEmpty":
		m, err = cfg.QuorumCallEmpty(ctx, &emptypb.Empty{})
	case "QuorumCallEmpty2":
		m, err = cfg.QuorumCallEmpty2(ctx, req)
	default:
		panic("syncCall: " + method)
	}
	v, isNil := valueOf(m)
	return callResult{returned: true, val: v, nilResp: isNil, err: err, respPtr: m}
}

// future abstracts the generated Async* types.
type future struct {
	get  func() (proto.Message, error)
	done func() bool
}

func asyncCall(cfg *dev.Configuration, method string, ctx context.Context, req *dev.Request, f perNodeFn) future {
	switch method {
	case "QuorumCallAsync":
		x := cfg.QuorumCallAsync(ctx, req)
		return future{func() (proto.Message, error) { return x.Get() }, x.Done}
	case "QuorumCallAsyncPerNodeArg":
		x := cfg.QuorumCallAsyncPerNodeArg(ctx, req, f)
		return future{func() (proto.Message, error) { return x.Get() }, x.Done}
	case "QuorumCallAsyncCustomReturnType":
		x := cfg.QuorumCallAsyncCustomReturnType(ctx, req)
		return future{func() (proto.Message, error) { return x.Get() }, x.Done}
	case "QuorumCallAsyncCombo":
		x := cfg.QuorumCallAsyncCombo(ctx, req, f)
		return future{func() (proto.Message, error) { return x.Get() }, x.Done}
	case "QuorumCallAsync2":
		x := cfg.QuorumCallAsync2(ctx, req)
		return future{func() (proto.Message, error) { return x.Get() }, x.Done}
	case "QuorumCallAsyncEmpty":
		x := cfg.QuorumCallAsyncEmpty(ctx, req)
		return future{func() (proto.Message, error) { return x.Get() }, x.Done}
	case "QuorumCallAsyncEmpty2":
		x := cfg.QuorumCallAsyncEmpty2(ctx, &emptypb.Empty{})
		return future{func() (proto.Message, error) { return x.Get() }, x.Done}
	}
	panic("asyncCall: " + method)
}

func futureResult(fu future) (r callResult) {
	defer func() {
		if p := recover(); p != nil {
			r.returned, r.panicked = true, fmt.Sprint(p)
		}
	}()
	m, err := fu.get()
	v, isNil := valueOf(m)
	return callResult{returned: true, val: v, nilResp: isNil, err: err, respPtr: m}
}

var (
	reCounts = regexp.MustCompile(`\(errors: (\d+), replies: (\d+)\)`)
	reNode   = regexp.MustCompile(`(?m)^\tnode (\d+): (.*)$`)
)

// canonErr renders a quorum-call error in the model's vocabulary:
// inc:<ids>:<replies> / ctx:<ids>:<replies> / other:<text>; plus consistency notes.
func canonErr(err error) (string, []string) {
	var notes []string
	if err == nil {
		return "", nil
	}
	txt := err.Error()
	isInc := errors.Is(err, gorums.Incomplete)
	isCan := errors.Is(err, context.Canceled)
	isDl := errors.Is(err, context.DeadlineExceeded)
	n := 0
	for _, b := range []bool{isInc, isCan, isDl} {
		if b {
			n++
		}
	}
	if n != 1 {
		notes = append(notes, fmt.Sprintf("errors.Is matrix: incomplete=%v canceled=%v deadline=%v", isInc, isCan, isDl))
	}
	var qe gorums.QuorumCallError
	if !errors.As(err, &qe) {
		notes = append(notes, "not a QuorumCallError")
	}
	m := reCounts.FindStringSubmatch(txt)
	if m == nil {
		return "other:" + strings.ReplaceAll(txt, "\n", "/"), notes
	}
	ne, _ := strconv.Atoi(m[1])
	nodes := reNode.FindAllStringSubmatch(txt, -1)
	if len(nodes) != ne {
		notes = append(notes, fmt.Sprintf("error text lists %d node errors but reports %d", len(nodes), ne))
	}
	kind := "other"
	switch {
	case isInc:
		kind = "inc"
	case isCan || isDl:
		kind = "ctx"
	}
	var ids []string
	for _, x := range nodes {
		// once the context has ended, requests that were not yet written are answered
		// locally with the context's own error; whether the loop still consumes such an
		// answer before it notices the context is a scheduling matter the property does
		// not constrain, so these entries are left out of the canonical form
		if kind == "ctx" && (strings.Contains(x[2], "context canceled") || strings.Contains(x[2], "context deadline exceeded")) {
			continue
		}
		ids = append(ids, x[1])
	}
	return kind + ":" + strings.Join(ids, ".") + ":" + m[2], notes
}

// ctxCanon restricts the node list of a "ctx:<ids>:<replies>" outcome to the nodes whose failure the
// case's script delivered before it ended the context.  After the context has ended the outstanding
// requests are answered locally — with the context's own error, or with the error of the stream reset
// that a write outliving its context causes — and whether the loop still consumes such an answer before
// it notices the context is a scheduling matter the properties do not constrain.
func ctxCanon(out string, fedErr map[string]bool) string {
	p := strings.Split(out, ":")
	if len(p) != 3 || p[0] != "ctx" || p[1] == "*" {
		return out
	}
	var ids []string
	for _, id := range strings.Split(p[1], ".") {
		if id != "" && fedErr[id] {
			ids = append(ids, id)
		}
	}
	return "ctx:" + strings.Join(ids, ".") + ":" + p[2]
}

// nodeErrTexts returns node id -> cause text from a QuorumCallError's text.
func nodeErrTexts(err error) map[string]string {
	out := map[string]string{}
	if err == nil {
		return out
	}
	for _, x := range reNode.FindAllStringSubmatch(err.Error(), -1) {
		out[x[1]] = x[2]
	}
	return out
}

// waitFor polls cond until it holds or the timeout expires.
func waitFor(d time.Duration, cond func() bool) bool {
	deadline := time.Now().Add(d)
	for i := 0; ; i++ {
		if cond() {
			return true
		}
		if time.Now().After(deadline) {
			return false
		}
		if i < 200 {
			time.Sleep(20 * time.Microsecond)
		} else {
			time.Sleep(500 * time.Microsecond)
		}
	}
}

func routers(n *dev.Node) int { return gorums.VerifRouterCount(n.RawNode) }

// caseFail buffers a mismatch of the case in progress; timeouts mark the case as slow so that
// the goroutine dump is examined before the mismatches are reported.
func (s *shard) caseFail(m Mismatch, timeout bool) {
	s.pending = append(s.pending, m)
	if timeout {
		s.slow = true
	}
}

// caseEnd reports the buffered mismatches — unless the case tripped over one of the known
// connection wedges (findings of C09), which is reported as such and kills the shard.
func (s *shard) caseEnd(sum *sumT) {
	defer func() { s.pending, s.slow = nil, false }()
	if len(s.pending) == 0 {
		return
	}
	if s.slow {
		if w := diagnose(); w.id != "" {
			sum.known("C09:" + w.id)
			sum.count("case-discarded-after-known-wedge:" + w.id)
			s.dead = true
			return
		}
	}
	for _, m := range s.pending {
		sum.mismatch(m)
	}
}

// renew replaces a dead shard (the wedged one is closed in the background; its goroutines are lost).
func (s *shard) renew() (*shard, error) {
	old := s
	go func() {
		defer func() { recover() }()
		old.cl.Close()
		old.mgr.Close()
	}()
	return newShard(s.n, s.opts[3:]...)
}

// probe issues one RPC to the node with its own watchdog: the harness never relies on the
// library honouring a context.
func probe(node *dev.Node, timeout time.Duration) bool {
	res := make(chan bool, 1)
	go func() {
		defer func() {
			if recover() != nil {
				res <- false
			}
		}()
		ctx, cancel := context.WithTimeout(context.Background(), timeout)
		defer cancel()
		_, err := node.GRPCCall(ctx, &dev.Request{Value: "probe|0|x"})
		res <- err == nil
	}()
	select {
	case ok := <-res:
		return ok
	case <-time.After(timeout + 300*time.Millisecond):
		return false
	}
}

// errVerifCause is the reason given to contexts made by newCancelCtx(true).
var errVerifCause = errors.New("verif: cancelled with a cause")

// newCancelCtx returns a cancellable context.  withCause: the context is cancelled with a reason, so that
// context.Cause(ctx) differs from ctx.Err(); the library must report ctx.Err() (errors.Is(err, context.Canceled)).
func newCancelCtx(withCause bool) (context.Context, context.CancelFunc) {
	if withCause {
		ctx, c := context.WithCancelCause(context.Background())
		return ctx, func() { c(errVerifCause) }
	}
	return context.WithCancel(context.Background())
}
