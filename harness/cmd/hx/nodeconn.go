package main

import (
	"fmt"
	"strconv"
	"strings"
	"time"

	"verifhx/puppet"

	"github.com/relab/gorums"
	"google.golang.org/grpc"
	"google.golang.org/grpc/connectivity"
	"google.golang.org/grpc/credentials/insecure"
)

// Engine nodeconn (C12): the model NodeConn against the real RawNode.dial / RawNode.close, operation by operation.
//
//	nodeconn id=<n> ops=d,f,c,…     d: dial with the server listening · f: dial with the server stopped · c: close
//
// After every operation: the closed flag, whether n.conn is set, and how many of the connections the node has ever
// held are not shut down — compared with the model's snapshot (exact).
func init() { engines["nodeconn"] = nodeconnMain }

func nodeconnMain(args []string) {
	cf := commonFlags("nodeconn", args, nil)
	start := time.Now()
	sum := newSum("nodeconn", cf.seed, "cases = operation sequences of length 1..10 over {dial with the server up, dial with the server down, close} on one node of a manager created without connecting; "+
		"one snapshot comparison per operation; distinct non-trivial = distinct operation sequences with a close that is not last or a failed dial")
	r := rng(cf.seed, "nodeconn")
	var lines []string
	if cf.replay != "" {
		for _, l := range readLines(cf.replay) {
			if strings.HasPrefix(l, "nodeconn ") {
				lines = append(lines, l)
			}
		}
	} else {
		corpus := []string{"d,c", "c,d", "d,d,c", "d,f,d,c,c", "f,c,d", "d,c,d,c", "d,d,d,f,f,d,c,d"}
		for i := 0; i < cf.count; i++ {
			var ops []string
			if i < len(corpus) {
				ops = strings.Split(corpus[i], ",")
			} else {
				n := 1 + r.Intn(10)
				for k := 0; k < n; k++ {
					switch x := r.Intn(10); {
					case x < 5:
						ops = append(ops, "d")
					case x < 7:
						ops = append(ops, "f")
					default:
						ops = append(ops, "c")
					}
				}
			}
			lines = append(lines, fmt.Sprintf("nodeconn id=%d ops=%s", i, strings.Join(ops, ",")))
		}
	}
	exp, err := askDriver(cf.driver, "nodeconn", lines)
	if err != nil {
		fatal(err)
	}
	for _, line := range lines {
		f := parseFields(line)
		id := f["id"]
		e := exp[id]
		if !strings.Contains(e, "snaps=") {
			sum.mismatch(Mismatch{Property: "C12", Case: line, Expected: "driver output", Observed: e})
			continue
		}
		want := strings.Split(strings.SplitN(e, "snaps=", 2)[1], "|")
		got := runNodeConn(strings.Split(f["ops"], ","))
		ops := f["ops"]
		if strings.Contains(ops, "f") || (strings.Contains(ops, "c") && !strings.HasSuffix(ops, "c")) {
			sum.nontrivial(ops)
		}
		sum.count("ops:" + strconv.Itoa(len(want)))
		for k := range want {
			o := "missing"
			if k < len(got) {
				o = got[k]
			}
			if o != want[k] {
				sum.mismatch(Mismatch{Property: "C12", Case: line, Expected: fmt.Sprintf("after operation %d: closed/conn/live = %s (all: %s)", k+1, want[k], strings.Join(want, "|")),
					Observed: fmt.Sprintf("%s (all: %s)", o, strings.Join(got, "|"))})
				break
			}
		}
	}
	sum.Cases = len(lines)
	sum.finish(start, cf.out)
}

func parseFields(line string) map[string]string {
	m := map[string]string{}
	for _, p := range strings.Fields(line) {
		if i := strings.IndexByte(p, '='); i > 0 {
			m[p[:i]] = p[i+1:]
		}
	}
	return m
}

func runNodeConn(ops []string) []string {
	cl, err := puppet.NewCluster(1)
	if err != nil {
		fatal(err)
	}
	defer cl.Close()
	up := true
	mgr := gorums.NewRawManager(gorums.WithNoConnect(), gorums.WithDialTimeout(150*time.Millisecond),
		gorums.WithGrpcDialOptions(grpc.WithTransportCredentials(insecure.NewCredentials()), grpc.WithBlock()))
	defer mgr.Close()
	cfg, err := gorums.NewRawConfiguration(mgr, gorums.WithNodeList([]string{cl.Addrs[0]}))
	if err != nil {
		return []string{"setup: " + err.Error()}
	}
	node := cfg.Nodes()[0]
	type stater interface{ GetState() connectivity.State }
	var held []stater
	var snaps []string
	for _, op := range ops {
		func() {
			defer func() {
				if p := recover(); p != nil {
					snaps = append(snaps, fmt.Sprint("panic: ", p))
				}
			}()
			switch op {
			case "d", "f":
				if (op == "d") != up {
					if up {
						cl.Stop(0)
					} else if err := cl.Restart(0); err != nil {
						snaps = append(snaps, "restart: "+err.Error())
						return
					}
					up = !up
				}
				_ = gorums.VerifNodeDial(node)
			case "c":
				_ = gorums.VerifNodeClose(node)
			}
			c, has, closed := gorums.VerifNodeConn(node)
			if has {
				known := false
				for _, h := range held {
					if h == c {
						known = true
					}
				}
				if !known {
					held = append(held, c)
				}
			}
			live := 0
			for _, h := range held {
				if h.GetState() != connectivity.Shutdown {
					live++
				}
			}
			b := func(x bool) string {
				if x {
					return "1"
				}
				return "0"
			}
			snaps = append(snaps, b(closed)+b(has)+strconv.Itoa(live))
		}()
	}
	// whatever the sequence was: release what is left
	for _, h := range held {
		if cc, ok := h.(*grpc.ClientConn); ok {
			_ = cc.Close()
		}
	}
	return snaps
}
