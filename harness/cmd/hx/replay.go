package main

import (
	"context"
	"fmt"
	"strings"
	"sync"
	"time"

	"verifhx/puppet"

	"github.com/relab/gorums/cmd/protoc-gen-gorums/dev"
)

// replayScenario (C06 / C03: each targeted node receives each one-way message at most once): a node's stream that has
// carried only one-way messages so far (no reply has come back on it) loses its connection while the node stays
// reachable (the connection is reset, the server keeps listening).  Whatever the library and the transport do to get the
// node back, no handler may run a second time for a message that was delivered before the connection dropped.
func replayScenario(sum *sumT) int {
	sh, err := newShard(2)
	if err != nil {
		fatal(err)
	}
	defer sh.close()
	var mu sync.Mutex
	seen := map[string]int{}
	sh.cl.D.KeepLog = false
	sh.cl.D.Default = func(server int, method, val string) *puppet.Script {
		if strings.HasPrefix(val, "rp") {
			mu.Lock()
			seen[fmt.Sprintf("%d/%s", server+1, puppet.Token(val))]++
			mu.Unlock()
		}
		s := puppet.NewScript()
		s.Action = puppet.Reply
		s.Release = "early"
		return s
	}
	// a fresh stream to node 1 that has seen no reply: drop the connection once, then send one-way messages only
	sh.cl.DropConns(0)
	time.Sleep(100 * time.Millisecond)
	node := sh.node(1)
	const msgs = 20
	ctx, cancel := context.WithTimeout(context.Background(), 10*time.Second)
	defer cancel()
	total := func() int {
		mu.Lock()
		defer mu.Unlock()
		return len(seen)
	}
	deadline := time.Now().Add(8 * time.Second)
	for i := 0; total() < msgs && time.Now().Before(deadline); i++ {
		// (messages sent before the node is back are lost: one-way calls report nothing; keep sending until 20 have arrived)
		node.Unicast(ctx, &dev.Request{Value: fmt.Sprintf("rp%d|unicast", i)})
		if i%4 == 3 {
			sh.all.Multicast(ctx, &dev.Request{Value: fmt.Sprintf("rp%d|multicast", 1000+i)})
		}
		time.Sleep(5 * time.Millisecond)
	}
	if total() < msgs {
		sum.count("replay:not-delivered")
		return 0
	}
	time.Sleep(100 * time.Millisecond)
	// the connection drops, the node stays reachable
	sh.cl.DropConns(0)
	waitFor(3*time.Second, func() bool { return probe(node, 300*time.Millisecond) })
	time.Sleep(300 * time.Millisecond)
	mu.Lock()
	defer mu.Unlock()
	var twice []string
	for k, n := range seen {
		if n > 1 {
			twice = append(twice, fmt.Sprintf("%s x%d", k, n))
		}
	}
	sum.nontrivial("replay/one-way-only-stream")
	sum.count("replay:staged")
	if len(twice) > 0 {
		if len(twice) > 6 {
			twice = twice[:6]
		}
		sum.mismatch(Mismatch{Property: "C06", Case: "replay (20+ one-way messages on a stream that has carried no reply; then the connection is reset while the server keeps listening)",
			Expected: "every message is handled at most once per targeted node", Observed: "handled more than once (node/message x count): " + strings.Join(twice, ", ")})
	}
	return 1
}
